From Coq Require Import ZArith List Bool Lia ZifyBool.
Import ListNotations.
Open Scope Z_scope.

Definition same_sign (x y : Z) : bool := ((0 <? x) && (0 <? y)) || ((x <? 0) && (y <? 0)).

Fixpoint compress (l : list Z) : list Z :=
  match l with
  | [] => []
  | x :: r => match compress r with
              | y :: r' => if same_sign x y then (x + y) :: r' else x :: y :: r'
              | [] => [x]
              end
  end.

Lemma compress_cons x r : compress (x :: r) =
  match compress r with
  | y :: r' => if same_sign x y then (x + y) :: r' else x :: y :: r'
  | [] => [x] end.
Proof. reflexivity. Qed.

Section M.
Variable T : Z.
Hypothesis HT : 0 < T.

Definition half (x : Z) : Prop := x = T \/ x = - T.

Definition split1 (d : Z) : list Z :=
  if d =? T then [T] else if d =? - T then [- T]
  else if d =? 2 * T then [T; T] else if d =? - (2 * T) then [- T; - T] else [].

(* no three equal neighbours *)
Fixpoint no_run3 (l : list Z) : Prop :=
  match l with
  | x :: ((y :: z :: _) as r) => ~ (x = y /\ y = z) /\ no_run3 r
  | _ => True
  end.

(* description of the head of the compressed list *)
Lemma compress_split : forall l, Forall half l -> no_run3 l ->
  flat_map split1 (compress l) = l /\
  match l with
  | [] => compress l = []
  | x :: r => exists c', compress l = (match r with y :: _ => if x =? y then 2 * x else x | [] => x end) :: c'
  end.
Proof.
  induction l as [|x r IH]; intros Hh Hn; [split; reflexivity|].
  inversion Hh as [|? ? Hx Hr]; subst.
  assert (no_run3 r) as Hnr by (destruct r as [|y [|z q]]; cbn in Hn; tauto).
  destruct (IH Hr Hnr) as [IH1 IH2]. clear IH.
  destruct r as [|y q].
  - cbn. split; [|eexists; reflexivity]. unfold split1. destruct Hx as [->| ->]; rewrite ?Z.eqb_refl;
      repeat match goal with |- context [?a =? ?b] => destruct (Z.eqb_spec a b); try lia end; reflexivity.
  - inversion Hr as [|? ? Hy Hq]; subst.
    destruct IH2 as [c' Hc]. rewrite compress_cons. rewrite Hc.
    destruct q as [|z q'].
    + (* r = [y] *)
      destruct (Z.eqb_spec x y) as [->|Hne].
      * assert (same_sign y y = true) as -> by (unfold same_sign; destruct Hy as [->| ->]; lia).
        split; [|eexists; f_equal; lia].
        rewrite Hc in IH1. cbn [flat_map] in *.
        assert (c' = []) as -> by (cbn in Hc; congruence). cbn.
        unfold split1. destruct Hy as [->| ->];
          repeat match goal with |- context [?a =? ?b] => destruct (Z.eqb_spec a b); try lia end; reflexivity.
      * assert (same_sign x y = false) as -> by (unfold same_sign; destruct Hx as [->| ->], Hy as [->| ->]; lia).
        split; [|eexists; reflexivity].
        cbn [flat_map]. rewrite Hc in IH1. cbn [flat_map] in IH1. rewrite IH1.
        unfold split1. destruct Hx as [->| ->];
          repeat match goal with |- context [?a =? ?b] => destruct (Z.eqb_spec a b); try lia end; reflexivity.
    + (* r = y :: z :: q' *)
      inversion Hq as [|? ? Hz Hq']; subst.
      cbn in Hn. destruct Hn as [Hn3 _].
      destruct (Z.eqb_spec y z) as [->|Hyz].
      * (* head of compress r is 2z ; x must differ from z *)
        assert (x <> z) by tauto.
        assert (same_sign x (2 * z) = false) as -> by (unfold same_sign; destruct Hx as [->| ->], Hz as [->| ->]; lia).
        destruct (Z.eqb_spec x z); [contradiction|].
        split; [|eexists; reflexivity].
        cbn [flat_map]. rewrite Hc in IH1. cbn [flat_map] in IH1. rewrite IH1.
        unfold split1. destruct Hx as [->| ->];
          repeat match goal with |- context [?a =? ?b] => destruct (Z.eqb_spec a b); try lia end; reflexivity.
      * (* head of compress r is y *)
        destruct (Z.eqb_spec x y) as [->|Hxy].
        -- assert (same_sign y y = true) as -> by (unfold same_sign; destruct Hy as [->| ->]; lia).
           split; [|eexists; f_equal; lia].
           rewrite Hc in IH1. cbn [flat_map] in *.
           assert (split1 y = [y]) as Hsy by (unfold split1; destruct Hy as [->| ->];
             repeat match goal with |- context [?a =? ?b] => destruct (Z.eqb_spec a b); try lia end; reflexivity).
           rewrite Hsy in IH1. cbn in IH1. injection IH1 as IH1. rewrite IH1.
           unfold split1. destruct Hy as [->| ->];
             repeat match goal with |- context [?a =? ?b] => destruct (Z.eqb_spec a b); try lia end; reflexivity.
        -- assert (same_sign x y = false) as -> by (unfold same_sign; destruct Hx as [->| ->], Hy as [->| ->]; lia).
           split; [|eexists; reflexivity].
           cbn [flat_map]. rewrite Hc in IH1. cbn [flat_map] in IH1. rewrite IH1.
           unfold split1. destruct Hx as [->| ->];
             repeat match goal with |- context [?a =? ?b] => destruct (Z.eqb_spec a b); try lia end; reflexivity.
Qed.
End M.
Print Assumptions compress_split.
