From Coq Require Import ZArith List Bool Lia ZifyBool.
Require Import H.
Import ListNotations.
Open Scope Z_scope.

(* faithful-ish model of the class-H data loop of CodeWrapper.__init__ *)
Definition table := list (Z * Z).
Definition vals (t : table) : list Z := flat_map (fun p => [fst p; snd p]) t.

(* pairs are kept in reverse order, each pair as a list (length 1 or 2) *)
Definition push (pairs : list (list Z)) (e : Z) : list (list Z) :=
  match pairs with
  | [x] :: r => [x; e] :: r
  | _ => [e] :: pairs
  end.

Fixpoint data_loop (tol : Z) (t : table) (pairs : list (list Z)) (ds : list Z) : option (list (list Z)) :=
  match ds with
  | [] => Some pairs
  | d :: r => match first_match tol d (vals t) with
              | Some e => data_loop tol t (push pairs e) r
              | None => None   (* IRStreamError *)
              end
  end.

Definition pair_eqb (a b : Z * Z) := (fst a =? fst b) && (snd a =? snd b).
Fixpoint index_of (t : table) (p : Z * Z) (i : nat) : option nat :=
  match t with [] => None | q :: r => if pair_eqb q p then Some i else index_of r p (S i) end.

Fixpoint to_syms (t : table) (pairs : list (list Z)) : option (list nat) :=
  match pairs with
  | [] => Some []
  | [m; s] :: r => match index_of t (m, s) 0, to_syms t r with
                   | Some i, Some l => Some (i :: l) | _, _ => None end
  | _ => None
  end.

Definition parse_data tol t ds : option (list nat) :=
  match data_loop tol t [] ds with
  | Some pairs => to_syms t (rev pairs)
  | None => None end.

Definition sym (t : table) (i : nat) : list Z := match nth_error t i with Some (m, s) => [m; s] | None => [] end.
Definition render_data (t : table) (syms : list nat) : list Z := flat_map (sym t) syms.

Definition wf_table (tol : Z) (t : table) : Prop :=
  Forall (fun p => 0 < fst p /\ snd p < 0) t /\ sep tol (vals t) /\ NoDup t.

Lemma vals_nz tol t : wf_table tol t -> Forall (fun e => e <> 0) (vals t).
Proof. intros [H _]. unfold vals. rewrite Forall_forall in *. intros x Hx.
  apply in_flat_map in Hx as [p [Hp Hx]]. specialize (H p Hp). cbn in Hx. destruct Hx as [<-|[<-|[]]]; lia. Qed.

Lemma in_vals_fst t p : In p t -> In (fst p) (vals t).
Proof. intros. unfold vals. apply in_flat_map. exists p. split; auto. left; auto. Qed.
Lemma in_vals_snd t p : In p t -> In (snd p) (vals t).
Proof. intros. unfold vals. apply in_flat_map. exists p. split; auto. right; left; auto. Qed.

(* the loop on a rendered, perturbed data section, from any state with only complete pairs *)
Lemma data_loop_render tol t : 0 <= tol <= 100 -> wf_table tol t ->
  forall syms ds done,
  Forall (fun i => (i < length t)%nat) syms ->
  Forall (fun p => length p = 2%nat) done ->
  Forall2 (close tol) ds (render_data t syms) ->
  data_loop tol t done ds = Some (rev (map (sym t) syms) ++ done).
Proof.
  intros Ht Hwf. pose proof (vals_nz _ _ Hwf) as Hnz. destruct Hwf as [Hpol [Hsep Hnd]].
  induction syms as [|i syms IH]; intros ds done Hi Hdone Hc.
  - cbn in Hc. inversion Hc; subst. reflexivity.
  - inversion Hi as [|? ? Hlt Hi']; subst.
    unfold render_data in Hc. cbn [flat_map] in Hc. unfold sym at 1 in Hc.
    destruct (nth_error t i) as [[m s]|] eqn:E; [|apply nth_error_None in E; lia].
    pose proof (nth_error_In _ _ E) as Hin.
    cbn [app] in Hc. inversion Hc as [|d1 ? r1 ? Hc1 Hc']; subst. inversion Hc' as [|d2 ? r2 ? Hc2 Hc'']; subst.
    rewrite Forall_forall in Hnz.
    cbn [data_loop].
    rewrite (first_match_close tol (vals t) d1 m); auto;
      [| apply Hnz; apply (in_vals_fst t (m, s)); auto | apply (in_vals_fst t (m, s)); auto].
    assert (push done m = [m] :: done) as ->.
    { destruct done as [|p r]; [reflexivity|]. inversion Hdone; subst. destruct p as [|a [|b [|c q]]]; cbn in *; try lia; reflexivity. }
    rewrite (first_match_close tol (vals t) d2 s); auto;
      [| apply Hnz; apply (in_vals_snd t (m, s)); auto | apply (in_vals_snd t (m, s)); auto].
    cbn [push].
    rewrite (IH r2 ([m; s] :: done)); auto.
    cbn [map rev]. replace (sym t i) with [m; s] by (unfold sym; rewrite E; reflexivity). rewrite <- app_assoc. reflexivity.
Qed.

Lemma index_of_nth t : NoDup t -> forall i p k, nth_error t i = Some p -> index_of t p k = Some (k + i)%nat.
Proof.
  induction t as [|q t IH]; intros Hnd i p k E; [destruct i; discriminate|].
  inversion Hnd as [|? ? Hnotin Hnd']; subst. destruct i; cbn in E.
  - inversion E; subst. cbn. unfold pair_eqb. rewrite !Z.eqb_refl. cbn. f_equal. lia.
  - cbn. destruct (pair_eqb q p) eqn:Q.
    + exfalso. unfold pair_eqb in Q. apply andb_true_iff in Q as [Q1 Q2]. apply Z.eqb_eq in Q1, Q2.
      assert (q = p) by (destruct q, p; cbn in *; congruence). subst. apply Hnotin. eapply nth_error_In; eauto.
    + rewrite (IH Hnd' i p (S k) E). f_equal. lia.
Qed.

Lemma to_syms_map t : NoDup t -> forall syms, Forall (fun i => (i < length t)%nat) syms ->
  to_syms t (map (sym t) syms) = Some syms.
Proof.
  intros Hnd. induction syms as [|i syms IH]; intros Hi; [reflexivity|].
  inversion Hi; subst. cbn [map]. unfold sym at 1.
  destruct (nth_error t i) as [[m s]|] eqn:E; [|apply nth_error_None in E; lia].
  cbn [to_syms]. rewrite (index_of_nth t Hnd i (m, s) 0%nat E). rewrite IH by auto. reflexivity.
Qed.

Theorem parse_data_render tol t syms ds : 0 <= tol <= 100 -> wf_table tol t ->
  Forall (fun i => (i < length t)%nat) syms ->
  Forall2 (close tol) ds (render_data t syms) ->
  parse_data tol t ds = Some syms.
Proof.
  intros Ht Hwf Hi Hc. unfold parse_data.
  rewrite (data_loop_render tol t Ht Hwf syms ds [] Hi (Forall_nil _) Hc).
  rewrite app_nil_r, rev_involutive. apply to_syms_map; auto. apply Hwf.
Qed.
Print Assumptions parse_data_render.
