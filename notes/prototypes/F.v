From Coq Require Import ZArith List Bool Lia.
From Coq Require Import PrimFloat Uint63 FloatOps.
Import ListNotations.
Open Scope Z_scope.

(* float of Z (|z| < 2^62), via Uint63 *)
Definition f_of_Z (z : Z) : float :=
  if z <? 0 then PrimFloat.opp (PrimFloat.of_uint63 (Uint63.of_Z (- z)))
  else PrimFloat.of_uint63 (Uint63.of_Z z).

(* floor of a finite float, to Z, through Prim2SF *)
Definition floorF (f : float) : Z :=
  match Prim2SF f with
  | SpecFloat.S754_zero _ => 0
  | SpecFloat.S754_finite s m e =>
      let v := if (0 <=? e) then Z.pos m * 2 ^ e else Z.pos m / 2 ^ (- e) in
      let exact := if (0 <=? e) then true else Z.eqb (Z.pos m mod 2 ^ (- e)) 0 in
      if s then (if exact then - v else - v - 1) else v
  | _ => 0
  end.

Definition hiF (e tol : Z) : Z :=
  floorF (PrimFloat.add (f_of_Z e) (PrimFloat.mul (f_of_Z e) (PrimFloat.div (f_of_Z tol) 100%float))).
Definition loF (e tol : Z) : Z :=
  floorF (PrimFloat.sub (f_of_Z e) (PrimFloat.mul (f_of_Z e) (PrimFloat.div (f_of_Z tol) 100%float))).
Definition hiQ (e tol : Z) := (e * (100 + tol)) / 100.
Definition loQ (e tol : Z) := (e * (100 - tol)) / 100.

Eval vm_compute in (hiF 564 20, loF 564 20, hiF (-564) 20, loF (-564) 20, hiQ (-564) 20, loQ (-564) 20).

Fixpoint zrange (lo : Z) (n : nat) : list Z :=
  match n with O => [] | S k => lo :: zrange (lo + 1) k end.

Definition agree (tol e : Z) : bool := Z.eqb (hiF e tol) (hiQ e tol) && Z.eqb (loF e tol) (loQ e tol).
Definition N := Z.to_nat 400001.
Time Eval vm_compute in forallb (fun tol => forallb (agree tol) (zrange (-200000) N)) [5;10;20].
