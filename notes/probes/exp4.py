import sys, os, random, collections, io, contextlib
sys.path.insert(0,'/repo')
import pyIRDecoder
from pyIRDecoder import protocols, pronto
# C11: two different NEC keys in succession through dispatcher
for d in protocols: d.enabled = d.name in ('NEC','Sony12')
a=protocols.NEC.__class__().encode(device=1,sub_device=2,function=3).normalized_rlc[0]
b=protocols.NEC.__class__().encode(device=1,sub_device=2,function=4).normalized_rlc[0]
r1=protocols.decode(a[:],38400); print('first',r1)
r2=protocols.decode(b[:],38400); print('second (different key, same protocol, held)',r2)
import time; time.sleep(0.4)
r3=protocols.decode(b[:],38400); print('after release, last_decoder path:',r3)
r4=protocols.decode(a[:],38400); print('then',r4)
# C15
for n in (6,7):
    rlc=[(1 if i%2==0 else -1)*(500+37*i) for i in range(n)]
    s=pronto.rlc_to_pronto(38000,rlc); print(s)
    f,back=pronto.pronto_to_rlc(s); print(f,back, 'orig',rlc)
