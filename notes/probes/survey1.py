import sys, os
sys.path.insert(0,'/repo')
os.environ['PYTHONHASHSEED']='0'
import pyIRDecoder
from pyIRDecoder import protocols, protocol_base
decs = list(protocols)
print(len(decs))
import collections
enc = collections.Counter()
rows=[]
for d in decs:
    c = d.__class__
    b = d._bursts
    if not b: se='none'
    elif isinstance(b[0], int): se='bit'
    else:
        se='halfbit'
        last=b[0]
        for ms in b[1:]:
            if len(ms)!=2: se="multi"; break
            m,s=ms
            if m==last[1] and s==last[0]:
                se='manchester';break
            last=[m,s]
    own_decode = 'decode' in c.__dict__
    calls_base = False
    import inspect
    src = inspect.getsource(c)
    calls_base = 'IrProtocolBase.decode(self' in src
    uses_cw = 'CodeWrapper' in src
    rows.append((c.__name__, se, len(b), d.encoding, d.bit_count, own_decode, calls_base, uses_cw, bool(d._middle_timings), bool(d._repeat_lead_in or d._repeat_lead_out), bool(d._repeat_bursts), bool(d._lead_out and d._lead_out[-1]>0), len(src.splitlines())))
for r in rows: print(*r)
