import ast, glob, collections, sys
sys.path.insert(0,'/repo')
from pyIRDecoder import protocols
root='/repo/pyIRDecoder/protocols'
cls_src={}
for f in sorted(glob.glob(root+'/*.py')):
    if f.endswith('__init__.py'): continue
    t=ast.parse(open(f).read())
    for c in t.body:
        if isinstance(c,ast.ClassDef): cls_src[c.name]=(c,t)
def is_base_call(n):
    return (isinstance(n,ast.Call) and isinstance(n.func,ast.Attribute) and n.func.attr=='decode'
            and ast.unparse(n.func.value).endswith('IrProtocolBase'))
OKEXPR=(ast.Name,ast.Attribute,ast.Constant,ast.BinOp,ast.UnaryOp,ast.Compare,ast.BoolOp,ast.Call,ast.Subscript,ast.Tuple,ast.Slice,ast.Load,ast.operator,ast.unaryop,ast.cmpop,ast.boolop,ast.keyword,ast.List,ast.Store)
def expr_ok(e):
    for n in ast.walk(e):
        if not isinstance(n,OKEXPR): return False,'expr:'+type(n).__name__
        if isinstance(n,ast.Call):
            fn=ast.unparse(n.func)
            if not (fn.endswith('_calc_checksum') or fn.endswith('IntegerWrapper') or fn.endswith('invert_bits') or fn.endswith('reverse_bit_order') or fn in('int','len','reversed')):
                return False,'call:'+fn
    return True,''
def is_tail(stmts):
    # if self._last_code is not None: ... ; self._last_code = code ; return code
    src='\n'.join(ast.unparse(s) for s in stmts)
    return src
def classify_decode(fn):
    body=[s for s in fn.body if not (isinstance(s,ast.Expr) and isinstance(s.value,ast.Constant))]
    if not body: return 'empty'
    s0=body[0]
    if not (isinstance(s0,ast.Assign) and is_base_call(s0.value)):
        return 'no-base-call-first'
    i=1; seen_tail=False
    for s in body[1:]:
        if isinstance(s,ast.Assign):
            tgt=ast.unparse(s.targets[0])
            if tgt.startswith('self._last_code'): continue
            ok,why=expr_ok(s.value)
            if not ok: return why
        elif isinstance(s,ast.If):
            test=ast.unparse(s.test)
            if test=='self._last_code is not None':
                # tail block: allow returns of last, stop, assignments
                for n in ast.walk(s):
                    if isinstance(n,ast.Raise): return 'tail-raises'
                continue
            ok,why=expr_ok(s.test)
            if not ok: return why
            if all(isinstance(b,ast.Raise) for b in s.body) and not s.orelse: continue
            return 'if-nonraise'
        elif isinstance(s,ast.Return): continue
        elif isinstance(s,ast.Raise): continue
        else: return 'stmt:'+type(s).__name__
    return 'regular'
def classify_encode(fn):
    body=[s for s in fn.body if not (isinstance(s,ast.Expr) and isinstance(s.value,ast.Constant))]
    for s in body:
        if isinstance(s,ast.Assign):
            v=s.value
            src=ast.unparse(v)
            if isinstance(v,ast.Call):
                fn_=ast.unparse(v.func)
                if fn_ in('dict',) or fn_.endswith('_build_packet') or fn_.endswith('IRCode') or fn_.endswith('_build_repeat_packet'): continue
            ok,why=expr_ok(v)
            if not ok: return why
        elif isinstance(s,ast.Return): continue
        elif isinstance(s,ast.If):
            if all(isinstance(b,ast.Raise) for b in s.body) and not s.orelse: continue
            return 'if'
        elif isinstance(s,ast.Delete): return 'del(self-table-mutation)'
        else: return 'stmt:'+type(s).__name__
    return 'regular'
res=collections.Counter(); rows=[]
for d in protocols:
    n=d.name
    if n=='Universal': continue
    # find defining class for decode/encode through MRO
    def find(meth):
        for k in type(d).__mro__:
            if k.__name__ in cls_src:
                c=cls_src[k.__name__][0]
                for m in c.body:
                    if isinstance(m,ast.FunctionDef) and m.name==meth: return m
        return None
    dm=find('decode'); em=find('encode')
    dc='base' if dm is None else classify_decode(dm)
    ec='none' if em is None else classify_encode(em)
    b=d._bursts
    eng='H' if b and isinstance(b[0],list) and all(len(x)==2 for x in b) else 'other'
    if eng=='H':
        last=b[0]
        for m,s in b[1:]:
            if m==last[1] and s==last[0]: eng='M'; break
            last=[m,s]
    if d._middle_timings: eng+='+mid'
    rows.append((n,eng,dc,ec))
    res[(eng,dc in('base','regular'),ec=='regular')]+=1
for r in rows: print(*r)
print(res)
