import ast, glob, collections
root='/repo/pyIRDecoder/protocols'
nodes=collections.Counter(); calls=collections.Counter(); slices=collections.Counter(); stm=collections.Counter()
for f in sorted(glob.glob(root+'/*.py')):
    if f.endswith('__init__.py'): continue
    t=ast.parse(open(f).read())
    for c in [n for n in t.body if isinstance(n,ast.ClassDef)]:
        for m in c.body:
            if isinstance(m,ast.FunctionDef) and m.name=='_calc_checksum':
                for s in m.body: stm[type(s).__name__]+=1
                for n in ast.walk(m):
                    if isinstance(n,(ast.BinOp,)): nodes['Bin'+type(n.op).__name__]+=1
                    elif isinstance(n,ast.UnaryOp): nodes['Un'+type(n.op).__name__]+=1
                    elif isinstance(n,ast.Call): calls[ast.unparse(n.func)]+=1
                    elif isinstance(n,ast.Subscript):
                        sl=n.slice
                        if isinstance(sl,ast.Slice):
                            k=('c' if sl.lower is not None else '_')+('w' if sl.upper is not None else '_')+('s' if sl.step is not None else '_')
                            slices[k+':'+ast.unparse(sl)]+=1
                        else: slices['idx:'+ast.unparse(sl)]+=1
                    elif isinstance(n,(ast.Compare,ast.BoolOp,ast.IfExp,ast.For,ast.While,ast.If,ast.ListComp)): nodes[type(n).__name__]+=1
                    elif isinstance(n,ast.Attribute): calls['attr:'+n.attr]+=1
print(stm); print(nodes); print(calls)
for k,v in sorted(slices.items(), key=lambda kv:-kv[1])[:60]: print(v,k)
