import sys, os, traceback
sys.path.insert(0,'/repo')
import pyIRDecoder
from pyIRDecoder import protocols, Config
p='/tmp/explore/cfg.xml'
if os.path.exists(p): os.remove(p)
if os.path.exists(p+'.backup'): os.remove(p+'.backup')
protocols.NEC.enabled=False
protocols.NEC.tolerance=10
try:
    protocols.config.save(p)
    print(open(p).read()[:600])
except Exception: traceback.print_exc()
try:
    c=Config(p)
    print('loaded', len(c))
    protocols.load_config(c)
    print(protocols.NEC.enabled, protocols.NEC.tolerance)
except Exception: traceback.print_exc()
