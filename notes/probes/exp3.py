import sys, os, random, collections, io, contextlib
sys.path.insert(0,'/repo')
import pyIRDecoder
from pyIRDecoder import protocols, IRException, EncodeError, RepeatLeadInError, RepeatLeadOutError, pronto
random.seed(3)
decs=[d for d in protocols if d.name!='Universal']
def rp(d): return {n:random.randint(lo,hi) for n,lo,hi in d.encode_parameters}
def same(code,params):
    try: return all(int(getattr(code,n))==v for n,v in params.items())
    except Exception: return False
c04=collections.Counter(); c06=collections.Counter(); c07=collections.Counter(); c05=collections.Counter()
buf=io.StringIO()
for d in decs:
  cls=d.__class__
  with contextlib.redirect_stderr(buf), contextlib.redirect_stdout(buf):
    for it in range(12):
        p=rp(d)
        try: enc=cls().encode(**p)
        except Exception: continue
        fr=enc.normalized_rlc[0]
        # baseline roundtrip ok?
        try:
            c=cls().decode(fr[:],d.frequency)
            if not same(c,p): continue
        except Exception: continue
        # C04 perturb +-5% (tol/4) alternating/all long/all short
        for pat in ('long','short','alt','rnd'):
            g=[]
            for i,v in enumerate(fr):
                q=abs(v)*0.05
                dlt={'long':q,'short':-q,'alt':q if i%2 else -q,'rnd':random.uniform(-q,q)}[pat]
                nv=int(abs(v)+dlt) if dlt<0 else int(abs(v)+dlt)
                nv=max(1,nv)
                g.append(nv if v>0 else -nv)
            if d._lead_out and d._lead_out[-1]>0:
                tt=sum(abs(x) for x in g[:-1]); g[-1]=-(d._lead_out[-1]-tt) if d._lead_out[-1]-tt>0 else g[-1]
            try:
                c=cls().decode(g[:],d.frequency)
                if not same(c,p): c04[d.name+':wrong']+=1
            except IRException: c04[d.name+':rej-'+pat]+=1
            except Exception: c04[d.name+':exc']+=1
        # C06 sequence n=2
        try:
            enc2=cls().encode(repeat_count=2,**p)
            dec=cls(); okc=0; bad=None
            for f in enc2.normalized_rlc:
                try:
                    c=dec.decode(f[:],d.frequency)
                    if same(c,p): okc+=1
                    else: bad='other-code'
                except (RepeatLeadInError,RepeatLeadOutError): pass
                except IRException as e: bad='err:'+type(e).__name__
                except Exception as e: bad='exc:'+type(e).__name__
            if bad: c06[d.name+':'+bad]+=1
            elif okc==0: c06[d.name+':none']+=1
        except TypeError: c06[d.name+':no-repeat-arg']+=1
        except Exception as e: c06[d.name+':encexc']+=1
        # C07: decode A then B on same instance
        p2=rp(d)
        try:
            fb=cls().encode(**p2).normalized_rlc[0]
            ref=None
            try: ref=cls().decode(fb[:],d.frequency)
            except IRException as e: ref=type(e).__name__
            dec=cls(); dec.decode(fr[:],d.frequency)
            try: got=dec.decode(fb[:],d.frequency)
            except IRException as e: got=type(e).__name__
            if isinstance(ref,str)!=isinstance(got,str) or (not isinstance(ref,str) and str(ref)!=str(got)) or (isinstance(ref,str) and ref!=got):
                c07[d.name]+=1
        except Exception: pass
def summarize(name,c):
    prot=collections.defaultdict(list)
    for k,v in c.items():
        a,b=k.split(':',1) if ':' in k else (k,'')
        prot[a].append((b,v))
    print(name,len(prot),'protocols'); 
    for k,v in prot.items(): print('   ',k,v)
summarize('C04',c04); summarize('C06',c06); summarize('C07',c07)
