import sys, os, random, collections, traceback
sys.path.insert(0,'/repo')
import pyIRDecoder
from pyIRDecoder import protocols, IRException, EncodeError
random.seed(1)
decs=[d for d in protocols if d.name!='Universal']
res=collections.OrderedDict()
def wellformed(fr):
    if not fr: return 'empty'
    if not all(isinstance(x,int) and x!=0 for x in fr): return 'zero/nonint'
    if fr[0]<0: return 'starts-space'
    if fr[-1]>0: return 'ends-mark'
    for a,b in zip(fr,fr[1:]):
        if (a>0)==(b>0): return 'non-alternating'
    return None
for d in decs:
    cls=d.__class__
    st=collections.Counter()
    ex={}
    for it in range(40):
        params={n:random.randint(lo,hi) for n,lo,hi in d.encode_parameters}
        if it==0: params={n:lo for n,lo,hi in d.encode_parameters}
        if it==1: params={n:hi for n,lo,hi in d.encode_parameters}
        try:
            enc=cls().encode(**params)
        except EncodeError:
            st['encerr']+=1; continue
        except Exception as e:
            st['enc-EXC:'+type(e).__name__]+=1; ex.setdefault('enc-EXC',(params,repr(e))); continue
        frames=enc.normalized_rlc
        for fr in frames:
            w=wellformed(fr)
            if w: st['C03:'+w]+=1; ex.setdefault('C03:'+w,(params,fr)); break
        # roundtrip on fresh decoder: feed frames until code returned
        dec=cls()
        got=None; err=None
        for fr in frames:
            try:
                got=dec.decode(fr[:], d.frequency); break
            except IRException as e:
                err=type(e).__name__; continue
            except Exception as e:
                err='EXC:'+type(e).__name__; break
        if got is None:
            st['C01:undecodable:'+str(err)]+=1; ex.setdefault('C01:undecodable',(params,err)); continue
        bad=[]
        for n,v in params.items():
            try:
                g=getattr(got,n)
                if g is None or int(g)!=v: bad.append((n,v,g))
            except Exception as e:
                bad.append((n,v,'EXC'+repr(e)))
        if bad: st['C01:mismatch']+=1; ex.setdefault('C01:mismatch',(params,bad))
        else: st['ok']+=1
    res[d.name]=(st,ex)
nok=0
for k,(st,ex) in res.items():
    if set(st)=={'ok'}: nok+=1; continue
    print(k, dict(st))
    for kk,v in ex.items(): print('     ',kk, str(v)[:200])
print('all-ok protocols:',nok,'of',len(res))
