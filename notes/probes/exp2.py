import sys, os, random, collections, traceback, io, contextlib
sys.path.insert(0,'/repo')
import pyIRDecoder
from pyIRDecoder import protocols, IRException, EncodeError, utils, pronto
random.seed(2)
decs=[d for d in protocols]
# C08: garbage / short
leak=collections.defaultdict(collections.Counter)
mut=collections.Counter()
valid=[]
for d in decs:
    if d.name=='Universal': continue
    try:
        params={n:random.randint(lo,hi) for n,lo,hi in d.encode_parameters}
        valid.append((d.name,d.__class__().encode(**params).normalized_rlc[0]))
    except Exception: pass
def gen():
    k=random.random()
    if k<0.3:
        n=random.randint(1,8)
        return [random.choice([1,-1])*random.randint(1,3000) for _ in range(n)]
    if k<0.6:
        n=random.randint(1,40); s=1; r=[]
        for _ in range(n): r.append(s*random.randint(100,3000)); s=-s
        return r
    name,fr=random.choice(valid); fr=fr[:]
    op=random.random()
    if op<0.3: fr=fr[:random.randint(1,len(fr))]
    elif op<0.6: fr=fr[random.randint(0,len(fr)-1):]
    else:
        i=random.randrange(len(fr)); fr[i]=fr[i]*random.choice([2,3])
    return fr
buf=io.StringIO()
for d in decs:
    inst=d.__class__()
    for _ in range(300):
        data=gen(); before=data[:]
        try:
            with contextlib.redirect_stderr(buf), contextlib.redirect_stdout(buf):
                inst.decode(data, d.frequency)
        except IRException: pass
        except Exception as e:
            leak[d.name][type(e).__name__]+=1
        if data!=before: mut[d.name]+=1
print('C08 leaking protocols:',len(leak))
for k,v in leak.items(): print('  ',k,dict(v))
print('C09 input mutated:',dict(mut))
# C14
bad=collections.Counter()
for d in decs:
    if d.name=='Universal': continue
    try:
        params={n:random.randint(lo,hi) for n,lo,hi in d.encode_parameters}
        c=d.__class__().encode(**params)
        s=str(c); i=int(c); h=c.hexadecimal
        assert len(h[2:])%2==0 and int(h,16)==i
    except EncodeError: pass
    except Exception as e: bad[d.name+':'+type(e).__name__]+=1
print('C14 raises:',dict(bad))
# C16
x=[[10,-20,30],[40,-60]]; y=[r[:] for r in x]; r=pyIRDecoder.rlc_to_mce(x); print('C16 nested arg mutated:', x!=y, r is x)
print(utils.build_mce_rlc([25,-25,24,-24,26,-26,75,-75,50,0]))
