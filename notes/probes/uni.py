import sys, random, io, contextlib, collections
sys.path.insert(0,'/repo')
import pyIRDecoder
from pyIRDecoder import protocols, IRException
random.seed(5)
U=protocols.Universal.__class__
res=collections.Counter(); ex=None; unstable=0; tot=0
buf=io.StringIO()
decs=[d for d in protocols if d.name!='Universal']
for it in range(400):
    if it%2:
        n=random.randint(8,60); s=1; sig=[]
        base=random.choice([300,500,560,889])
        for _ in range(n): sig.append(s*base*random.choice([1,1,2,3])); s=-s
    else:
        d=random.choice(decs)
        try: sig=d.__class__().encode(**{n:random.randint(lo,hi) for n,lo,hi in d.encode_parameters}).normalized_rlc[0]
        except Exception: continue
        if len(sig)<=6: continue
    with contextlib.redirect_stderr(buf), contextlib.redirect_stdout(buf):
        try:
            c=U().decode(sig[:],38000); res['ok']+=1
            # stability under 5% perturbation
            p=[int(v*(1+random.uniform(-0.05,0.05))) or v for v in sig]
            tot+=1
            try:
                c2=U().decode(p,38000)
                if int(c2.code)!=int(c.code): unstable+=1
            except Exception: unstable+=1
        except IRException as e: res['IR:'+type(e).__name__]+=1
        except Exception as e:
            res['EXC:'+type(e).__name__]+=1; ex=ex or (sig,repr(e))
print(dict(res)); print('example',ex); print('unstable',unstable,'of',tot)
print('fallbacks to decode_2 (tracebacks printed):', buf.getvalue().count('Traceback'))
