import sys, random, collections
sys.path.insert(0,'/repo')
import pyIRDecoder
from pyIRDecoder import protocols, IRException
random.seed(7)
bad=collections.Counter()
for d in protocols:
    if d.name=='Universal': continue
    try:
        p={n:random.randint(lo,hi) for n,lo,hi in d.encode_parameters}
        e=d.__class__().encode(**p)
    except Exception as ex:
        continue
    for what,obj in (('enc',e),):
        for f in (str,int,lambda c:c.hexadecimal):
            try: f(obj)
            except Exception as ex: bad[(d.name,what,type(ex).__name__,str(ex)[:60])]+=1
    try:
        c=d.__class__().decode(e.normalized_rlc[0][:],d.frequency)
        for f in (str,int,lambda c:c.hexadecimal):
            try: f(c)
            except Exception as ex: bad[(d.name,'dec',type(ex).__name__,str(ex)[:60])]+=1
    except Exception: pass
for k,v in bad.items(): print(k,v)
print('done')
