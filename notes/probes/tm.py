import sys
sys.path.insert(0,'/repo')
import pyIRDecoder
from pyIRDecoder import protocols, high_precision_timers as hpt, ir_code, thread_worker
tw=thread_worker.TimerThreadWorker(); pw=thread_worker.ProcessThreadWorker()
tw.stop(); pw.stop()
print('threads stopped', tw.thread, pw.thread)
clock=[0.0]
hpt.micros=lambda: clock[0]
def poll():
    for t in tw.queue[:]:
        if t.run_func(): tw.queue.remove(t)
def drain():
    n=0
    while pw.queue:
        f,a=pw.queue.pop(0); f(*a); n+=1
    return n
log=[]
protocols.bind_callback(lambda c: log.append(('decode',str(c))))
for d in protocols: d.enabled = d.name=='NEC'
A=protocols.NEC.__class__().encode(device=1,sub_device=2,function=3,repeat_count=2).normalized_rlc
B=protocols.NEC.__class__().encode(device=1,sub_device=2,function=4).normalized_rlc[0]
def press(fr):
    c=protocols.decode(fr[:],38400)
    if c is not None: c.bind_released_callback(lambda c: log.append(('release',str(c))))
    return c
print(press(A[0])); clock[0]+=50000; poll(); drain()
print(press(A[1])); clock[0]+=50000; poll(); drain()
print(log); 
clock[0]+=200000; poll()   # timeout fires -> queued
print('queued after poll', len(pw.queue))
print(press(B))            # new key before callbacks delivered
print('drained', drain()); print(log)
clock[0]+=300000; poll(); drain(); print(log)
