import math
from fractions import Fraction
bad=0
for tol in [1,2,3,5,7,10,15,20,25,30,33,50]:
    for e in range(-300000,300001):
        if e==0: continue
        hi=math.floor(e+(e*(tol/100.0))); lo=math.floor(e-(e*(tol/100.0)))
        hq=(e*(100+tol))//100; lq=(e*(100-tol))//100
        if (hi,lo)!=(hq,lq):
            bad+=1
            if bad<15: print(tol,e,(hi,lo),(hq,lq))
print('bad',bad)
