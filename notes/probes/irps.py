import sys
sys.path.insert(0,'/repo')
from pyIRDecoder import protocols
for d in protocols:
    print(d.name, '|', d.frequency, '|', d.irp)
