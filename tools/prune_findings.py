#!/usr/bin/env python3
# Maintenance (never part of a check): after a repair in /repo, drop the known findings of a property that no longer
# reproduce.  Runs the quick check under the given seeds, unions evidence.coverage.known_findings_hit and removes the
# listed findings of that property that were never hit.  Review the diff by hand.
#   tools/prune_findings.py C13 0 1 2 3
import json, os, subprocess, sys
V = os.path.dirname(os.path.dirname(os.path.abspath(__file__)))
prop, seeds = sys.argv[1], sys.argv[2:] or ['0', '1', '2', '3']
hit = set()
for s in seeds:
    env = dict(os.environ, VERIF_SEED=s)
    subprocess.run([os.path.join(V, 'check'), prop, 'quick'], env=env, stdout=subprocess.DEVNULL, stderr=subprocess.DEVNULL, cwd=V)
    ev = json.load(open(os.path.join(V, 'evidence', prop + '.json')))
    hit |= set(ev['coverage'].get('known_findings_hit', {}))
kf = json.load(open(os.path.join(V, 'known_findings.json')))
keep = []
for f in kf['findings']:
    if f['property'] == prop and f.get('id') not in hit:
        print('pruned:', f['id'])
        continue
    keep.append(f)
kf['findings'] = keep
json.dump(kf, open(os.path.join(V, 'known_findings.json'), 'w'), indent=1)
