#!/bin/bash
# Maintenance: run every property's check at one tier on a scratch worktree of /repo's HEAD with a scratch copy of /verif's tools
# and findings (so that edits in /verif and seeded runs do not disturb it).  The built Coq library is shared read-only.
#   tools/run_all_iso.sh quick|thorough <log> [seed] [props...]
V=$(cd "$(dirname "$0")/.." && pwd)
tier=${1:-quick}; log=${2:-/tmp/all_iso.log}; seed=${3:-1}; shift 3
props=${@:-$(seq -f "C%02g" 1 20)}
WT=/tmp/wt_all_$$; VC=/tmp/verif_all_$$
git -C /repo worktree add --detach $WT HEAD >/dev/null 2>&1 || exit 2
trap 'git -C /repo worktree remove --force $WT >/dev/null 2>&1; rm -rf $VC' EXIT
mkdir -p $VC && cp -r $V/check $V/tools $V/known_findings.json $V/proof_status.json $V/properties.jsonl $VC/
mkdir -p $VC/evidence $VC/replays $VC/build $VC/kept_replays
for p in $props; do
  (cd $VC && VERIF_REPO=$WT VERIF_COQ_DIR=$V/coq VERIF_JOBS=${VERIF_JOBS:-8} VERIF_SEED=$seed timeout 7200 ./check $p $tier 2>/dev/null | grep "VIOLATION\|^C[0-9][0-9] " >> $log)
  mkdir -p /tmp/iso_replays_$tier/$p; cp -r $VC/replays/$p/. /tmp/iso_replays_$tier/$p/ 2>/dev/null
done
echo DONE >> $log
