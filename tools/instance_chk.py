# Decoder instances of classes that override decode() after the common template (see PyIR.Ctl.InstanceChk):
# syntactic recognition of the template, the protocol's check as a Gallina term, sequence correspondence.
import ast
import inspect
import textwrap

import engine
import protomodel
import vlib

_T1 = '''
if self._last_code is not None:
    if self._last_code == code:
        return self._last_code
    self._last_code.repeat_timer.stop()
    self._last_code = None
self._last_code = code
return code
'''
_T2 = '''
if self._last_code is not None:
    if self._last_code == code:
        return self._last_code
    self._last_code.repeat_timer.stop()
self._last_code = code
return code
'''
_TAILS = [[ast.dump(x) for x in ast.parse(textwrap.dedent(t)).body] for t in (_T1, _T2)]


def _touches_state(stmts):
    for st in stmts:
        for n in ast.walk(st):
            tg = []
            if isinstance(n, ast.Assign):
                tg = n.targets
            elif isinstance(n, (ast.AugAssign, ast.AnnAssign)):
                tg = [n.target]
            elif isinstance(n, ast.Delete):
                tg = n.targets
            for t in tg:
                base = t
                while isinstance(base, ast.Subscript):
                    base = base.value
                if isinstance(base, ast.Attribute):
                    return True            # any attribute store (self.x = ..., code.x = ...)
            if isinstance(n, ast.Call) and isinstance(n.func, ast.Attribute) and \
                    n.func.attr in ('stop', 'start', 'cancel', 'append', 'extend', 'pop', 'remove', 'clear', 'insert', 'bind_released_callback'):
                return True
            if isinstance(n, (ast.Try, ast.While, ast.For, ast.With, ast.Global, ast.Nonlocal)):
                return True
    return False


def template_override(p):
    """(True, None) when the class does not override decode or overrides it after the template; else (False, reason)."""
    if not p['overrides_decode']:
        return True, None
    try:
        src = textwrap.dedent(inspect.getsource(p['cls'].decode))
        fn = ast.parse(src).body[0]
    except Exception as e:  # noqa
        return False, 'decode source not available (%s)' % type(e).__name__
    body = list(fn.body)
    if body and isinstance(body[0], ast.Expr) and isinstance(getattr(body[0], 'value', None), ast.Constant):
        body = body[1:]
    if len(body) < 4 or [ast.dump(x) for x in body[-3:]] not in _TAILS:
        return False, 'decode() does not end with the common held-key block'
    head = body[:-3]
    first = head[0]
    ok_first = (isinstance(first, ast.Assign) and len(first.targets) == 1 and isinstance(first.targets[0], ast.Name) and
                first.targets[0].id == 'code' and isinstance(first.value, ast.Call) and
                isinstance(first.value.func, ast.Attribute) and first.value.func.attr == 'decode' and
                'IrProtocolBase' in ast.dump(first.value.func))
    if not ok_first:
        return False, 'decode() does not start with code = IrProtocolBase.decode(...)'
    if _touches_state(head[1:]):
        return False, 'the checks of decode() touch state'
    return True, None


def modelled(p, m):
    """Can PyIR.Ctl.InstanceChk speak for protocol p (model m)?"""
    if not engine.modelled_C(p) or not p['parameters'] or not all(len(b) == 2 for b in p['bursts']):
        return False, 'engine class %s%s outside the instance model' % (p['eclass'], ' with middle timings' if p['middle'] else '')
    if p['rep_bursts']:
        return False, 'repeat frames carry data (_repeat_bursts not empty)'
    ok, why = template_override(p)
    if not ok:
        return False, why
    if not p['overrides_decode']:
        return True, None
    if m is None or m['status'].get('decode') != 'ok' or not m['dec'].get('complete'):
        return False, 'decode tree not available or incomplete'
    for leaf in protomodel.tree_leaves(m['dec']['tree']):
        if leaf[0] != 'leaf':
            return False, 'decode tree has unexplored paths'
        o = leaf[1]['outcome']
        if o[0] == 'return' and o[1]:
            return False, 'decode returns modified fields'
    return True, None


def chk_term(p):
    """The protocol's check as a Gallina function list iw -> dec_model (needs Gen.P_<p> for overriding classes)."""
    if not p['overrides_decode']:
        return '(fun _ : list iw => DecOk [])'
    names = ['f_' + x[0] for x in p['parameters']]
    return '(fun l : list iw => match l with [%s] => tree_eval (dec_%s %s) | _ => DecUnknown end)' % (
        '; '.join(names), p['name'], ' '.join(names))


def corr_instance_chk(ctx, items, name='corr_instance_chk'):
    """items: (p, tol, frames).  The model runs with each protocol's own check.  Returns disagreements or None."""
    import instance_harness as ih
    protos = []
    for p, tol, frames in items:
        if p['name'] not in [q['name'] for q in protos]:
            protos.append(p)
    index = {p['name']: i for i, p in enumerate(protos)}
    imports = ['Require Import PyIR.Base.Result PyIR.IW.IW PyIR.Proto.Descriptor PyIR.Proto.Model PyIR.Ctl.Instance PyIR.Ctl.InstanceChk Gen.Tables.']
    imports += ['Require Import Gen.P_%s.' % p['name'] for p in protos if p['overrides_decode']]
    imports.append('Definition chk_table : list (desc * (list iw -> dec_model)) := [%s].' % ';\n  '.join(
        '(D_%s, %s)' % (p['name'], chk_term(p)) for p in protos))
    imports.append('Definition run_case (c : nat * Z * list (list Z)) : list Z := let \'(i, tol, frames) := c in '
                   'match nth_error chk_table i with Some (D, chk) => run_instance_chk D tol chk frames | None => [-98] end.')
    cases = []
    for p, tol, frames in items:
        enc, _ = ih.real_sequence(p, frames, tol)
        cases.append(('(%d%%nat, %s, [%s])' % (index[p['name']], vlib.z(tol), '; '.join(vlib.zlist(f) for f in frames)), enc))
    bad = vlib.run_model_cases(ctx, name, '\n'.join(imports), 'run_case', '(nat * Z * list (list Z))', cases, shard=120, timeout=900)
    if bad is None:
        return None
    return [(items[i], cases[i][1], o) for i, o in bad]
