#!/bin/bash
# Maintenance (never part of a check): run a property's check under several seeds with VERIF_WRITE_FINDINGS=1 so that
# known_findings.json lists every genuine defect the search can surface, whatever the seed.  Review the diff by hand.
#   tools/sweep_findings.sh C13 "1 2 3 4 5 6" quick
cd "$(dirname "$0")/.."
prop=$1; seeds=${2:-"1 2 3 4 5 6 7 8"}; tier=${3:-quick}
# work on a private copy of the built Coq library so that editing /verif/coq meanwhile does not disturb the sweep
snap=/tmp/coqsnap_$$; rm -rf $snap; cp -r coq $snap; export VERIF_COQ_DIR=$snap; trap "rm -rf $snap" EXIT
for s in $seeds; do
  VERIF_SEED=$s VERIF_WRITE_FINDINGS=1 ./check $prop $tier 2>/dev/null | grep "finding added\|^C[0-9][0-9] "
done
