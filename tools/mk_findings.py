# Maintenance command (never run by a check): turn the replays of the last run of one property into
# known-finding entries (when = "always" unless given).  Review the result by hand before committing.
#   python3 tools/mk_findings.py C03 [--when "<expr>"] [--only where1,where2]
import glob, json, os, sys
V = os.path.dirname(os.path.dirname(os.path.abspath(__file__)))
prop = sys.argv[1]
when = 'always'
only = None
if '--when' in sys.argv:
    when = sys.argv[sys.argv.index('--when') + 1]
if '--only' in sys.argv:
    only = sys.argv[sys.argv.index('--only') + 1].split(',')
fn = os.path.join(V, 'known_findings.json')
kf = json.load(open(fn))
have = {(f['property'], f['where'], f['kind']) for f in kf['findings']}
for rp in sorted(glob.glob(os.path.join(V, 'replays', prop, '*.json'))):
    d = json.load(open(rp))
    if not d.get('found_input', True):
        continue
    if only and d['where'] not in only:
        continue
    key = (prop, d['where'], d['kind'])
    if key in have:
        continue
    have.add(key)
    kf['findings'].append(dict(id='%s/%s/%s' % (prop, d['where'], d['kind'].replace(' ', '-')), property=prop,
                               where=d['where'], kind=d['kind'], when=when, status='open',
                               what='%s: %s' % (d['where'], d['kind']), witness=d['replay']))
    print('added', key)
json.dump(kf, open(fn, 'w'), indent=1)
