# Translator, part 3: per-protocol encode/decode models (decision trees of traced paths) and their
# emission as Gallina (Gen/P_<name>.v).
import os

import engine
import protoinfo
import tracer
import vlib

ERRC = engine.ERR


class Tree(object):
    """Decision tree: node = (cond_expr, true_subtree, false_subtree) | leaf."""
    def __init__(self):
        self.root = None


def build_tree(leaves):
    """leaves: list of (path, payload).  Paths are prefix-consistent decision sequences."""
    def rec(items, depth):
        if not items:
            return ('unknown',)
        done = [it for it in items if len(it[0]) == depth]
        if done:
            if len(items) != len(done):
                return ('unknown',)          # one path stops where another continues: inconsistent traces
            first = done[0][1]
            return ('leaf', first)
        cond = items[0][0][depth][0]
        for it in items:
            if repr(it[0][depth][0]) != repr(cond):
                return ('unknown',)
        t = [it for it in items if it[0][depth][1]]
        f = [it for it in items if not it[0][depth][1]]
        return ('node', cond, rec(t, depth + 1), rec(f, depth + 1))
    return rec(list(leaves), 0)


def tree_stats(t):
    if t[0] == 'leaf':
        return dict(leaves=1, unknown=0)
    if t[0] == 'unknown':
        return dict(leaves=0, unknown=1)
    a, b = tree_stats(t[2]), tree_stats(t[3])
    return dict(leaves=a['leaves'] + b['leaves'], unknown=a['unknown'] + b['unknown'])


def encode_model(p, n, extra_kwargs=None):
    """Explore encode(repeat_count=n) of protocol p.  Returns dict(tree=..., complete=bool) or dict(refused=...)."""
    eps = p['encode_parameters']
    if sorted(x[0] for x in eps) != sorted(a for a in p['enc_args'] if a not in p['enc_defaults']):
        return dict(refused='encode() signature %s differs from encode_parameters %s' % (
            [a for a in p['enc_args'] if a not in p['enc_defaults']], [x[0] for x in eps]))
    base = {name: lo for name, lo, hi in eps}

    def run(forced):
        tr = tracer.Trace(forced)
        cap = []
        sym_args = {k: tracer.SymInt(v, ('arg', k)) for k, v in base.items()}
        changed = []
        try:
            with engine.class_guard(p['cls'], changed), tracer.Patch(tr, cap):
                inst = p['cls']()
                try:
                    inst.encode(**sym_args, repeat_count=n, **(extra_kwargs or {}))
                except tracer.Refused:
                    raise
                except Exception as e:  # noqa
                    if tr.refused:
                        raise tracer.Refused(tr.refused)
                    return dict(path=tr.path, error=type(e).__name__)
        except tracer.Refused as e:
            return dict(refused=str(e))
        if changed:
            return dict(refused='encode modifies class-level tables (%s)' % ', '.join(changed))
        if len(cap) != 1:
            return dict(refused='encode built %d IRCode objects' % len(cap))
        c = cap[0]
        try:
            nr = c['normalized_rlc']
            if isinstance(nr, tracer.SymPacket) or (nr and not isinstance(nr[0], list)):
                nr = [nr]
            frames = [tracer.frame_model(f) for f in nr]
            params = []
            for k, v in c['data'].items():
                if isinstance(v, tracer.SymIW):
                    params.append((k, ('iw', v.expr)))
                elif isinstance(v, tracer.SymBool):
                    params.append((k, ('z', ('b2z', v.expr))))
                elif isinstance(v, int):
                    params.append((k, ('z', tracer.zexpr(v))))
                else:
                    raise tracer.Refused('parameter %s of type %s' % (k, type(v).__name__))
        except tracer.Refused as e:
            return dict(refused=str(e))
        return dict(path=tr.path, frames=frames, params=params)

    leaves, complete = tracer.explore(run, limit=160)
    if leaves is None:
        return dict(refused=complete)
    return dict(tree=build_tree(leaves), complete=complete, npaths=len(leaves))


def decode_model(p, frame):
    def run(f):
        with engine.class_guard(p['cls']):
            return tracer.trace_decode(p, frame, f)
    leaves, complete = tracer.explore(run, limit=96)
    if leaves is None:
        return dict(refused=complete)
    return dict(tree=build_tree(leaves), complete=complete, npaths=len(leaves))


def attr_map(p):
    """encode argument name -> decoded field name, by probing IRCode's attribute lookup with sentinels."""
    from pyIRDecoder.ir_code import IRCode
    inst = p['cls']()
    from pyIRDecoder.integer_wrapper import IntegerWrapper
    names = [x[0] for x in p['parameters']]
    data = {nm: IntegerWrapper(1000 + i, 32) for i, nm in enumerate(names)}
    data['frequency'] = p['frequency']
    try:
        code = IRCode(inst, [1, -1], [1, -1], data)
    except Exception:  # noqa
        return {}
    out = {}
    for arg, lo, hi in p['encode_parameters']:
        try:
            v = getattr(code, arg)
        except Exception:  # noqa
            v = None
        for nm in names:
            if v is data[nm]:
                out[arg] = nm
    code.repeat_timer.cancel()
    return out


# ---------------------------------------------------------------------- Coq emission
def cz(e):
    k = e[0]
    if k == 'int':
        return vlib.z(e[1])
    if k == 'arg':
        return 'a_' + e[1]
    if k == 'zop':
        f = {'add': 'Z.add', 'sub': 'Z.sub', 'mul': 'Z.mul', 'div': 'Z.div', 'mod': 'Z.modulo', 'land': 'Z.land',
             'lor': 'Z.lor', 'lxor': 'Z.lxor', 'shl': 'Z.shiftl', 'shr': 'Z.shiftr'}[e[1]]
        return '(%s %s %s)' % (f, cz(e[2]), cz(e[3]))
    if k == 'zun':
        return '(%s %s)' % ({'neg': 'Z.opp', 'lnot': 'Z.lnot', 'abs': 'Z.abs'}[e[1]], cz(e[2]))
    if k == 'value':
        return '(value %s)' % ciw(e[1])
    if k == 'nbits':
        return '(nbits %s)' % ciw(e[1])
    if k == 'bit':
        return '(Z.b2z (bit %s %s))' % (ciw(e[1]), vlib.z(e[2]))
    if k == 'b2z':
        return '(Z.b2z %s)' % cb(e[1])
    raise tracer.Refused('emit Z: %r' % (e,))


def copt(z):
    return 'None' if z is None else '(Some %s)' % vlib.z(z)


def ciw(e):
    k = e[0]
    if k == 'mk':
        return '(mk %s %s)' % (cz(e[1]), copt(e[2]))
    if k == 'mkof':
        return '(mk_of %s %s)' % (ciw(e[1]), copt(e[2]))
    if k == 'field':
        return 'f_' + e[1]
    if k == 'iwop':
        op, x, o = e[1], ciw(e[2]), e[3]
        if op in ('shl', 'shr', 'div', 'mod'):
            return '(iw_%s_c %s %s)' % (op, x, vlib.z(o[1][1]))
        oc = '(OInt %s)' % cz(o[1]) if o[0] == 'OInt' else '(OIW %s)' % ciw(o[1])
        return '(iw_%s %s %s)' % (op, x, oc)
    if k == 'iwrop':
        return '(iw_r%s %s %s)' % (e[1], ciw(e[2]), cz(e[3]))
    if k == 'iwun':
        op, x, n = e[1], ciw(e[2]), e[3]
        if op == 'invert':
            return '(iw_invert %s)' % x
        if op in ('neg', 'pos', 'abs'):
            return '(iw_%s %s)' % (op, x)
        if op == 'invert_bits':
            return '(invert_bits %s %s)' % (x, copt(n))
        if op == 'reverse':
            return '(reverse_bit_order %s %s)' % (x, copt(n))
        if op == 'popcount':
            return '(num_one_bits %s)' % x
    if k == 'slice':
        _, x, start, stop, step = e
        if step is not None and step < 0:
            raise tracer.Refused('negative slice step')
        if start not in (None, True):
            raise tracer.Refused('slice with integer start used as a value')
        return '(slice_iw %s %s %s %s)' % (ciw(x), 'true' if start is True else 'false', copt(stop), copt(step))
    raise tracer.Refused('emit iw: %r' % (e,))


def cb(e):
    k = e[0]
    if k == 'cmp':
        a, b = cz(e[2]), cz(e[3])
        return {'eq': '(Z.eqb %s %s)', 'ne': '(negb (Z.eqb %s %s))', 'lt': '(Z.ltb %s %s)', 'le': '(Z.leb %s %s)',
                'gt': '(Z.gtb %s %s)', 'ge': '(Z.geb %s %s)'}[e[1]] % (a, b)
    if k == 'not':
        return '(negb %s)' % cb(e[1])
    if k == 'slicecmp':
        _, x, start, stop, step = e
        if step is not None and step < 0:
            raise tracer.Refused('negative slice step')
        return '(slice_cmp %s %s %s %s)' % (ciw(x), vlib.z(int(start)), copt(stop), copt(step))
    raise tracer.Refused('emit bool: %r' % (e,))


def cpval(v):
    return '(PW %s)' % ciw(v[1]) if v[0] == 'iw' else '(PZ %s)' % cz(v[1])


def cpart(f):
    if f[0] == 'const':
        return '(PConstD %s)' % vlib.zlist(f[1])
    m = f[1]
    pos = '; '.join('(PTimings %s)' % ciw(x[1]) if x[0] == 'timings' else '(PConst %s)' % vlib.zlist(x[1])
                    for x in m['positional'])
    fields = '; '.join(ciw(e) for _, e in m['fields'])
    return '(PPacket %s %s %s %s [%s] [%s])' % (vlib.zlist(m['lead_in']), vlib.zlist(m['lead_out']),
                                                 protoinfo.coq_bursts(m['bursts']),
                                                 'true' if m['encoding'] == 'msb' else 'false', pos, fields)


def cframe(f):
    return '[' + '; '.join(cpart(x) for x in f) + ']'


def cenc_tree(t, ind='  '):
    if t[0] == 'unknown':
        return '(Leaf EncUnknown)'
    if t[0] == 'leaf':
        r = t[1]
        if 'error' in r:
            return '(Leaf (EncRaise %d))' % ERRC.get(r['error'], 99)
        return '(Leaf (EncFrames [%s]\n%s   [%s]))' % (('; \n' + ind + '   ').join(cframe(f) for f in r['frames']), ind,
                                                       '; '.join('(%s, %s)' % (protoinfo.coq_str(k), cpval(v))
                                                                 for k, v in r['params']))
    return '(Node %s\n%s%s\n%s%s)' % (cb(t[1]), ind, cenc_tree(t[2], ind + '  '), ind, cenc_tree(t[3], ind + '  '))


def cdec_tree(t, ind='  '):
    if t[0] == 'unknown':
        return '(Leaf DecUnknown)'
    if t[0] == 'leaf':
        r = t[1]
        if r['outcome'][0] == 'raise':
            return '(Leaf (DecRaise %d))' % ERRC.get(r['outcome'][1], 99)
        ov = r['outcome'][1]
        return '(Leaf (DecOk [%s]))' % '; '.join('(%s, %s)' % (protoinfo.coq_str(k), cpval(v)) for k, v in sorted(ov.items()))
    return '(Node %s\n%s%s\n%s%s)' % (cb(t[1]), ind, cdec_tree(t[2], ind + '  '), ind, cdec_tree(t[3], ind + '  '))


def tree_leaves(t):
    if t[0] == 'node':
        return tree_leaves(t[2]) + tree_leaves(t[3])
    return [t]


HEADER = '''From Coq Require Import ZArith List Bool String.
Require Import PyIR.Base.Result PyIR.IW.IW PyIR.Engine.Render PyIR.Proto.Descriptor PyIR.Proto.Model.
Import ListNotations.
Open Scope Z_scope.
'''

NMAX = 4


def build(p):
    """Full model of one protocol: encode trees for n = 0..NMAX, decode tree, attribute map, status."""
    m = dict(name=p['name'], enc={}, dec=None, attr=attr_map(p), status={})
    for n in range(NMAX + 1):
        r = encode_model(p, n)
        m['enc'][n] = r
        if 'refused' in r:
            m['status']['encode'] = 'refused: ' + r['refused']
            break
    else:
        m['status']['encode'] = 'ok'
    # a decodable frame to drive the decode exploration: first frame of the all-min assignment that encodes
    frame = None
    import random
    rng = random.Random(12345)
    for k in range(12):
        a = {nm: (lo if k == 0 else rng.randint(lo, hi)) for nm, lo, hi in p['encode_parameters']}
        c, e = engine.fresh_encode(p, a)
        if c is None:
            continue
        for fr in c.normalized_rlc[:3]:
            with engine.class_guard(p['cls']):
                r0 = tracer.trace_decode(p, fr)
            if 'refused' in r0:
                m['status']['decode'] = 'refused: ' + r0['refused']
                frame = None
                break
            if r0['outcome'][0] == 'return':
                frame = fr
                break
        if frame is not None or 'decode' in m['status']:
            break
    if frame is not None:
        d = decode_model(p, frame)
        m['dec'] = d
        m['status']['decode'] = 'ok' if 'tree' in d else 'refused: ' + d['refused']
        m['dec_frame'] = list(frame)
    elif 'decode' not in m['status']:
        m['status']['decode'] = 'refused: no frame of 12 sampled assignments decodes on a fresh instance'
    return m


def emit(p, m):
    """Gallina text of one protocol model (raises tracer.Refused if some expression cannot be emitted)."""
    name = p['name']
    args = ' '.join('a_' + x[0] for x in p['encode_parameters'])
    out = [HEADER]
    if m['status'].get('encode') == 'ok':
        for n in range(NMAX + 1):
            out.append('Definition enc_%s_%d %s: tree enc_model :=\n  %s.\n' % (
                name, n, ('(%s : Z) ' % args) if args else '', cenc_tree(m['enc'][n]['tree'])))
        out.append('Definition enc_%s (n : nat) %s: tree enc_model :=\n  match n with %s | _ => Leaf EncUnknown end.\n' % (
            name, ('(%s : Z) ' % args) if args else '',
            ' | '.join('%d%%nat => enc_%s_%d %s' % (n, name, n, args) for n in range(NMAX + 1))))
    if m['status'].get('decode') == 'ok':
        if not p['parameters']:
            raise tracer.Refused('decode fields come from variant parameter tables (_parameters1/2)')
        fl = ' '.join('f_' + x[0] for x in p['parameters'])
        out.append('Definition dec_%s %s: tree dec_model :=\n  %s.\n' % (
            name, ('(%s : iw) ' % fl) if fl else '', cdec_tree(m['dec']['tree'])))
    return '\n'.join(out)


_models = {}


def model_of(p):
    if p['name'] not in _models:
        _models[p['name']] = build(p)
    return _models[p['name']]


def write_all(build_dir, protos=None):
    """Gen/P_<name>.v for every protocol; returns {name: (model, emitted_ok, reason)}."""
    res = {}
    for p in (protos or protoinfo.all_protocols()):
        m = model_of(p)
        try:
            txt = emit(p, m)
            ok, why = True, None
        except tracer.Refused as e:
            txt, ok, why = None, False, str(e)
        if ok:
            with open(os.path.join(build_dir, 'P_%s.v' % p['name']), 'w') as fh:
                fh.write(txt)
        res[p['name']] = (m, ok, why)
    return res
