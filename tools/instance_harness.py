# Decoder-instance level harness shared by C06, C07, C09: sequences of frames on one instance of the real class
# against the Gallina model PyIR.Ctl.Instance (classes that do not override decode, pair tables, no middle timings).
import engine
import gen_inputs
import protoinfo
import vlib


def modelled_instance(p):
    return engine.modelled_C(p) and not p['overrides_decode'] and p['parameters'] and \
        all(len(b) == 2 for b in p['rep_bursts'])


def real_sequence(p, frames, tol=20, inst=None):
    """Feed frames to one instance; returns (encoded outcomes for the model comparison, raw outcomes)."""
    inst = inst or p['cls']()
    inst.tolerance = tol
    enc, raw = [], []
    with engine.class_guard(p['cls']):
        for f in frames:
            try:
                c = inst.decode(list(f), p['frequency'])
                vals = [int(c._data[nm]) for nm, _, _ in p['parameters']]
                e = [0] + vals
                raw.append(('code', c))
            except Exception as ex:  # noqa
                e = [engine.err_code(ex)]
                raw.append(('raise', type(ex).__name__))
            enc += [len(e)] + e
            vlib.drain_workers()
    return enc, raw


def corr_instance(ctx, items, name='corr_instance'):
    """items: (p, tol, frames).  Returns disagreements [(item, impl, model)] or None."""
    cases = []
    for p, tol, frames in items:
        enc, _ = real_sequence(p, frames, tol)
        cases.append(('(D_%s, %s, [%s])' % (p['name'], vlib.z(tol), '; '.join(vlib.zlist(f) for f in frames)), enc))
    bad = vlib.run_model_cases(ctx, name, 'Require Import PyIR.Proto.Descriptor PyIR.Ctl.Instance Gen.Tables.', 'run_instance',
                               '(desc * Z * list (list Z))', cases, shard=120, timeout=900)
    if bad is None:
        return None
    return [(items[i], cases[i][1], o) for i, o in bad]


def sequences_for(p, rng, n):
    """Frame sequences for one protocol: held-key sequences, two keys interleaved, garbage, damaged frames."""
    out = []
    keys = []
    for a in gen_inputs.param_assignments(p, rng, 3):
        c, e = engine.fresh_encode(p, a, repeat_count=2)
        if c is not None:
            keys.append([list(f) for f in c.normalized_rlc])
    if not keys:
        return out
    for _ in range(n):
        seq = []
        for _ in range(rng.randint(1, 5)):
            r = rng.random()
            k = rng.choice(keys)
            if r < 0.5:
                seq.append(k[0])
            elif r < 0.75:
                seq.append(k[min(len(k) - 1, rng.randint(1, 2))])
            elif r < 0.85:
                seq.append(gen_inputs.garbage(rng))
            else:
                seq.append(gen_inputs.mutate(k[0], rng)[0])
        out.append(seq)
    return out
