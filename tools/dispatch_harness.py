# Harness around the real dispatcher (pyIRDecoder.protocols, a FakeModule singleton): resets its state,
# logs every decoder call (trace oracle), computes the inputs the Gallina model needs and runs op sequences.
import zlib

import engine
import gen_inputs
import protoinfo
import vlib


class Disp(object):
    def __init__(self):
        vlib.import_repo()
        from pyIRDecoder import protocols
        self.mod = protocols
        self.decs = list(protocols._decoders)
        self.names = [d.__class__.__name__ for d in self.decs]
        self.pid = {n: i for i, n in enumerate(self.names)}
        self.class_states = {d.__class__: engine.class_state(d.__class__) for d in self.decs}
        self.defaults = [(d._enabled, d._tolerance, d._frequency_tolerance) for d in self.decs]
        self.log = None
        self.cur_data = None
        self.saved_seen = None
        for i, d in enumerate(self.decs):
            self._wrap(i, d)
        self._wrap_iter()
        # every instance attribute as it is right after import: reset() puts them back, so that leftovers of multi-part
        # decoders (Denon, Blaupunkt, ...) do not leak from one recorded sequence into the next
        self.inst_states = [self._snapshot(d) for d in self.decs]

    @staticmethod
    def _snapshot(d):
        import copy
        snap = {}
        for k, v in d.__dict__.items():
            if isinstance(v, (list, dict, set)):
                try:
                    snap[k] = ('copy', copy.copy(v))
                    continue
                except Exception:  # noqa
                    pass
            snap[k] = ('same', v)
        return snap

    def _restore(self, d, snap):
        import copy
        for k in list(d.__dict__):
            if k not in snap:
                del d.__dict__[k]
        for k, (how, v) in snap.items():
            d.__dict__[k] = copy.copy(v) if how == 'copy' else v

    def _wrap(self, i, d):
        orig = d.__class__.decode
        harness = self

        def wrapper(data, frequency=0, _d=d, _i=i, _orig=orig):
            try:
                c = _orig(_d, data, frequency)
            except Exception as e:  # noqa
                if harness.log is not None:
                    harness.log.append((_i, ('err', type(e).__name__)))
                raise
            if harness.log is not None:
                harness.log.append((_i, ('code', harness.code_id(c))))
            return c
        d.decode = wrapper

    def _wrap_iter(self):
        """`for code in decoder` of the dispatcher's scan: what the stored codes of that decoder answer is recorded at the moment the
        scan asks (an earlier decode attempt of the same call may have changed them), for the `saved` argument of the model"""
        from pyIRDecoder import protocol_base
        harness = self
        if getattr(protocol_base.IrProtocolBase.__iter__, '_verif_wrapped', False):
            protocol_base.IrProtocolBase.__iter__._verif_harness[0] = self
            return
        orig = protocol_base.IrProtocolBase.__iter__
        cell = [self]

        def it(dec):
            h = cell[0]
            if h.saved_seen is not None and h.cur_data is not None and dec in h.decs:
                i = h.decs.index(dec)
                if i not in h.saved_seen:
                    h.saved_seen[i] = None
                    for code in list(dec._saved_codes):
                        try:
                            eq = bool(code == h.cur_data)
                        except Exception:  # noqa
                            eq = False
                        if eq:
                            h.saved_seen[i] = h.code_id(code)
                            break
            return orig(dec)
        it._verif_wrapped = True
        it._verif_harness = cell
        protocol_base.IrProtocolBase.__iter__ = it

    def code_key(self, c):
        try:
            s = str(c)
        except Exception as e:  # noqa
            s = 'str raises ' + type(e).__name__ + repr(sorted((k, str(v)) for k, v in c._data.items()))
        return zlib.crc32(s.encode())

    def code_id(self, c):
        try:
            p = self.decs.index(c.decoder)
        except ValueError:
            p = 9999
        return (p, self.code_key(c))

    def reset(self):
        m = self.mod
        m._last_code = None
        m._last_decoder = None
        m._decode_callback = None
        for d, snap in zip(self.decs, self.inst_states):
            self._restore(d, snap)
        for d, (en, tol, ftol) in zip(self.decs, self.defaults):
            d._enabled, d._tolerance, d._frequency_tolerance = en, tol, ftol
            d._last_code = None
            d._sequence = []
            del d._saved_codes[:]
        for cls, st in self.class_states.items():
            engine.restore_class_state(cls, st)
        vlib.drain_workers()

    def set_enabled(self, names):
        for d in self.decs:
            d._enabled = d.__class__.__name__ in names

    def cfg(self):
        return [(bool(d.enabled), int(d.frequency), d.frequency_tolerance) for d in self.decs]

    def state(self):
        m = self.mod
        lc = None if m._last_code is None else self.code_id(m._last_code)
        ld = None if m._last_decoder is None else self.decs.index(m._last_decoder)
        return lc, ld

    def held_match(self, data):
        lc = self.mod._last_code
        if lc is None:
            return False
        try:
            return bool(data == lc)
        except Exception:  # noqa
            return False

    def saved_matches(self, data):
        """(pid, code id) of the first stored code of each decoder that equals the input (`for code in decoder: if code == data`)."""
        out = []
        for i, d in enumerate(self.decs):
            if not d._saved_codes:
                continue
            for code in list(d._saved_codes):
                try:
                    eq = bool(code == data)
                except Exception:  # noqa
                    eq = False
                if eq:
                    out.append((i, self.code_id(code)))
                    break
        return out

    def call(self, data, freq):
        """One _decode call.  Returns dict(cfg, freq, hm, pre, log, result, post)."""
        pre = self.state()
        hm = self.held_match(list(data))
        cfg = self.cfg()
        self.log = []
        self.cur_data = list(data)
        self.saved_seen = {}
        try:
            r = self.mod._decode(list(data), freq)
            if r is None or r is True:
                res = ('none',)
            else:
                res = ('code', self.code_id(r))
        except Exception as e:  # noqa
            res = ('raise', type(e).__name__)
            r = None
        log = self.log
        self.log = None
        saved = sorted((i, c) for i, c in self.saved_seen.items() if c is not None)
        self.saved_seen = None
        self.cur_data = None
        post = self.state()
        vlib.drain_workers()
        return dict(cfg=cfg, freq=freq, hm=hm, pre=pre, log=log, result=res, post=post, obj=r, saved=saved)

    def release(self):
        """Deliver the release of the held key: timer not running, reset callbacks run."""
        m = self.mod
        lc = m._last_code
        if lc is None:
            return
        lc.repeat_timer.cancel()
        for cb in lc._callbacks[:]:
            try:
                cb(lc)
            except Exception:  # noqa
                pass
        vlib.drain_workers()


# ---------------------------------------------------------------------- Coq encoding
def coq_outcome(o):
    if o[0] == 'code':
        return '(OCode {| c_pid := %d%%nat; c_key := %s |})' % (o[1][0], vlib.z(o[1][1]))
    name = o[1]
    ir = {'DecodeError': 'DecodeError', 'LeadInError': 'LeadInError', 'LeadOutError': 'LeadOutError',
          'IRStreamError': 'IRStreamError', 'TooManyBitsError': 'TooManyBitsError', 'NotEnoughBitsError': 'NotEnoughBitsError',
          'RepeatLeadInError': 'RepeatLeadInError', 'RepeatLeadOutError': 'RepeatLeadOutError',
          'RepeatTimeoutExpired': 'RepeatTimeoutExpired', 'ExpectingMoreData': 'ExpectingMoreData'}
    if name in ir:
        return '(OErr %s)' % ir[name]
    py = {'IndexError', 'ValueError', 'TypeError', 'AttributeError', 'KeyError', 'ZeroDivisionError', 'RuntimeError'}
    return '(OPy %s)' % (name if name in py else 'RuntimeError')


def coq_case(rec):
    cfg = '[' + '; '.join('{| enabled := %s; nominal := %s; ftol := %s |}' % ('true' if e else 'false', vlib.z(n), vlib.z(int(t)))
                          for e, n, t in rec['cfg']) + ']'
    lc, ld = rec['pre']
    st = '{| last_code := %s; last_decoder := %s |}' % (
        'None' if lc is None else '(Some {| c_pid := %d%%nat; c_key := %s |})' % (lc[0], vlib.z(lc[1])),
        'None' if ld is None else '(Some %d%%nat)' % ld)
    log = '[' + '; '.join('(%d%%nat, %s)' % (p, coq_outcome(o)) for p, o in rec['log']) + ']'
    sv = '[' + '; '.join('(%d%%nat, {| c_pid := %d%%nat; c_key := %s |})' % (p, c[0], vlib.z(c[1])) for p, c in rec.get('saved', [])) + ']'
    return '(%s, %s, %s, %s, %s, %s)' % (cfg, vlib.z(rec['freq']), 'true' if rec['hm'] else 'false', st, log, sv)


PY_CODES = {'IndexError': 21, 'ValueError': 22, 'TypeError': 23, 'AttributeError': 24, 'KeyError': 25,
            'ZeroDivisionError': 26, 'RuntimeError': 27}


def expected(rec):
    r = rec['result']
    if r[0] == 'none':
        out = [0]
    elif r[0] == 'code':
        out = [1, r[1][0], r[1][1]]
    else:
        name = r[1]
        if name in engine.ERR and engine.ERR[name] <= 10:
            out = [2, engine.ERR[name]]
        else:
            out = [3, PY_CODES.get(name, 27)]
    lc, ld = rec['post']
    out += [0] if lc is None else [1, lc[0], lc[1]]
    out += [0] if ld is None else [1, ld]
    out += [0]           # the model must have consumed the whole log
    return out


IMPORTS = 'Require Import PyIR.Base.Result PyIR.Ctl.Dispatcher PyIR.Ctl.DispatchRun.'
CTYPE = '(list pconf * Z * bool * dstate * LOG * list (nat * code))'
