#!/bin/bash
# Runs the repository's own test suite with the verification guard OFF and compares with /root/.vp/BASELINE.json
unset PYIRDECODER_VERIF
out=$(mktemp /tmp/baseline.XXXXXX.xml)
(cd /repo && PYTHONDONTWRITEBYTECODE=1 /venv/bin/python -m pytest -ra -q -p no:cacheprovider --timeout=900 --continue-on-collection-errors --junitxml=$out >/dev/null 2>&1)
/venv/bin/python - "$out" <<'PY'
import json, sys, xml.etree.ElementTree as ET
base = json.load(open('/root/.vp/BASELINE.json'))
passed = set()
for tc in ET.parse(sys.argv[1]).getroot().iter('testcase'):
    if not any(c.tag in ('failure', 'error', 'skipped') for c in tc):
        passed.add(tc.get('classname') + '::' + tc.get('name'))
missing = sorted(set(base['stable_pass']) - passed)
print('passed %d, baseline stable %d, baseline tests not passing: %d' % (len(passed), len(base['stable_pass']), len(missing)))
for m in missing[:20]:
    print('  MISSING', m)
# the suite is timing dependent (release timers run on real threads between test_decode and test_encode);
# BASELINE.json itself records tolerance 16 for this reason
sys.exit(1 if len(missing) > base.get('offline_check', {}).get('tolerance', 16) else 0)
PY
rc=$?
rm -f $out
exit $rc
