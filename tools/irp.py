# IRP notation: parser (fail-closed), an independent reference renderer (exact rational arithmetic) and helpers.
# The irp strings are data of /repo (class attribute `irp` of every protocol); this module is the translator of that
# data, nothing here looks at the class tables.
#
#   irp      := '{' general '}' bitspec '(' items ')' rep? defs?
#   general  := comma list of  <num>k | <num>[u|p]? (the unit) | msb | lsb | <num>%
#   bitspec  := '<' durs ('|' durs)* '>'
#   item     := duration | '^' number unit? | bitfield | name '=' expr | '[' items ']'+ | '(' items ')' rep?
#             | bitspec '(' items ')'
#   bitfield := '~'? primary ':' '-'? width (':' offset)?        primary := name | number | '(' expr ')'
#   rep      := '*' | '+' | number '+'?
#   defs     := '{' name '=' expr (',' name '=' expr)* '}'
from fractions import Fraction
import re


class IrpError(Exception):
    pass


TOKEN = re.compile(r'\s*(?:(0x[0-9a-fA-F]+|0b[01]+|\d+\.\d+|\d+)|([A-Za-z_][A-Za-z_0-9]*)|(\*\*|<<|>>|\|\||::|[{}<>()\[\],|:~^*+\-/%&#=?]))')


def tokenize(s):
    out, i = [], 0
    s = s.rstrip()
    while i < len(s):
        m = TOKEN.match(s, i)
        if not m:
            raise IrpError('cannot tokenize at %r' % s[i:i + 12])
        if m.group(1) is not None:
            out.append(('num', m.group(1)))
        elif m.group(2) is not None:
            out.append(('name', m.group(2)))
        else:
            out.append(('op', m.group(3)))
        i = m.end()
    return out


def num_value(t):
    if t.startswith('0x'):
        return Fraction(int(t, 16))
    if t.startswith('0b'):
        return Fraction(int(t, 2))
    return Fraction(t)


class Parser(object):
    def __init__(self, s):
        self.toks = tokenize(s)
        self.i = 0

    def peek(self, k=0):
        return self.toks[self.i + k] if self.i + k < len(self.toks) else ('eof', '')

    def next(self):
        t = self.peek()
        self.i += 1
        return t

    def accept(self, kind, val=None):
        t = self.peek()
        if t[0] == kind and (val is None or t[1] == val):
            self.i += 1
            return t
        return None

    def expect(self, kind, val=None):
        t = self.accept(kind, val)
        if t is None:
            raise IrpError('expected %s %s, found %r' % (kind, val or '', self.peek()))
        return t

    # ---- general spec
    def general(self):
        self.expect('op', '{')
        g = dict(freq=None, unit=Fraction(1), unit_kind='u', order='lsb', duty=None)
        first = True
        while not self.accept('op', '}'):
            if not first:
                self.expect('op', ',')
            first = False
            t = self.next()
            if t[0] == 'name' and t[1] in ('msb', 'lsb'):
                g['order'] = t[1]
            elif t[0] == 'num':
                v = num_value(t[1])
                n = self.peek()
                if n[0] == 'name' and n[1] == 'k':
                    self.next()
                    g['freq'] = v * 1000
                elif n[0] == 'name' and n[1] in ('u', 'p'):
                    self.next()
                    g['unit'], g['unit_kind'] = v, n[1]
                elif n[0] == 'op' and n[1] == '%':
                    self.next()
                    g['duty'] = v
                else:
                    g['unit'], g['unit_kind'] = v, 'u'
            else:
                raise IrpError('general spec item %r' % (t,))
        return g

    # ---- durations
    def duration(self):
        neg = bool(self.accept('op', '-'))
        t = self.expect('num')
        v = num_value(t[1])
        unit = ''
        n = self.peek()
        if n[0] == 'name' and n[1] in ('m', 'u', 'p'):
            self.next()
            unit = n[1]
        return ('dur', -v if neg else v, unit)

    def bitspec(self):
        self.expect('op', '<')
        alts, cur = [], []
        while True:
            cur.append(self.bitspec_item())
            if self.accept('op', ','):
                continue
            if self.accept('op', '|'):
                alts.append(cur)
                cur = []
                continue
            self.expect('op', '>')
            alts.append(cur)
            return alts

    def bitspec_item(self):
        d = self.duration()
        if self.peek() == ('op', ':'):
            raise IrpError('bit fields inside a bitspec are not supported')
        return d

    # ---- expressions   (precedence, loosest first:  | ^ & <<,>> +,- *,/,% ** unary  bitfield)
    def expr(self):
        return self.e_or()

    def e_or(self):
        a = self.e_xor()
        while self.peek() == ('op', '|') and self.bitor_allowed:
            self.next()
            a = ('bin', '|', a, self.e_xor())
        return a

    bitor_allowed = True

    def e_xor(self):
        a = self.e_and()
        while self.peek() == ('op', '^') and self.peek(1)[0] != 'eof' and not self._extent_follows():
            self.next()
            a = ('bin', '^', a, self.e_and())
        return a

    def _extent_follows(self):
        return False

    def e_and(self):
        a = self.e_shift()
        while self.accept('op', '&'):
            a = ('bin', '&', a, self.e_shift())
        return a

    def e_shift(self):
        a = self.e_add()
        while self.peek() in (('op', '<<'), ('op', '>>')):
            op = self.next()[1]
            a = ('bin', op, a, self.e_add())
        return a

    def e_add(self):
        a = self.e_mul()
        while self.peek() in (('op', '+'), ('op', '-')):
            op = self.next()[1]
            a = ('bin', op, a, self.e_mul())
        return a

    def e_mul(self):
        a = self.e_pow()
        while self.peek() in (('op', '*'), ('op', '/'), ('op', '%')):
            op = self.next()[1]
            a = ('bin', op, a, self.e_pow())
        return a

    def e_pow(self):
        a = self.e_unary()
        if self.accept('op', '**'):
            return ('bin', '**', a, self.e_pow())
        return a

    def e_unary(self):
        if self.accept('op', '-'):
            return ('neg', self.e_unary())
        if self.accept('op', '#'):
            return ('count', self.e_unary())
        if self.accept('op', '~'):
            return ('not', self.e_unary())
        return self.e_field()

    def primary(self):
        t = self.peek()
        if t[0] == 'num':
            self.next()
            v = num_value(t[1])
            if v.denominator != 1:
                raise IrpError('non-integer in an expression')
            return ('num', int(v))
        if t[0] == 'name':
            self.next()
            return ('var', t[1])
        if t == ('op', '('):
            self.next()
            save = self.bitor_allowed
            self.bitor_allowed = True
            e = self.expr()
            self.bitor_allowed = save
            self.expect('op', ')')
            return e
        raise IrpError('expression expected, found %r' % (t,))

    def e_field(self):
        """primary [ ':' [-]width [ ':' offset ] ]  |  primary '::' offset"""
        p = self.primary()
        while True:
            if self.accept('op', '::'):
                off = self.primary()
                p = ('field', False, p, None, off)
            elif self.peek() == ('op', ':'):
                self.next()
                rev = bool(self.accept('op', '-'))
                w = self.primary()
                off = ('num', 0)
                if self.accept('op', ':'):
                    off = self.primary()
                p = ('field', rev, p, w, off)
            else:
                return p

    # ---- items
    def items(self, closer):
        out = []
        if self.accept('op', closer):
            return out
        while True:
            out.append(self.item())
            if self.accept('op', ','):
                continue
            self.expect('op', closer)
            return out

    def rep(self):
        if self.accept('op', '*'):
            return ('*', 0)
        if self.accept('op', '+'):
            return ('+', 1)
        t = self.peek()
        if t[0] == 'num':
            self.next()
            n = int(num_value(t[1]))
            if self.accept('op', '+'):
                return ('+', n)
            return ('n', n)
        return ('n', 1)

    def item(self):
        t = self.peek()
        if t == ('op', '^'):
            self.next()
            d = self.duration()
            return ('extent', d[1], d[2])
        if t == ('op', '['):
            alts = []
            while self.accept('op', '['):
                alts.append(self.items(']'))
            return ('variation', alts)
        if t == ('op', '<'):
            bs = self.bitspec()
            self.expect('op', '(')
            return ('sub', bs, self.items(')'))
        if t == ('op', '('):
            # a group, or a parenthesised expression that is the data of a bit field
            save = self.i
            try:
                self.next()
                its = self.items(')')
                r = self.rep()
                if self.peek() == ('op', ':'):
                    raise IrpError('group followed by a width')
                return ('group', its, r)
            except IrpError:
                self.i = save
                return self.field_item()
        if t[0] == 'name' and self.peek(1) == ('op', '='):
            name = self.next()[1]
            self.next()
            self.bitor_allowed = True
            return ('assign', name, self.expr())
        if t[0] == 'num' or t == ('op', '-'):
            # duration or a numeric bit field  (e.g. 1:1, 0xE60396FFFFF:44)
            k = 1 if t == ('op', '-') else 0
            if self.peek(k)[0] == 'num' and self.peek(k + 1) == ('op', ':') and k == 0:
                return self.field_item()
            return self.duration()
        return self.field_item()

    def field_item(self):
        compl = bool(self.accept('op', '~'))
        e = self.e_field()
        if e[0] != 'field' or e[3] is None:
            raise IrpError('bit field expected (an expression without a width is not an IRP stream item)')
        return ('bits', compl, e)

    def defs(self):
        out = []
        if not self.accept('op', '{'):
            return out
        while True:
            name = self.expect('name')[1]
            self.expect('op', '=')
            out.append((name, self.expr()))
            if self.accept('op', ','):
                continue
            self.expect('op', '}')
            return out


def parse(s):
    p = Parser(s)
    g = p.general()
    bs = p.bitspec()
    p.expect('op', '(')
    its = p.items(')')
    r = p.rep()
    defs = p.defs()
    # parameter spec [D:0..255,...] is not present in this library's strings
    if p.peek()[0] != 'eof':
        raise IrpError('trailing input %r' % (p.peek(),))
    return dict(general=g, bitspec=bs, items=its, rep=r, defs=defs)


# ---------------------------------------------------------------------- printing back (parser round-trip check)
def show_expr(e):
    k = e[0]
    if k == 'num':
        return str(e[1])
    if k == 'var':
        return e[1]
    if k == 'neg':
        return '-' + show_expr(e[1])
    if k == 'not':
        return '~' + show_expr(e[1])
    if k == 'count':
        return '#' + show_expr(e[1])
    if k == 'bin':
        return '(' + show_expr(e[2]) + e[1] + show_expr(e[3]) + ')'
    if k == 'field':
        _, rev, p, w, off = e
        if w is None:
            return '%s::%s' % (show_expr(p), show_expr(off))
        return '%s:%s%s:%s' % (show_expr(p), '-' if rev else '', show_expr(w), show_expr(off))
    raise IrpError('show %r' % (e,))


# ---------------------------------------------------------------------- evaluation
def free_vars(e, acc=None):
    acc = set() if acc is None else acc
    if e[0] == 'var':
        acc.add(e[1])
    elif e[0] in ('neg', 'not', 'count'):
        free_vars(e[1], acc)
    elif e[0] == 'bin':
        free_vars(e[2], acc)
        free_vars(e[3], acc)
    elif e[0] == 'field':
        free_vars(e[2], acc)
        if e[3] is not None:
            free_vars(e[3], acc)
        free_vars(e[4], acc)
    return acc


def reverse_bits(v, w):
    r = 0
    for i in range(w):
        if v >> i & 1:
            r |= 1 << (w - 1 - i)
    return r


def ev(e, env, defs, depth=0):
    if depth > 40:
        raise IrpError('definitions are circular')
    k = e[0]
    if k == 'num':
        return e[1]
    if k == 'var':
        if e[1] in env:
            return env[e[1]]
        for n, d in defs:
            if n == e[1]:
                return ev(d, env, defs, depth + 1)
        raise IrpError('unbound variable ' + e[1])
    if k == 'neg':
        return -ev(e[1], env, defs, depth)
    if k == 'not':
        return ~ev(e[1], env, defs, depth)
    if k == 'count':
        v = ev(e[1], env, defs, depth)
        if v < 0:
            raise IrpError('bit count of a negative number')
        return bin(v).count('1')
    if k == 'bin':
        a, b = ev(e[2], env, defs, depth), ev(e[3], env, defs, depth)
        op = e[1]
        if op == '+':
            return a + b
        if op == '-':
            return a - b
        if op == '*':
            return a * b
        if op == '/':
            if b == 0:
                raise IrpError('division by zero')
            return a // b
        if op == '%':
            if b == 0:
                raise IrpError('division by zero')
            return a % b
        if op == '**':
            return a ** b
        if op == '&':
            return a & b
        if op == '|':
            return a | b
        if op == '^':
            return a ^ b
        if op == '<<':
            return a << b
        if op == '>>':
            return a >> b
        raise IrpError('operator ' + op)
    if k == 'field':
        _, rev, p, w, off = e
        v = ev(p, env, defs, depth) >> ev(off, env, defs, depth)
        if w is None:
            return v
        wv = ev(w, env, defs, depth)
        v &= (1 << wv) - 1
        return reverse_bits(v, wv) if rev else v
    raise IrpError('eval %r' % (e,))


# ---------------------------------------------------------------------- reference renderer
class Renderer(object):
    """Signal of an IRP for an environment, as exact microsecond Fractions.  Every top-level group iteration restarts the
    extent clock; `reps` is the number of times '*' / '+' groups are sent (per nesting level the same number)."""

    def __init__(self, irp, env, reps):
        self.irp = irp
        self.g = irp['general']
        self.env = dict(env)
        self.defs = irp['defs']
        self.reps = reps
        self.out = []          # (signed Fraction, number of primitive durations merged)
        self.clock = Fraction(0)
        self.nprim = 0
        self.pending = []      # bits waiting for a multi-bit bitspec: list of bools
        self.variation = 0     # which alternative of [..][..] is in force: 0 intro/first, 1 repeat, 2 ending

    def us(self, v, unit):
        if unit == 'u':
            return v
        if unit == 'm':
            return v * 1000
        if unit == 'p':
            if not self.g['freq']:
                raise IrpError('duration in carrier periods without a carrier')
            return v * Fraction(1000000) / self.g['freq']
        if self.g['unit_kind'] == 'p':
            if not self.g['freq']:
                raise IrpError('unit in carrier periods without a carrier')
            return v * self.g['unit'] * Fraction(1000000) / self.g['freq']
        return v * self.g['unit']

    def emit(self, d):
        if d == 0:
            return
        self.clock += abs(d)
        self.nprim += 1
        if self.out and (self.out[-1][0] > 0) == (d > 0):
            self.out[-1] = (self.out[-1][0] + d, self.out[-1][1] + 1)
        else:
            self.out.append((d, 1))

    def emit_bits(self, bits, bitspec, order):
        n = len(bitspec)
        chunk = {2: 1, 4: 2, 8: 3, 16: 4}.get(n)
        if chunk is None:
            if n == 1:
                raise IrpError('one-entry bitspec')
            raise IrpError('bitspec with %d entries' % n)
        self.pending += bits
        while len(self.pending) >= chunk:
            c, self.pending = self.pending[:chunk], self.pending[chunk:]
            if order == 'msb':      # the first bit sent is the most significant bit of the chunk
                idx = 0
                for b in c:
                    idx = idx * 2 + (1 if b else 0)
            else:                   # lsb: the first bit sent is the least significant bit of the chunk
                idx = sum((1 if b else 0) << i for i, b in enumerate(c))
            for d in bitspec[idx]:
                self.emit(self.us(d[1], d[2]))

    def flush(self):
        if self.pending:
            raise IrpError('bit fields do not fill the symbols of a multi-bit bitspec')

    def run_items(self, items, bitspec, top=False):
        start = self.clock
        start_prim = self.nprim
        for it in items:
            k = it[0]
            if k != 'bits':
                self.flush()
            if k == 'dur':
                self.emit(self.us(it[1], it[2]))
            elif k == 'extent':
                total = self.us(it[1], it[2])
                gap = total - (self.clock - start)
                if gap <= 0:
                    raise IrpError('extent shorter than the frame')
                self.emit(-gap)
                # the gap absorbs the rounding of every duration of its frame
                self.out[-1] = (self.out[-1][0], self.out[-1][1] + self.nprim - start_prim)
                start = self.clock
                start_prim = self.nprim
            elif k == 'bits':
                _, compl, f = it
                _, rev, p, w, off = f
                wv = ev(w, self.env, self.defs)
                v = ev(p, self.env, self.defs)
                if compl:
                    v = ~v
                v = (v >> ev(off, self.env, self.defs)) & ((1 << wv) - 1)
                if rev:
                    v = reverse_bits(v, wv)
                order = self.g['order']
                idxs = range(wv - 1, -1, -1) if order == 'msb' else range(wv)
                self.emit_bits([bool(v >> i & 1) for i in idxs], bitspec, order)
            elif k == 'assign':
                self.env[it[1]] = ev(it[2], self.env, self.defs)
            elif k == 'variation':
                alts = it[1]
                sel = alts[min(self.variation, len(alts) - 1)]
                self.run_items(sel, bitspec)
            elif k == 'sub':
                self.run_items(it[2], it[1])
                self.flush()
            elif k == 'group':
                _, its, (rk, rn) = it
                if rk == 'n':
                    count = rn
                elif rk == '*':
                    count = self.reps
                else:
                    count = max(rn, self.reps)
                for j in range(count):
                    self.run_items(its, bitspec)
                    self.flush()
            else:
                raise IrpError('item %r' % (k,))
        self.flush()

    def render(self):
        irp = self.irp
        rk, rn = irp['rep']
        if (rk, rn) == ('n', 1) and not has_repeat(irp['items']):
            rk = '+'
        count = rn if rk == 'n' else (self.reps if rk == '*' else max(rn, self.reps))
        for j in range(count):
            self.variation = 0 if j == 0 else 1
            self.run_items(irp['items'], irp['bitspec'], top=True)
        return self.out


def has_repeat(items):
    for it in items:
        if it[0] == 'group' and (it[2][0] != 'n' or has_repeat(it[1])):
            return True
        if it[0] == 'sub' and has_repeat(it[2]):
            return True
        if it[0] == 'variation' and any(has_repeat(a) for a in it[1]):
            return True
    return False


def render(irp, env, reps):
    return Renderer(irp, env, reps).render()


def variables(irp):
    """Variables the stream reads that are neither defined nor assigned before use (the protocol parameters)."""
    defined = {n for n, _ in irp['defs']}
    used, assigned = set(), set()

    def walk(items):
        for it in items:
            k = it[0]
            if k == 'bits':
                for v in free_vars(it[2]):
                    if v not in assigned:
                        used.add(v)
            elif k == 'assign':
                for v in free_vars(it[2]):
                    if v not in assigned and v != it[1]:
                        used.add(v)
                    elif v == it[1] and v not in assigned:
                        used.add(v)
                assigned.add(it[1])
            elif k == 'variation':
                for a in it[1]:
                    walk(a)
            elif k == 'sub':
                walk(it[2])
            elif k == 'group':
                walk(it[1])
    walk(irp['items'])
    # close under definitions
    todo = list(used)
    params = set()
    seen = set()
    while todo:
        v = todo.pop()
        if v in seen:
            continue
        seen.add(v)
        if v in defined:
            for n, d in irp['defs']:
                if n == v:
                    todo += list(free_vars(d))
        else:
            params.add(v)
    return params
