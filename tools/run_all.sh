#!/bin/bash
# Maintenance: run every property's check at one tier on /repo's working tree, one after the other.
#   tools/run_all.sh quick|thorough [log]
cd "$(dirname "$0")/.."
tier=${1:-quick}; log=${2:-/dev/stdout}
for i in $(seq -w 1 20); do
  VERIF_SEED=${VERIF_SEED:-1} ./check C$i $tier 2>&1 | grep "VIOLATION\|^C[0-9][0-9] \|KNOWN-FINDING" | grep -v KNOWN-FINDING >> $log
done
