#!/usr/bin/env python3
# Maintenance (never part of a check): tie the known findings of a property to the failure signatures ('sig' in the info of a
# failing case) that the search meets on the unchanged tree.  Runs the check under the given seeds/tier with
# VERIF_DUMP_SAMPLES, unions the signatures per finding and rewrites the finding's `when` to `sig in [...]` (conjoined with an
# existing non-trivial predicate).  A failure of the same protocol and kind with another signature is then a violation.
#   tools/refine_findings.py C05 thorough 1 2 3
import json, os, re, subprocess, sys, tempfile
V = os.path.dirname(os.path.dirname(os.path.abspath(__file__)))
prop, tier, seeds = sys.argv[1], sys.argv[2], sys.argv[3:] or ['1', '2', '3']
sigs = {}
for s in seeds:
    fn = tempfile.mktemp(prefix='samples_')
    env = dict(os.environ, VERIF_SEED=s, VERIF_DUMP_SAMPLES=fn, VERIF_REFINE_SIGS='1')
    subprocess.run([os.path.join(V, 'check'), prop, tier], env=env, stdout=subprocess.DEVNULL, stderr=subprocess.DEVNULL, cwd=V)
    if os.path.exists(fn):
        for fid, infos in json.load(open(fn)).items():
            for i in infos:
                if isinstance(i.get('sig'), str):
                    sigs.setdefault(fid, set()).add(i['sig'])
        os.remove(fn)
kf = json.load(open(os.path.join(V, 'known_findings.json')))
for f in kf['findings']:
    if f['property'] != prop or f.get('id') not in sigs:
        continue
    old = f.get('when', 'always')
    m = re.match(r"^\(?sig in (\[.*?\])\)?( and \((.*)\))?$", old)
    have = set(eval(m.group(1))) if m else set()
    rest = (m.group(3) if m else (None if old == 'always' else old))
    allsigs = sorted(have | sigs[f['id']])
    clause = 'sig in %r' % (allsigs,)
    f['when'] = clause if not rest else '(%s) and (%s)' % (clause, rest)
    f['when_basis'] = (f.get('when_basis', '') + '; signatures of the failing cases (refine_findings %s seeds %s)' % (tier, ','.join(seeds)))[:300]
    if f['when'] != old:
        print('refined:', f['id'], '->', f['when'][:200])
json.dump(kf, open(os.path.join(V, 'known_findings.json'), 'w'), indent=1)
