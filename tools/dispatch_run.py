# Op sequences over the real dispatcher, shared by C10 and C11: generation, execution, model correspondence.
import math

import dispatch_harness as dh
import engine
import gen_inputs
import protoinfo
import vlib

_disp = None


def disp():
    global _disp
    if _disp is None:
        _disp = dh.Disp()
    return _disp


def float_match(value, expected, tol):
    if value < 0 < expected or value > 0 > expected:
        return False
    high = math.floor(expected + (expected * (tol / 100.0)))
    low = math.floor(expected - (expected * (tol / 100.0)))
    if expected < 0:
        low, high = high, low
    return low <= value <= high


def key_frames(p, rng):
    """(assignment, [frames of repeat_count=1]) of a random key of protocol p, or None."""
    al = gen_inputs.param_assignments(p, rng, 3)
    a = al[rng.randrange(len(al))]
    c, e = engine.fresh_encode(p, a, repeat_count=1)
    if c is None:
        return None
    return a, [list(f) for f in c.normalized_rlc]


def gen_sequence(ctx, d, depth):
    rng = ctx.rng
    ps = protoinfo.all_protocols()
    # a small cast of protocols, keys and an enabled subset
    cast = rng.sample(ps, rng.randint(1, 3))
    keys = []
    for p in cast:
        for _ in range(rng.randint(1, 2)):
            k = key_frames(p, rng)
            if k:
                keys.append((p, k[0], k[1]))
    mode = rng.choice(['all', 'all', 'singleton', 'cosingleton', 'cast', 'random'])
    names = d.names
    if mode == 'all' or not keys:
        enabled = set(names)
    elif mode == 'singleton':
        enabled = {rng.choice(keys)[0]['name']}
    elif mode == 'cosingleton':
        enabled = set(names) - {rng.choice(keys)[0]['name']}
    elif mode == 'cast':
        enabled = {p['name'] for p in cast} | ({'Universal'} if rng.random() < 0.5 else set())
    else:
        enabled = {n for n in names if rng.random() < 0.5}
    ops = [('enable', sorted(enabled))]
    for _ in range(depth):
        r = rng.random()
        if keys and r < 0.7:
            p, a, frames = rng.choice(keys)
            fi = 0 if rng.random() < 0.6 else rng.randrange(len(frames))
            nominal = p['frequency']
            ftol = 2
            fr = rng.choice([0, 0, nominal, nominal, int(nominal * (1 + ftol / 100.0)), int(nominal * (1 + ftol / 100.0)) + 2,
                             int(nominal * (1 - ftol / 100.0)) - 2, nominal * 2])
            ops.append(('frame', p['name'], a, fi, frames[fi], fr))
        elif r < 0.8:
            ops.append(('garbage', gen_inputs.garbage(rng, 20), rng.choice([0, 38000])))
        elif r < 0.88:
            ops.append(('release',))
        elif r < 0.94:
            if keys:
                nm = rng.choice(keys)[0]['name']
                ops.append(('toggle', nm))
        else:
            if keys:
                # the per-protocol carrier tolerance, including 0 = the exact carrier is required
                nm = rng.choice(keys)[0]['name']
                ops.append(('ftol', nm, rng.choice([0, 0, 1, 5, 10])))
    return ops


def run_sequence(d, ops):
    """Executes the ops on the real dispatcher; returns the list of call records (with op attached)."""
    d.reset()
    recs = []
    for op in ops:
        if op[0] == 'enable':
            d.set_enabled(set(op[1]))
        elif op[0] == 'toggle':
            dec = d.decs[d.pid[op[1]]]
            dec._enabled = not dec._enabled
        elif op[0] == 'ftol':
            d.decs[d.pid[op[1]]]._frequency_tolerance = op[2]
        elif op[0] == 'release':
            d.release()
        elif op[0] == 'frame':
            rec = d.call(op[4], op[5])
            rec['op'] = op
            recs.append(rec)
        elif op[0] == 'garbage':
            rec = d.call(op[1], op[2])
            rec['op'] = op
            recs.append(rec)
    d.reset()
    return recs


def correspondence(ctx, recs, name='corr_dispatch'):
    cases = [(dh.coq_case(r), dh.expected(r)) for r in recs]
    bad = vlib.run_model_cases(ctx, name, dh.IMPORTS, 'run_dispatch', dh.CTYPE, cases, shard=150, timeout=900)
    if bad is None:
        return None
    return [(recs[i], cases[i][1], o) for i, o in bad]


def op_json(op):
    return [x if not isinstance(x, dict) else dict(x) for x in op]
