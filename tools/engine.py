# Engine-level harness: runs CodeWrapper / _build_packet of the implementation and the Gallina
# models (PyIR.Engine.*) on the same inputs and reports differences.
import copy

import vlib

ERR = {'DecodeError': 1, 'LeadInError': 2, 'LeadOutError': 3, 'IRStreamError': 4, 'TooManyBitsError': 5,
       'NotEnoughBitsError': 6, 'RepeatLeadInError': 7, 'RepeatLeadOutError': 8, 'RepeatTimeoutExpired': 9,
       'ExpectingMoreData': 10, 'IndexError': 21, 'ValueError': 22, 'TypeError': 23, 'AttributeError': 24,
       'KeyError': 25, 'ZeroDivisionError': 26, 'RuntimeError': 27, 'EncodeError': 30}
ERR_NAME = {v: k for k, v in ERR.items()}
IR_FAMILY = set(range(1, 11))


def err_code(e):
    return ERR.get(type(e).__name__, 99)


def modelled_H(p):
    return p['eclass'] == 'H' and not p['middle']


PLACEHOLDER = -999999999999


def modelled_C(p):
    """CodeWrapper paths inside the model PyIR.Engine.ParseM.parseC: pair tables (halfbit or Manchester stream encoding),
    no middle timings, no placeholder at the end of the lead-in (the one branch of the Manchester loop left out)."""
    return p['eclass'] in ('H', 'M') and not p['middle'] and not (p['lead_in'] and p['lead_in'][-1] == PLACEHOLDER) \
        and all(isinstance(b, list) and len(b) == 2 for b in p['bursts'])


def real_parseH(p, code, tol, repeat=False):
    """CodeWrapper on the full tables (or on the repeat tables) of protocol p; canonical outcome."""
    from pyIRDecoder import code_wrapper
    try:
        if repeat:
            cw = code_wrapper.CodeWrapper(p['encoding'], p['rep_lead_in'][:], p['rep_lead_out'][:], [],
                                          [b[:] for b in p['rep_bursts']], tol, list(code))
        else:
            cw = code_wrapper.CodeWrapper(p['encoding'], p['lead_in'][:], p['lead_out'][:], [],
                                          [b[:] for b in p['bursts']], tol, list(code))
    except Exception as e:  # noqa
        return [err_code(e)]
    bits = cw.bits
    return [0, len(bits)] + [int(b) for b in bits] + list(cw)


def coq_ptable(bursts):
    return '[' + '; '.join('(%s, %s)' % (vlib.z(m), vlib.z(s)) for m, s in bursts) + ']'


def coq_parse_case(p, code, tol, repeat=False):
    if repeat:
        return '(%s, %s, %s, %s, %s)' % (vlib.z(tol), vlib.zlist(p['rep_lead_in']), vlib.zlist(p['rep_lead_out']),
                                         coq_ptable(p['rep_bursts']), vlib.zlist(code))
    return '(%s, %s, %s, %s, %s)' % (vlib.z(tol), vlib.zlist(p['lead_in']), vlib.zlist(p['lead_out']),
                                     coq_ptable(p['bursts']), vlib.zlist(code))


def _outcomes(ctx, name, cases):
    """distribution of the implementation's outcomes over the cases of a correspondence run (evidence: the generator reaches the
    accepting paths, not only the error handling)"""
    dist = {}
    for _, exp in cases:
        k = 'parsed' if exp[0] == 0 else ERR_NAME.get(exp[0], str(exp[0]))
        dist[k] = dist.get(k, 0) + 1
    ctx.extra.setdefault('outcome_distribution', {})[name] = dist


def modelled_MD(p):
    """Manchester tables with exactly one positional middle-timing entry ({'start','stop','bursts'}: the RC6 family): inside the
    model PyIR.Engine.ParseMD.parseMD."""
    return p['eclass'] == 'M' and len(p['middle']) == 1 and isinstance(p['middle'][0], dict) \
        and not (p['lead_in'] and p['lead_in'][-1] == PLACEHOLDER) \
        and all(isinstance(b, list) and len(b) == 2 for b in p['bursts']) \
        and all(isinstance(b, (list, tuple)) and len(b) == 2 for b in p['middle'][0]['bursts'])


def real_parseMD(p, code, tol):
    """CodeWrapper on the full tables of protocol p including its middle timings; canonical outcome."""
    from pyIRDecoder import code_wrapper
    try:
        cw = code_wrapper.CodeWrapper(p['encoding'], p['lead_in'][:], p['lead_out'][:], copy.deepcopy(p['middle']),
                                      [b[:] for b in p['bursts']], tol, list(code))
    except Exception as e:  # noqa
        return [err_code(e)]
    bits = cw.bits
    return [0, len(bits)] + [int(b) for b in bits] + list(cw)


def corr_parseMD(ctx, items, name='corr_parseMD'):
    """items: list of (p, code, tol, tag) for protocols with modelled_MD.  Returns disagreements or None."""
    cases = []
    for p, code, tol, tag in items:
        md = p['middle'][0]
        cases.append(('(%s, %s, %s, %s, (%s, %s, %s), %s)' % (
            vlib.z(tol), vlib.zlist(p['lead_in']), vlib.zlist(p['lead_out']), coq_ptable(p['bursts']),
            vlib.z(md['start']), vlib.z(md['stop']), coq_ptable(md['bursts']), vlib.zlist(code)), real_parseMD(p, code, tol)))
    _outcomes(ctx, name, cases)
    bad = vlib.run_model_cases(ctx, name, 'Require Import PyIR.Base.Result PyIR.Engine.ParseMD.', 'run_parseMD',
                               '(Z * list Z * list Z * list (Z * Z) * (Z * Z * list (Z * Z)) * list Z)', cases, shard=300)
    if bad is None:
        return None
    return [(items[i], cases[i][1], o) for i, o in bad]


def modelled_HT(p):
    """Halfbit pair tables whose middle timings are all (mark, space) tuples: inside the model PyIR.Engine.ParseHT.parseHT."""
    return p['eclass'] == 'H' and len(p['middle']) >= 1 and all(isinstance(m, tuple) and len(m) == 2 and
                                                                all(isinstance(x, int) for x in m) for m in p['middle']) \
        and all(isinstance(b, list) and len(b) == 2 for b in p['bursts'])


def corr_parseHT(ctx, items, name='corr_parseHT'):
    """items: list of (p, code, tol, tag) for protocols with modelled_HT.  Returns disagreements or None."""
    cases = []
    for p, code, tol, tag in items:
        cases.append(('(%s, %s, %s, %s, %s, %s)' % (
            vlib.z(tol), vlib.zlist(p['lead_in']), vlib.zlist(p['lead_out']), coq_ptable(p['middle']), coq_ptable(p['bursts']),
            vlib.zlist(code)), real_parseMD(p, code, tol)))
    _outcomes(ctx, name, cases)
    bad = vlib.run_model_cases(ctx, name, 'Require Import PyIR.Base.Result PyIR.Engine.ParseHT.', 'run_parseHT',
                               '(Z * list Z * list Z * list (Z * Z) * list (Z * Z) * list Z)', cases, shard=300)
    if bad is None:
        return None
    return [(items[i], cases[i][1], o) for i, o in bad]


def modelled_B(p):
    """Two plain durations [mark, space] as symbol table ("bit" stream encoding), no middle timings: PyIR.Engine.ParseB.parseB."""
    return p['eclass'] == 'B' and not p['middle'] and len(p['bursts']) == 2 and all(isinstance(b, int) and b != 0 for b in p['bursts'])


def real_parseB(p, code, tol):
    from pyIRDecoder import code_wrapper
    try:
        cw = code_wrapper.CodeWrapper(p['encoding'], p['lead_in'][:], p['lead_out'][:], [], list(p['bursts']), tol, list(code))
    except Exception as e:  # noqa
        return [err_code(e)]
    bits = cw.bits
    return [0, len(bits)] + [int(b) for b in bits] + list(cw)


def corr_parseB(ctx, items, name='corr_parseB'):
    """items: list of (p, code, tol, tag) for protocols with modelled_B.  Returns disagreements or None."""
    cases = []
    for p, code, tol, tag in items:
        cases.append(('(%s, %s, %s, (%s, %s), %s)' % (vlib.z(tol), vlib.zlist(p['lead_in']), vlib.zlist(p['lead_out']),
                                                       vlib.z(p['bursts'][0]), vlib.z(p['bursts'][1]), vlib.zlist(code)),
                      real_parseB(p, code, tol)))
    _outcomes(ctx, name, cases)
    bad = vlib.run_model_cases(ctx, name, 'Require Import PyIR.Base.Result PyIR.Engine.ParseB.', 'run_parseB',
                               '(Z * list Z * list Z * (Z * Z) * list Z)', cases, shard=300)
    if bad is None:
        return None
    return [(items[i], cases[i][1], o) for i, o in bad]


def modelled_MT(p):
    """Manchester tables whose middle timings are (mark, space) tuples or plain durations (MCE, RC6632, XBox360, RC5x): inside the
    model PyIR.Engine.ParseMT.parseMT."""
    return p['eclass'] == 'M' and len(p['middle']) >= 1 and not (p['lead_in'] and p['lead_in'][-1] == PLACEHOLDER) \
        and all((isinstance(m, tuple) and len(m) == 2 and all(isinstance(x, int) for x in m)) or
                (isinstance(m, int) and not isinstance(m, bool)) for m in p['middle']) \
        and all(isinstance(b, list) and len(b) == 2 for b in p['bursts'])


def coq_mids(middle):
    return '[' + '; '.join('(true, %s, %s)' % (vlib.z(m[0]), vlib.z(m[1])) if isinstance(m, tuple) else '(false, %s, 0)' % vlib.z(m)
                           for m in middle) + ']'


def corr_parseMT(ctx, items, name='corr_parseMT'):
    """items: list of (p, code, tol, tag) for protocols with modelled_MT.  Returns disagreements or None."""
    cases = []
    for p, code, tol, tag in items:
        cases.append(('(%s, %s, %s, %s, %s, %s)' % (
            vlib.z(tol), vlib.zlist(p['lead_in']), vlib.zlist(p['lead_out']), coq_mids(p['middle']), coq_ptable(p['bursts']),
            vlib.zlist(code)), real_parseMD(p, code, tol)))
    _outcomes(ctx, name, cases)
    bad = vlib.run_model_cases(ctx, name, 'Require Import PyIR.Base.Result PyIR.Engine.ParseMT.', 'run_parseMT',
                               '(Z * list Z * list Z * list (bool * Z * Z) * list (Z * Z) * list Z)', cases, shard=300)
    if bad is None:
        return None
    return [(items[i], cases[i][1], o) for i, o in bad]


PARSE_IMPORTS = 'Require Import PyIR.Base.Result PyIR.Engine.EngineRun.'
PARSE_TYPE = '(Z * list Z * list Z * list (Z * Z) * list Z)'


def corr_parseH(ctx, items, name='corr_parse'):
    """items: list of (p, code, tol, repeat, tag).  Returns list of (item, impl_outcome, model_outcome)."""
    cases = []
    for p, code, tol, repeat, tag in items:
        cases.append((coq_parse_case(p, code, tol, repeat), real_parseH(p, code, tol, repeat)))
    bad = vlib.run_model_cases(ctx, name, PARSE_IMPORTS, 'run_parseC', PARSE_TYPE, cases, shard=300)
    if bad is None:
        return None
    return [(items[i], cases[i][1], o) for i, o in bad]


import contextlib
import copy

CLASS_ATTRS = ('_lead_in', '_lead_out', '_bursts', '_repeat_lead_in', '_repeat_lead_out', '_middle_timings',
               '_repeat_bursts', '_stored_codes', '_parameters', '_parameters1', '_parameters2', 'encode_parameters',
               '_code_order', 'bit_count', 'repeat_timeout', '_has_repeat_lead_out', 'encoding', 'frequency')


def class_state(cls):
    """Deep copy of the class-level tables of a protocol class (own and inherited)."""
    st = {}
    for a in CLASS_ATTRS:
        if hasattr(cls, a):
            obj = getattr(cls, a)
            try:
                val = copy.deepcopy(obj)
            except Exception:  # noqa   (e.g. _stored_codes holding IRCode objects with locks)
                val = list(obj) if isinstance(obj, list) else obj
            st[a] = (a in cls.__dict__, val, obj)
    return st


def restore_class_state(cls, st):
    """Puts the class-level tables back (in place for lists, so aliases are repaired too).  Returns the names
    that had been changed."""
    changed = []
    for a, (own, val, obj) in st.items():
        cur = getattr(cls, a, None)
        if cur is not obj or cur != val:
            changed.append(a)
        if isinstance(obj, list):
            try:
                obj[:] = copy.deepcopy(val)
            except Exception:  # noqa
                obj[:] = list(val)
            if own or a in cls.__dict__:
                setattr(cls, a, obj)
        elif own:
            setattr(cls, a, val)
        if not own and a in cls.__dict__:
            try:
                delattr(cls, a)
            except Exception:  # noqa
                pass
    return changed


@contextlib.contextmanager
def class_guard(cls, report=None):
    st = class_state(cls)
    try:
        yield
    finally:
        ch = restore_class_state(cls, st)
        if ch and report is not None:
            report.extend(ch)


def fresh_encode(p, params, **kw):
    """encode on a fresh instance; returns (code, None) or (None, exception)."""
    vlib.drain_workers()
    with class_guard(p['cls']):
        try:
            return p['cls']().encode(**params, **kw), None
        except Exception as e:  # noqa
            return None, e


def second_encode(p, params, prior_kw, **kw):
    """The encode that FOLLOWS an earlier encode of the same key in the same process (another fresh instance, class-level tables
    not restored in between): returns (code, None) or (None, exception).  The class tables are restored afterwards."""
    vlib.drain_workers()
    with class_guard(p['cls']):
        try:
            p['cls']().encode(**params, **prior_kw)
        except Exception:  # noqa
            pass
        vlib.drain_workers()
        try:
            return p['cls']().encode(**params, **kw), None
        except Exception as e:  # noqa
            return None, e


def period_of(p):
    return p['lead_out'][-1] if p['lead_out'] and p['lead_out'][-1] > 0 else None
