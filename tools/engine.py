# Engine-level harness: runs CodeWrapper / _build_packet of the implementation and the Gallina
# models (PyIR.Engine.*) on the same inputs and reports differences.
import vlib

ERR = {'DecodeError': 1, 'LeadInError': 2, 'LeadOutError': 3, 'IRStreamError': 4, 'TooManyBitsError': 5,
       'NotEnoughBitsError': 6, 'RepeatLeadInError': 7, 'RepeatLeadOutError': 8, 'RepeatTimeoutExpired': 9,
       'ExpectingMoreData': 10, 'IndexError': 21, 'ValueError': 22, 'TypeError': 23, 'AttributeError': 24,
       'KeyError': 25, 'ZeroDivisionError': 26, 'RuntimeError': 27, 'EncodeError': 30}
ERR_NAME = {v: k for k, v in ERR.items()}
IR_FAMILY = set(range(1, 11))


def err_code(e):
    return ERR.get(type(e).__name__, 99)


def modelled_H(p):
    return p['eclass'] == 'H' and not p['middle']


def real_parseH(p, code, tol, repeat=False):
    """CodeWrapper on the full tables (or on the repeat tables) of protocol p; canonical outcome."""
    from pyIRDecoder import code_wrapper
    try:
        if repeat:
            cw = code_wrapper.CodeWrapper(p['encoding'], p['rep_lead_in'][:], p['rep_lead_out'][:], [],
                                          [b[:] for b in p['rep_bursts']], tol, list(code))
        else:
            cw = code_wrapper.CodeWrapper(p['encoding'], p['lead_in'][:], p['lead_out'][:], [],
                                          [b[:] for b in p['bursts']], tol, list(code))
    except Exception as e:  # noqa
        return [err_code(e)]
    bits = cw.bits
    return [0, len(bits)] + [int(b) for b in bits] + list(cw)


def coq_ptable(bursts):
    return '[' + '; '.join('(%s, %s)' % (vlib.z(m), vlib.z(s)) for m, s in bursts) + ']'


def coq_parse_case(p, code, tol, repeat=False):
    if repeat:
        return '(%s, %s, %s, %s, %s)' % (vlib.z(tol), vlib.zlist(p['rep_lead_in']), vlib.zlist(p['rep_lead_out']),
                                         coq_ptable(p['rep_bursts']), vlib.zlist(code))
    return '(%s, %s, %s, %s, %s)' % (vlib.z(tol), vlib.zlist(p['lead_in']), vlib.zlist(p['lead_out']),
                                     coq_ptable(p['bursts']), vlib.zlist(code))


PARSE_IMPORTS = 'Require Import PyIR.Base.Result PyIR.Engine.EngineRun.'
PARSE_TYPE = '(Z * list Z * list Z * list (Z * Z) * list Z)'


def corr_parseH(ctx, items, name='corr_parse'):
    """items: list of (p, code, tol, repeat, tag).  Returns list of (item, impl_outcome, model_outcome)."""
    cases = []
    for p, code, tol, repeat, tag in items:
        cases.append((coq_parse_case(p, code, tol, repeat), real_parseH(p, code, tol, repeat)))
    bad = vlib.run_model_cases(ctx, name, PARSE_IMPORTS, 'run_parseH', PARSE_TYPE, cases, shard=300)
    if bad is None:
        return None
    return [(items[i], cases[i][1], o) for i, o in bad]


import contextlib
import copy

CLASS_ATTRS = ('_lead_in', '_lead_out', '_bursts', '_repeat_lead_in', '_repeat_lead_out', '_middle_timings',
               '_repeat_bursts', '_stored_codes', '_parameters', '_parameters1', '_parameters2', 'encode_parameters',
               '_code_order', 'bit_count', 'repeat_timeout', '_has_repeat_lead_out', 'encoding', 'frequency')


def class_state(cls):
    """Deep copy of the class-level tables of a protocol class (own and inherited)."""
    st = {}
    for a in CLASS_ATTRS:
        if hasattr(cls, a):
            obj = getattr(cls, a)
            try:
                val = copy.deepcopy(obj)
            except Exception:  # noqa   (e.g. _stored_codes holding IRCode objects with locks)
                val = list(obj) if isinstance(obj, list) else obj
            st[a] = (a in cls.__dict__, val, obj)
    return st


def restore_class_state(cls, st):
    """Puts the class-level tables back (in place for lists, so aliases are repaired too).  Returns the names
    that had been changed."""
    changed = []
    for a, (own, val, obj) in st.items():
        cur = getattr(cls, a, None)
        if cur is not obj or cur != val:
            changed.append(a)
        if isinstance(obj, list):
            try:
                obj[:] = copy.deepcopy(val)
            except Exception:  # noqa
                obj[:] = list(val)
            if own or a in cls.__dict__:
                setattr(cls, a, obj)
        elif own:
            setattr(cls, a, val)
        if not own and a in cls.__dict__:
            try:
                delattr(cls, a)
            except Exception:  # noqa
                pass
    return changed


@contextlib.contextmanager
def class_guard(cls, report=None):
    st = class_state(cls)
    try:
        yield
    finally:
        ch = restore_class_state(cls, st)
        if ch and report is not None:
            report.extend(ch)


def fresh_encode(p, params, **kw):
    """encode on a fresh instance; returns (code, None) or (None, exception)."""
    vlib.drain_workers()
    with class_guard(p['cls']):
        try:
            return p['cls']().encode(**params, **kw), None
        except Exception as e:  # noqa
            return None, e


def period_of(p):
    return p['lead_out'][-1] if p['lead_out'] and p['lead_out'][-1] > 0 else None
