# Worker of the C09 check: runs in a FRESH interpreter so that process-wide state of the library starts empty.
#   python iso_worker.py <order> < cases.json      order = XY | YX
# For every case (protocol, exact frame f, frame g with one burst clearly outside a 5% window but inside the default one):
# instance X keeps the default tolerance, instance Y is set to tolerance 5; both decode f and then g, X first or Y first.
# Prints one JSON list of [x_outcomes, y_outcomes] per case.  What an instance returns must not depend on the order.
import json
import sys

sys.path.insert(0, __import__('os').path.dirname(__import__('os').path.abspath(__file__)))
import vlib  # noqa

vlib.import_repo()
import protoinfo  # noqa
from pyIRDecoder import IRException  # noqa


def outcome(p, inst, frame):
    try:
        c = inst.decode(list(frame), p['frequency'])
        return ['code'] + [[k, int(getattr(c, k))] for k, _, _ in p['encode_parameters'] if getattr(c, k, None) is not None]
    except IRException as e:
        return ['raise', type(e).__name__]
    except Exception as e:  # noqa
        return ['raise!', type(e).__name__]
    finally:
        vlib.drain_workers()


def main():
    order = sys.argv[1]
    cases = json.load(sys.stdin)
    by = protoinfo.by_name()
    out = []
    for name, f, g in cases:
        p = by[name]
        X, Y = p['cls'](), p['cls']()
        Y.tolerance = 5
        res = {}
        for who in order:
            inst = X if who == 'X' else Y
            res[who] = [outcome(p, inst, f), outcome(p, inst, g)]
        out.append([res['X'], res['Y']])
    json.dump(out, sys.stdout)


main()
