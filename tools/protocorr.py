# Correspondence of the traced per-protocol models with the implementation.
import engine
import gen_inputs
import protoinfo
import protomodel
import vlib


def real_encode_outcome(p, a, n):
    """Canonical outcome of cls().encode(**a, repeat_count=n) (mirrors Model.run_enc)."""
    try:
        with engine.class_guard(p['cls']):
            c = p['cls']().encode(**a, repeat_count=n)
    except Exception as e:  # noqa
        return [engine.err_code(e)], None
    try:
        frames = c.normalized_rlc
        out = [0, len(frames)]
        for f in frames:
            out += [len(f)] + [int(x) for x in f]
        return out, c
    finally:
        try:
            c.repeat_timer.cancel()
        except Exception:  # noqa
            pass


def corr_encode(ctx, protos, per_proto, ns=(0, 1, 2)):
    """Runs enc_P n args in Coq and the real encode on the same assignments.
    Returns (n_cases, disagreements=[(p, a, n, impl, model)], unknown_hits)."""
    cases_by_file = []
    meta = []
    imports = ['Require Import PyIR.Base.Result PyIR.Proto.Model.']
    # one Coq case file per protocol (they import different generated modules)
    all_bad = []
    ncases = 0
    unknown = []
    files = []
    for p in protos:
        name = p['name']
        assigns = gen_inputs.param_assignments(p, ctx.rng, per_proto)
        cases = []
        m = []
        for i, a in enumerate(assigns):
            n = ns[i % len(ns)]
            impl, _ = real_encode_outcome(p, a, n)
            args = ' '.join(vlib.z(a[x[0]]) for x in p['encode_parameters'])
            cases.append(('(tree_eval (enc_%s %d%%nat %s))' % (name, n, args), impl))
            m.append((p, a, n, impl))
        ncases += len(cases)
        files.append((name, cases, m))
    # write & run
    import os
    vfiles = []
    for name, cases, m in files:
        fn = os.path.join(ctx.build, 'corrE_%s.v' % name)
        with open(fn, 'w') as fh:
            fh.write(vlib.CASES_PREAMBLE)
            fh.write('Require Import PyIR.Base.Result PyIR.Proto.Model Gen.P_%s.\n' % name)
            fh.write('Definition cases : list (enc_model * list Z) := [\n')
            fh.write(';\n'.join('  (%s, %s)' % (c, vlib.zlist(e)) for c, e in cases))
            fh.write('\n].\nEval vm_compute in mismatches run_enc cases.\n')
        vfiles.append(fn)
    res = vlib.coqc_many(ctx.build, vfiles, timeout=600)
    failed = []
    for (name, cases, m), fn in zip(files, vfiles):
        ok, out = res[fn]
        mm = vlib.parse_mismatches(out) if ok else None
        if mm is None:
            failed.append((name, out[-400:]))
            continue
        for i, o in mm:
            p, a, n, impl = m[i]
            if o == [98]:
                unknown.append((p, a, n, impl))
            else:
                all_bad.append((p, a, n, impl, o))
    return ncases, all_bad, unknown, failed
