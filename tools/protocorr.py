# Correspondence of the traced per-protocol models with the implementation.
import engine
import gen_inputs
import protoinfo
import protomodel
import vlib


def real_encode_outcome(p, a, n):
    """Canonical outcome of cls().encode(**a, repeat_count=n) (mirrors Model.run_enc)."""
    try:
        with engine.class_guard(p['cls']):
            c = p['cls']().encode(**a, repeat_count=n)
    except Exception as e:  # noqa
        return [engine.err_code(e)], None
    try:
        frames = c.normalized_rlc
        out = [0, len(frames)]
        for f in frames:
            out += [len(f)] + [int(x) for x in f]
        return out, c
    finally:
        try:
            c.repeat_timer.cancel()
        except Exception:  # noqa
            pass


def corr_encode(ctx, protos, per_proto, ns=(0, 1, 2)):
    """Runs enc_P n args in Coq and the real encode on the same assignments.
    Returns (n_cases, disagreements=[(p, a, n, impl, model)], unknown_hits)."""
    cases_by_file = []
    meta = []
    imports = ['Require Import PyIR.Base.Result PyIR.Proto.Model.']
    # one Coq case file per protocol (they import different generated modules)
    all_bad = []
    ncases = 0
    unknown = []
    files = []
    for p in protos:
        name = p['name']
        assigns = gen_inputs.param_assignments(p, ctx.rng, per_proto)
        cases = []
        m = []
        for i, a in enumerate(assigns):
            n = ns[i % len(ns)]
            impl, _ = real_encode_outcome(p, a, n)
            args = ' '.join(vlib.z(a[x[0]]) for x in p['encode_parameters'])
            cases.append(('(tree_eval (enc_%s %d%%nat %s))' % (name, n, args), impl))
            m.append((p, a, n, impl))
        ncases += len(cases)
        files.append((name, cases, m))
    # write & run
    import os
    vfiles = []
    for name, cases, m in files:
        fn = os.path.join(ctx.build, 'corrE_%s.v' % name)
        with open(fn, 'w') as fh:
            fh.write(vlib.CASES_PREAMBLE)
            fh.write('Require Import PyIR.Base.Result PyIR.Proto.Model Gen.P_%s.\n' % name)
            fh.write('Definition cases : list (enc_model * list Z) := [\n')
            fh.write(';\n'.join('  (%s, %s)' % (c, vlib.zlist(e)) for c, e in cases))
            fh.write('\n].\nEval vm_compute in mismatches run_enc cases.\n')
        vfiles.append(fn)
    res = vlib.coqc_many(ctx.build, vfiles, timeout=600)
    failed = []
    for (name, cases, m), fn in zip(files, vfiles):
        ok, out = res[fn]
        mm = vlib.parse_mismatches(out) if ok else None
        if mm is None:
            failed.append((name, out[-400:]))
            continue
        for i, o in mm:
            p, a, n, impl = m[i]
            if o == [98]:
                unknown.append((p, a, n, impl))
            else:
                all_bad.append((p, a, n, impl, o))
    return ncases, all_bad, unknown, failed


def corr_decode(ctx, protos, per_proto):
    """The traced decode trees against the real decode(): frames built by the class's own _build_packet from
    arbitrary field values (so that checksum / fixed-field checks fail as well as pass) and frames from encode().
    The base decoder supplies the field values to both sides.  Returns (n_cases, disagreements)."""
    import os
    from pyIRDecoder import protocol_base, IRException
    files = []
    for p in protos:
        name = p['name']
        m = protomodel.model_of(p)
        if m['status'].get('decode') != 'ok' or not p['parameters']:
            continue
        frames = []
        for a in gen_inputs.param_assignments(p, ctx.rng, max(1, per_proto // 2)):
            c, e = engine.fresh_encode(p, a)
            if c is not None:
                frames.append((a, list(c.normalized_rlc[0])))
        for _ in range(per_proto):
            kw = {}
            for nm, start, stop in p['parameters']:
                kw[nm] = ctx.rng.getrandbits(stop - start + 1)
            # start from a valid frame's fields when possible so that only some checks fail
            try:
                with engine.class_guard(p['cls']):
                    fr = p['cls']._build_packet(**kw)
                frames.append((kw, list(fr)))
            except Exception:  # noqa
                pass
        cases, meta = [], []
        for a, fr in frames:
            with engine.class_guard(p['cls']):
                try:
                    base = protocol_base.IrProtocolBase.decode(p['cls'](), list(fr), p['frequency'])
                except Exception:  # noqa
                    continue
                vals = []
                ok = True
                for nm, start, stop in p['parameters']:
                    v = base._data.get(nm)
                    if v is None:
                        ok = False
                        break
                    vals.append((int(v), v.num_bits))
                if not ok:
                    continue
                try:
                    code = p['cls']().decode(list(fr), p['frequency'])
                    impl = [0] + [int(code._data[nm]) for nm, _, _ in p['parameters']]
                except Exception as e:  # noqa
                    impl = [engine.err_code(e)]
                finally:
                    vlib.drain_workers()
            fl = ' '.join('(mkIW %s %s)' % (vlib.z(v), vlib.z(w)) for v, w in vals)
            fll = '[' + '; '.join('mkIW %s %s' % (vlib.z(v), vlib.z(w)) for v, w in vals) + ']'
            names = '[' + '; '.join(protoinfo.coq_str(nm) for nm, _, _ in p['parameters']) + ']'
            cases.append(('(run_dec_full %s %s (tree_eval (dec_%s %s)))' % (names, fll, name, fl), impl))
            meta.append((p, a, impl))
        if cases:
            files.append((name, cases, meta))
    vfiles = []
    for name, cases, meta in files:
        fn = os.path.join(ctx.build, 'corrD_%s.v' % name)
        with open(fn, 'w') as fh:
            fh.write(vlib.CASES_PREAMBLE)
            fh.write('Require Import PyIR.Base.Result PyIR.IW.IW PyIR.Proto.Model Gen.P_%s.\nImport Coq.Strings.String.\n' % name)
            fh.write('Definition cases : list (list Z * list Z) := [\n')
            fh.write(';\n'.join('  (%s, %s)' % (c, vlib.zlist(e)) for c, e in cases))
            fh.write('\n].\nEval vm_compute in mismatches (fun x : list Z => x) cases.\n')
        vfiles.append(fn)
    res = vlib.coqc_many(ctx.build, vfiles, timeout=600)
    bad = []
    n = 0
    for (name, cases, meta), fn in zip(files, vfiles):
        ok, out = res[fn]
        n += len(cases)
        mm = vlib.parse_mismatches(out) if ok else None
        if mm is None:
            ctx.note('decode correspondence file for %s failed: %s' % (name, out[-300:]))
            continue
        for i, o in mm:
            p, a, impl = meta[i]
            bad.append((p, a, impl, o))
    return n, bad
