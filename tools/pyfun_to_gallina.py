# Fail-closed shallow translator: a Python function of the shape
#
#     def f(code):
#         acc = []
#         for x in code:
#             <straight-line integer statements and if/else over x and locals>
#             acc += [x]            (or acc.append(x))
#         return acc
#
# becomes   Definition f_one (x : Z) : Z := ...   and   Definition f (code : list Z) := map f_one code.
# Anything outside this grammar raises Refused (the caller then falls back to the committed snapshot).
import ast


class Refused(Exception):
    pass


BINOPS = {ast.Add: 'Z.add', ast.Sub: 'Z.sub', ast.Mult: 'Z.mul'}
CMPOPS = {ast.Lt: 'Z.ltb', ast.LtE: 'Z.leb', ast.Eq: 'Z.eqb'}


def _z(n):
    return '(%d)' % n if n < 0 else str(n)


class FunTranslator(object):
    def __init__(self, src, name):
        tree = ast.parse(src)
        fns = [n for n in ast.walk(tree) if isinstance(n, ast.FunctionDef) and n.name == name]
        if len(fns) != 1:
            raise Refused('function %s not found exactly once' % name)
        self.fn = fns[0]
        self.name = name

    def expr(self, e, env):
        if isinstance(e, ast.Constant) and isinstance(e.value, int) and not isinstance(e.value, bool):
            return _z(e.value)
        if isinstance(e, ast.Name):
            if e.id not in env:
                raise Refused('unknown name ' + e.id)
            return e.id
        if isinstance(e, ast.UnaryOp) and isinstance(e.op, ast.USub):
            return '(Z.opp %s)' % self.expr(e.operand, env)
        if isinstance(e, ast.BinOp):
            a, b = self.expr(e.left, env), self.expr(e.right, env)
            if type(e.op) in BINOPS:
                return '(%s %s %s)' % (BINOPS[type(e.op)], a, b)
            if isinstance(e.op, (ast.Mod, ast.FloorDiv)):
                # Python floor semantics = Coq Z.modulo / Z.div for a non-zero divisor; only constants allowed
                if not (isinstance(e.right, ast.Constant) and isinstance(e.right.value, int) and e.right.value != 0):
                    raise Refused('% or // by a non-constant or zero divisor')
                return '(%s %s %s)' % ('Z.modulo' if isinstance(e.op, ast.Mod) else 'Z.div', a, b)
        raise Refused('expression ' + ast.dump(e))

    def cond(self, e, env):
        if isinstance(e, ast.Compare) and len(e.ops) == 1:
            a, b = self.expr(e.left, env), self.expr(e.comparators[0], env)
            op = e.ops[0]
            if type(op) in CMPOPS:
                return '(%s %s %s)' % (CMPOPS[type(op)], a, b)
            if isinstance(op, ast.Gt):
                return '(Z.ltb %s %s)' % (b, a)
            if isinstance(op, ast.GtE):
                return '(Z.leb %s %s)' % (b, a)
            if isinstance(op, ast.NotEq):
                return '(negb (Z.eqb %s %s))' % (a, b)
        raise Refused('condition ' + ast.dump(e))

    @staticmethod
    def assigned(stmts):
        out = []
        for s in stmts:
            if isinstance(s, ast.Assign) and len(s.targets) == 1 and isinstance(s.targets[0], ast.Name):
                out.append(s.targets[0].id)
            elif isinstance(s, ast.AugAssign) and isinstance(s.target, ast.Name):
                out.append(s.target.id)
            elif isinstance(s, ast.If):
                out += FunTranslator.assigned(s.body) + FunTranslator.assigned(s.orelse)
            else:
                raise Refused('statement ' + ast.dump(s))
        res = []
        for v in out:
            if v not in res:
                res.append(v)
        return res

    def block(self, stmts, env, k):
        """Translate stmts followed by continuation k(env) -> coq expr."""
        if not stmts:
            return k(env)
        s, rest = stmts[0], stmts[1:]
        if isinstance(s, ast.Assign) and len(s.targets) == 1 and isinstance(s.targets[0], ast.Name):
            v = s.targets[0].id
            e = self.expr(s.value, env)
            return '(let %s := %s in %s)' % (v, e, self.block(rest, env | {v}, k))
        if isinstance(s, ast.AugAssign) and isinstance(s.target, ast.Name) and type(s.op) in BINOPS:
            v = s.target.id
            if v not in env:
                raise Refused('augmented assignment to unknown ' + v)
            e = '(%s %s %s)' % (BINOPS[type(s.op)], v, self.expr(s.value, env))
            return '(let %s := %s in %s)' % (v, e, self.block(rest, env, k))
        if isinstance(s, ast.If):
            mod = self.assigned(s.body + s.orelse)
            for v in mod:
                if v not in env:
                    # a variable first assigned inside a branch must be assigned in both
                    if not (v in self.assigned(s.body) and v in self.assigned(s.orelse)):
                        raise Refused('variable %s assigned in one branch only' % v)
            tup = '(' + ', '.join(mod) + ')' if len(mod) != 1 else mod[0]
            pat = "'" + tup if len(mod) != 1 else mod[0]
            c = self.cond(s.test, env)
            b1 = self.block(s.body, env, lambda _e: tup)
            b2 = self.block(s.orelse, env, lambda _e: tup)
            return '(let %s := (if %s then %s else %s) in %s)' % (
                pat, c, b1, b2, self.block(rest, env | set(mod), k))
        raise Refused('statement ' + ast.dump(s))

    def translate(self):
        fn = self.fn
        if len(fn.args.args) != 1 or fn.args.vararg or fn.args.kwarg or fn.args.defaults:
            raise Refused('signature')
        arg = fn.args.args[0].arg
        body = [s for s in fn.body if not (isinstance(s, ast.Expr) and isinstance(s.value, ast.Constant))]
        if len(body) != 3:
            raise Refused('body is not init / loop / return')
        init, loop, ret = body
        if not (isinstance(init, ast.Assign) and isinstance(init.targets[0], ast.Name)
                and isinstance(init.value, ast.List) and not init.value.elts):
            raise Refused('accumulator initialisation')
        acc = init.targets[0].id
        if not (isinstance(loop, ast.For) and isinstance(loop.target, ast.Name) and isinstance(loop.iter, ast.Name)
                and loop.iter.id == arg and not loop.orelse):
            raise Refused('loop header')
        x = loop.target.id
        if not (isinstance(ret, ast.Return) and isinstance(ret.value, ast.Name) and ret.value.id == acc):
            raise Refused('return')
        stmts = list(loop.body)
        last = stmts.pop()
        emitted = None
        if (isinstance(last, ast.AugAssign) and isinstance(last.target, ast.Name) and last.target.id == acc
                and isinstance(last.op, ast.Add) and isinstance(last.value, ast.List) and len(last.value.elts) == 1):
            emitted = last.value.elts[0]
        elif (isinstance(last, ast.Expr) and isinstance(last.value, ast.Call)
              and isinstance(last.value.func, ast.Attribute) and last.value.func.attr == 'append'
              and isinstance(last.value.func.value, ast.Name) and last.value.func.value.id == acc
              and len(last.value.args) == 1):
            emitted = last.value.args[0]
        else:
            raise Refused('loop does not end by appending one element')
        for s in ast.walk(ast.Module(body=stmts, type_ignores=[])):
            if isinstance(s, ast.Name) and s.id in (acc, arg):
                raise Refused('loop body touches the accumulator or the argument')
        one = self.block(stmts, {x}, lambda env: self.expr(emitted, env))
        return ('Definition %s_one (%s : Z) : Z :=\n  %s.\n\n'
                'Definition %s (%s : list Z) : list Z := map %s_one %s.\n'
                % (self.name, x, one, self.name, arg, self.name, arg))
