# Translator, part 1: protocol tables by introspection of the imported classes (robust against
# TIMING*16 vs 9024, inheritance, harmless refactorings).  Emits Python dicts and Gen/Tables.v.
import inspect
import os
import sys

import vlib


def arg_constants(cls, enc_args):
    """Integer literals the protocol's encode() compares its arguments with (`oem1 == 67`): a dictionary for the input generators, so
    that value-specific branches of an encoder are exercised whatever the random sample is.  Extracted from the source by ast."""
    import ast
    import textwrap
    out = {}
    try:
        tree = ast.parse(textwrap.dedent(inspect.getsource(cls.encode)))
    except Exception:  # noqa
        return out
    for node in ast.walk(tree):
        if isinstance(node, ast.Compare) and len(node.ops) == 1 and len(node.comparators) == 1:
            a, b = node.left, node.comparators[0]
            for x, y in ((a, b), (b, a)):
                if isinstance(x, ast.Name) and x.id in enc_args and isinstance(y, ast.Constant) and isinstance(y.value, int) \
                        and not isinstance(y.value, bool):
                    out.setdefault(x.id, set()).add(y.value)
                    if isinstance(node.ops[0], (ast.Lt, ast.LtE, ast.Gt, ast.GtE)):
                        out[x.id].update({y.value - 1, y.value + 1})
    res = {k: sorted(v) for k, v in out.items()}
    # conjunctions `a == 67 and b == 83`: the constants that belong together
    together = []
    for node in ast.walk(tree):
        if isinstance(node, ast.BoolOp) and isinstance(node.op, ast.And):
            d = {}
            for v in node.values:
                if isinstance(v, ast.Compare) and len(v.ops) == 1 and isinstance(v.ops[0], ast.Eq):
                    a, b = v.left, v.comparators[0]
                    for x, y in ((a, b), (b, a)):
                        if isinstance(x, ast.Name) and x.id in enc_args and isinstance(y, ast.Constant) and isinstance(y.value, int):
                            d[x.id] = y.value
            if len(d) > 1 and d not in together:
                together.append(d)
    if together:
        res['__together__'] = together
    return res


def engine_class(bursts):
    if not bursts:
        return 'none'
    if isinstance(bursts[0], int):
        return 'B'
    if not all(isinstance(b, (list, tuple)) and len(b) == 2 and all(isinstance(x, int) for x in b) for b in bursts):
        return 'X'
    last = bursts[0]
    for m, s in bursts[1:]:
        if m == last[1] and s == last[0]:
            return 'M'
        last = [m, s]
    return 'H'


_cache = {}


def all_protocols():
    """List of dicts, one per registered decoder (Universal excluded), in dispatcher order."""
    if 'all' in _cache:
        return _cache['all']
    vlib.import_repo()
    from pyIRDecoder import protocols, protocol_base
    out = []
    for inst in protocols:
        cls = inst.__class__
        if cls.__name__ == 'Universal':
            continue
        fresh = cls()
        try:
            sig = inspect.signature(cls.encode)
            enc_args = [p for p in sig.parameters if p not in ('self', 'cls')]
            enc_defaults = {k: v.default for k, v in sig.parameters.items() if v.default is not inspect.Parameter.empty}
        except Exception:  # noqa
            enc_args, enc_defaults = [], {}
        d = dict(
            name=cls.__name__, cls=cls, module=cls.__module__,
            frequency=fresh.frequency, bit_count=fresh.bit_count, encoding=fresh.encoding,
            lead_in=list(fresh._lead_in), lead_out=list(fresh._lead_out), bursts=[b if isinstance(b, int) else list(b) for b in fresh._bursts],
            middle=list(fresh._middle_timings), rep_lead_in=list(fresh._repeat_lead_in),
            rep_lead_out=list(fresh._repeat_lead_out), rep_bursts=[list(b) for b in fresh._repeat_bursts],
            repeat_timeout=fresh.repeat_timeout, has_repeat_lead_out=fresh._has_repeat_lead_out,
            parameters=[list(p) for p in fresh._parameters], code_order=[list(c) for c in fresh._code_order],
            encode_parameters=[list(p) for p in fresh.encode_parameters],
            overrides_decode=cls.decode is not protocol_base.IrProtocolBase.decode,
            overrides_encode='encode' in cls.__dict__ or any('encode' in b.__dict__ for b in cls.__mro__[1:-2]),
            tolerance=fresh.tolerance, frequency_tolerance=fresh.frequency_tolerance, enabled=fresh.enabled,
            enc_args=enc_args, enc_defaults=enc_defaults, irp=cls.irp,
            eclass=engine_class(fresh._bursts),
            has_params12=hasattr(cls, '_parameters1') or hasattr(cls, '_parameters2'),
            arg_constants=arg_constants(cls, enc_args),
        )
        out.append(d)
    _cache['all'] = out
    return out


def by_name():
    return {d['name']: d for d in all_protocols()}


def coq_str(s):
    return '"%s"%%string' % s.replace('"', '""')


def coq_middle(m):
    if isinstance(m, tuple) and len(m) == 2:
        return '(MTuple %s %s)' % (vlib.z(m[0]), vlib.z(m[1]))
    if isinstance(m, dict):
        return '(MDict %s %s [%s])' % (vlib.z(m['start']), vlib.z(m['stop']), '; '.join(vlib.zlist(b) for b in m['bursts']))
    if isinstance(m, int):
        return '(MInt %s)' % vlib.z(m)
    return '(MList %s)' % vlib.zlist(list(m))


def coq_bursts(bs):
    return '[' + '; '.join(vlib.zlist([b] if isinstance(b, int) else b) for b in bs) + ']'


def coq_desc(d):
    cl = {'H': 'ClassH', 'M': 'ClassM', 'B': 'ClassB', 'X': 'ClassX', 'none': 'ClassNone'}[d['eclass']]
    tol = d['tolerance']
    return ('{| d_name := %s; d_freq := %s; d_bit_count := %s; d_msb := %s; d_class := %s;\n'
            '   d_lead_in := %s; d_lead_out := %s;\n   d_bursts := %s;\n   d_middle := [%s];\n'
            '   d_rep_lead_in := %s; d_rep_lead_out := %s; d_rep_bursts := %s; d_repeat_timeout := %s;\n'
            '   d_params := [%s];\n   d_code_order := [%s];\n   d_enc_params := [%s];\n'
            '   d_overrides_decode := %s; d_tolerance := %s |}' % (
                coq_str(d['name']), vlib.z(d['frequency']), vlib.z(d['bit_count']),
                'true' if d['encoding'] == 'msb' else 'false', cl,
                vlib.zlist(d['lead_in']), vlib.zlist(d['lead_out']), coq_bursts(d['bursts']),
                '; '.join(coq_middle(m) for m in d['middle']),
                vlib.zlist(d['rep_lead_in']), vlib.zlist(d['rep_lead_out']), coq_bursts(d['rep_bursts']),
                vlib.z(d['repeat_timeout']),
                '; '.join('(%s, %s, %s)' % (coq_str(n), vlib.z(a), vlib.z(b)) for n, a, b in d['parameters']),
                '; '.join('(%s, %s)' % (coq_str(n), vlib.z(w)) for n, w in d['code_order']),
                '; '.join('(%s, %s, %s)' % (coq_str(n), vlib.z(a), vlib.z(b)) for n, a, b in d['encode_parameters']),
                'true' if d['overrides_decode'] else 'false',
                vlib.z(int(tol)) if float(tol) == int(tol) else vlib.z(20)))


def write_tables(build_dir):
    """Gen/Tables.v : one descriptor per protocol."""
    ps = all_protocols()
    with open(os.path.join(build_dir, 'Tables.v'), 'w') as fh:
        fh.write('From Coq Require Import ZArith List Bool String.\nRequire Import PyIR.Proto.Descriptor.\n'
                 'Import ListNotations.\nOpen Scope Z_scope.\n\n')
        for d in ps:
            fh.write('Definition D_%s : desc :=\n  %s.\n\n' % (d['name'], coq_desc(d)))
        fh.write('Definition all_descs : list desc := [%s].\n' % '; '.join('D_' + d['name'] for d in ps))
    return ps
