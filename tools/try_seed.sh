#!/bin/bash
# Maintenance: apply a seeded property-breaking change to /repo, confirm its demonstration, run the given checks, undo.
#   tools/try_seed.sh <seed dir name under seeded/> <tier> <property ids...>
# Prints one line per check:  <seed> <prop> exit=<code> <VIOLATION lines...>
cd "$(dirname "$0")/.."
seed=$1; tier=$2; shift 2
dir=seeded/$seed
git -C /repo diff --quiet || { echo "/repo is not clean"; exit 2; }
git -C /repo apply $PWD/$dir/patch.diff || { echo "patch does not apply"; exit 2; }
trap 'git -C /repo checkout -- . ' EXIT
(cd /repo && PYTHONPATH=/repo PYTHONDONTWRITEBYTECODE=1 timeout 900 /venv/bin/python $OLDPWD/$dir/demo.py > /tmp/demo_$seed.out 2>&1; echo "$seed demo exit=$? (expected 1)")
for p in "$@"; do
  out=$(VERIF_SEED=${VERIF_SEED:-1} timeout 3000 ./check $p $tier 2>/dev/null | grep "VIOLATION\|^C[0-9][0-9] ")
  code=$(echo "$out" | grep -c VIOLATION)
  echo "$seed $p violations=$code :: $(echo "$out" | grep VIOLATION | head -3 | sed 's#.*/replays/##' | tr '\n' ' ') $(echo "$out" | tail -1)"
done
