# Common machinery of every check: context, known findings, replays, evidence, Coq runner.
# Run with /venv/bin/python, PYTHONPATH=/repo (set by ./check).
import hashlib
import json
import os
import random
import re
import shutil
import subprocess
import sys
import time

VERIF = os.path.dirname(os.path.dirname(os.path.abspath(__file__)))
REPO = os.environ.get('VERIF_REPO', '/repo')
COQ_DIR = os.environ.get('VERIF_COQ_DIR', os.path.join(VERIF, 'coq'))
THEORIES = os.path.join(COQ_DIR, 'theories')
BUILD_ROOT = os.path.join(VERIF, 'build')
REPLAY_ROOT = os.path.join(VERIF, 'replays')
EVIDENCE_DIR = os.path.join(VERIF, 'evidence')
FINDINGS_FILE = os.path.join(VERIF, 'known_findings.json')
STATUS_FILE = os.path.join(VERIF, 'proof_status.json')
NCPU = int(os.environ.get('VERIF_JOBS', '16'))

TRUSTED_COMMON = [
    'Coq 8.16.1 kernel incl. vm_compute (no native_compute)',
    'no axioms declared by this development; Print Assumptions output recorded in coverage.print_assumptions',
    'translator tools/gen_*.py (regenerates Gen/*.v from /repo on every run)',
    'correspondence / search harness tools/*.py run with /venv/bin/python against /repo',
]


def load_json(path, default=None):
    try:
        with open(path) as f:
            return json.load(f)
    except FileNotFoundError:
        return default


class SafeExpr(object):
    """Tiny predicate language of known_findings 'when' clauses: python expression over the
    replay's fields evaluated with no builtins but len/abs/min/max/all/any/int/str/sorted/set."""
    ALLOWED = dict(len=len, abs=abs, min=min, max=max, all=all, any=any, int=int, str=str,
                   sorted=sorted, set=set, sum=sum, isinstance=isinstance, list=list, dict=dict,
                   tuple=tuple, bool=bool, True_=True)

    @staticmethod
    def eval(expr, env):
        if expr in (None, '', 'always'):
            return True
        try:
            return bool(eval(expr, {'__builtins__': {}}, dict(SafeExpr.ALLOWED, **env)))
        except Exception:
            return False


class Ctx(object):
    def __init__(self, prop, tier, seed):
        self.prop = prop
        self.tier = tier
        self.seed = seed
        self.rng = random.Random(seed * 1000003 + int(prop[1:]))
        self.t0 = time.time()
        self.findings = [f for f in load_json(FINDINGS_FILE, {'findings': []})['findings']
                         if f.get('property') == prop]
        self.known_hits = {}      # finding id -> count
        self.known_infos = {}     # finding id -> [info]   (maintenance: tools/refine_findings.py)
        self.known_lines = []
        self.violations = []      # (replay path, suffix)
        self.cov = dict(obligations=0, discharged=0, checker_cmd='', trusted_base=list(TRUSTED_COMMON),
                        samples=[], evaluations=0, distinct_nontrivial=0, rule='')
        self.assumptions = []
        self.extra = {}
        self.run_id = '%s_%s_%d_%d' % (prop, tier, seed, os.getpid())
        self.build = os.path.join(BUILD_ROOT, self.run_id)
        if os.path.isdir(self.build):
            shutil.rmtree(self.build)
        os.makedirs(self.build)
        self._distinct = set()
        self._auto_samples = []
        self.notes = []
        self.fail_samples = {}     # (where, kind) -> [info]   (maintenance: predicate inference for new findings)
        self.pass_samples = {}     # where -> [info]
        # replays of earlier runs of this property are stale
        rd = os.path.join(REPLAY_ROOT, prop)
        if os.path.isdir(rd):
            for f in os.listdir(rd):
                try:
                    os.remove(os.path.join(rd, f))
                except OSError:
                    pass

    # ------------------------------------------------------------------ coverage bookkeeping
    def count_eval(self, key=None, nontrivial=True, n=1):
        self.cov['evaluations'] += n
        if key is not None and nontrivial:
            h = hash(key)
            if h not in self._distinct and len(self._auto_samples) < 4:
                # a few of the actual cases, written out (the key identifies the case: target, input, parameters ...)
                self._auto_samples.append(dict(case=repr(key)[:400]))
            self._distinct.add(h)

    def sample(self, obj, limit=12):
        if len(self.cov['samples']) < limit:
            self.cov['samples'].append(obj)

    def obligation(self, name, ok, detail=None):
        self.cov['obligations'] += 1
        if ok:
            self.cov['discharged'] += 1
        self.extra.setdefault('obligation_list', []).append(
            dict(name=name, discharged=bool(ok), **({'detail': detail} if detail else {})))

    def note(self, s):
        self.notes.append(s)
        print('note: ' + s)

    # ------------------------------------------------------------------ findings / violations
    def passed(self, where, info):
        l = self.pass_samples.setdefault(where, [])
        if len(l) < 400:
            l.append(info)

    def report(self, where, kind, info, replay, found_input=True):
        """A failure of the property was observed (or an obligation broke).  `where` = protocol or call
        site, `kind` = failure class, `info` = dict the 'when' predicate is evaluated over, `replay` =
        JSON-serialisable reproduction.  Returns True when it is a listed known finding."""
        if found_input and isinstance(info, dict):
            self.fail_samples.setdefault((where, kind), []).append(info)
        for f in self.findings:
            if f.get('status', 'open') != 'open':
                continue
            if f['where'] != where or f['kind'] != kind:
                continue
            if SafeExpr.eval(f.get('when', 'always'), info) or (
                    os.environ.get('VERIF_REFINE_SIGS') and 'sig in' in f.get('when', '') and isinstance(info, dict)
                    and isinstance(info.get('sig'), str)):
                # (maintenance, tools/refine_findings.py only: a failure of a listed (where, kind) with a signature the list does
                # not have yet is collected so that the finding can be widened by hand-reviewed union)
                fid = f.get('id', where + '/' + kind)
                if fid not in self.known_hits:
                    self.known_hits[fid] = 0
                    self.known_lines.append('KNOWN-FINDING: property=%s %s: %s' % (self.prop, fid, f.get('what', kind)))
                self.known_hits[fid] += 1
                if isinstance(info, dict) and len(self.known_infos.setdefault(fid, [])) < 2000:
                    self.known_infos[fid].append(info)
                return True
        key = (where, kind)
        for v in self.violations:
            if v['key'] == key:
                v['count'] += 1
                return False
        os.makedirs(os.path.join(REPLAY_ROOT, self.prop), exist_ok=True)
        body = dict(property=self.prop, where=where, kind=kind, info=info, replay=replay,
                    seed=self.seed, tier=self.tier, found_input=found_input)
        blob = json.dumps(body, indent=1, sort_keys=True, default=str)
        name = '%s_%s_%s.json' % (re.sub(r'\W+', '_', where)[:40], re.sub(r'\W+', '_', kind)[:40],
                                  hashlib.sha1(blob.encode()).hexdigest()[:8])
        path = os.path.join(REPLAY_ROOT, self.prop, name)
        with open(path, 'w') as fh:
            fh.write(blob)
        self.violations.append(dict(key=key, path=path, found_input=found_input, count=1))
        return False

    # ------------------------------------------------------------------ finish
    def finish(self, level='proof'):
        self.cov['distinct_nontrivial'] = max(self.cov.get('distinct_nontrivial', 0), len(self._distinct))
        cov = dict(self.cov)
        cov['samples'] = list(cov['samples']) + self._auto_samples
        cov.update(self.extra)
        cov['known_findings_hit'] = self.known_hits
        cov['notes'] = self.notes
        ev = dict(property_id=self.prop, tier=self.tier, seed=self.seed, level=level, coverage=cov,
                  assumptions=self.assumptions, wall_s=round(time.time() - self.t0, 2),
                  violations=len(self.violations))
        os.makedirs(EVIDENCE_DIR, exist_ok=True)
        with open(os.path.join(EVIDENCE_DIR, self.prop + '.json'), 'w') as fh:
            json.dump(ev, fh, indent=1, sort_keys=True, default=str)
        if os.environ.get('VERIF_WRITE_FINDINGS'):
            self.write_findings()
        if os.environ.get('VERIF_DUMP_SAMPLES'):
            with open(os.environ['VERIF_DUMP_SAMPLES'], 'w') as fh:
                json.dump(self.known_infos, fh, default=str)
        for line in self.known_lines:
            print(line)
        for v in self.violations:
            print('VIOLATION property=%s replay=%s%s' % (
                self.prop, v['path'], '' if v['found_input'] else ' no-failing-input-found'))
        if not os.environ.get('VERIF_KEEP_BUILD'):
            shutil.rmtree(self.build, ignore_errors=True)
        print('%s %s: obligations %d/%d, evaluations %d, known findings %d, violations %d, %.1fs' % (
            self.prop, self.tier, cov['discharged'], cov['obligations'], cov['evaluations'],
            len(self.known_hits), len(self.violations), time.time() - self.t0))
        sys.exit(1 if self.violations else 0)


def sig_clause(fails):
    """Findings are tied to the failure signatures seen ('sig' = a categorical summary of the failing case computed by the oracle:
    corruption kind and field, minimal history, ...): a failure with another signature is a different violation."""
    sigs = sorted({f['sig'] for f in fails if isinstance(f, dict) and isinstance(f.get('sig'), str)})
    return ('sig in %r' % (sigs,)) if sigs else None


def infer_when(fails, passes):
    when, how = infer_when_int(fails, passes)
    sc = sig_clause(fails)
    if sc:
        return (sc if when == 'always' else '(%s) and (%s)' % (sc, when)), how + '; signatures of the failing cases'
    return when, how


def infer_when_int(fails, passes):
    """Simplest predicate over integer-valued info keys that holds on every failing sample and on no passing one."""
    if not passes:
        return 'always', 'no passing sample of this protocol was seen'
    keys = [k for k in fails[0] if all(isinstance(f.get(k), int) and not isinstance(f.get(k), bool) for f in fails)
            and all(isinstance(q.get(k), int) for q in passes)]
    for k in keys if len(fails) >= 3 and len(passes) >= 3 else []:
        lo_f = min(f[k] for f in fails)
        hi_f = max(f[k] for f in fails)
        # only natural thresholds are trusted (a power of two, or the minimum), never a sampling artefact
        if all(q[k] < lo_f for q in passes) and lo_f > 0 and lo_f & (lo_f - 1) == 0:
            return '%s >= %d' % (k, lo_f), 'threshold'
        if all(q[k] > hi_f for q in passes) and (hi_f == 0 or (hi_f + 1) & hi_f == 0):
            return '%s <= %d' % (k, hi_f), 'threshold'
    if len(fails) < 6 or len(passes) < 6:
        return 'always', 'too few samples to trust a bit predicate (coarse entry)'
    for k in keys:
        for b in range(0, 64):
            if all((f[k] >> b) & 1 for f in fails) and not any((q[k] >> b) & 1 for q in passes):
                return '(%s >> %d) & 1 == 1' % (k, b), 'bit'
            if not any((f[k] >> b) & 1 for f in fails) and all((q[k] >> b) & 1 for q in passes):
                return '(%s >> %d) & 1 == 0' % (k, b), 'bit'
    return 'always', 'operand-dependent; no simple predicate separates failing from passing samples (coarse entry)'


def _write_findings(self):
    kf = load_json(FINDINGS_FILE)
    have = {(f['property'], f['where'], f['kind']) for f in kf['findings']}
    for v in self.violations:
        where, kind = v['key']
        if not v['found_input'] or (self.prop, where, kind) in have:
            continue
        fails = self.fail_samples.get((where, kind), [])
        when, how = infer_when(fails, self.pass_samples.get(where, [])) if fails else ('always', 'no sample')
        body = json.load(open(v['path']))
        kf['findings'].append(dict(id='%s/%s/%s' % (self.prop, where, re.sub(r'\W+', '-', kind)), property=self.prop,
                                   where=where, kind=kind, when=when, when_basis=how, status='open',
                                   what='%s: %s%s' % (where, kind, '' if when == 'always' else ' when ' + when),
                                   witness=body['replay']))
        print('finding added: %s %s %s when %s' % (self.prop, where, kind, when))
    with open(FINDINGS_FILE, 'w') as fh:
        json.dump(kf, fh, indent=1)


Ctx.write_findings = _write_findings


# ---------------------------------------------------------------------- Coq
def ensure_static_build():
    """The hand-written development is built by setup_cmd; make is a no-op when it is up to date."""
    mk = os.path.join(COQ_DIR, 'Makefile')
    if not os.path.exists(mk):
        subprocess.run(['coq_makefile', '-f', '_CoqProject', '-o', 'Makefile'], cwd=COQ_DIR, check=True,
                       stdout=subprocess.DEVNULL)
    p = subprocess.run(['flock', os.path.join(COQ_DIR, '.build.lock'), 'timeout', '1800', 'make', '-j%d' % NCPU],
                       cwd=COQ_DIR, stdout=subprocess.PIPE, stderr=subprocess.STDOUT, text=True)
    if p.returncode != 0:
        sys.stdout.write(p.stdout[-4000:])
        raise RuntimeError('static Coq development does not build')


def coqc(build_dir, vfile, timeout=300, extra_q=()):
    """Compile one generated file.  Returns (ok, output)."""
    cmd = ['timeout', str(timeout), 'coqc', '-q', '-Q', THEORIES, 'PyIR', '-Q', build_dir, 'Gen']
    for d, n in extra_q:
        cmd += ['-Q', d, n]
    cmd.append(vfile)
    p = subprocess.run(cmd, cwd=build_dir, stdout=subprocess.PIPE, stderr=subprocess.STDOUT, text=True)
    return p.returncode == 0, p.stdout


def coqc_many(build_dir, vfiles, timeout=300, jobs=None):
    """Compile independent files in parallel; returns {file: (ok, output)}."""
    from concurrent.futures import ThreadPoolExecutor
    res = {}
    with ThreadPoolExecutor(max_workers=jobs or NCPU) as ex:
        futs = {f: ex.submit(coqc, build_dir, f, timeout) for f in vfiles}
        for f, fu in futs.items():
            res[f] = fu.result()
    return res


COQC_CMD = 'coqc -q -Q /verif/coq/theories PyIR -Q <build> Gen <file>.v  (each under shell timeout)'


def z(n):
    """Coq Z literal."""
    n = int(n)
    return '(%d)' % n if n < 0 else '%d' % n


def zlist(l):
    return '[' + '; '.join(z(x) for x in l) + ']'


def parse_assumptions(out):
    """Extract the text printed by Print Assumptions from coqc output."""
    blocks = []
    cur = None
    for line in out.splitlines():
        if line.startswith('Closed under the global context'):
            blocks.append('Closed under the global context')
            cur = None
        elif line.startswith('Axioms:'):
            cur = ['Axioms:']
            blocks.append(cur)
        elif cur is not None:
            if line.strip() == '' or not (line.startswith(' ') or ':' in line):
                cur = None
            else:
                cur.append(line.rstrip())
    return ['\n'.join(b) if isinstance(b, list) else b for b in blocks]


def import_repo():
    """Import the implementation under test with its worker threads parked."""
    if REPO not in sys.path:
        sys.path.insert(0, REPO)
    first = 'pyIRDecoder' not in sys.modules
    import pyIRDecoder  # noqa
    if first:
        park_workers()
    return pyIRDecoder


def park_workers():
    """Stop the library's two worker threads (release timers / callback delivery).  Their queues then simply
    accumulate; the checks that are about them (C07, C12, C13) poll and drain them by hand under a virtual clock,
    every other check discards them.  Without this the polling threads compete with the harness for the GIL."""
    from pyIRDecoder import thread_worker
    tw, pw = thread_worker.TimerThreadWorker(), thread_worker.ProcessThreadWorker()
    tw.stop()
    pw.stop()
    return tw, pw


def drain_workers():
    from pyIRDecoder import thread_worker
    del thread_worker.TimerThreadWorker().queue[:]
    del thread_worker.ProcessThreadWorker().queue[:]


# ---------------------------------------------------------------------- model evaluation helpers
CASES_PREAMBLE = '''From Coq Require Import ZArith List Bool.
Require Coq.Strings.String.
Import ListNotations.
Open Scope Z_scope.
Set Printing Width 100000000.
Set Printing Depth 100000000.
Fixpoint zl_eqb (a b : list Z) : bool :=
  match a, b with [], [] => true | x :: a', y :: b' => Z.eqb x y && zl_eqb a' b' | _, _ => false end.
Fixpoint mism_ {A} (run : A -> list Z) (cs : list (A * list Z)) (i : Z) : list (Z * list Z) :=
  match cs with
  | [] => []
  | (a, e) :: r => let o := run a in if zl_eqb o e then mism_ run r (i + 1) else (i, o) :: mism_ run r (i + 1)
  end.
Definition mismatches {A} (run : A -> list Z) (cs : list (A * list Z)) := mism_ run cs 0.
'''


def parse_mismatches(out):
    """Parse '     = [(3, [1; 2]); ...]' printed by Eval vm_compute in mismatches ...; returns list of (index, model_output)."""
    m = re.search(r'=\s*(\[.*?\])\s*:\s*list \(Z \* list Z\)', out, re.S)
    if not m:
        return None
    txt = m.group(1)
    txt = re.sub(r'\s+', ' ', txt)
    res = []
    for mm in re.finditer(r'\(\s*(-?\d+)\s*,\s*\[([^\]]*)\]\s*\)', txt):
        idx = int(mm.group(1))
        vals = [int(x.replace('(', '').replace(')', '')) for x in mm.group(2).split(';') if x.strip()]
        res.append((idx, vals))
    return res


def run_model_cases(ctx, name, imports, run_expr, input_type, cases, shard=400, timeout=600):
    """cases: list of (coq_input_term, expected list of ints).  Evaluates `run_expr` on each input inside Coq
    (vm_compute) and returns list of (case_index, model_output) where the model disagrees with `expected`.
    Returns None if some shard failed to compile (reported by the caller)."""
    files = []
    for s in range(0, len(cases), shard):
        chunk = cases[s:s + shard]
        fn = os.path.join(ctx.build, '%s_%d.v' % (name, s // shard))
        with open(fn, 'w') as fh:
            fh.write(CASES_PREAMBLE)
            fh.write(imports + '\n')
            fh.write('Definition cases : list (%s * list Z) := [\n' % input_type)
            fh.write(';\n'.join('  (%s, %s)' % (c, zlist(e)) for c, e in chunk))
            fh.write('\n].\nEval vm_compute in mismatches (%s) cases.\n' % run_expr)
        files.append((s, fn))
    res = coqc_many(ctx.build, [f for _, f in files], timeout=timeout)
    bad = []
    for s, fn in files:
        ok, out = res[fn]
        mm = parse_mismatches(out) if ok else None
        if mm is None:
            ctx.note('model case file %s failed: %s' % (os.path.basename(fn), out[-600:]))
            return None
        bad += [(s + i, o) for i, o in mm]
    return bad


def check_props_file(ctx, name, timeout=600):
    """Re-check the static property theorems of one property in this run: Props/<name>.v is recompiled
    (against the static library) and its Print Assumptions output recorded."""
    src = os.path.join(THEORIES, 'Props', name + '.v')
    txt = open(src).read()
    dst = os.path.join(ctx.build, 'Props_' + name + '.v')
    with open(dst, 'w') as fh:
        fh.write(txt)
    ok, out = coqc(ctx.build, dst, timeout=timeout)
    thms = re.findall(r'^\s*(?:Theorem|Corollary)\s+(\w+)', txt, re.M)
    pa = parse_assumptions(out)
    for t in thms:
        ctx.obligation('PyIR.Props.%s.%s' % (name, t), ok, None if ok else out[-500:])
    ctx.extra['print_assumptions'] = dict(zip(re.findall(r'^Print Assumptions (\w+)', txt, re.M), pa))
    ctx.extra['property_theorems'] = thms
    if not ok:
        ctx.report('Props/%s.v' % name, 'proof-broken', {}, dict(theorem_file='coq/theories/Props/%s.v' % name,
                                                                   output=out[-1500:]), found_input=False)
    for block in pa:
        if block.startswith('Axioms:'):
            ctx.assumptions.append(block)
    return ok
