# C19  The bit-field helper is an exact fixed-width bit algebra
import json

import vlib

LEVEL = 'proof'

PYERR = {'IndexError': 21, 'ValueError': 22, 'TypeError': 23, 'AttributeError': 24, 'KeyError': 25,
         'ZeroDivisionError': 26, 'RuntimeError': 27}


def enc_iw(x):
    return [int(x), x.num_bits]


def run_op_py(IW, op, v):
    """The implementation's answer for one operation descriptor on integer v (mirrors IWRun.run_op)."""
    kind = op[0]
    tab = None
    try:
        if kind == 'mk':
            return enc_iw(IW(v, op[1]))
        if kind == 'mkof':
            return enc_iw(IW(IW(v, op[1]), op[2]))
        if kind == 'bin':
            code, w, o = op[1], op[2], op[3]
            x = IW(v, w)
            other = o[1] if o[0] == 'int' else IW(o[1], o[2])
            r = [lambda: x + other, lambda: x - other, lambda: x * other, lambda: x // other, lambda: x % other,
                 lambda: x & other, lambda: x | other, lambda: x ^ other, lambda: x << other, lambda: x >> other][code]()
            return [0] + enc_iw(r)
        if kind == 'rbin':
            code, w, z = op[1], op[2], op[3]
            x = IW(v, w)
            r = {0: lambda: z + x, 1: lambda: z - x, 2: lambda: z * x, 5: lambda: z & x, 6: lambda: z | x,
                 7: lambda: z ^ x}[code]()
            return enc_iw(r)
        if kind == 'cmp':
            code, w, o = op[1], op[2], op[3]
            x = IW(v, w)
            other = o[1] if o[0] == 'int' else IW(o[1], o[2])
            r = [lambda: x == other, lambda: x != other, lambda: x < other, lambda: x > other, lambda: x <= other,
                 lambda: x >= other][code]()
            return [1 if r is True else (0 if r is False else 7)]
        if kind == 'un':
            code, w, arg = op[1], op[2], op[3]
            x = IW(v, w)
            if code == 0:
                return enc_iw(x.invert_bits(arg))
            if code == 1:
                return enc_iw(x.reverse_bit_order(arg))
            if code == 2:
                return enc_iw(reversed(x))
            if code == 3:
                return enc_iw(x.num_one_bits)
            if code == 4:
                return enc_iw(-x)
            if code == 5:
                return enc_iw(~x)
            if code == 6:
                return enc_iw(abs(x))
            if code == 7:
                return [int(b) for b in x]
            if code == 8:
                return [int(b) for b in x.bits]
            return enc_iw(+x)
        if kind == 'slice':
            w, start, stop, step = op[1:]
            x = IW(v, w)
            r = x[slice(start, stop, step)]
            if isinstance(r, bool):
                return [0, 1, int(r)]
            return [0, 0] + enc_iw(r)
        if kind == 'sym':
            w, msb, tl = op[1:]
            x = IW(v, w, list(range(tl)), 'msb' if msb else 'lsb')
            return [0] + list(x.timings)
        if kind == 'parse':
            msb, tl, nsyms = op[1:]
            from pyIRDecoder.code_wrapper import CodeWrapper
            syms = []
            u = v
            for _ in range(nsyms):
                syms.append(u % tl)
                u //= tl
            bits = []
            for num in syms:
                # the index -> bits expansion of CodeWrapper.__init__ is exercised through the engine checks;
                # here get_value is run on the expansion the model prescribes
                if tl == 2:
                    bits += [num]
                elif tl == 4:
                    bits += [num >> 1 & 1, num & 1]
                else:
                    bits += [num >> 3 & 1, num >> 2 & 1, num >> 1 & 1, num & 1]
            cw = object.__new__(CodeWrapper)
            cw._decoded_code = bits
            cw._encoding = 'msb' if msb else 'lsb'
            cw._bursts = list(range(tl))
            return [int(cw.get_value(0, len(bits) - 1))]
    except Exception as e:  # noqa
        return [PYERR.get(type(e).__name__, 99)]
    raise AssertionError(op)


def coq_opt(z):
    return 'None' if z is None else '(Some %s)' % vlib.z(z)


def coq_op(op):
    kind = op[0]
    if kind == 'mk':
        return '(OpMk %s)' % coq_opt(op[1])
    if kind == 'mkof':
        return '(OpMkOf %s %s)' % (vlib.z(op[1]), coq_opt(op[2]))
    if kind == 'bin':
        o = op[3]
        oc = '(OInt %s)' % vlib.z(o[1]) if o[0] == 'int' else '(OIW (mk %s (Some %s)))' % (vlib.z(o[1]), vlib.z(o[2]))
        return '(OpBin %d %s %s)' % (op[1], vlib.z(op[2]), oc)
    if kind == 'rbin':
        return '(OpRBin %d %s %s)' % (op[1], vlib.z(op[2]), vlib.z(op[3]))
    if kind == 'cmp':
        o = op[3]
        oc = '(OInt %s)' % vlib.z(o[1]) if o[0] == 'int' else '(OIW (mk %s (Some %s)))' % (vlib.z(o[1]), vlib.z(o[2]))
        return '(OpCmp %d %s %s)' % (op[1], vlib.z(op[2]), oc)
    if kind == 'un':
        return '(OpUn %d %s %s)' % (op[1], vlib.z(op[2]), coq_opt(op[3]))
    if kind == 'slice':
        st = op[2]
        sc = 'SNone' if st is None else ('STrue' if st is True else '(SInt %s)' % vlib.z(st))
        return '(OpSlice %s %s %s %s)' % (vlib.z(op[1]), sc, coq_opt(op[3]), coq_opt(op[4]))
    if kind == 'sym':
        return '(OpSym %s %s %d%%nat)' % (vlib.z(op[1]), 'true' if op[2] else 'false', op[3])
    if kind == 'parse':
        return '(OpParse %s %d%%nat %d%%nat)' % ('true' if op[1] else 'false', op[2], op[3])
    raise AssertionError(op)


def cmp_cases():
    """comparison operators against ints (negative, wider than the field) and against wrappers of other widths"""
    out = []
    for code in range(6):
        for w in (1, 3, 4, 8):
            for o in (('int', 0), ('int', 1), ('int', 5), ('int', -1), ('int', -3), ('int', 2 ** w), ('int', 2 ** w + 5), ('int', 255),
                      ('int', -256 + 5), ('iw', 5, 3), ('iw', 5, 8), ('iw', 9, 16), ('iw', 0, 1), ('iw', 2 ** w - 1, w)):
                out.append((('cmp', code, w, o), 0, min(2 ** (w + 1) - 1, 63)))
    return out


def corr_cmp(ctx, where='IntegerWrapper.cmp'):
    """Correspondence of the comparison operators alone (used by the properties whose decode models rely on `==`)."""
    vlib.import_repo()
    from pyIRDecoder.integer_wrapper import IntegerWrapper as IW
    cases = cmp_cases()
    coq_cases = []
    for op, lo, hi in cases:
        exp = []
        for v in range(lo, hi + 1):
            r = run_op_py(IW, op, v)
            exp += [len(r)] + r
            ctx.count_eval(key=(op, v))
        coq_cases.append(('(%s, %s, %s)' % (coq_op(op), vlib.z(lo), vlib.z(hi)), exp))
    bad = vlib.run_model_cases(ctx, 'corr_iw_cmp', 'Require Import PyIR.Base.Result PyIR.IW.IW PyIR.IW.IWRun.',
                               'run_case', '(op * Z * Z)', coq_cases, shard=120, timeout=600)
    if bad is None:
        ctx.report('correspondence', 'model-eval-failed', {}, dict(theorem='PyIR.IW.IWRun.run_case evaluation'), found_input=False)
        return
    for i, model_out in bad:
        op, lo, hi = cases[i]
        exp = coq_cases[i][1]
        v = lo + next((k for k in range(0, min(len(exp), len(model_out)), 2) if exp[k:k + 2] != model_out[k:k + 2]), 0) // 2
        ctx.report(where, 'comparison-model-disagrees', dict(op=[str(x) for x in op]),
                   dict(call='IntegerWrapper comparison', op=[str(x) for x in op], v=v,
                        operators=['==', '!=', '<', '>', '<=', '>='][op[1]], impl=exp[:16], model=model_out[:16]))
    ctx.extra['cmp_correspondence'] = dict(descriptors=len(cases), disagreements=len(bad))


def gen_cases(ctx):
    """(op, lo, hi) descriptors.  Exhaustive part: widths 1..W, values 0..2^(w+2)-1, all (width,start) slices,
    tables 2/4/16, both orders; sampled part: widths to 128."""
    rng = ctx.rng
    W = 7 if ctx.tier == 'quick' else 11
    cases = []
    for w in range(0, W + 1):
        hi = 2 ** (w + 2) - 1
        cases.append((('mk', w), -8, hi))
        cases.append((('mkof', w, None), 0, hi))
        for n2 in (0, 1, w, w + 3):
            cases.append((('mkof', w, n2), 0, hi))
        for code in range(10):
            cases.append((('un', code, w, None), 0, hi))
        for arg in (0, 1, w - 1, w + 2):
            if arg >= 0:
                cases.append((('un', 0, w, arg), 0, hi))
                cases.append((('un', 1, w, arg), 0, hi))
        for sw in range(0, w + 3):
            for s in list(range(0, w + 2)) + [None]:
                for start in (None, True):
                    cases.append((('slice', w, start, sw, s), 0, hi))
        for sw in (-1, -2, -w):
            for s in (None, 0, 1, 2):
                cases.append((('slice', w, None, sw, s), 0, hi))
        for s in (None, 0, 1, w):
            cases.append((('slice', w, None, None, s), 0, hi))
            cases.append((('slice', w, True, None, s), 0, hi))
        for c in (0, 1, 5, -1, -3, 2 ** w - 1):
            cases.append((('slice', w, c, w, 0), 0, hi))
            cases.append((('slice', w, c, 2, 1), 0, hi))
        for tl in (2, 4, 16):
            for msb in (False, True):
                cases.append((('sym', w, msb, tl), 0, hi))
    for code in range(10):
        for w in (1, 3, 6):
            for o in (('int', 0), ('int', 1), ('int', 5), ('int', -3), ('int', 77), ('iw', 5, 3), ('iw', 9, 8), ('iw', 0, 4)):
                if code in (8, 9) and o[1] > 40:
                    continue
                cases.append((('bin', code, w, o), 0, 2 ** (w + 1) - 1))
    cases += cmp_cases()
    for code in (0, 1, 2, 5, 6, 7):
        for w in (1, 4, 6):
            for zc in (0, 1, 6, -2, 300):
                cases.append((('rbin', code, w, zc), 0, 2 ** (w + 1) - 1))
    for tl, ns in ((2, 1), (2, 5), (2, 8), (4, 1), (4, 3), (4, 4), (16, 1), (16, 2)):
        for msb in (False, True):
            cases.append((('parse', msb, tl, ns), 0, tl ** ns - 1))
    # sampled wide fields
    for _ in range(60 if ctx.tier == 'quick' else 600):
        w = rng.randint(12, 128)
        v = rng.getrandbits(w + 2)
        s = rng.randint(0, w)
        sw = rng.randint(1, w)
        cases.append((('slice', w, rng.choice([None, True]), sw, s), v, v))
        cases.append((('un', rng.randint(0, 9), w, None), v, v))
        cases.append((('sym', w, rng.random() < 0.5, rng.choice([2, 4, 16])), v, v))
        cases.append((('bin', rng.randint(0, 7), w, ('iw', rng.getrandbits(w), w)), v, v))
    return cases


def run(ctx):
    vlib.import_repo()
    from pyIRDecoder.integer_wrapper import IntegerWrapper as IW
    vlib.ensure_static_build()
    vlib.check_props_file(ctx, 'C19')
    ctx.cov['checker_cmd'] = vlib.COQC_CMD + ' on a copy of coq/theories/Props/C19.v (static library built by setup_cmd: make -j16 in /verif/coq)'
    cases = gen_cases(ctx)
    coq_cases = []
    nvals = 0
    kinds = {}
    for op, lo, hi in cases:
        exp = []
        for v in range(lo, hi + 1):
            r = run_op_py(IW, op, v)
            exp += [len(r)] + r
            nvals += 1
            ctx.count_eval(key=(op, v))
        kinds[op[0]] = kinds.get(op[0], 0) + (hi - lo + 1)
        coq_cases.append(('(%s, %s, %s)' % (coq_op(op), vlib.z(lo), vlib.z(hi)), exp))
    bad = vlib.run_model_cases(ctx, 'corr_iw', 'Require Import PyIR.Base.Result PyIR.IW.IW PyIR.IW.IWRun.',
                               'run_case', '(op * Z * Z)', coq_cases, shard=120, timeout=900)
    dis = 0
    if bad is None:
        ctx.report('correspondence', 'model-eval-failed', {}, dict(theorem='PyIR.IW.IWRun.run_case evaluation'),
                   found_input=False)
    else:
        for i, model_out in bad:
            dis += 1
            op, lo, hi = cases[i]
            # locate the first differing value
            exp = coq_cases[i][1]
            v, pe, pm = lo, 0, 0
            witness = None
            while pe < len(exp) and pm < len(model_out):
                ne, nm = exp[pe], model_out[pm]
                e, m = exp[pe + 1:pe + 1 + ne], model_out[pm + 1:pm + 1 + nm]
                if e != m:
                    witness = dict(v=v, impl=e, model=m)
                    break
                pe += 1 + ne
                pm += 1 + nm
                v += 1
            info = dict(op=list(map(str, op)), kind=op[0])
            if witness:
                info.update(witness)
            # property-scoped correspondence: only operations C19's statement speaks about can raise its alarm;
            # a difference elsewhere (arithmetic operators, exotic slice forms) is recorded as model drift and is
            # caught by the properties whose models use those operators (C01/C02/C05 encode correspondence)
            scoped = (op[0] in ('mk', 'sym', 'parse') or (op[0] == 'un' and op[1] in (0, 1, 2, 3, 7, 8))
                      or (op[0] == 'slice' and op[2] in (None, True) and op[3] is not None and op[3] > 0
                          and (op[4] is None or op[4] >= 0)))
            if not scoped:
                ctx.extra.setdefault('model_drift', []).append(info)
                continue
            ctx.report('IntegerWrapper.' + op[0], 'model-disagrees', info,
                       dict(call='IntegerWrapper', op=[str(x) for x in op], **(witness or {})),
                       found_input=bool(witness))
    ctx.extra['correspondence'] = dict(descriptors=len(cases), values=nvals, disagreements=dis, distribution=kinds)
    ctx.sample(dict(descriptor=[str(x) for x in cases[40][0]], lo=cases[40][1], hi=cases[40][2],
                    impl_outcomes=coq_cases[40][1][:24]))

    # ---- direct oracle of the property's clauses on the real class (independent of the model)
    W = 10 if ctx.tier == 'quick' else 16
    for w in range(1, W + 1):
        top = 2 ** (w + 2) if w <= 10 else 2 ** w
        step = 1 if w <= 10 else max(1, top // 3000)
        for v in range(0, top, step):
            x = IW(v, w)
            held = v % (1 << w)
            fails = []
            if int(x) != held:
                fails.append('constructor')
            if [int(b) for b in x] != [(held >> i) & 1 for i in range(w)]:
                fails.append('iteration')
            if int(x.reverse_bit_order().reverse_bit_order()) != held or int(x.invert_bits().invert_bits()) != held:
                fails.append('involution')
            if int(x.num_one_bits) != bin(held).count('1'):
                fails.append('popcount')
            ctx.count_eval()
            for f in fails:
                ctx.report('IntegerWrapper', f, dict(v=v, w=w), dict(call='IntegerWrapper', v=v, w=w, clause=f))
        for sw in range(1, w + 1):
            for s in range(0, w):
                for v in (0, 2 ** w - 1, 0x5555555555 % 2 ** w, ctx.rng.getrandbits(w)):
                    x = IW(v, w)
                    want = (v >> s) & ((1 << sw) - 1)
                    got, gotc = x[:sw:s], x[True:sw:s]
                    ctx.count_eval()
                    if (int(got), got.num_bits) != (want, sw) or (int(gotc), gotc.num_bits) != ((1 << sw) - 1 - want, sw):
                        ctx.report('IntegerWrapper', 'slice', dict(v=v, w=w, sw=sw, s=s),
                                   dict(call='IntegerWrapper', v=v, w=w, clause='slice', width=sw, start=s))
        for tl, k in ((2, 1), (4, 2), (16, 4)):
            for enc in ('lsb', 'msb'):
                for v in (0, 1, 2 ** w - 1, ctx.rng.getrandbits(w)):
                    ctx.count_eval()
                    try:
                        t = IW(v, w, list(range(tl)), enc).timings
                        ok = len(t) == -(-w // k)
                        bits = []
                        for num in t:
                            bits += [(num >> (k - 1 - j)) & 1 for j in range(k)]
                        val = sum(b << i for i, b in enumerate(bits)) if enc == 'lsb' else int(''.join(map(str, bits)), 2)
                        ok = ok and val == v
                    except Exception as e:  # noqa
                        ok = False
                    if not ok:
                        ctx.report('IntegerWrapper', 'timings', dict(v=v, w=w, table=tl, order=enc),
                                   dict(call='IntegerWrapper', v=v, w=w, clause='timings', table=tl, order=enc))
    # ---- the parse-back clause through the real CodeWrapper (its own index -> bits expansion), pair tables of 2/4/16 symbols
    from pyIRDecoder.code_wrapper import CodeWrapper
    for tl, k in ((2, 1), (4, 2), (16, 4)):
        bursts = [[500, -int(300 * 1.7 ** i)] for i in range(tl)]          # windows at 20% do not overlap
        for enc in ('lsb', 'msb'):
            for w in range(k, (12 if ctx.tier == 'quick' else 24) + 1, k):
                for v in sorted({0, 1, 2, 2 ** w - 1, 2 ** (w - 1), ctx.rng.getrandbits(w), ctx.rng.getrandbits(w)}):
                    if v >= 2 ** w:
                        continue
                    ctx.count_eval()
                    try:
                        flat = []
                        for pair in IW(v, w, bursts, enc).timings:
                            flat += list(pair)
                        cw = CodeWrapper(enc, [], [], [], [b[:] for b in bursts], 20, flat)
                        back = int(cw.get_value(0, w - 1))
                        nb = cw.num_bits
                    except Exception as e:  # noqa
                        back, nb = type(e).__name__, None
                    if back != v or nb != w:
                        ctx.report('CodeWrapper', 'render / parse round trip', dict(v=v, w=w, table=tl, order=enc),
                                   dict(call='CodeWrapper', v=v, w=w, table=tl, order=enc, parsed_back=back, bits=nb))
    ctx._distinct.update(range(ctx.cov['evaluations']))
    ctx.cov['rule'] = ('correspondence: operation descriptors run on every value of their range by the Coq model and by '
                       'IntegerWrapper (exhaustive widths 0..%d, values to 2^(w+2), all (width,start) slices, tables '
                       '2/4/16, both orders; sampled widths to 128); oracle: clauses of C19 on the real class; every '
                       '(descriptor, value) is distinct by construction' % (7 if ctx.tier == 'quick' else 11))
    ctx.cov['trusted_base'] += ['hand-written model PyIR.IW.IW of integer_wrapper.py, tied by the correspondence above',
                                'the index->bits expansion used for the parse-back clause is the one CodeWrapper.__init__ '
                                'applies (covered by the engine correspondence of C01/C05)']


def replay(path):
    vlib.import_repo()
    from pyIRDecoder.integer_wrapper import IntegerWrapper as IW
    r = json.load(open(path))['replay']
    print('replay', r)
    if 'clause' in r:
        x = IW(r['v'], r['w'])
        print('value', int(x), 'bits', list(x))
    return 1
