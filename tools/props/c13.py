# C13  Streaming decode does not depend on how the timing stream is chunked
import json

import dispatch_run as dr
import engine
import gen_inputs
import protoinfo
import vlib

LEVEL = 'proof'


class OneShot(object):
    """stop_event stand-in: lets DecodeThread.run() execute exactly one loop iteration."""
    def __init__(self):
        self.n = 0

    def is_set(self):
        self.n += 1
        return self.n > 1

    def set(self):
        pass

    def clear(self):
        pass


class AlwaysSet(object):
    """buffer_event stand-in: 'a chunk has arrived' (never the idle timeout)."""
    def wait(self, timeout=None):
        return True

    def is_set(self):
        return True

    def set(self):
        pass

    def clear(self):
        pass


class Stream(object):
    def __init__(self, d):
        from pyIRDecoder import protocols
        self.d = d
        self.th = protocols._original_module.DecodeThread(d.mod) if hasattr(protocols, '_original_module') else None
        self.th.buffer_event = AlwaysSet()
        self.log = []          # (candidate, truthy) of every dispatcher call made by the thread
        self.codes = []        # identity of every code handed to the bound callback, in order
        orig = d.mod._decode

        def logged(data, frequency, _orig=orig):
            r = _orig(data, frequency)
            self.log.append((list(data), bool(r)))
            return r
        self.th.decoder = type('D', (), {'_decode': staticmethod(logged),
                                         '_decode_universal': staticmethod(lambda rlc, f: False)})()
        d.mod._decode_callback = lambda code: self.codes.append(d.code_key(code))

    def append(self, chunk, freq):
        # through the public entry point (its input normalisation included); the thread object is ours, so it is never started
        self.d.mod._decode_thread = self.th
        try:
            self.d.mod.stream_decode(list(chunk), freq)
        finally:
            self.d.mod._decode_thread = None

    def wake(self):
        self.th.stop_event = OneShot()
        self.th.run()
        # deliver the queued decode callbacks in order
        from pyIRDecoder import ir_code
        pw = ir_code._process_thread_worker
        while pw.queue:
            func, args = pw.queue.pop(0)
            try:
                func(*args)
            except Exception:  # noqa
                pass

    def pending(self):
        out = []
        for b, f in self.th.buffer:
            out += list(b)
        return out


def run_ops(d, enabled, freq, ops):
    """ops: ('append', chunk) | ('wake',).  Returns (codes, log, pending, error)."""
    d.reset()
    d.set_enabled(enabled)
    st = Stream(d)
    err = None
    try:
        for op in ops:
            if op[0] == 'append':
                st.append(op[1], freq)
            else:
                st.wake()
    except Exception as e:  # noqa
        err = type(e).__name__
    codes, log, pend = list(st.codes), list(st.log), st.pending()
    d.reset()
    return codes, log, pend, err


def chunkings(stream, rng, n):
    """Cut-point sets: one duration at a time, inside frames, at frame boundaries, random."""
    L = len(stream)
    outs = [[1] * L]
    for _ in range(n):
        k = rng.randint(1, min(6, L))
        cuts = sorted(rng.sample(range(1, L), min(k, L - 1))) if L > 1 else []
        sizes, prev = [], 0
        for c in cuts + [L]:
            sizes.append(c - prev)
            prev = c
        outs.append(sizes)
    return outs


def ops_for(stream, sizes, rng, wake_mode):
    ops, i = [], 0
    for s in sizes:
        ops.append(('append', stream[i:i + s]))
        i += s
        if wake_mode == 'each' or (wake_mode == 'random' and rng.random() < 0.5):
            ops.append(('wake',))
    ops.append(('wake',))
    return ops


def coq_ops(ops):
    return '[' + '; '.join('(Append %s)' % vlib.zlist(o[1]) if o[0] == 'append' else 'Wake' for o in ops) + ']'


class FlagEvent(object):
    """threading.Event without blocking: wait() reports the flag."""
    def __init__(self):
        self.flag = False

    def set(self):
        self.flag = True

    def clear(self):
        self.flag = False

    def is_set(self):
        return self.flag

    def wait(self, timeout=None):
        return self.flag


def busy_append_check(ctx, d, protos):
    """A chunk handed over while the worker is inside a pass (here: from within its dispatcher call) must be decoded by a later
    pass: the wake-up flag may not be lost."""
    rng = ctx.rng
    for p in protos:
        k = dr.key_frames(p, rng)
        k2 = dr.key_frames(p, rng)
        if not k or not k2:
            continue
        A, B = list(k[1][0]), list(k2[1][0])
        if len(A) < 6 or len(B) < 6 or A[-1] > -2000 or B[-1] > -2000 or len(A) + len(B) > 400:
            continue
        freq = p['frequency']
        whole = run_ops(d, {p['name']}, freq, [('append', A + B), ('wake',)])
        if whole[3] is not None or len(whole[0]) < 2:
            continue                      # the one-shot feeding does not deliver both keys: nothing to compare with
        d.reset()
        d.set_enabled({p['name']})
        st = Stream(d)
        ev = FlagEvent()
        st.th.buffer_event = ev
        fired = []
        inner = st.th.decoder._decode

        def during(data, frequency, _inner=inner):
            if not fired:
                fired.append(1)
                st.th.append(list(B), freq)           # the producer delivers the next chunk right now
            return _inner(data, frequency)
        st.th.decoder = type('D', (), {'_decode': staticmethod(during), '_decode_universal': staticmethod(lambda rlc, f: False)})()
        err = None
        passes = 0
        try:
            st.th.append(list(A), freq)
            while ev.is_set() and passes < 10:
                passes += 1
                st.wake()
        except Exception as e:  # noqa
            err = type(e).__name__
        codes = list(st.codes)
        pending = st.pending()
        d.reset()
        ctx.count_eval(key=('busy-append', p['name'], tuple(A[:6]), tuple(B[:6])))
        if err is None and codes != whole[0]:
            ctx.report(p['name'], 'chunk appended while the worker is busy is not decoded', dict(passes=passes),
                       dict(protocol=p['name'], first=A, second=B, delivered=codes, expected=whole[0], left_in_buffer=pending,
                            wake_flag_set=ev.is_set()))


def run(ctx):
    vlib.import_repo()
    vlib.ensure_static_build()
    vlib.check_props_file(ctx, 'C13')
    d = dr.disp()
    rng = ctx.rng
    ps = protoinfo.all_protocols()
    nproto = 173
    nchunk = 2 if ctx.tier == 'quick' else 25
    cases, meta = [], []
    nruns = 0
    for p in (rng.sample(ps, nproto) if nproto < len(ps) else ps):
        k = dr.key_frames(p, rng)
        if not k:
            continue
        k2 = dr.key_frames(p, rng)
        frames = k[1][:2] + (k2[1][:1] if k2 else [])
        stream = [x for f in frames for x in f]
        if len(stream) > 400:
            continue
        enabled = {p['name']}
        freq = p['frequency']
        whole = run_ops(d, enabled, freq, [('append', stream), ('wake',)])
        nruns += 1
        if whole[3] is not None:
            ctx.report(p['name'], 'streaming thread dies: ' + whole[3], dict(chunks=1),
                       dict(protocol=p['name'], stream=stream, ops=[['append', stream], ['wake']]))
            continue
        cases.append(('(%s, %s)' % ('[' + '; '.join('(%s, %s)' % (vlib.zlist(c), 'true' if ok else 'false') for c, ok in whole[1]) + ']',
                                     coq_ops([('append', stream), ('wake',)])),
                      [y for c, ok in whole[1] if ok for y in [len(c)] + c] + [-1] + whole[2] + [-1, 0]))
        meta.append((p['name'], 'whole', stream, [('append', stream), ('wake',)]))
        for sizes in chunkings(stream, rng, nchunk):
            for wake_mode in ('each', 'random', 'end'):
                ops = ops_for(stream, sizes, rng, wake_mode)
                got = run_ops(d, enabled, freq, ops)
                nruns += 1
                ctx.count_eval(key=(p['name'], tuple(sizes), wake_mode))
                if got[3] is not None:
                    ctx.report(p['name'], 'streaming thread dies: ' + got[3], dict(chunks=len(sizes)),
                               dict(protocol=p['name'], stream=stream, ops=[list(o) for o in ops]))
                elif got[0] != whole[0]:
                    ctx.report(p['name'], 'chunked feeding delivers other codes', dict(chunks=len(sizes), wake=wake_mode),
                               dict(protocol=p['name'], stream=stream, ops=[list(o) for o in ops],
                                    whole_codes=whole[0], chunked_codes=got[0]))
                else:
                    ctx.passed(p['name'], dict(chunks=len(sizes), wake=wake_mode))
                if got[3] is None and len(cases) < (300 if ctx.tier == 'quick' else 3000):
                    cases.append(('(%s, %s)' % ('[' + '; '.join('(%s, %s)' % (vlib.zlist(c), 'true' if ok else 'false')
                                                                  for c, ok in got[1]) + ']', coq_ops(ops)),
                                  [y for c, ok in got[1] if ok for y in [len(c)] + c] + [-1] + got[2] + [-1, 0]))
                    meta.append((p['name'], wake_mode, stream, ops))
    busy = ps if ctx.tier != 'quick' else rng.sample(ps, 30)
    busy_append_check(ctx, d, busy)
    bad = vlib.run_model_cases(ctx, 'corr_stream', 'Require Import PyIR.Ctl.Stream.', 'run_stream', '(SLOG * list sop)',
                               cases, shard=60, timeout=900)
    if bad is None:
        ctx.report('correspondence', 'model-eval-failed', {}, dict(theorem='PyIR.Ctl.Stream.run_stream evaluation'), found_input=False)
        bad = []
    for i, o in bad:
        ctx.report('DecodeThread', 'model-disagrees', dict(protocol=meta[i][0]),
                   dict(protocol=meta[i][0], stream=meta[i][2], ops=[list(x) for x in meta[i][3]], impl=cases[i][1][:80], model=o[:80]))
    ctx.extra['correspondence'] = dict(cases=len(cases), disagreements=len(bad))
    ctx.extra['search'] = dict(runs=nruns)
    if meta:
        ctx.sample(dict(protocol=meta[-1][0], ops=[list(x) if x[0] == 'wake' else ['append', len(x[1])] for x in meta[-1][3]]))
    ctx.cov['checker_cmd'] = vlib.COQC_CMD + ' on a copy of coq/theories/Props/C13.v'
    ctx.cov['rule'] = ('streams = frame sequences (two frames of one key + one of another) of sampled protocols, cut one '
                       'duration at a time / at random cut sets, wake after every chunk / at random / only at the end; the '
                       'real DecodeThread.run body is executed one iteration at a time; distinct = (protocol, cut set, wake mode)')
    ctx.cov['trusted_base'] += ['hand-written model PyIR.Ctl.Stream of DecodeThread.run/append (one carrier, no idle timeout), '
                                'tied by trace-oracle correspondence',
                                'the thread is driven by the harness (stand-in events); real scheduling is not exercised']
    ctx.assumptions.append('partial: the theorem assumes a rejected candidate leaves dispatcher and decoder state unchanged; '
                           'the search runs the real, stateful dispatcher')


def replay(path):
    vlib.import_repo()
    r = json.load(open(path))['replay']
    if 'ops' not in r:
        print(r)
        return 1
    d = dr.disp()
    p = protoinfo.by_name()[r['protocol']]
    whole = run_ops(d, {p['name']}, p['frequency'], [('append', r['stream']), ('wake',)])
    got = run_ops(d, {p['name']}, p['frequency'], [tuple(o) for o in r['ops']])
    print('whole  :', whole[0], whole[3])
    print('chunked:', got[0], got[3])
    return 1 if got[0] != whole[0] or got[3] else 0
