# C01  Encode then decode returns the parameters that were encoded
import json

import engine
import gen_inputs
import perproto
import protocorr
import protoinfo
import protomodel
import tracer
import vlib

LEVEL = 'proof'
PROP = 'C01'
TOLS = (20,)

OBL_HEADER = '''From Coq Require Import ZArith List Bool String Lia.
Require Import PyIR.Base.Result PyIR.IW.IW PyIR.IW.IWProps PyIR.Engine.Render PyIR.Engine.Parse
               PyIR.Proto.Descriptor PyIR.Proto.Model PyIR.Proto.RoundTrip PyIR.Proto.C01.
Require Import Gen.Tables Gen.P_%s.
Import ListNotations.
Open Scope Z_scope.
'''


def subst_fields(e, env):
    """Replace ('field', name, w) by the encoder's expression for that field."""
    if isinstance(e, tuple):
        if e and e[0] == 'field':
            return env[e[1]]
        return tuple(subst_fields(x, env) for x in e)
    return e


def first_packet(m):
    """(fields, reason): the field expressions of the first frame of encode(repeat_count=0) when that frame is one
    plain _build_packet call on the protocol's own tables and encode has a single path."""
    t = m['enc'][0].get('tree')
    if t is None or t[0] != 'leaf':
        return None, 'encode has several paths (first frame depends on conditions)'
    leaf = t[1]
    if 'frames' not in leaf or not leaf['frames']:
        return None, 'encode raises on its only path'
    f0 = leaf['frames'][0]
    if len(f0) != 1 or f0[0][0] != 'packet':
        return None, 'first frame is not a single _build_packet result'
    pk = f0[0][1]
    if pk['positional']:
        return None, 'first frame uses positional items'
    return pk, None


def gen_obligation_for(tols):
    def gen(e):
        p, m = e['p'], e['model']
        name = p['name']
        if not e['compiled']:
            return None, e['why']
        if not engine.modelled_C(p):
            return None, 'engine class %s%s not in the proved fragment' % (p['eclass'], ' with middle timings' if p['middle'] else '')
        if m['status'].get('encode') != 'ok':
            return None, m['status'].get('encode')
        if m['status'].get('decode') != 'ok':
            return None, m['status'].get('decode')
        if not m['dec'].get('complete'):
            return None, 'more decode paths than the translator explores'
        pk, why = first_packet(m)
        if pk is None:
            return None, why
        if (pk['lead_in'], pk['lead_out'], pk['bursts']) != (p['lead_in'], p['lead_out'], p['bursts']) or \
                pk['encoding'] != p['encoding']:
            return None, 'packet built on other tables than the class tables'
        fields = dict(pk['fields'])
        order = [x[0] for x in p['parameters']]
        if [k for k, _ in pk['fields']] != order:
            return None, 'encode supplies fields %s, _parameters declares %s' % ([k for k, _ in pk['fields']], order)
        for nm, start, stop in p['parameters']:
            w = tracer.static_nbits(fields[nm])
            if w is None:
                return None, 'inconclusive: width of field %s depends on its value' % nm
            if w != stop - start + 1:
                return None, 'inconclusive: field %s rendered with %d bits, declared %d' % (nm, w, stop - start + 1)
        # reported parameters
        attr = m['attr']
        rep = []
        hyps = []
        for arg, lo, hi in p['encode_parameters']:
            hyps.append('%s <= a_%s <= %s' % (vlib.z(lo), arg, vlib.z(hi)))
            if arg not in attr:
                return None, 'inconclusive: encode parameter %s is not readable from the decoded code' % arg
            fe = fields[attr[arg]]
            if not (fe[0] == 'mk' and fe[1] == ('arg', arg)):
                return None, 'inconclusive: field %s is not the plain parameter %s' % (attr[arg], arg)
            w = fe[2]
            if lo < 0 or hi >= (1 << w):
                return None, 'refuted: range %d..%d of %s does not fit its %d-bit field' % (lo, hi, arg, w)
            rep.append((arg, attr[arg]))
        args = ' '.join('a_' + x[0] for x in p['encode_parameters'])
        binder = '(%s : Z)' % args if args else ''
        xs = '[%s]' % '; '.join(protomodel.ciw(fields[nm]) for nm in order)
        xargs = ' '.join('(%s)' % protomodel.ciw(fields[nm]) for nm in order)
        out = [OBL_HEADER % name]
        out.append('Definition xs %s : list iw := %s.\n' % (binder, xs))
        for tol in tols:
            out.append('Lemma rt%d : rt_ok D_%s %d = true.\nProof. vm_compute. reflexivity. Qed.\n' % (tol, name, tol))
        hyp = ' -> '.join(hyps) + ' ->' if hyps else ''
        reported = ' /\\ '.join('value (%s) = a_%s' % (protomodel.ciw(fields[f]), a) for a, f in rep) or 'True'
        out.append('''Lemma fields_canonical : forall %s, %s Forall canonical (xs %s).
Proof. intros. unfold xs. canon_tac. Qed.
Lemma fields_widths : forall %s, map nbits (xs %s) = widths (d_params D_%s).
Proof. intros. reflexivity. Qed.
''' % (binder or '(_ : unit)', hyp, args, binder or '(_ : unit)', args, name))
        stmts = []
        for tol in tols:
            stmts.append('''  (forall frame ds,
     render_part (PPacket (d_lead_in D_%s) (d_lead_out D_%s) (d_bursts D_%s) (d_msb D_%s) [] (xs %s)) = Ok frame ->
     perturbed %d (period_of D_%s) frame ds ->
     exists t, as_pairs (d_bursts D_%s) = Some t /\\ base_decode D_%s t %d ds = Ok (xs %s))''' % (
                name, name, name, name, args, tol, name, name, name, tol, args))
        out.append('''(* every in-range assignment: the first frame of encode() is the packet of the fields xs; that frame - exact, or
   with every duration off by up to tolerance/4 and the period kept - decodes on a fresh instance to exactly xs; the
   protocol's own checks accept it; every encode parameter is reported unchanged *)
Theorem C01_%s : forall %s, %s
  (exists rest ps, tree_eval (enc_%s_0 %s) =
     EncFrames ([PPacket (d_lead_in D_%s) (d_lead_out D_%s) (d_bursts D_%s) (d_msb D_%s) [] (xs %s)] :: rest) ps) /\\
  (exists frame, render_part (PPacket (d_lead_in D_%s) (d_lead_out D_%s) (d_bursts D_%s) (d_msb D_%s) [] (xs %s)) = Ok frame) /\\
%s /\\
  (exists ov, tree_eval (dec_%s %s) = DecOk ov /\\ %s) /\\
  (%s).
Proof.
  intros.
  split; [eexists; eexists; reflexivity|].
  split; [apply (c01_generic D_%s %d (xs %s) rt%d); [apply fields_canonical; assumption|apply fields_widths]|].
%s
  split; [eexists; split; [unfold dec_%s; dec_tac; reflexivity|%s]|].
  repeat split; apply mk_value_small; lia.
Qed.
Print Assumptions C01_%s.
''' % (name, binder or '(_ : unit)', hyp, name, args, name, name, name, name, args,
       name, name, name, name, args,
       ' /\\\n'.join(stmts),
       name, xargs,
       'True' if True else '',
       reported,
       name, tols[0], args, tols[0],
       '\n'.join('  split; [apply (c01_generic D_%s %d (xs %s) rt%d); [apply fields_canonical; assumption|apply fields_widths]|].'
                 % (name, tol, args, tol) for tol in tols),
       name, 'exact I',
       name))
        if not rep:
            out[-1] = out[-1].replace('  repeat split; apply mk_value_small; lia.\n', '  exact I.\n')
        return '\n'.join(out), None
    return gen


def decode_first_group(p, frames):
    """Feed the frames in order to a fresh decoder until one yields a code.  Returns (code|None, last error name)."""
    from pyIRDecoder import IRException
    inst = p['cls']()
    err = None
    try:
        for fr in frames:
            try:
                return inst.decode(list(fr), p['frequency']), None
            except IRException as e:
                err = type(e).__name__
                continue
            except Exception as e:  # noqa
                return None, 'EXC:' + type(e).__name__
        return None, err
    finally:
        vlib.drain_workers()


def search(ctx, protos, per, exhaustive_limit):
    hits = {}
    for p in protos:
        name = p['name']
        for a in gen_inputs.param_assignments(p, ctx.rng, per, exhaustive_limit):
            ctx.count_eval(key=(name, tuple(sorted(a.items()))))
            c, e = engine.fresh_encode(p, a)
            if c is None:
                if type(e).__name__ == 'EncodeError':
                    continue
                kind = 'encode raises ' + type(e).__name__
                detail = dict(error=repr(e)[:160])
            else:
                with engine.class_guard(p['cls']):
                    got, err = decode_first_group(p, c.normalized_rlc)
                if got is None:
                    # one defect class per protocol: the decoder rejects the encoder's own frames (the error kind varies with
                    # the operands and is kept in the replay)
                    kind = 'undecodable'
                    detail = dict(frames=c.normalized_rlc[:2], error=str(err))
                else:
                    bad = []
                    for k, v in a.items():
                        try:
                            g = getattr(got, k)
                            if g is None or int(g) != v:
                                bad.append((k, v, None if g is None else int(g)))
                        except Exception as e2:  # noqa
                            bad.append((k, v, 'raises ' + type(e2).__name__))
                    if not bad:
                        ctx.passed(name, dict(a))
                        continue
                    kind = 'reports other parameters'
                    detail = dict(mismatch=bad, frames=c.normalized_rlc[:1])
            hits[name] = True
            # signature of the failure: the error that rejects the frame / the parameters that come back wrong
            if kind == 'undecodable':
                sg = 'err:' + str(detail.get('error'))
            elif kind == 'reports other parameters':
                sg = 'wrong:' + ','.join(sorted({str(b[0]) for b in detail.get('mismatch', [])}))
            else:
                sg = kind
            ctx.report(name, kind, dict(a, sig=sg), dict(protocol=name, params=a, **detail))
    return hits


# ---------------------------------------------------------------------- C01 by exhaustion of a small parameter space
X_HEADER = '''From Coq Require Import ZArith List Bool Lia String.
Require Import PyIR.Base.Result PyIR.IW.IW PyIR.Engine.Render PyIR.Engine.Parse PyIR.Engine.ParseM PyIR.Engine.ParseMD PyIR.Engine.ParseHT
               PyIR.Engine.ParseMT PyIR.Engine.ParseB PyIR.Proto.Descriptor PyIR.Proto.Model PyIR.Proto.Exhaustive.
Require Import Gen.Tables Gen.P_%s.
Import ListNotations.
Open Scope Z_scope.
Open Scope string_scope.
'''


def engine_parse_expr(p):
    """Gallina term of type list Z -> result parsed: the engine model of the protocol's engine class on its class tables."""
    name = p['name']
    li, lo = '(d_lead_in D_%s)' % name, '(d_lead_out D_%s)' % name
    if engine.modelled_MD(p):
        md = p['middle'][0]
        return 'parseMD 20 %s %s %s {| md_start := %s; md_stop := %s; md_bursts := %s |}' % (
            li, lo, engine.coq_ptable(p['bursts']), vlib.z(md['start']), vlib.z(md['stop']), engine.coq_ptable(md['bursts']))
    if engine.modelled_HT(p):
        return 'parseHT 20 %s %s %s %s' % (li, lo, engine.coq_ptable(p['middle']), engine.coq_ptable(p['bursts']))
    if engine.modelled_MT(p):
        return 'parseMT 20 %s %s (map mk_mid %s) %s' % (li, lo, engine.coq_mids(p['middle']), engine.coq_ptable(p['bursts']))
    if engine.modelled_B(p):
        return 'parseB 20 %s %s (%s) (%s)' % (li, lo, vlib.z(p['bursts'][0]), vlib.z(p['bursts'][1]))
    if engine.modelled_C(p):
        return 'parseC 20 %s %s %s' % (li, lo, engine.coq_ptable(p['bursts']))
    return None


def gen_exhaustive(limit):
    def gen(e):
        p, m = e['p'], e['model']
        name = p['name']
        if not e['compiled']:
            return None, e['why']
        eps = p['encode_parameters']
        space = 1
        for _, lo, hi in eps:
            space *= (hi - lo + 1)
        if not eps or space > limit:
            return None, 'parameter space of %d assignments is above the bound %d of this tier' % (space, limit)
        if m['status'].get('encode') != 'ok':
            return None, m['status'].get('encode')
        if m['status'].get('decode') != 'ok':
            return None, m['status'].get('decode')
        parse = engine_parse_expr(p)
        if parse is None:
            return None, 'no engine model for this class of tables'
        attr = m['attr']
        if any(a not in attr for a, _, _ in eps):
            return None, 'an encode parameter is not readable from a decoded field'
        order = [x[0] for x in p['parameters']]
        if not order or any(attr[a] not in order for a, _, _ in eps):
            return None, 'a reported field is not in _parameters'
        args = ' '.join('a_' + a for a, _, _ in eps)
        fl = ' '.join('f_' + n for n in order)
        names = '[' + '; '.join('"%s"' % n for n in order) + ']'
        flds = '[' + '; '.join('f_' + n for n in order) + ']'
        rep = ' && '.join('opt_eqb (reported "%s" %s %s m) a_%s' % (attr[a], names, flds, a) for a, _, _ in eps)
        ranges = '[' + '; '.join('(%s, %s)' % (vlib.z(lo), vlib.z(hi)) for _, lo, hi in eps) + ']'
        hyps = ' -> '.join('%s <= a_%s <= %s' % (vlib.z(lo), a, vlib.z(hi)) for a, lo, hi in eps)
        txt = X_HEADER % name + '''
(* the whole round trip of one assignment, on the models: first frame of encode(repeat_count=0) -> engine model on the class tables
   -> bit-count guard and field extraction of IrProtocolBase.decode -> the protocol's own decode checks -> every encode parameter read
   back from the decoded code equals the encoded one *)
Definition rt_%(n)s (args : list Z) : bool :=
  match args with
  | [%(argl)s] =>
      match first_frame (tree_eval (enc_%(n)s_0 %(args)s)) with
      | Ok frame =>
          match base_decode_with (%(parse)s) D_%(n)s frame with
          | Ok %(flds)s => let m := tree_eval (dec_%(n)s %(fl)s) in %(rep)s
          | _ => false
          end
      | _ => false
      end
  | _ => false
  end.

(* every one of the %(space)d in-range assignments, evaluated by the kernel *)
Theorem C01X_%(n)s : forall %(args)s, %(hyps)s -> rt_%(n)s [%(argl)s] = true.
Proof.
  intros. apply (exhaustive_sound rt_%(n)s %(ranges)s); [vm_compute; reflexivity|repeat constructor; cbn [fst snd]; lia].
Qed.
Print Assumptions C01X_%(n)s.
''' % dict(n=name, args=args, argl='; '.join('a_' + a for a, _, _ in eps), parse=parse, flds=flds, fl=fl, rep=rep, space=space,
           ranges=ranges, hyps=hyps)
        return txt, None
    return gen


def run(ctx):
    vlib.import_repo()
    info = perproto.prepare_models(ctx)
    protos = [e['p'] for e in info.values()]
    hits = search(ctx, protos, 24 if ctx.tier == 'quick' else 400, 4096 if ctx.tier == 'quick' else 1 << 16)
    results = perproto.run_obligations(ctx, PROP, info, gen_obligation_for(TOLS), timeout=120)
    vlib.check_props_file(ctx, PROP)
    perproto.settle(ctx, PROP, results, hits)
    # ---- protocols outside the generic theorem whose parameter space is small: the round trip by exhaustion (exact timings)
    limit = (1 << 13) if ctx.tier == 'quick' else (1 << 16)
    xinfo = {n: e for n, e in info.items() if results[n]['status'] != 'proved' and not hits.get(n)}
    xres = perproto.run_obligations(ctx, 'C01X', xinfo, gen_exhaustive(limit), timeout=1800)
    xres = {n: r for n, r in xres.items() if r['status'] != 'unmodelled'}
    # a kernel evaluation that does not finish within the time limit (a loaded machine) proves nothing and refutes nothing: it
    # is noted, not settled - coqc killed by the shell timeout leaves no error message
    late = sorted(n for n, r in xres.items() if r['status'] == 'failed' and not (r['detail'] or '').strip())
    for n in late:
        ctx.note('C01X_%s: evaluation over all assignments did not finish within the time limit (not counted)' % n)
        del xres[n]
    xs = perproto.settle(ctx, 'C01X', xres, hits, merge=True)
    ctx.extra['exhaustive_family'] = dict(bound=limit, attempted=sorted(xres), proved=xs['proved'],
                                   statement='forall in-range assignments, rt_<p> args = true (first frame of encode -> engine model '
                                             '-> IrProtocolBase.decode -> own checks -> every parameter reported as encoded), by vm_compute over '
                                             'all assignments + all_assignments_complete')
    # correspondence: engine model (parse) on valid / perturbed / damaged frames, encode models against the encoders
    modelled = [info[n]['p'] for n in results if results[n]['status'] == 'proved']
    xmodelled = [info[n]['p'] for n in xs['proved']]
    items = []
    for p in modelled:
        for a in gen_inputs.param_assignments(p, ctx.rng, 3 if ctx.tier == 'quick' else 30):
            c, e = engine.fresh_encode(p, a)
            if c is None:
                continue
            f = list(c.normalized_rlc[0])
            items.append((p, f, 20, False, 'valid'))
            items.append((p, gen_inputs.perturb(f, 20, ctx.rng.choice(['long', 'short', 'alt', 'random']), ctx.rng,
                                                engine.period_of(p)), 20, False, 'perturbed'))
            mf, k = gen_inputs.mutate(f, ctx.rng)
            items.append((p, mf, 20, False, k))
    # the engine models behind the exhaustive theorems (tables with middle timings, serial tables)
    xitems = {}
    for p in xmodelled:
        for a in gen_inputs.param_assignments(p, ctx.rng, 6 if ctx.tier == 'quick' else 40):
            c, e = engine.fresh_encode(p, a)
            if c is None:
                continue
            f = list(c.normalized_rlc[0])
            mf, k = gen_inputs.mutate(f, ctx.rng)
            for tag, fr in (('valid', f), ('perturbed', gen_inputs.perturb(f, 20, 'random', ctx.rng, engine.period_of(p))), (k, mf)):
                if engine.modelled_C(p):
                    items.append((p, fr, 20, False, tag))
                else:
                    cls = 'MD' if engine.modelled_MD(p) else 'HT' if engine.modelled_HT(p) else 'MT' if engine.modelled_MT(p) else 'B'
                    xitems.setdefault(cls, []).append((p, fr, 20, tag))
    for cls, its in sorted(xitems.items()):
        fn = dict(MD=engine.corr_parseMD, HT=engine.corr_parseHT, MT=engine.corr_parseMT, B=engine.corr_parseB)[cls]
        mb = fn(ctx, its, name='corr_parse%s' % cls)
        if mb is None:
            ctx.report('correspondence', 'model-eval-failed', {}, dict(theorem='PyIR.Engine.Parse%s evaluation' % cls), found_input=False)
            mb = []
        for (p, code, tol, tag), impl, model in mb:
            ctx.report(p['name'], 'parse-model-disagrees', dict(tag=tag),
                       dict(protocol=p['name'], frame=code, tolerance=tol, impl=impl[:60], model=model[:60]))
        ctx.extra.setdefault('correspondence_engine_x', {})[cls] = dict(cases=len(its), disagreements=len(mb))
    bad = engine.corr_parseH(ctx, items)
    if bad is None:
        ctx.report('correspondence', 'model-eval-failed', {}, dict(theorem='PyIR.Engine.Parse evaluation'), found_input=False)
        bad = []
    for (p, code, tol, rep, tag), impl, model in bad:
        ctx.report(p['name'], 'parse-model-disagrees', dict(tag=tag),
                   dict(protocol=p['name'], frame=code, tolerance=tol, impl=impl[:60], model=model[:60]))
    ncases, ebad, unknown, failed = protocorr.corr_encode(ctx, modelled + xmodelled, 4 if ctx.tier == 'quick' else 40, ns=(0,))
    for p, a, n, impl, model in ebad:
        ctx.report(p['name'], 'encode-model-disagrees', dict(a, n=n),
                   dict(protocol=p['name'], params=a, repeat_count=n, impl=impl[:80], model=model[:80]))
    for name, out in failed:
        ctx.report(name, 'model-eval-failed', {}, dict(theorem='Gen.P_%s evaluation' % name, output=out), found_input=False)
    dcases, dbad = protocorr.corr_decode(ctx, modelled + xmodelled, 4 if ctx.tier == 'quick' else 40)
    for p, a, impl, model in dbad:
        ctx.report(p['name'], 'decode-model-disagrees', dict(a),
                   dict(protocol=p['name'], params=a, impl=impl[:60], model=model[:60]))
    ctx.extra['correspondence'] = dict(parse_cases=len(items), parse_disagreements=len(bad), encode_cases=ncases,
                                       encode_disagreements=len(ebad), decode_cases=dcases, decode_disagreements=len(dbad))
    ctx.cov['checker_cmd'] = vlib.COQC_CMD + ' for Gen/Tables.v, Gen/P_<p>.v, C01_<p>.v and Props/C01.v'
    ctx.cov['rule'] = ('search: every registered protocol x in-range assignments (exhaustive when the space has <= %d '
                       'assignments, else min/max/one-hot/boundary/random) -> encode on a fresh instance -> first frame '
                       'group on a fresh decoder -> every parameter compared; distinct = distinct (protocol, assignment)'
                       % (4096 if ctx.tier == 'quick' else 1 << 16))
    for r in list(results.items())[:2]:
        ctx.sample(dict(obligation='C01_' + r[0], status=r[1]['status']))
    ctx.cov['trusted_base'] += ['tools/tracer.py + tools/protomodel.py (concolic tracing translator for encode and decode; '
                                'models compared with the implementation on every run)',
                                'hand-written models PyIR.Engine.{Render,Parse}, PyIR.IW.IW, PyIR.Proto.RoundTrip.base_decode '
                                '(tied by parse / encode / decode correspondence)',
                                'integer tolerance window = the float window of _match (swept by tools/matchsweep in C04)']


def replay(path):
    vlib.import_repo()
    r = json.load(open(path))['replay']
    if 'params' not in r:
        print('replay names a proof obligation:', r)
        return 1
    p = protoinfo.by_name()[r['protocol']]
    c, e = engine.fresh_encode(p, r['params'])
    if c is None:
        print('encode raises', repr(e))
        return 0 if type(e).__name__ == 'EncodeError' else 1
    got, err = decode_first_group(p, c.normalized_rlc)
    print('decoded:', got, err)
    if got is None:
        return 1
    bad = [(k, v, getattr(got, k, None)) for k, v in r['params'].items() if getattr(got, k, None) is None or int(getattr(got, k)) != v]
    print('mismatch:', bad)
    return 1 if bad else 0
