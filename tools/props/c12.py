# C12  Each key press ends in exactly one release notification after the repeat timeout
import itertools
import json

import engine
import protoinfo
import vlib

LEVEL = 'proof'

CLOCK = [0]


def install_clock():
    from pyIRDecoder import high_precision_timers as hpt
    hpt.micros = lambda: float(CLOCK[0])


class FakeElapsed(object):
    def __init__(self, el):
        self.el = el

    def elapsed(self):
        return self.el


class GuardedQueue(list):
    """The timer worker's queue; lets the harness run the REAL TimerThreadWorker.run for one pass: run() starts by emptying the
    queue (it is meant to be called once, at thread start), which the harness suppresses for that one statement."""
    skip = 0

    def __delitem__(self, k):
        if self.skip and isinstance(k, slice) and k == slice(None, None, None):
            self.skip -= 1
            return
        list.__delitem__(self, k)


class OneShot(object):
    """stop_event stand-in: lets the while loop of run() execute exactly one pass"""
    def __init__(self):
        self.n = 0

    def is_set(self):
        self.n += 1
        return self.n > 1

    def set(self):
        pass

    def clear(self):
        pass


class NoBlock(object):
    """queue_event stand-in: wait() returns at once (the virtual clock decides what is due)"""
    def wait(self, timeout=None):
        return True

    def is_set(self):
        return True

    def set(self):
        pass

    def clear(self):
        pass


POLL_ERRORS = []


def poll_timers():
    """One pass of TimerThreadWorker.run - the real method, not a copy of its loop."""
    from pyIRDecoder import ir_code
    tw = ir_code._timer_thread_worker
    if not isinstance(tw.queue, GuardedQueue):
        tw.queue = GuardedQueue(tw.queue)
    se, qe = tw.stop_event, tw.queue_event
    tw.stop_event, tw.queue_event = OneShot(), NoBlock()
    tw.queue.skip = 1
    try:
        tw.run()
    except Exception as e:  # noqa
        POLL_ERRORS.append(type(e).__name__)
    finally:
        tw.queue.skip = 0
        tw.stop_event, tw.queue_event = se, qe


def drain_process():
    """ProcessThreadWorker.run's inner loop."""
    from pyIRDecoder import ir_code
    pw = ir_code._process_thread_worker
    n = 0
    while pw.queue:
        func, args = pw.queue.pop(0)
        try:
            func(*args)
        except Exception:  # noqa
            pass
        n += 1
    return n


def disarm_fact():
    """Fact of the source the theorems depend on: Timer.run_func clears self.timer when it fires."""
    from pyIRDecoder import ir_code
    vlib.drain_workers()
    CLOCK[0] = 0
    t = ir_code.Timer(lambda: None, 1001)
    t.start(FakeElapsed(0))
    CLOCK[0] = 100000
    t.run_func()
    vlib.drain_workers()
    return t.timer is None


# ---------------------------------------------------------------------- Timer-level correspondence
def coq_top(op):
    if op[0] == 'start':
        return '(Start %d%%nat %s)' % (op[1], vlib.z(op[2]))
    if op[0] == 'stop':
        return '(Stop %d%%nat)' % op[1]
    if op[0] == 'cancel':
        return '(Cancel %d%%nat)' % op[1]
    if op[0] == 'poll':
        return 'Poll'
    return '(Advance %s)' % vlib.z(op[1])


def real_timers(durs, ops):
    from pyIRDecoder import ir_code
    vlib.drain_workers()
    CLOCK[0] = 0
    timers = []
    funcs = []
    for i, d in enumerate(durs):
        f = (lambda i=i: None)
        funcs.append(f)
        timers.append(ir_code.Timer(f, d))
    for op in ops:
        if op[0] == 'start':
            timers[op[1]].start(FakeElapsed(op[2]))
        elif op[0] == 'stop':
            timers[op[1]].stop()
        elif op[0] == 'cancel':
            timers[op[1]].cancel()
        elif op[0] == 'poll':
            poll_timers()
        else:
            CLOCK[0] += op[1]
    pw, tw = ir_code._process_thread_worker, ir_code._timer_thread_worker
    rel = [funcs.index(f) for f, a in pw.queue]
    q = [timers.index(t) for t in tw.queue]
    armed = [1 if t.timer is not None else 0 for t in timers]
    vlib.drain_workers()
    if POLL_ERRORS:
        del POLL_ERRORS[:]
        return [-99]          # the polling pass raised: the timer thread would be dead
    return rel + [-1] + q + [-1] + armed


def gen_timer_word(rng, nt, depth):
    durs = [rng.choice([45001, 108002, 114003, 60004, 20001, 9999]) for _ in range(nt)]
    ops = []
    for _ in range(depth):
        r = rng.random()
        i = rng.randrange(nt)
        if r < 0.3:
            ops.append(('start', i, rng.choice([0, 0, 3, 250, 1000])))
        elif r < 0.45:
            ops.append(('stop', i))
        elif r < 0.5:
            ops.append(('cancel', i))
        elif r < 0.75:
            ops.append(('poll',))
        else:
            ops.append(('adv', rng.choice([100, 5000, 40000, 50000, 120000, 140000, 400000])))
    return durs, ops


# ---------------------------------------------------------------------- full stack under a virtual clock
STYLES = ['NEC', 'Sony12', 'RC5', 'JVC', 'Panasonic', 'Samsung36', 'RC6', 'Denon', 'NECx', 'Pioneer']


class Stack(object):
    """Dispatcher + one enabled protocol + user callbacks, driven step by step."""
    def __init__(self, pname, keyA, keyB):
        import dispatch_run as dr
        self.d = dr.disp()
        self.p = protoinfo.by_name()[pname]
        self.d.reset()
        self.d.set_enabled({pname})
        self.frames = {}
        for nm, a in (('A', keyA), ('B', keyB)):
            c, e = engine.fresh_encode(self.p, a, repeat_count=1)
            if c is None:
                raise ValueError('cannot encode')
            fr = [list(f) for f in c.normalized_rlc]
            self.frames[nm] = fr
        # 'T': key A pressed AGAIN - the frames a remote sends for the second press (toggle protocols flip their toggle bit): the
        # second encode on one encoder instance
        with engine.class_guard(self.p['cls']):
            enc = self.p['cls']()
            try:
                enc.encode(**keyA, repeat_count=1)
                c2 = enc.encode(**keyA, repeat_count=1)
                self.frames['T'] = [list(f) for f in c2.normalized_rlc]
            except Exception:  # noqa
                self.frames['T'] = self.frames['A']
        if self.frames['T'] == self.frames['A'] and self.frames['A'][-1] != self.frames['A'][0]:
            # encoders that put the flipped toggle into the LAST frame of a transmission (RC5, RC6 ...): that frame, arriving
            # alone, is what the second press of the same key looks like
            self.frames['T'] = [self.frames['A'][-1]]
        vlib.drain_workers()
        CLOCK[0] = 1000000
        self.down = {}
        self.last_obj = None
        self.arrivals = []
        self.superseded = set()
        self.early_ok = {}          # id(code) -> releases that may come before the timeout: the press was ended by a toggle flip
        self.toggle_state = None
        self._keep = []
        self.last_frame_time = {}
        self.bound = set()
        self.problems = []
        self.releases = 0
        self.deliveries = 0
        self.d.mod._decode_callback = self.on_code

    def key_of(self, code):
        return self.d.code_key(code)

    def on_code(self, code):
        """decode callback: a code object is delivered; the user binds a release callback to it once per press"""
        self.deliveries += 1
        self._keep.append(code)
        if self.arrivals:
            self.last_frame_time[id(code)] = self.arrivals.pop(0)
            self.last_obj = id(code)
        if not self.down.get(id(code)):
            self.down[id(code)] = True
            if id(code) not in self.bound:
                self.bound.add(id(code))
                code.bind_released_callback(self.on_release)

    def on_release(self, code):
        self.releases += 1
        if not self.down.get(id(code)):
            self.problems.append(('release delivered again without a new press', dict(time=CLOCK[0])))
            return
        self.down[id(code)] = False
        lt = self.last_frame_time.get(id(code))
        superseded = id(code) in self.superseded or (self.last_obj is not None and self.last_obj != id(code))
        if not superseded and self.early_ok.get(id(code)):
            # the same key pressed again (toggle flipped): the earlier press ends at once, legitimately, and only once
            self.early_ok[id(code)] -= 1
            superseded = True
        if lt is not None and not superseded and CLOCK[0] - lt < code.repeat_timer.duration:
            self.problems.append(('release before the repeat timeout', dict(since_last_frame=CLOCK[0] - lt,
                                                                            timeout=code.repeat_timer.duration)))

    def frame(self, which, idx):
        fr = self.frames[which]
        f = fr[min(idx, len(fr) - 1)]
        from pyIRDecoder import ir_code
        pw = ir_code._process_thread_worker
        before = sum(1 for fn, _ in pw.queue if fn == self.on_code)
        prev = self.d.mod._last_code
        try:
            self.d.mod._decode(list(f), self.p['frequency'])
        except Exception as e:  # noqa
            self.problems.append(('dispatcher raises ' + type(e).__name__, {}))
            return
        cur = self.d.mod._last_code
        tog = None if which == 'B' else ('t1' if (which == 'T' and self.frames['T'] != self.frames['A']) else 't0')
        if prev is not None and cur is prev and tog is not None and self.toggle_state is not None and tog != self.toggle_state:
            self.early_ok[id(prev)] = self.early_ok.get(id(prev), 0) + 1
        self.toggle_state = tog
        if prev is not None and cur is not prev:
            self.superseded.add(id(prev))          # a different key arrived: prev is released at once, legitimately
        after = sum(1 for fn, _ in pw.queue if fn == self.on_code)
        # the time of arrival travels with the queued decode callback, so that the oracle judges the
        # notifications in the order the user sees them
        self.arrivals += [CLOCK[0]] * (after - before)

    def step(self, op):
        if op == 'A':
            self.frame('A', 0)
        elif op == 'a':
            self.frame('A', 1)
        elif op == 'B':
            self.frame('B', 0)
        elif op == 'T':
            self.frame('T', 0)
        elif op == 'adv<':
            CLOCK[0] += 30000
        elif op == 'adv>':
            CLOCK[0] += 400000
        elif op == 'poll':
            del POLL_ERRORS[:]
            poll_timers()
            for e in POLL_ERRORS:
                self.problems.append(('timer thread dies: ' + e, {}))
        elif op == 'run':
            drain_process()

    def finish(self):
        for _ in range(3):
            CLOCK[0] += 1000000
            del POLL_ERRORS[:]
            poll_timers()
            for e in POLL_ERRORS:
                self.problems.append(('timer thread dies: ' + e, {}))
            drain_process()
        for k, v in self.down.items():
            if v:
                self.problems.append(('key never released', {}))
        self.d.reset()


def run_word(pname, keyA, keyB, word):
    st = Stack(pname, keyA, keyB)
    for op in word:
        st.step(op)
    st.finish()
    return st


class _Blocked(BaseException):
    """the worker would block here for good (its wake-up flag is not set)"""


class _FlagEvent(object):
    def __init__(self):
        self.flag = False

    def set(self):
        self.flag = True

    def clear(self):
        self.flag = False

    def is_set(self):
        return self.flag

    def wait(self, timeout=None):
        if not self.flag:
            raise _Blocked()
        return True


class _HookQueue(list):
    """the callback worker's queue: `del queue[:]` at the start of run() is suppressed once, and the moment the drain loop finds the
    queue empty is the moment another thread hands over the next notification (the schedule a lost wake-up needs)"""
    skip = 0
    inject = None

    def __delitem__(self, k):
        if self.skip and isinstance(k, slice) and k == slice(None, None, None):
            self.skip -= 1
            return
        list.__delitem__(self, k)

    def __bool__(self):
        r = len(self) > 0
        if not r and self.inject:
            f = self.inject.pop(0)
            f()
        return r


def wakeup_check(ctx):
    """The REAL ProcessThreadWorker.run against the schedule `a notification is queued right after the drain loop saw an empty queue`:
    the worker must come round again and deliver it; it may only block (wait on a cleared flag) with an empty queue."""
    from pyIRDecoder import ir_code
    pw = ir_code._process_thread_worker
    vlib.drain_workers()
    delivered = []
    saved = (pw.queue, pw.queue_event, pw.stop_event)
    q = _HookQueue()
    ev = _FlagEvent()
    pw.queue, pw.queue_event, pw.stop_event = q, ev, type('Never', (), {'is_set': lambda self: False, 'set': lambda self: None,
                                                                         'clear': lambda self: None})()
    outcome = None
    try:
        q.skip = 1
        pw.add(lambda: delivered.append('first'))
        q.inject = [lambda: pw.add(lambda: delivered.append('queued while the worker was about to wait')),
                    lambda: pw.add(lambda: delivered.append('and once more'))]
        try:
            pw.run()
            outcome = 'run returned'
        except _Blocked:
            outcome = 'blocked'
        except Exception as e:  # noqa
            outcome = 'raised ' + type(e).__name__
        left = len(q)
    finally:
        pw.queue, pw.queue_event, pw.stop_event = saved
        vlib.drain_workers()
    ctx.count_eval(key=('wakeup', outcome, tuple(delivered)))
    ok = outcome == 'blocked' and left == 0 and len(delivered) == 3
    ctx.obligation('fact: the callback worker delivers a notification queued while it was about to wait (no lost wake-up)', ok,
                   None if ok else 'outcome=%s delivered=%r left in the queue=%d' % (outcome, delivered, left))
    if not ok:
        ctx.report('thread_worker.ProcessThreadWorker', 'notification queued while the worker was about to wait is never delivered',
                   dict(outcome=outcome), dict(schedule='add() right after the drain loop found the queue empty', outcome=outcome,
                                               delivered=delivered, left_in_queue=left))
    return ok


def timer_wakeup_check(ctx, where='ir_code.Timer'):
    """The timer worker sleeps until the earliest deadline it knew when it went to sleep; a timer that starts meanwhile - with an
    EARLIER deadline (a key of a protocol with a shorter repeat timeout) - must wake it, or that key is released late and the
    dispatcher goes on holding it.  Contract of TimerThreadWorker.add on the real class: with one timer already queued and the
    worker asleep (wake-up flag cleared), queuing another timer sets the flag."""
    from pyIRDecoder import ir_code
    tw = ir_code._timer_thread_worker
    vlib.drain_workers()
    saved = (tw.queue, tw.queue_event)
    ev = _FlagEvent()
    ok = False
    try:
        tw.queue = []
        tw.queue_event = ev
        CLOCK[0] = 0
        t_long = ir_code.Timer(lambda: None, 200000)
        t_long.start(FakeElapsed(0))           # queued by start(): the worker would now sleep towards this deadline
        ev.clear()                             # ... it has taken the wake-up and sleeps
        t_short = ir_code.Timer(lambda: None, 40000)
        t_short.start(FakeElapsed(0))
        ok = ev.is_set() and len(tw.queue) == 2
        detail = 'flag=%s queue=%d' % (ev.is_set(), len(tw.queue))
    except Exception as e:  # noqa
        detail = 'raised ' + type(e).__name__
    finally:
        tw.queue, tw.queue_event = saved
        vlib.drain_workers()
    ctx.count_eval(key=('timer-wakeup', ok))
    ctx.obligation('fact: a timer started while the worker sleeps towards a later deadline wakes the worker', ok, None if ok else detail)
    if not ok:
        ctx.report('thread_worker.TimerThreadWorker', 'a timer started while the worker sleeps towards a later deadline does not wake it',
                   dict(), dict(schedule='Timer(200 ms).start(); worker sleeps; Timer(40 ms).start()', observed=detail,
                                consequence='the second key is released (and forgotten by the dispatcher) only when the first deadline passes'))
    return ok


def run(ctx):
    vlib.import_repo()
    vlib.ensure_static_build()
    install_clock()
    vlib.check_props_file(ctx, 'C12')
    dof = disarm_fact()
    ctx.obligation('fact: Timer.run_func disarms the timer when it fires (hypothesis of timer_conservation)', dof,
                   None if dof else 'run_func leaves self.timer set after queuing the release')
    wk = wakeup_check(ctx)
    twk = timer_wakeup_check(ctx)
    ctx.extra['facts'] = dict(disarm_on_fire=dof, no_lost_wakeup=wk, timer_start_wakes_worker=twk)
    # ---- correspondence of the Timer model
    rng = ctx.rng
    words = [gen_timer_word(rng, rng.randint(1, 3), rng.randint(3, 10)) for _ in range(400 if ctx.tier == 'quick' else 6000)]
    cases = []
    kinds = {}
    for durs, ops in words:
        exp = real_timers(durs, ops)
        cases.append(('(%s, %s, [%s])' % ('true' if dof else 'false', vlib.zlist(durs), '; '.join(coq_top(o) for o in ops)), exp))
        for o in ops:
            kinds[o[0]] = kinds.get(o[0], 0) + 1
    bad = vlib.run_model_cases(ctx, 'corr_timer', 'Require Import PyIR.Ctl.Timer.', 'run_timers', '(bool * list Z * list top)',
                               cases, shard=400)
    if bad is None:
        ctx.report('correspondence', 'model-eval-failed', {}, dict(theorem='PyIR.Ctl.Timer.run_timers evaluation'), found_input=False)
        bad = []
    for i, o in bad:
        ctx.report('ir_code.Timer', 'model-disagrees', dict(ops=len(words[i][1])),
                   dict(durations=words[i][0], ops=[list(x) for x in words[i][1]], impl=cases[i][1], model=o))
    ctx.extra['correspondence'] = dict(words=len(words), disagreements=len(bad), op_distribution=kinds)
    # ---- full stack: bounded-exhaustive event words on the real classes, virtual clock
    alphabet = ['A', 'a', 'B', 'adv<', 'adv>', 'poll', 'run']
    depth = 5 if ctx.tier == 'quick' else 6
    protos = STYLES[:4] if ctx.tier == 'quick' else STYLES
    nwords = 0
    for pname in protos:
        p = protoinfo.by_name().get(pname)
        if p is None:
            continue
        import gen_inputs
        al = gen_inputs.param_assignments(p, ctx.rng, 4)
        keyA, keyB = al[0], al[1]
        # quick: a fifth of the words of length 5; thorough: every word of length 5 and 8 % of those of length 6
        allw = itertools.product(alphabet, repeat=5) if ctx.tier == 'quick' else \
            itertools.chain(itertools.product(alphabet, repeat=5), itertools.product(alphabet, repeat=6))
        again = [w for w in itertools.product(['A', 'T', 'a', 'adv<', 'adv>', 'poll', 'run'], repeat=4) if w[0] == 'A' and 'T' in w]
        for word in itertools.chain(allw, again):
            if word[0] not in ('A', 'B'):
                continue            # words are taken modulo leading idle events
            if 'T' not in word and (ctx.tier == 'quick' or len(word) == 6) and ctx.rng.random() > (0.2 if ctx.tier == 'quick' else 0.08):
                continue
            try:
                st = run_word(pname, keyA, keyB, word)
            except ValueError:
                break
            nwords += 1
            ctx.count_eval(key=(pname, word))
            for kind, info in st.problems:
                ctx.report(pname, kind, dict(word=''.join(w[0] for w in word), has_poll_before_B=('poll' in word)),
                           dict(protocol=pname, keyA=keyA, keyB=keyB, word=list(word), detail=info))
    ctx.extra['search'] = dict(words=nwords, depth=depth, protocols=protos, alphabet=alphabet)
    if words:
        ctx.sample(dict(timer_word=dict(durations=words[0][0], ops=[list(x) for x in words[0][1]], observed=cases[0][1])))
    ctx.cov['checker_cmd'] = vlib.COQC_CMD + ' on a copy of coq/theories/Props/C12.v'
    ctx.cov['rule'] = ('correspondence: random operation words on real ir_code.Timer objects (virtual clock, worker queues polled '
                       'by the harness) vs PyIR.Ctl.Timer; search: event words of depth %d over %s on the real dispatcher + '
                       'decoder + timers with a user release callback per delivered code; distinct = distinct (protocol, word)'
                       % (depth, alphabet))
    ctx.cov['trusted_base'] += ['hand-written model PyIR.Ctl.Timer of ir_code.Timer + the worker queues (tied by correspondence)',
                                'virtual clock: high_precision_timers.micros replaced by the harness; the polling thread and '
                                'the callback thread are replaced by explicit Poll / Run steps - interleavings finer than these '
                                'atomic steps (GIL preemption inside run_func/stop) are NOT covered',
                                'binary64 rounding of duration*0.20 is excluded by choosing durations off the exact boundary']
    ctx.assumptions.append('partial: real thread scheduling and wall-clock latency are replaced by explicit steps')
    if not dof and not ctx.violations and not ctx.known_hits:
        ctx.report('ir_code.Timer', 'proof-hypothesis-broken', {}, dict(theorem='timer_conservation needs disarm_on_fire'),
                   found_input=False)


def replay(path):
    vlib.import_repo()
    install_clock()
    r = json.load(open(path))['replay']
    if 'word' in r:
        st = run_word(r['protocol'], r['keyA'], r['keyB'], r['word'])
        print('problems:', st.problems, 'releases', st.releases, 'deliveries', st.deliveries)
        return 1 if st.problems else 0
    if 'ops' in r:
        print(real_timers(r['durations'], [tuple(o) for o in r['ops']]))
    return 1
