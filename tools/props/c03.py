# C03  Every emitted frame is a well-formed mark/space timing list
import json

import engine
import gen_inputs
import perproto
import protocorr
import protoinfo
import protomodel
import vlib

LEVEL = 'proof'

OBL_HEADER = '''From Coq Require Import ZArith List Bool String Lia.
Require Import PyIR.Base.Result PyIR.IW.IW PyIR.Engine.Render PyIR.Proto.Descriptor PyIR.Proto.Model PyIR.Proto.C03Check.
Require Import Gen.P_%s.
Import ListNotations.
Open Scope Z_scope.
'''


def counts_of(model):
    """Frame count per n when all explored paths of that n agree; else None."""
    cs = []
    for n in range(protomodel.NMAX + 1):
        t = model['enc'][n].get('tree')
        if t is None:
            return None
        ks = set()
        for leaf in protomodel.tree_leaves(t):
            if leaf[0] == 'leaf' and 'frames' in leaf[1]:
                ks.add(len(leaf[1]['frames']))
        if len(ks) != 1:
            return None
        cs.append(ks.pop())
    return cs


def gen_obligation(e):
    p, m = e['p'], e['model']
    if not e['compiled'] or m['status'].get('encode') != 'ok':
        return None, e['why'] or m['status'].get('encode')
    import tracer
    for n in range(protomodel.NMAX + 1):
        if not m['enc'][n].get('complete', False):
            return None, 'more encode paths than the translator explores (repeat_count=%d)' % n
        for leaf in protomodel.tree_leaves(m['enc'][n]['tree']):
            if leaf[0] == 'unknown':
                return None, 'inconsistent traces (repeat_count=%d)' % n
            if leaf[0] == 'leaf' and 'frames' in leaf[1]:
                for fr in leaf[1]['frames']:
                    for part in fr:
                        if part[0] == 'packet':
                            for fname, ex in part[1]['fields']:
                                if tracer.static_nbits(ex) is None:
                                    return None, 'width of field %s depends on its value' % fname
                            for it in part[1]['positional']:
                                if it[0] == 'timings' and tracer.static_nbits(it[1]) is None:
                                    return None, 'width of a positional item depends on its value'
    cs = counts_of(m)
    if cs is None:
        return None, 'number of frames differs between explored paths'
    b = cs[1] - cs[0]
    name = p['name']
    args = ' '.join('a_' + x[0] for x in p['encode_parameters'])
    binder = '(%s : Z)' % args if args else ''
    period = 'Some %s' % vlib.z(p['lead_out'][-1]) if p['lead_out'] and p['lead_out'][-1] > 0 else 'None'
    freq = vlib.z(p['frequency'])
    out = [OBL_HEADER % name]
    for n in range(protomodel.NMAX + 1):
        out.append('Lemma chk%d : forall %s, tree_all (c03_leaf %s (%s) %d%%nat) (enc_%s_%d %s) = true.\n'
                   'Proof. intros. vm_compute. reflexivity. Qed.\n' % (
                       n, binder if binder else '(_ : unit)', freq, period, cs[n], name, n, args))
    out.append('(* for every value of the encode arguments (no range restriction is needed) and every repeat count 0..4 *)\n'
               'Theorem C03_%s : forall (n : nat) %s, (n <= 4)%%nat ->\n'
               '  c03_holds %s (%s) (%d + %d * n)%%nat (tree_eval (enc_%s n %s)) /\\ (0 < %d)%%nat.\n'
               'Proof.\n  intros n %s Hn. split; [|lia].\n'
               '  destruct n as [|[|[|[|[|n]]]]]; [%s|lia].\nQed.\nPrint Assumptions C03_%s.\n' % (
                   name, binder, freq, period, cs[0], b, name, args, b, args,
                   '|'.join('apply (c03_tree_sound _ _ _ _ (chk%d %s))' % (n, args if args else 'tt')
                            for n in range(protomodel.NMAX + 1)), name))
    if any(cs[k] != cs[0] + b * k for k in range(len(cs))) or b <= 0:
        return None, 'frame counts %s do not grow by a positive constant' % cs
    return '\n'.join(out), None


def wf_violation(f):
    if not f:
        return 'empty frame'
    if not all(isinstance(x, int) and not isinstance(x, bool) for x in f):
        return 'non-integer duration'
    if any(x == 0 for x in f):
        return 'zero duration'
    if f[0] < 0:
        return 'starts with a space'
    if f[-1] > 0:
        return 'ends with a mark'
    for a, b in zip(f, f[1:]):
        if (a > 0) == (b > 0):
            return 'two consecutive %s' % ('marks' if a > 0 else 'spaces')
    return None


def search(ctx, protos):
    """Property oracle on the real code: every protocol, in-range assignments, repeat counts 0..4."""
    hits = {}
    per = 10 if ctx.tier == 'quick' else 120
    for p in protos:
        name = p['name']
        period = engine.period_of(p)
        for a in gen_inputs.param_assignments(p, ctx.rng, per, dictionary=True):
            counts = []
            bad = None
            for n in range(5):
                c, e = engine.fresh_encode(p, a, repeat_count=n)
                ctx.count_eval(key=(name, tuple(sorted(a.items())), n))
                if c is None:
                    if type(e).__name__ != 'EncodeError':
                        bad = ('encode raises %s' % type(e).__name__, dict(error=repr(e)[:200]))
                    counts = None
                    break
                try:
                    frames = c.normalized_rlc
                    for f in frames:
                        v = wf_violation(f)
                        if v:
                            bad = (v, dict(frame=f))
                            break
                        if period is not None and sum(abs(x) for x in f) != period:
                            bad = ('frame does not last the period', dict(frame=f, period=period,
                                                                          total=sum(abs(x) for x in f)))
                            break
                    if bad is None:
                        try:
                            fq = c.frequency
                        except Exception as e2:  # noqa
                            fq = 'raises ' + type(e2).__name__
                        # an encoder that hands a key over to another protocol (Kaseikyo OEM pairs) returns that protocol's code:
                        # the carrier to report is the one of the decoder the code names
                        try:
                            want_fq = c.decoder.frequency if c.decoder.__class__ is not p['cls'] else p['frequency']
                        except Exception:  # noqa
                            want_fq = p['frequency']
                        if fq != want_fq:
                            bad = ('frequency not reported', dict(reported=fq))
                    counts.append(len(frames))
                finally:
                    try:
                        c.repeat_timer.cancel()
                    except Exception:  # noqa
                        pass
                if bad:
                    break
            if bad is None and counts:
                b = counts[1] - counts[0]
                if b <= 0 or any(counts[k] != counts[0] + b * k for k in range(5)):
                    bad = ('frame count not linear in repeat_count', dict(counts=counts))
                    n = 4
            if bad:
                hits[name] = True
                info = dict(a)
                info['n'] = n
                ctx.report(name, bad[0], info, dict(protocol=name, params=a, repeat_count=n, **bad[1]))
    return hits


def run(ctx):
    vlib.import_repo()
    info = perproto.prepare_models(ctx)
    protos = [e['p'] for e in info.values()]
    hits = search(ctx, protos)
    results = perproto.run_obligations(ctx, 'C03', info, gen_obligation, timeout=60)
    # generic theorems re-checked in this run
    vlib.check_props_file(ctx, 'C03')
    summary = perproto.settle(ctx, 'C03', results, hits)
    # correspondence of the regenerated models and the Render/IW models with the real encoders
    modelled = [info[n]['p'] for n in results if results[n]['status'] != 'unmodelled']
    ncases, bad, unknown, failed = protocorr.corr_encode(ctx, modelled, 6 if ctx.tier == 'quick' else 60, ns=(0, 1, 2, 3, 4))
    for p, a, n, impl, model in bad:
        ctx.report(p['name'], 'encode-model-disagrees', dict(a, n=n),
                   dict(protocol=p['name'], params=a, repeat_count=n, impl=impl[:80], model=model[:80]))
    for name, out in failed:
        ctx.report(name, 'model-eval-failed', {}, dict(theorem='Gen.P_%s evaluation' % name, output=out), found_input=False)
    ctx.extra['correspondence'] = dict(cases=ncases, disagreements=len(bad), unexplored_paths_hit=len(unknown),
                                       protocols=len(modelled))
    ctx.cov['checker_cmd'] = vlib.COQC_CMD + ' for Gen/Tables.v, Gen/P_<p>.v, C03_<p>.v (one per protocol, in parallel) and Props/C03.v'
    ctx.cov['rule'] = ('search: every registered protocol x in-range assignments (min, max, one-hot/boundary, random) x '
                       'repeat_count 0..4 on the real encoders; distinct = distinct (protocol, assignment, n)')
    for r in list(results.items())[:2]:
        ctx.sample(dict(obligation='C03_' + r[0], status=r[1]['status']))
    ctx.cov['trusted_base'] += ['tools/tracer.py + tools/protomodel.py (concolic tracing translator; its output is compared '
                                'with the real encoders on every run)',
                                'hand-written models PyIR.Engine.Render, PyIR.IW.IW (tied by the encode correspondence)']


def replay(path):
    vlib.import_repo()
    r = json.load(open(path))['replay']
    if 'params' not in r:
        print('replay names a proof obligation:', r)
        return 1
    p = protoinfo.by_name()[r['protocol']]
    c, e = engine.fresh_encode(p, r['params'], repeat_count=r.get('repeat_count', 0))
    if c is None:
        print('encode raises', repr(e))
        return 1
    bad = [wf_violation(f) for f in c.normalized_rlc]
    print(c.normalized_rlc, bad)
    return 1 if any(bad) else 0
