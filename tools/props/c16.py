# C16  MCE normalisation snaps every duration to the nearest 50us without other change
import copy
import json
import os
import shutil

import vlib
from pyfun_to_gallina import FunTranslator, Refused

LEVEL = 'proof'

HEADER = '''From Coq Require Import ZArith List Bool Lia ZifyBool.
Import ListNotations.
Open Scope Z_scope.
'''

OBL_HEADER = '''From Coq Require Import ZArith List Bool Lia ZifyBool.
Require Import PyIR.Util.Mce Gen.Mce.
Import ListNotations.
Open Scope Z_scope.
Ltac Zify.zify_post_hook ::= Z.to_euclidean_division_equations.
Ltac mce_tac := intros; unfold build_mce_rlc_one in *; cbv zeta in *;
  repeat match goal with |- context [if ?c then _ else _] => destruct c eqn:? end; lia.
'''

LEMMAS = [
    ('multiple', 'forall t, (build_mce_rlc_one t) mod 50 = 0'),
    ('near', 'forall t, Z.abs (build_mce_rlc_one t - t) <= 25'),
    ('sign', 'forall t, build_mce_rlc_one t <> 0 -> Z.sgn (build_mce_rlc_one t) = Z.sgn t'),
    ('fixed', 'forall t, t mod 50 = 0 -> build_mce_rlc_one t = t'),
    ('idem', 'forall t, build_mce_rlc_one (build_mce_rlc_one t) = build_mce_rlc_one t'),
]

MAIN = OBL_HEADER + '''
Lemma gen_ok : mce_ok build_mce_rlc_one.
Proof. constructor; mce_tac. Qed.

(* C16, all clauses, for every flat and every nested timing list of any length over all of Z *)
Theorem C16_holds : forall a,
  let '(r, a_after) := rlc_to_mce build_mce_rlc_one a in
  shape_ok a r /\\ a_after = a /\\ fst (rlc_to_mce build_mce_rlc_one r) = r.
Proof. exact (rlc_to_mce_ok build_mce_rlc_one gen_ok). Qed.
Theorem C16_flat_is_build : forall l, fst (rlc_to_mce build_mce_rlc_one (Flat l)) = Flat (build_mce_rlc l).
Proof. reflexivity. Qed.
(* non-vacuity: the function computed on a concrete list (no value at a tie, which the property leaves open) *)
Example C16_example : build_mce_rlc [9024; -4512; 564; -1692; 26; -26; 24; -24; 0; 50; -50]
                      = [9000; -4500; 550; -1700; 50; -50; 0; 0; 0; 50; -50].
Proof. vm_compute. reflexivity. Qed.
Print Assumptions C16_holds.
'''


def spec_violation(t, r):
    if r % 50 != 0:
        return 'not a multiple of 50'
    if abs(r - t) > 25:
        return 'more than 25 away'
    if r != 0 and (r > 0) != (t > 0):
        return 'sign changed'
    if t % 50 == 0 and r != t:
        return 'multiple of 50 changed'
    return None


def translate(ctx):
    src = open(os.path.join(vlib.REPO, 'pyIRDecoder', 'utils.py')).read()
    try:
        text = FunTranslator(src, 'build_mce_rlc').translate()
        ctx.extra['translator'] = 'translated from /repo/pyIRDecoder/utils.py'
    except Refused as e:
        ctx.note('translator refused build_mce_rlc (%s); using committed snapshot model + exhaustive correspondence' % e)
        text = open(os.path.join(vlib.COQ_DIR, 'snapshot', 'Mce_body.v')).read()
        ctx.extra['translator'] = 'refused: %s; snapshot model' % e
    with open(os.path.join(ctx.build, 'Mce.v'), 'w') as fh:
        fh.write(HEADER + text)
    ctx.extra['generated_model'] = text
    return text


def ircode_renderings(ctx):
    """The MCE renderings a code object hands out (IRCode.original_rlc_mce / normalized_rlc_mce) are the normalisation of the timing
    lists the object holds NOW: read once, then join another code to it (code + code, frame-accumulating decoders do the same in
    place), read again."""
    from pyIRDecoder import protocols, utils
    import protoinfo
    import gen_inputs
    for pname in ('NEC', 'Sony12', 'JVC', 'RC5', 'Panasonic'):
        p = protoinfo.by_name().get(pname)
        if p is None:
            continue
        al = gen_inputs.param_assignments(p, ctx.rng, 3)
        try:
            c1 = p['cls']().encode(**al[0])
            c2 = p['cls']().encode(**al[-1])
        except Exception:  # noqa
            continue
        try:
            for step in ('fresh', 'joined', 'joined again'):
                want_o = utils.build_mce_rlc(list(c1.original_rlc))
                want_n = [x for f in c1.normalized_rlc for x in utils.build_mce_rlc(list(f))]
                got_o, got_n = list(c1.original_rlc_mce), list(c1.normalized_rlc_mce)
                ctx.count_eval(key=('ircode-mce', pname, step))
                if got_o != want_o or got_n != want_n:
                    ctx.report('IRCode', 'MCE rendering is not the normalisation of the timings the code holds', dict(step=step),
                               dict(protocol=pname, params=al[0], joined_with=al[-1], step=step, lengths=dict(
                                   original=len(want_o), original_mce=len(got_o), normalized=len(want_n), normalized_mce=len(got_n))))
                    break
                c1 = c1 + c2
        finally:
            for c in (c1, c2):
                try:
                    c.repeat_timer.cancel()
                except Exception:  # noqa
                    pass
    vlib.drain_workers()


def run(ctx):
    pyir = vlib.import_repo()
    from pyIRDecoder import utils
    vlib.ensure_static_build()
    translate(ctx)
    ok, out = vlib.coqc(ctx.build, 'Mce.v')
    if not ok:
        ctx.note('generated model does not compile: ' + out[-500:])
    # ---- per-run obligations on the regenerated definition
    files = []
    for name, stmt in LEMMAS:
        fn = 'C16_%s.v' % name
        with open(os.path.join(ctx.build, fn), 'w') as fh:
            fh.write(OBL_HEADER + 'Lemma %s : %s.\nProof. mce_tac. Qed.\n' % (name, stmt))
        files.append(fn)
    with open(os.path.join(ctx.build, 'C16_main.v'), 'w') as fh:
        fh.write(MAIN)
    files.append('C16_main.v')
    res = vlib.coqc_many(ctx.build, files, timeout=300)
    broken = []
    for fn in files:
        ok, out = res[fn]
        ctx.obligation(fn[:-2], ok, None if ok else out[-400:])
        if not ok:
            broken.append(fn[:-2])
        if fn == 'C16_main.v':
            ctx.extra['print_assumptions'] = vlib.parse_assumptions(out)
    ctx.cov['checker_cmd'] = vlib.COQC_CMD + ' for Mce.v, C16_{multiple,near,sign,fixed,idem,main}.v'
    ctx.sample(dict(obligation='C16_idem', statement=LEMMAS[4][1]))

    # ---- correspondence: translated function and the hand-written rlc_to_mce model against the code
    rng = ctx.rng
    lim = 200000
    vals = sorted(set(list(range(-130, 131)) + [s * (k * 50 + r) for s in (1, -1) for k in (1, 7, 399, 3999)
                                                  for r in range(50)] + [lim, -lim, lim - 1, -lim + 1]
                      + [rng.randint(-lim, lim) for _ in range(600 if ctx.tier == 'quick' else 6000)]))
    cases = [('%s' % vlib.z(v), utils.build_mce_rlc([v])) for v in vals]
    bad = vlib.run_model_cases(ctx, 'corr_one', 'Require Import Gen.Mce.',
                               'fun t => build_mce_rlc [t]', 'Z', cases, shard=1000)
    ncorr = len(cases)
    corr_dis = 0
    if bad is None:
        ctx.report('correspondence', 'model-eval-failed', {}, dict(theorem='Gen.Mce evaluation'), found_input=False)
    else:
        for i, o in bad:
            corr_dis += 1
            ctx.report('build_mce_rlc', 'translation-disagrees', dict(t=vals[i]),
                       dict(call='utils.build_mce_rlc', arg=[vals[i]], model=o, impl=cases[i][1]))
    # nested / flat shapes through the public entry point, observing result, argument-after and identity
    shapes = []
    for _ in range(150 if ctx.tier == 'quick' else 3000):
        if rng.random() < 0.4:
            shapes.append([rng.randint(-lim, lim) for _ in range(rng.randint(1, 12))])
        else:
            shapes.append([[rng.randint(-lim, lim) for _ in range(rng.randint(0 if j else 1, 8))]
                           for j in range(rng.randint(1, 4))])
    shapes += [[[50, -75], [], [24]], [[0]], [25], [[25]], [[-25, 26], [49, -49]]]
    # input that is already on the 50 us grid (captures of an MCE receiver, the output of an earlier conversion)
    shapes += [[9000, -4500, 550, -550, 550, -1700, 550, -40000], [[9000, -4500, 550, -39950], [9000, -2250, 550, -96200]],
               [[50], [-100, 150]], [0, 50, -50], [[100, -100], [101, -99]]]
    for _ in range(6):
        shapes.append([50 * rng.randint(-400, 400) for _ in range(rng.randint(1, 10))])

    def enc_shape(s):
        if isinstance(s[0], list):
            out = [1, len(s)]
            for l in s:
                out += [len(l)] + l
            return out
        return [0, len(s)] + list(s)

    def coq_shape(s):
        if isinstance(s[0], list):
            return '(Nested [%s])' % '; '.join(vlib.zlist(l) for l in s)
        return '(Flat %s)' % vlib.zlist(s)

    mcases = []
    for s in shapes:
        arg = copy.deepcopy(s)
        r = pyir.rlc_to_mce(arg)
        mcases.append((coq_shape(s), enc_shape(r) + [-1] + enc_shape(arg)))
    enc_def = '''Require Import PyIR.Util.Mce Gen.Mce.
Definition enc_shape (s : shape) : list Z := match s with
  | Flat l => 0 :: Z.of_nat (length l) :: l
  | Nested ll => 1 :: Z.of_nat (length ll) :: flat_map (fun l => Z.of_nat (length l) :: l) ll end.
Definition runm (a : shape) : list Z := let '(r, a') := rlc_to_mce build_mce_rlc_one a in enc_shape r ++ [-1] ++ enc_shape a'.'''
    bad = vlib.run_model_cases(ctx, 'corr_shape', enc_def, 'runm', 'shape', mcases, shard=500)
    ncorr += len(mcases)
    if bad is None:
        ctx.report('correspondence', 'model-eval-failed', {}, dict(theorem='PyIR.Util.Mce.rlc_to_mce evaluation'),
                   found_input=False)
    else:
        for i, o in bad:
            corr_dis += 1
            ctx.report('rlc_to_mce', 'model-disagrees', dict(nested=isinstance(shapes[i][0], list)),
                       dict(call='pyIRDecoder.rlc_to_mce', arg=shapes[i], model=o, impl=mcases[i][1]))
    ctx.extra['correspondence'] = dict(cases=ncorr, disagreements=corr_dis,
                                       distribution=dict(scalars=len(vals), shapes=len(shapes),
                                                         nested=sum(1 for s in shapes if isinstance(s[0], list))))
    ctx.sample(dict(correspondence_case=dict(arg=shapes[-1], observed=mcases[-1][1])))

    # ---- search on the real code: the whole stated domain, exhaustively
    n_viol = 0
    domain = list(range(-lim, lim + 1))
    out = utils.build_mce_rlc(domain)
    if len(out) != len(domain):
        ctx.report('build_mce_rlc', 'length', {}, dict(call='utils.build_mce_rlc', arg='range(-200000,200001)'))
    else:
        for t, r in zip(domain, out):
            v = spec_violation(t, r)
            if v is None and utils.build_mce_rlc([r]) != [r]:
                v = 'not idempotent'
            ctx.count_eval()
            if v:
                n_viol += 1
                ctx.report('build_mce_rlc', v, dict(t=t, r=r), dict(call='utils.build_mce_rlc', arg=[t], result=[r]))
                if n_viol > 20:
                    break
    ctx._distinct.update(range(len(domain)))
    for s in shapes:
        arg = copy.deepcopy(s)
        r = pyir.rlc_to_mce(arg)
        ctx.count_eval(key=json.dumps(s))
        nested = isinstance(s[0], list)
        if arg != s:
            ctx.report('rlc_to_mce', 'argument-modified', dict(nested=nested),
                       dict(call='pyIRDecoder.rlc_to_mce', arg=s, arg_after=arg))
        elif r is arg or (nested and any(a is b and a for a, b in zip(r, arg))):
            ctx.report('rlc_to_mce', 'argument-returned', dict(nested=nested),
                       dict(call='pyIRDecoder.rlc_to_mce', arg=s))
        flat_in = [x for l in s for x in l] if nested else s
        flat_out = [x for l in r for x in l] if nested else r
        if (len(flat_in) != len(flat_out) or (nested and [len(l) for l in s] != [len(l) for l in r])
                or any(spec_violation(t, q) for t, q in zip(flat_in, flat_out))
                or pyir.rlc_to_mce(copy.deepcopy(r)) != r):
            ctx.report('rlc_to_mce', 'result-wrong', dict(nested=nested),
                       dict(call='pyIRDecoder.rlc_to_mce', arg=s, result=r))
    for s in shapes:
        for fl in (s if isinstance(s[0], list) else [s]):
            arg = list(fl)
            r = utils.build_mce_rlc(arg)
            ctx.count_eval(key=('new list', json.dumps(fl)))
            if (r is arg and arg) or arg != fl:
                ctx.report('build_mce_rlc', 'argument-returned' if arg == fl else 'argument-modified', dict(n=len(fl)),
                           dict(call='utils.build_mce_rlc', arg=fl, note='the conversion must return a new list'))
                break
    ctx.extra['search'] = dict(exhaustive_domain='[-200000, 200000]', shapes=len(shapes))
    ircode_renderings(ctx)
    ctx.cov['rule'] = ('search: every integer of [-200000,200000] through utils.build_mce_rlc (each distinct) '
                       '+ random flat/nested shapes through rlc_to_mce; distinct = distinct inputs')
    ctx.cov['exhaustive'] = True
    ctx.cov['trusted_base'] += [
        'tools/pyfun_to_gallina.py (loop -> map, %,// -> Z.modulo,Z.div for constant non-zero divisors)',
        'hand-written model PyIR.Util.Mce.rlc_to_mce of pyIRDecoder.rlc_to_mce, tied by correspondence '
        '(result, argument-after) on random flat/nested shapes',
    ]
    if broken:
        # an obligation broke and the search above did not already report a concrete input
        if not ctx.violations and not ctx.known_hits:
            ctx.report('obligation', 'proof-broken', dict(lemmas=broken), dict(theorems=broken), found_input=False)


def replay(path):
    pyir = vlib.import_repo()
    from pyIRDecoder import utils
    r = json.load(open(path))['replay']
    if r.get('call') == 'utils.build_mce_rlc':
        out = utils.build_mce_rlc(list(r['arg']))
        bad = any(spec_violation(t, q) for t, q in zip(r['arg'], out)) or utils.build_mce_rlc(out) != out
        print('build_mce_rlc(%r) = %r -> %s' % (r['arg'], out, 'VIOLATES' if bad else 'ok'))
        return 1 if bad else 0
    if r.get('call') == 'pyIRDecoder.rlc_to_mce':
        arg = copy.deepcopy(r['arg'])
        out = pyir.rlc_to_mce(arg)
        bad = arg != r['arg'] or out is arg
        print('rlc_to_mce(%r) = %r, argument afterwards %r -> %s' % (r['arg'], out, arg, 'VIOLATES' if bad else 'ok'))
        return 1 if bad else 0
    print('replay names a proof obligation:', r)
    return 1
