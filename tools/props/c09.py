# C09  Decoding never modifies caller data and decoder instances are isolated
import ast
import copy
import inspect
import json
import sys

import engine
import gen_inputs
import protoinfo
import vlib
import props.c07 as c07

LEVEL = 'proof'


def class_state_writers():
    """Fact extractor: protocol classes whose methods write class-level state (self.__class__.x = ..., cls.x = ...,
    del self.__class__.x[:], or mutate a class-level list that __init__ does not copy)."""
    out = {}
    copied = {'_lead_in', '_lead_out', '_bursts', '_repeat_lead_in', '_repeat_lead_out', '_middle_timings', '_repeat_bursts',
              '_parameters', 'encode_parameters'}
    for p in protoinfo.all_protocols():
        try:
            src = inspect.getsource(p['cls'])
        except Exception:  # noqa
            continue
        tree = ast.parse(src)
        names = set()
        for node in ast.walk(tree):
            tgt = []
            if isinstance(node, ast.Assign):
                tgt = node.targets
            elif isinstance(node, ast.AugAssign):
                tgt = [node.target]
            elif isinstance(node, ast.Delete):
                tgt = node.targets
            for t in tgt:
                base = t
                while isinstance(base, ast.Subscript):
                    base = base.value
                if isinstance(base, ast.Attribute):
                    v = base.value
                    if isinstance(v, ast.Attribute) and v.attr == '__class__':
                        names.add(base.attr)
                    if isinstance(v, ast.Name) and v.id == 'cls':
                        names.add(base.attr)
                    if isinstance(v, ast.Name) and v.id == 'self' and base.attr == '_stored_codes':
                        names.add('_stored_codes')
            if isinstance(node, ast.Call) and isinstance(node.func, ast.Attribute) and \
                    node.func.attr in ('append', 'extend', 'insert', 'pop', 'remove', 'clear'):
                v = node.func.value
                if isinstance(v, ast.Attribute) and isinstance(v.value, ast.Name) and v.value.id == 'self' and \
                        v.attr == '_stored_codes':
                    names.add('_stored_codes')
        if names:
            out[p['name']] = sorted(names)
    return out


def input_unmodified(ctx, protos):
    from pyIRDecoder import protocols
    rng = ctx.rng
    hits = {}
    import dispatch_run as dr
    d = dr.disp()
    for p in protos:
        name = p['name']
        inputs = []
        for a in gen_inputs.param_assignments(p, rng, 2):
            c, e = engine.fresh_encode(p, a, repeat_count=1)
            if c is not None:
                for f in c.normalized_rlc[:2]:
                    inputs.append(list(f))
                    inputs.append(gen_inputs.mutate(list(f), rng)[0])
        inputs += [gen_inputs.garbage(rng) for _ in range(3)]
        for a in gen_inputs.param_assignments(p, rng, 1):
            c, e = engine.fresh_encode(p, a, repeat_count=2)
            if c is not None:
                inputs += [list(f) for f in c.normalized_rlc]          # the frames of one key in transmission order
        inst = p['cls']()
        handed = []          # every list handed over so far, with its contents at the time: none may change later either
        with engine.class_guard(p['cls']):
            for data in inputs:
                if not data:
                    continue
                before = list(data)
                handed.append((data, before))
                try:
                    inst.decode(data, p['frequency'])
                except Exception:  # noqa
                    pass
                ctx.count_eval(key=(name, tuple(before[:10]), len(before)))
                changed = [(d, b) for d, b in handed if d != b]
                if changed:
                    hits[name] = True
                    d0, b0 = changed[0]
                    ctx.report(name, 'decode modifies the caller\'s list', dict(n=len(b0)),
                               dict(protocol=name, data=b0, after=d0, later_call=d0 is not data,
                                    sequence=[b for _, b in handed]))
                    break
                vlib.drain_workers()
        # through the dispatcher
        if inputs and inputs[0]:
            d.reset()
            data = list(inputs[0])
            before = list(data)
            try:
                d.mod.decode(data, p['frequency'])
            except Exception:  # noqa
                pass
            if data != before:
                ctx.report('dispatcher', 'decode modifies the caller\'s list', dict(protocol=name), dict(protocol=name, data=before, after=data))
            d.reset()
    return hits


def two_instances(ctx, protos, per):
    """What instance X returns depends only on the frames fed to X: interleave activity on a second instance Y."""
    rng = ctx.rng
    hits = {}
    for p in protos:
        name = p['name']
        al = gen_inputs.param_assignments(p, rng, 3)
        keys = []
        for a in al:
            c, e = engine.fresh_encode(p, a, repeat_count=1)
            if c is not None:
                keys.append([list(f) for f in c.normalized_rlc])
        if len(keys) < 2:
            continue
        for _ in range(per):
            xs = [rng.choice(rng.choice(keys)) for _ in range(rng.randint(1, 4))]
            ys = [rng.choice(rng.choice(keys)) if rng.random() < 0.8 else gen_inputs.garbage(rng) for _ in range(rng.randint(1, 4))]
            with engine.class_guard(p['cls']):
                X = p['cls']()
                alone = [c07.outcome(p, X, f) for f in xs]
                vlib.drain_workers()
            with engine.class_guard(p['cls']):
                X = p['cls']()
                # the second decoder is built from the class or - the library's own way, protocols.<Name>(parent) - from the first one
                spawned = rng.random() < 0.5
                try:
                    Y = X(None) if spawned else p['cls']()
                except Exception:  # noqa
                    Y, spawned = p['cls'](), False
                mixed = []
                yi = 0
                for f in xs:
                    while yi < len(ys) and rng.random() < 0.6:
                        c07.outcome(p, Y, ys[yi])
                        if rng.random() < 0.3:
                            try:
                                Y.encode(**al[0], **({'repeat_count': 1} if 'repeat_count' in p['enc_args'] else {}))
                            except Exception:  # noqa
                                pass
                        yi += 1
                    mixed.append(c07.outcome(p, X, f))
                vlib.drain_workers()
            ctx.count_eval(key=(name, tuple(len(f) for f in xs), tuple(len(f) for f in ys)))
            if alone != mixed:
                hits[name] = True
                ctx.report(name, 'activity on another instance changes the result', dict(frames=len(xs)),
                           dict(protocol=name, x_frames=xs, y_frames=ys, y_spawned_from_x=spawned, y_also_encodes=al[0], alone=[list(o) for o in alone], interleaved=[list(o) for o in mixed]))
                break
        else:
            ctx.passed(name, dict(frames=0))
    return hits


def decoded_params(p, frames):
    """what the frame sequence decodes to on one fresh decoder: sorted list of reported parameter tuples / 'nothing'"""
    from pyIRDecoder import IRException
    inst = p['cls']()
    got = set()
    for f in frames:
        try:
            c = inst.decode(list(f), p['frequency'])
            got.add(tuple((k, int(getattr(c, k))) for k, _, _ in p['encode_parameters'] if getattr(c, k, None) is not None))
        except IRException:
            pass
        except Exception as e:  # noqa
            got.add(('raise', type(e).__name__))
        finally:
            vlib.drain_workers()
    return sorted(got)


def encode_deterministic(ctx, protos):
    """identity equal; the frames of each encoding decode to the same parameters (frames themselves may differ by a toggle)"""
    rng = ctx.rng
    for p in protos:
        name = p['name']
        for a in gen_inputs.param_assignments(p, rng, 2):
            outs = []
            with engine.class_guard(p['cls']):
                inst = p['cls']()
                for k in range(3):
                    try:
                        c = (inst if k < 2 else p['cls']()).encode(**a)
                        try:
                            ident = str(c)
                        except Exception:  # noqa
                            ident = '?'
                        frames = [list(f) for f in c.normalized_rlc]
                        outs.append((ident, decoded_params(p, frames), frames))
                    except Exception as e:  # noqa
                        outs.append(('raise', type(e).__name__, []))
            ctx.count_eval(key=('enc', name, tuple(sorted(a.items()))))
            if not (outs[0][:2] == outs[1][:2] == outs[2][:2]):
                what = 'identity' if len({o[0] for o in outs}) > 1 else 'decoded parameters'
                ctx.report(name, 'repeated encoding differs in ' + what, dict(a),
                           dict(protocol=name, params=a, encodings=[dict(identity=o[0], decodes_to=str(o[1]), frames=o[2]) for o in outs]))
                break





def process_wide_state(ctx, protos):
    """Settings and results of one instance must not depend on what OTHER instances did earlier in the process - also not through
    process-wide caches, which an in-process differential cannot see because both runs share them.  Two fresh interpreters run the same
    cases with the two instances in opposite order (tools/iso_worker.py); the outcomes per instance must be identical."""
    import os
    import subprocess
    import props.c04 as c04
    rng = ctx.rng
    cases = []
    for p in protos:
        if p['eclass'] not in ('H', 'M'):
            continue
        a = gen_inputs.param_assignments(p, rng, 1)[0]
        c, e = engine.fresh_encode(p, a)
        if c is None:
            continue
        f = list(c.normalized_rlc[0])
        nli, nlo = len(p['lead_in']), len(p['lead_out'])
        if len(f) - nli - nlo < 2:
            continue
        i = rng.randrange(nli, len(f) - max(nlo, 1))
        v = c04.near_outside(p, f[i], 5)
        if v is None:
            continue
        g = list(f)
        g[i] = v
        cases.append((p['name'], f, g))
    outs = {}
    for order in ('XY', 'YX'):
        r = subprocess.run([sys.executable, '-B', os.path.join(os.path.dirname(os.path.dirname(os.path.abspath(__file__))), 'iso_worker.py'), order],
                           input=json.dumps(cases), stdout=subprocess.PIPE, stderr=subprocess.PIPE, text=True, timeout=600)
        try:
            outs[order] = json.loads(r.stdout)
        except Exception:  # noqa
            ctx.report('harness', 'isolation worker failed', dict(order=order), dict(theorem='tools/iso_worker.py ' + order, stderr=r.stderr[-600:]),
                       found_input=False)
            return
    for (name, f, g), a, b in zip(cases, outs['XY'], outs['YX']):
        ctx.count_eval(key=('process-wide', name, tuple(g[:10])))
        if a != b:
            ctx.report(name, 'activity on another instance changes the result', dict(frames=2, sig='order of two instances with different tolerance'),
                       dict(protocol=name, exact_frame=f, frame_with_off_burst=g, x_tolerance='default', y_tolerance=5,
                            x_first=dict(x=a[0], y=a[1]), y_first=dict(x=b[0], y=b[1])))
    ctx.extra['process_wide_cases'] = len(cases)


def run(ctx):
    vlib.import_repo()
    vlib.ensure_static_build()
    vlib.check_props_file(ctx, 'C09')
    protos = protoinfo.all_protocols()
    writers = class_state_writers()
    ctx.extra['facts'] = dict(class_level_state_writers=writers,
                              base_decode_copies_input='data[:]' in inspect.getsource(__import__('pyIRDecoder.protocol_base').protocol_base.IrProtocolBase.decode))
    h1 = input_unmodified(ctx, protos)
    h2 = two_instances(ctx, protos, 6 if ctx.tier == 'quick' else 80)
    encode_deterministic(ctx, protos)
    process_wide_state(ctx, protos)
    # the protocols flagged by the fact extractor but clean in the differential, and vice versa, are listed
    ctx.extra['isolated_by_construction'] = [p['name'] for p in protos if p['name'] not in writers]
    ctx.extra['differential_hits'] = sorted(h2)
    ctx.sample(dict(fact='class_level_state_writers', value=dict(list(writers.items())[:4])))
    ctx.cov['checker_cmd'] = vlib.COQC_CMD + ' on a copy of coq/theories/Props/C09.v'
    ctx.cov['rule'] = ('every protocol: valid / mutated / garbage inputs compared before and after decode (instance and dispatcher); '
                       'random frame sequences on instance X alone vs interleaved with activity on instance Y of the same class; '
                       'encode repeated on one and on another instance; distinct = distinct inputs / sequence shapes')
    ctx.cov['trusted_base'] += ['the isolation theorem is generic (any step function without shared state); that a protocol class has no '
                                'class-level state is a syntactic fact extracted by ast from the class source and checked dynamically by '
                                'the two-instance differential']


def replay(path):
    vlib.import_repo()
    r = json.load(open(path))['replay']
    print(r)
    return 1
