# C06  A held key decodes as the same code on every frame of the sequence
import json

import engine
import gen_inputs
import instance_harness as ih
import perproto
import props.c01 as c01
import protoinfo
import protomodel
import tracer
import vlib

LEVEL = 'proof'

OBL_HEADER = '''From Coq Require Import ZArith List Bool String Lia.
Require Import PyIR.Base.Result PyIR.IW.IW PyIR.IW.IWProps PyIR.Engine.Render PyIR.Engine.Parse
               PyIR.Proto.Descriptor PyIR.Proto.Model PyIR.Proto.C03Check PyIR.Proto.RoundTrip PyIR.Proto.C01 PyIR.Ctl.Instance
               PyIR.Ctl.InstanceChk.
Require Import Gen.Tables Gen.P_%s.
Import ListNotations.
Open Scope Z_scope.
'''


def plan_of(m, n, pk):
    """('same', k) when the n-repeat sequence is the first packet k times, ('marker', R, k) when it is the packet followed
    by k constant frames R, else None."""
    t = m['enc'][n].get('tree')
    if t is None or t[0] != 'leaf' or 'frames' not in t[1]:
        return None
    frames = t[1]['frames']
    if not frames or frames[0] != [('packet', pk)]:
        return None
    rest = frames[1:]
    if all(f == [('packet', pk)] for f in rest):
        return ('same', len(frames))
    if rest and all(len(f) == 1 and f[0][0] == 'const' and f[0][1] == rest[0][0][1] for f in rest):
        return ('marker', rest[0][0][1], len(rest))
    return None


def gen_obligation(e):
    p, m = e['p'], e['model']
    name = p['name']
    if not e['compiled']:
        return None, e['why']
    import instance_chk as ic
    okm, whym = ic.modelled(p, m)
    if not okm:
        return None, whym
    if m['status'].get('encode') != 'ok':
        return None, m['status'].get('encode')
    pk, why = c01.first_packet(m)
    if pk is None:
        return None, why
    if p['rep_bursts']:
        return None, 'repeat frames carry data (_repeat_bursts not empty)'
    fields = dict(pk['fields'])
    order = [x[0] for x in p['parameters']]
    if [k for k, _ in pk['fields']] != order:
        return None, 'encode supplies other fields than _parameters declares'
    for nm, start, stop in p['parameters']:
        w = tracer.static_nbits(fields[nm])
        if w is None or w != stop - start + 1:
            return None, 'inconclusive: width of field %s' % nm
    for arg, lo, hi in p['encode_parameters']:
        f = m['attr'].get(arg)
        if f is None or fields[f][0] != 'mk' or lo < 0 or hi >= (1 << fields[f][2]):
            return None, 'inconclusive: parameter %s' % arg
    plans = [plan_of(m, n, pk) for n in range(protomodel.NMAX + 1)]
    if any(pl is None for pl in plans):
        return None, 'inconclusive: the frame sequence is not "first frame k times" or "first frame + k constant markers"'
    args = ' '.join('a_' + x[0] for x in p['encode_parameters'])
    binder = '(%s : Z)' % args if args else ''
    hyps = ' -> '.join('%s <= a_%s <= %s' % (vlib.z(lo), arg, vlib.z(hi)) for arg, lo, hi in p['encode_parameters'])
    hyp = hyps + ' ->' if hyps else ''
    xs = '[%s]' % '; '.join(protomodel.ciw(fields[nm]) for nm in order)
    pkt = '(PPacket (d_lead_in D_%s) (d_lead_out D_%s) (d_bursts D_%s) (d_msb D_%s) [] (xs %s))' % (name, name, name, name, args)
    out = [OBL_HEADER % name]
    out.append('Definition xs %s : list iw := %s.\n' % (binder, xs))
    out.append('Lemma rt : rt_ok D_%s 20 = true.\nProof. vm_compute. reflexivity. Qed.\n' % name)
    out.append('Lemma pok : forall %s, part_ok %s = true.\nProof. intros. vm_compute. reflexivity. Qed.\n' % (binder or '(_ : unit)', pkt))
    out.append('Lemma fields_canonical : forall %s, %s Forall canonical (xs %s).\nProof. intros. unfold xs. canon_tac. Qed.\n' % (
        binder or '(_ : unit)', hyp, args))
    out.append('Lemma nph : Forall (fun e => e <> PLACEHOLDER) (d_rep_lead_out D_%s).\nProof. repeat constructor; discriminate. Qed.\n' % name)
    out.append('(* the protocol\'s own checks in decode() (the regenerated decode tree; trivial when decode is not overridden) *)\n'
               'Definition chk : list iw -> dec_model := %s.\n' % ic.chk_term(p))
    if p['overrides_decode']:
        xargs = ' '.join('(%s)' % protomodel.ciw(fields[nm]) for nm in order)
        out.append('''Lemma chk_ok : forall %s, %s check_of chk (xs %s) = None.
Proof.
  intros. unfold check_of, chk, xs. cbv beta iota.
  assert (exists ov, tree_eval (dec_%s %s) = DecOk ov) as [ov E] by (eexists; unfold dec_%s; dec_tac; reflexivity).
  rewrite E. reflexivity.
Qed.
''' % (binder or '(_ : unit)', hyp, args, name, xargs, name))
    else:
        out.append('Lemma chk_ok : forall %s, %s check_of chk (xs %s) = None.\nProof. intros. reflexivity. Qed.\n' % (
            binder or '(_ : unit)', hyp, args))
    kind = plans[1][0]
    if kind == 'marker':
        R = plans[1][1]
        if any(pl[0] != 'marker' or pl[1] != R or pl[2] != n for n, pl in enumerate(plans) if n > 0) or plans[0] != ('same', 1):
            return None, 'inconclusive: marker plan is not uniform in repeat_count'
        out.append('Definition R : list Z := %s.\n' % vlib.zlist(R))
        out.append('Lemma marker_ok : exists p, parseH 20 (d_rep_lead_in D_%s) (d_rep_lead_out D_%s) [] R = Ok p.\n'
                   'Proof. eexists. vm_compute. reflexivity. Qed.\n' % (name, name))
        seq = 'F :: repeat R n'
        finish = ('destruct marker_ok as [p0 Hm].\n  apply (held_key_marker_sequence_chk D_%s t 20 chk (xs %s) F R p0 n); '
                  '[reflexivity|exact Hb|apply chk_ok; assumption|exact Hm].' % (name, args))
    else:
        if any(pl != ('same', n + 1) for n, pl in enumerate(plans)):
            return None, 'inconclusive: frame plan is not uniform in repeat_count'
        nmark = len(p['rep_lead_in']) + len(p['rep_lead_out'])
        if nmark != 0:
            return None, 'inconclusive: full-frame repeats although a repeat marker is declared'
        seq = 'repeat F (S n)'
        finish = ('apply (held_key_same_frame_sequence_chk D_%s t 20 chk (xs %s) F n); [exact nph| |exact Hb|apply chk_ok; assumption].\n'
                  '  (* a well-formed frame is not empty, the (absent) repeat marker is *)\n'
                  '  destruct Hwf as [Hne _]. intros Hz. apply Hne. destruct F; [reflexivity|discriminate Hz].' % (name, args))
    out.append('''(* every in-range assignment and every repeat count: fed in order to one fresh decoder, every frame of the sequence
   encode() emits yields the code of the encoded parameters *)
Theorem C06_%s : forall %s (n : nat), %s
  exists t F, as_pairs (d_bursts D_%s) = Some t /\\ render_part %s = Ok F /\\
    run_seq_chk D_%s t 20 chk fresh (%s) = repeat (Ok (xs %s)) (S n).
Proof.
  intros.
  destruct (exact_roundtrip D_%s 20 (xs %s) rt (pok %s) ltac:(apply fields_canonical; assumption) eq_refl)
    as [t [F [Et [Er [Hwf Hb]]]]].
  exists t, F. split; [exact Et|]. split; [exact Er|].
  %s
Qed.
Print Assumptions C06_%s.
''' % (name, binder, hyp, name, pkt, name, seq, args, name, args, args or 'tt', finish, name))
    return '\n'.join(out), None


def search(ctx, protos, per):
    from pyIRDecoder import IRException
    hits = {}
    rng = ctx.rng
    # time under control: the frames of a held key arrive one frame duration apart (the virtual clock is advanced by the harness);
    # every sequence is fed twice - back to back (clock frozen) and paced in real time
    import props.c12 as c12
    c12.install_clock()
    for p in protos:
        name = p['name']
        for a in gen_inputs.param_assignments(p, rng, per):
            for n, paced in [(k, False) for k in range(5)] + [(2, True), (4, True)]:
                c, e = engine.fresh_encode(p, a, repeat_count=n)
                ctx.count_eval(key=(name, tuple(sorted(a.items())), n, paced))
                if c is None:
                    break
                frames = [list(f) for f in c.normalized_rlc]
                inst = p['cls']()
                got_any = False
                bad = None
                with engine.class_guard(p['cls']):
                    for i, f in enumerate(frames):
                        if paced and i:
                            c12.CLOCK[0] += sum(abs(x) for x in frames[i - 1])
                        try:
                            g = inst.decode(list(f), p['frequency'])
                        except IRException as ex:
                            if type(ex).__name__ not in ('RepeatLeadInError', 'RepeatLeadOutError'):
                                bad = ('frame %d of the sequence raises %s' % (i, type(ex).__name__), dict(frame_index=i))
                                break
                            continue
                        except Exception as ex:  # noqa
                            bad = ('frame of the sequence raises ' + type(ex).__name__, dict(frame_index=i))
                            break
                        finally:
                            vlib.drain_workers()
                        wrong = [k for k, v in a.items() if getattr(g, k, None) is None or int(getattr(g, k)) != v]
                        if wrong:
                            bad = ('a frame of the sequence yields other parameters', dict(frame_index=i, differing=wrong))
                            break
                        got_any = True
                    if bad is None and not got_any:
                        bad = ('no frame of the sequence yields the code', {})
                    # no-history clause: every single frame on a fresh decoder: the code or an error, never another code
                    if bad is None:
                        for i, f in enumerate(frames):
                            try:
                                g = p['cls']().decode(list(f), p['frequency'])
                                wrong = [k for k, v in a.items() if getattr(g, k, None) is None or int(getattr(g, k)) != v]
                                if wrong:
                                    bad = ('a single frame on a fresh decoder yields another code', dict(frame_index=i))
                                    break
                            except Exception:  # noqa
                                pass
                            finally:
                                vlib.drain_workers()
                if bad:
                    hits[name] = True
                    info = dict(a)
                    info['n'] = n
                    kind = bad[0]
                    raised = None
                    if ' of the sequence raises ' in kind:
                        raised = kind.split(' raises ')[1]
                        kind = 'a frame of the sequence is rejected'
                    fi = bad[1].get('frame_index')
                    pos = 'none' if fi is None else ('first' if fi == 0 else ('last' if fi == len(frames) - 1 else 'inner'))
                    info['sig'] = 'n%d:%s:%s%s' % (min(n, 2), pos, raised or ','.join(bad[1].get('differing', [])), ':paced' if paced else '')
                    ctx.report(name, kind, info, dict(protocol=name, params=a, repeat_count=n, detail=bad[1], raised=raised))
                    break
            else:
                ctx.passed(name, dict(a, n=4))
    return hits


def run(ctx):
    vlib.import_repo()
    info = perproto.prepare_models(ctx)
    protos = [e['p'] for e in info.values()]
    hits = search(ctx, protos, 4 if ctx.tier == 'quick' else 60)
    results = perproto.run_obligations(ctx, 'C06', info, gen_obligation, timeout=180)
    vlib.check_props_file(ctx, 'C06')
    perproto.settle(ctx, 'C06', results, hits)
    import instance_chk as ic
    items = []
    for name, e in info.items():
        p = e['p']
        if e['compiled'] and ic.modelled(p, e['model'])[0]:
            for seq in ih.sequences_for(p, ctx.rng, 5 if ctx.tier == 'quick' else 60):
                items.append((p, 20, seq))
    bad = ic.corr_instance_chk(ctx, items)
    if bad is None:
        ctx.report('correspondence', 'model-eval-failed', {}, dict(theorem='PyIR.Ctl.InstanceChk.run_instance_chk evaluation'), found_input=False)
        bad = []
    for (p, tol, frames), impl, model in bad:
        ctx.report(p['name'], 'instance-model-disagrees', dict(frames=len(frames)),
                   dict(protocol=p['name'], frames=frames, impl=impl[:80], model=model[:80]))
    ctx.extra['correspondence'] = dict(sequences=len(items), disagreements=len(bad))
    ctx.cov['checker_cmd'] = vlib.COQC_CMD + ' for Gen/Tables.v, Gen/P_<p>.v, C06_<p>.v and Props/C06.v'
    ctx.cov['rule'] = ('all protocols x in-range assignments x repeat_count 0..4: the emitted sequence on one fresh decoder, and every '
                       'single frame on a decoder without history; distinct = (protocol, assignment, n)')
    ctx.cov['trusted_base'] += ['hand-written model PyIR.Ctl.InstanceChk of IrProtocolBase.decode with a held key, for classes that do not '
                                'override decode or override it after the common template (recognised syntactically), with the regenerated '
                                'decode tree as the protocol check; tied by correspondence on frame sequences incl. other keys, garbage '
                                'and damaged frames']


def replay(path):
    vlib.import_repo()
    r = json.load(open(path))['replay']
    if 'params' not in r:
        print(r)
        return 1
    p = protoinfo.by_name()[r['protocol']]
    c, e = engine.fresh_encode(p, r['params'], repeat_count=r.get('repeat_count', 0))
    if c is None:
        print('encode raises', repr(e))
        return 1
    enc, raw = ih.real_sequence(p, [list(f) for f in c.normalized_rlc]) if p['parameters'] else ([], [])
    print([x[0] if x[0] == 'raise' else str(x[1]) for x in raw])
    return 1
