# C11  The dispatcher reports every new key press, exactly as its protocol decodes it
import props.c10 as c10

LEVEL = 'proof'


def run(ctx):
    c10.run(ctx, 'C11')
    # the dispatcher forgets a released key through the release timer: a key whose timer does not wake the timer worker stays held,
    # and its next press is answered with None (checked on the real worker class, virtual clock)
    import props.c12 as c12
    c12.install_clock()
    c12.timer_wakeup_check(ctx)
    # list / tuple renderings of the same signal give the same answer
    import dispatch_run as dr
    import engine
    import protoinfo
    d = dr.disp()
    rng = ctx.rng
    ps = protoinfo.all_protocols()
    for p in rng.sample(ps, 25 if ctx.tier == 'quick' else 173):
        k = dr.key_frames(p, rng)
        if not k:
            continue
        frame = k[1][0]
        outs = []
        for conv in (list, tuple):
            d.reset()
            d.set_enabled({p['name']})
            try:
                c = d.mod.decode(conv(frame), p['frequency'])
                outs.append(None if c is None else d.code_key(c))
            except Exception as e:  # noqa
                outs.append('raises ' + type(e).__name__)
        d.reset()
        ctx.count_eval(key=('rendering', p['name']))
        if outs[0] != outs[1]:
            ctx.report('dispatcher', 'list and tuple renderings differ', dict(protocol=p['name']),
                       dict(protocol=p['name'], frame=frame, list_result=str(outs[0]), tuple_result=str(outs[1])))


    # the public entry point on a fresh dispatcher, one protocol enabled: whatever that protocol's own decoder accepts (the shortest
    # frames an encoder can produce included: all-minimum / all-maximum parameters) is reported, with the same identity
    import gen_inputs
    import vlib
    for p in ps:
        seen = set()
        for a in gen_inputs.param_assignments(p, rng, 2)[:2] + gen_inputs.param_assignments(p, rng, 2)[-1:]:
            c, e = engine.fresh_encode(p, a)
            if c is None or not c.normalized_rlc:
                continue
            frame = list(c.normalized_rlc[0])
            if tuple(frame) in seen:
                continue
            seen.add(tuple(frame))
            with engine.class_guard(p['cls']):
                try:
                    own = d.code_key(p['cls']().decode(list(frame), p['frequency']))
                except Exception:  # noqa
                    own = None
            vlib.drain_workers()
            if own is None:
                continue
            d.reset()
            d.set_enabled({p['name']})
            try:
                c2 = d.mod.decode(list(frame), p['frequency'])
                got = None if c2 is None else d.code_key(c2)
            except Exception as ex:  # noqa
                got = 'raises ' + type(ex).__name__
            d.reset()
            ctx.count_eval(key=('public', p['name'], tuple(frame[:10]), len(frame)))
            if got is None:
                ctx.report('dispatcher', 'new key not reported', dict(protocol=p['name'], pre_held=False),
                           dict(protocol=p['name'], params=a, frame=frame, own_decoder=str(own), public_decode=None, sequence=None))
            elif got != own:
                ctx.report('dispatcher', 'returned code differs from the protocol decoder', dict(protocol=p['name']),
                           dict(protocol=p['name'], params=a, frame=frame, own_decoder=str(own), public_decode=str(got), sequence=None))


replay = c10.replay
