# C11  The dispatcher reports every new key press, exactly as its protocol decodes it
import props.c10 as c10

LEVEL = 'proof'


def run(ctx):
    c10.run(ctx, 'C11')
    # list / tuple renderings of the same signal give the same answer
    import dispatch_run as dr
    import engine
    import protoinfo
    d = dr.disp()
    rng = ctx.rng
    ps = protoinfo.all_protocols()
    for p in rng.sample(ps, 25 if ctx.tier == 'quick' else 173):
        k = dr.key_frames(p, rng)
        if not k:
            continue
        frame = k[1][0]
        outs = []
        for conv in (list, tuple):
            d.reset()
            d.set_enabled({p['name']})
            try:
                c = d.mod.decode(conv(frame), p['frequency'])
                outs.append(None if c is None else d.code_key(c))
            except Exception as e:  # noqa
                outs.append('raises ' + type(e).__name__)
        d.reset()
        ctx.count_eval(key=('rendering', p['name']))
        if outs[0] != outs[1]:
            ctx.report('dispatcher', 'list and tuple renderings differ', dict(protocol=p['name']),
                       dict(protocol=p['name'], frame=frame, list_result=str(outs[0]), tuple_result=str(outs[1])))


replay = c10.replay
