# C20  The fallback decoder gives unknown signals a stable identity
import contextlib
import io
import json
import os
import sys

import engine
import gen_inputs
import protoinfo
import vlib

LEVEL = 'proof'


@contextlib.contextmanager
def quiet():
    """universal.py prints a traceback whenever __decode_1 raises; keep the check's output readable."""
    old = sys.stderr
    sys.stderr = io.StringIO()
    try:
        yield
    finally:
        sys.stderr = old


def uni_decode(inst, data, freq=0):
    """(norm as ints, CODE) or ('raise', name)."""
    with quiet():
        try:
            c = inst.decode(list(data), freq)
        except Exception as e:  # noqa
            return ('raise', type(e).__name__)
    try:
        c.repeat_timer.cancel()
    except Exception:  # noqa
        pass
    norm = c.normalized_rlc[0]
    return ([int(x) for x in norm], int(c._data['CODE']), all(float(x) == int(x) for x in norm))


def signals(ctx, n_random, per_proto):
    rng = ctx.rng
    out = []
    for p in protoinfo.all_protocols():
        for a in gen_inputs.param_assignments(p, rng, per_proto):
            c, e = engine.fresh_encode(p, a)
            if c is not None:
                for f in c.normalized_rlc[:1]:
                    if len(f) > 6:
                        out.append(('frame:' + p['name'], list(f)))
    for _ in range(n_random):
        n = rng.randint(8, 200)
        base = [rng.choice([250, 300, 450, 560, 600, 900, 1200, 1690, 2400, 4500, 9000]) for _ in range(rng.randint(2, 5))]
        s = []
        for i in range(n):
            v = rng.choice(base) if rng.random() < 0.85 else rng.randint(100, 20000)
            v = int(v * rng.uniform(0.97, 1.03))
            s.append(v if i % 2 == 0 else -v)
        s[-1] = -rng.randint(20000, 100000) if n % 2 == 0 else s[-1]
        out.append(('random', s))
    return out


def run(ctx):
    vlib.import_repo()
    from pyIRDecoder import protocols
    vlib.ensure_static_build()
    vlib.check_props_file(ctx, 'C20')
    U = protocols.Universal
    Ucls = U.__class__
    rng = ctx.rng
    sigs = signals(ctx, 150 if ctx.tier == 'quick' else 3000, 1 if ctx.tier == 'quick' else 8)
    cases, meta = [], []
    kinds = {}
    tol0 = Ucls().tolerance
    for tag, s in sigs:
        kinds[tag.split(':')[0]] = kinds.get(tag.split(':')[0], 0) + 1
        ctx.count_eval(key=tuple(s))
        r = uni_decode(U, s)
        where = 'Universal'
        info = dict(kind=tag.split(':')[0], n=len(s))
        if r[0] == 'raise':
            ctx.report(where, 'raises ' + r[1], info, dict(signal=s, source=tag))
            cases.append((None, None))
            continue
        norm, code, integral = r
        # purity: another instance, and the singleton after unrelated activity, give the same code
        r2 = uni_decode(Ucls(), s)
        other = sigs[rng.randrange(len(sigs))][1]
        uni_decode(U, other)
        r3 = uni_decode(U, s)
        if r2 != r or r3 != r:
            ctx.report(where, 'code depends on instance or history', info, dict(signal=s, source=tag, first=r[1], fresh=str(r2[1:2]), again=str(r3[1:2])))
        # ... also when the signal decoded just before is a NEAR one: every duration within the tolerance window of this signal's,
        # yet another signal (the code of the probe must be the one a fresh instance gives, whatever was decoded before)
        tol = tol0
        if U.tolerance != tol0:
            # a decode changed the settings of the instance: later codes would depend on this history
            ctx.report(where, 'code depends on instance or history', dict(kind='settings', n=len(s)),
                       dict(signal=s, source=tag, tolerance_before=tol0, tolerance_after=U.tolerance))
            U.tolerance = tol0
        for pattern in ('random', 'alt', 'random'):
            sp = gen_inputs.perturb(s, int(tol * 3), pattern, rng)          # up to 3/4 of the tolerance
            fresh = uni_decode(Ucls(), sp)
            uni_decode(U, s)
            after = uni_decode(U, sp)
            ctx.count_eval(key=('near', tuple(sp)))
            if after != fresh:
                ctx.report(where, 'code depends on instance or history', info,
                           dict(signal=sp, source=tag + ' near-signal history', history=[s], fresh=str(fresh[1:2]), after_history=str(after[1:2])))
                break
        # stability under a quarter of the tolerance
        for pattern in ('long', 'short', 'alt', 'random'):
            sp = gen_inputs.perturb(s, tol, pattern, rng)
            rp = uni_decode(U, sp)
            if rp[0] == 'raise':
                ctx.report(where, 'raises ' + rp[1], info, dict(signal=sp, source=tag + ' perturbed'))
            elif rp[1] != code:
                # one finding per source of the signal (protocol of the frame / random generator), so that a defect that makes
                # every signal unstable is not hidden behind the few known unstable ones
                ctx.report('Universal/' + tag.split('#')[0], 'code changes under a quarter-tolerance perturbation', dict(info, pattern=pattern),
                           dict(signal=s, perturbed=sp, code=code, perturbed_code=rp[1], source=tag))
                break
        else:
            ctx.passed(where, info)
        if integral:
            cases.append((vlib.zlist(norm), [0, code]))
            meta.append((tag, s, norm))
    # degenerate histories (signals the pair-table decode cannot handle, decoded several times - a held key) must leave no trace either:
    # the settings of the instance and the codes of later signals stay what they are on a fresh instance
    degenerate = [[13000, -3000] + [1000, -1000] * 7, [500, -500] * 9, [9000, -4500] + [560, -560] * 12 + [560, -40000]]
    probes = [sg for _, sg in sigs[:40]]
    for hist in degenerate:
        inst = Ucls()
        for _ in range(3):
            uni_decode(inst, hist)
        ctx.count_eval(key=('degenerate', tuple(hist[:6]), len(hist)))
        if inst.tolerance != tol0:
            ctx.report('Universal', 'code depends on instance or history', dict(kind='settings', n=len(hist)),
                       dict(signal=hist, source='degenerate history', history=[hist] * 3, tolerance_before=tol0, tolerance_after=inst.tolerance))
            break
        for sg in probes:
            sp = gen_inputs.perturb(sg, tol0, 'random', rng)
            fresh = uni_decode(Ucls(), sp)
            after = uni_decode(inst, sp)
            ctx.count_eval(key=('after-degenerate', tuple(sp)))
            if fresh != after:
                ctx.report('Universal', 'code depends on instance or history', dict(kind='degenerate', n=len(sp)),
                           dict(signal=sp, source='probe after a degenerate history', history=[hist] * 3, fresh=str(fresh[1:2]), after_history=str(after[1:2])))
                break
    if U.tolerance != tol0:
        ctx.report('Universal', 'code depends on instance or history', dict(kind='settings', n=0),
                   dict(signal=[], source='tolerance of the singleton after the run', tolerance_before=tol0, tolerance_after=U.tolerance))
    cases = [c for c in cases if c[0] is not None]
    bad = vlib.run_model_cases(ctx, 'corr_universal', 'Require Import PyIR.Util.Universal.', 'run_universal', 'list Z',
                               cases, shard=200, timeout=900)
    if bad is None:
        ctx.report('correspondence', 'model-eval-failed', {}, dict(theorem='PyIR.Util.Universal.run_universal evaluation'), found_input=False)
        bad = []
    for i, o in bad:
        ctx.report('Universal', 'model-disagrees', dict(n=len(meta[i][1])),
                   dict(signal=meta[i][1], normalised=meta[i][2], impl=cases[i][1], model=o))
    ctx.extra['correspondence'] = dict(cases=len(cases), disagreements=len(bad), distribution=kinds)
    if meta:
        ctx.sample(dict(source=meta[0][0], normalised=meta[0][2][:16], code=cases[0][1][1]))
    ctx.cov['checker_cmd'] = vlib.COQC_CMD + ' on a copy of coq/theories/Props/C20.v'
    ctx.cov['rule'] = ('first frames of all protocols and random alternating signals of 8..200 durations built from 2..5 base '
                       'durations with 3% jitter; each decoded on the singleton, on a fresh instance and after unrelated decodes, '
                       'and under long/short/alternating/random quarter-tolerance perturbations; distinct = distinct signals')
    ctx.cov['trusted_base'] += ['hand-written model PyIR.Util.Universal of Universal.__decode_1/__decode_2 on the normalised signal '
                                '(tied by correspondence: same code from the implementation\'s own normalised output); '
                                'utils.clean_code / build_mce_rlc on floats are NOT modelled: stability of the clustering under '
                                'perturbation is judged by the oracle only']
    ctx.assumptions.append('partial: the theorem says the code depends only on the equality pattern of normalised durations; '
                           'that clustering keeps the pattern under perturbation is tested, not proved')


def replay(path):
    vlib.import_repo()
    from pyIRDecoder import protocols
    r = json.load(open(path))['replay']
    a = uni_decode(protocols.Universal, r['signal'])
    print('signal ->', a[1:2] if a[0] != 'raise' else a)
    if 'perturbed' in r:
        b = uni_decode(protocols.Universal, r['perturbed'])
        print('perturbed ->', b[1:2] if b[0] != 'raise' else b)
        return 1 if a[1:2] != b[1:2] else 0
    return 1 if a[0] == 'raise' else 0
