# C17  Saved configuration loads back to the same settings
import json
import os
import shutil
import string
import tempfile

import engine
import gen_inputs
import protoinfo
import vlib

LEVEL = 'proof'
META = '&<>"\''


def rand_text(rng, n, alphabet):
    return ''.join(rng.choice(alphabet) for _ in range(n))


def esc_py(s):
    for a, b in (('&', '&amp;'), ('<', '&lt;'), ('>', '&gt;'), ('"', '&quot;'), ("'", '&apos;')):
        s = s.replace(a, b)
    return s


def safe_url(rng):
    """URL-like text with XML metacharacters that Python's eval() does not reinterpret."""
    body = rand_text(rng, rng.randint(0, 30), string.ascii_letters + string.digits + '/:.?=%_-' + META * 3 + ' ')
    return 'http://' + body


def settings_roundtrip(ctx, rng, with_codes=False):
    """Save the live configuration with random settings, load it into a new decoder set, compare."""
    from pyIRDecoder import protocols, Config
    d = tempfile.mkdtemp(prefix='c17_')
    path = os.path.join(d, 'cfg.xml')
    problems = []
    try:
        for dec in protocols:
            dec.enabled, dec.tolerance, dec.frequency_tolerance = True, 20, 2
        # the application has been decoding before it saves: a few keys go through the dispatcher (decode may not disturb what save
        # writes)
        for p in rng.sample(protoinfo.all_protocols(), 4) + [protoinfo.by_name().get('NEC')]:
            if p is None:
                continue
            try:
                a = gen_inputs.param_assignments(p, rng, 1)[0]
                fr = getattr(protocols, p['name']).encode(**a).normalized_rlc[0]
                protocols.decode(list(fr), p['frequency'])
            except Exception:  # noqa
                pass
        vlib.drain_workers()
        want = {}
        for dec in protocols:
            en = rng.random() < 0.7
            tol = rng.choice([5, 10, 20, 15, 12.5, 7.25, 0, 100, 1e-05, 2.5e-07, 1e+16, 0.0001, 33.333333333333336])  # incl. exponent forms
            ftol = rng.choice([1, 2, 3, 2.5, 0.5, 0, 1e-05, 1.5e+20, 0.1 + 0.2])
            dec.enabled, dec.tolerance, dec.frequency_tolerance = en, tol, ftol
            want[dec.name] = (en, tol, ftol)
        url = safe_url(rng)
        protocols.config.database_url = url
        # the application reads settings through protocols.<Name> (before and after a reload)
        by_attr = rng.sample(sorted(want), min(12, len(want)))
        for nm in by_attr:
            try:
                getattr(protocols, nm).enabled
            except AttributeError:
                pass
        saved = []
        if with_codes:
            ps = protoinfo.all_protocols()
            for p in rng.sample(ps, 3):
                a = gen_inputs.param_assignments(p, rng, 2)[-1]
                try:
                    c = getattr(protocols, p['name']).encode(**a)
                    c.name = 'key_' + rand_text(rng, 4, string.ascii_letters)
                    c.save()
                    saved.append((p['name'], c.name, a))
                except Exception:  # noqa
                    pass
        # the file usually exists already: an older, slightly longer configuration was saved to and loaded from this path before
        try:
            protocols.config.database_url = url + 'x' * rng.randint(1, 16)
            protocols.config.save(path)
            Config(path)
        except Exception:  # noqa
            pass
        protocols.config.database_url = url
        try:
            protocols.config.save(path)
        except Exception as e:  # noqa
            problems.append(('save raises', dict(url=url, saved_codes=len(saved), exception=type(e).__name__)))
            return problems, want, url
        try:
            protocols.load_config(Config(path))
        except Exception as e:  # noqa
            problems.append(('load raises ' + type(e).__name__, dict(url=url, saved_codes=len(saved))))
            return problems, want, url
        for dec in protocols:
            if dec.name in want and (dec.enabled, dec.tolerance, dec.frequency_tolerance) != want[dec.name]:
                problems.append(('setting changed', dict(protocol=dec.name, want=want[dec.name],
                                                         got=(dec.enabled, dec.tolerance, dec.frequency_tolerance))))
                break
        for nm in by_attr:
            try:
                dec = getattr(protocols, nm)
            except AttributeError:
                continue
            if (dec.enabled, dec.tolerance, dec.frequency_tolerance) != want[nm]:
                problems.append(('setting read through protocols.<Name> differs from the saved one',
                                 dict(protocol=nm, want=want[nm], got=(dec.enabled, dec.tolerance, dec.frequency_tolerance))))
                break
            if not any(dec is x for x in protocols):
                problems.append(('protocols.<Name> is not a decoder of the loaded set', dict(protocol=nm)))
                break
        if protocols.config.database_url != url:
            problems.append(('database_url changed', dict(url=url, got=protocols.config.database_url)))
        for pname, cname, a in saved:
            dec = getattr(protocols, pname)
            names = [c.name for c in dec]
            if cname not in names:
                problems.append(('saved code lost', dict(protocol=pname)))
                break
        # a protocol saved as disabled is not used
        off = [n for n, (en, _, _) in want.items() if not en and n != 'Universal']
        if off:
            nm = off[0]
            p = protoinfo.by_name().get(nm)
            if p:
                c, e = engine.fresh_encode(p, gen_inputs.param_assignments(p, rng, 1)[0])
                if c is not None:
                    try:
                        got = protocols.decode(list(c.normalized_rlc[0]), p['frequency'])
                        if got is not None and got.decoder.name == nm:
                            problems.append(('a protocol saved as disabled decodes', dict(protocol=nm)))
                    except Exception:  # noqa
                        pass
        return problems, want, url
    finally:
        shutil.rmtree(d, ignore_errors=True)


def restore_defaults():
    from pyIRDecoder import protocols
    for dec in protocols:
        dec.enabled, dec.tolerance, dec.frequency_tolerance = True, 20, 2
        del dec._saved_codes[:]
    protocols.config.database_url = 'http://eventghost.net:43847'
    vlib.drain_workers()


def run(ctx):
    vlib.import_repo()
    from pyIRDecoder import xml_handler
    vlib.ensure_static_build()
    vlib.check_props_file(ctx, 'C17')
    rng = ctx.rng
    # ---- correspondence: escape / unescape model vs the real element writer and reader
    n = 400 if ctx.tier == 'quick' else 6000
    cases, meta = [], []
    for i in range(n):
        s = rand_text(rng, rng.randint(0, 24), META * 4 + 'ab;&ltgqupos#1 ' + string.ascii_letters)
        if rng.random() < 0.3:
            s = rng.choice(['&lt;', '&amp;', '&amp;lt;', '&quot;x', 'a&apos;', '&&amp;;', '<&>"\'']) + s
        el = xml_handler.XMLElement('T')
        el.attrib._XMLAttributes__data['v'] = s          # raw store: the writer escapes on output
        text = str(el)
        # what the writer put between the quotes, and what the reader makes of it
        written = text[text.index('v="') + 3:text.rindex('"')]
        try:
            back = xml_handler.XMLElement.from_string(text)
            got = back.attrib._XMLAttributes__data.get('v')
        except Exception as ex:  # noqa
            got = None
            ctx.report('xml_handler', 'written element does not load: ' + type(ex).__name__, dict(has_apos="'" in s),
                       dict(value=s, written=written, error=repr(ex)[:200]))
        ctx.count_eval(key=s)
        cases.append((vlib.zlist([ord(ch) for ch in s]), [ord(ch) for ch in written] + [-1] + [ord(ch) for ch in (got or '')]))
        meta.append(s)
        if got != s:
            ctx.report('xml_handler', 'attribute value changed by the round trip', dict(has_amp='&' in s),
                       dict(value=s, written=written, read_back=got))
    bad = vlib.run_model_cases(ctx, 'corr_xml', 'Require Import PyIR.Util.Xml.',
                               'fun s => map Z.of_nat (escape (map Z.to_nat s)) ++ [-1] ++ map Z.of_nat (unescape (escape (map Z.to_nat s)))',
                               'list Z', cases, shard=500)
    if bad is None:
        ctx.report('correspondence', 'model-eval-failed', {}, dict(theorem='PyIR.Util.Xml.escape evaluation'), found_input=False)
        bad = []
    for i, o in bad:
        ctx.report('xml_handler', 'escape-model-disagrees', {}, dict(value=meta[i], impl=cases[i][1], model=o))
    ctx.extra['correspondence'] = dict(cases=len(cases), disagreements=len(bad))
    # ---- the whole save / load path on the real classes
    rounds = 4 if ctx.tier == 'quick' else 40
    try:
        for r in range(rounds):
            probs, want, url = settings_roundtrip(ctx, rng, with_codes=False)
            ctx.count_eval(key=('cfg', r))
            for kind, info in probs:
                ctx.report('config', kind, dict(codes=False), dict(round=r, detail=info, seed=ctx.seed))
            restore_defaults()
        for r in range(2 if ctx.tier == 'quick' else 10):
            probs, want, url = settings_roundtrip(ctx, rng, with_codes=True)
            ctx.count_eval(key=('cfg+codes', r))
            for kind, info in probs:
                ctx.report('config', kind + ' (with saved codes)', dict(codes=True), dict(round=r, detail=info, seed=ctx.seed))
            restore_defaults()
        # values Python's eval() reinterprets
        for url in ('1+1', 'None', '[1, 2]'):
            from pyIRDecoder import protocols, Config
            d = tempfile.mkdtemp(prefix='c17_')
            try:
                protocols.config.database_url = url
                protocols.config.save(os.path.join(d, 'c.xml'))
                c2 = Config(os.path.join(d, 'c.xml'))
                ctx.count_eval(key=('eval', url))
                if c2.database_url != url:
                    ctx.report('config', 'attribute value reinterpreted by eval', dict(url=url),
                               dict(url=url, got=repr(c2.database_url)))
            finally:
                shutil.rmtree(d, ignore_errors=True)
                restore_defaults()
    finally:
        restore_defaults()
    ctx.sample(dict(value=meta[0], writer_and_reader=cases[0][1]))
    ctx.cov['checker_cmd'] = vlib.COQC_CMD + ' on a copy of coq/theories/Props/C17.v'
    ctx.cov['rule'] = ('random attribute values rich in & < > " \' and entity look-alikes through XMLElement.__str__/from_string '
                       '(each distinct string counts); random settings of all 174 decoders saved and loaded into a new decoder set')
    ctx.cov['trusted_base'] += ['hand-written model PyIR.Util.Xml.escape/unescape (sequential str.replace passes), tied by correspondence',
                                'Python eval() of attribute values, the file system and the object plumbing of save()/load_config() '
                                'are exercised by the oracle only']
    ctx.assumptions.append('partial: only the escaping clause is a theorem; settings / saved codes are covered by the save-load oracle')


def replay(path):
    vlib.import_repo()
    from pyIRDecoder import xml_handler
    r = json.load(open(path))['replay']
    if 'value' in r:
        el = xml_handler.XMLElement('T', v=r['value'])
        back = xml_handler.XMLElement.from_string(str(el))
        print(repr(r['value']), '->', str(el).strip(), '->', repr(back.v))
        return 0 if back.v == r['value'] else 1
    print(r)
    return 1
