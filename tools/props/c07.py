# C07  A full frame decodes to its own parameters whatever was decoded before
import itertools
import json

import engine
import gen_inputs
import instance_harness as ih
import perproto
import protoinfo
import vlib

LEVEL = 'proof'

OBL = '''From Coq Require Import ZArith List Bool String Lia.
Require Import PyIR.Base.Result PyIR.IW.IW PyIR.Engine.Parse PyIR.Proto.Descriptor PyIR.Proto.Model PyIR.Ctl.Instance PyIR.Ctl.InstanceChk.
Require Import Gen.Tables%s.
Import ListNotations.
Open Scope Z_scope.

(* the protocol's own checks in decode() (the regenerated decode tree; trivial when decode is not overridden) *)
Definition chk : list iw -> dec_model := %s.

(* %s: for EVERY state of a decoder instance (any held key, after any history), every ptable, every tolerance and every frame
   whose length is not that of the repeat marker (%d durations): same key or same error as a fresh decoder *)
Theorem C07_%s : forall t tol s frame, List.length frame <> %d%%nat ->
  res_ident D_%s (snd (fst (decode_inst_chk D_%s t tol chk s frame))) =
  res_ident D_%s (snd (fst (decode_inst_chk D_%s t tol chk fresh frame))).
Proof.
  intros t tol s frame Hlen. apply full_frame_history_independent_chk; [|exact Hlen].
  repeat constructor; discriminate.
Qed.
Print Assumptions C07_%s.
'''


def gen_obligation(e):
    import instance_chk as ic
    p = e['p']
    ok, why = ic.modelled(p, e['model'] if e['compiled'] else None)
    if not ok:
        return None, why
    n = len(p['rep_lead_in']) + len(p['rep_lead_out'])
    nm = p['name']
    return OBL % (' Gen.P_%s' % nm if p['overrides_decode'] else '', ic.chk_term(p), nm, n, nm, n, nm, nm, nm, nm, nm), None


def outcome(p, inst, frame):
    from pyIRDecoder import IRException
    try:
        c = inst.decode(list(frame), p['frequency'])
        vals = {}
        for arg, lo, hi in p['encode_parameters']:
            v = getattr(c, arg, None)
            vals[arg] = None if v is None else int(v)
        try:
            ident = str(c)
        except Exception:  # noqa
            ident = '?'
        return ('code', ident, tuple(sorted(vals.items())))
    except IRException as ex:
        return ('raise', type(ex).__name__)
    except Exception as ex:  # noqa
        return ('raise!', type(ex).__name__)


def deliver():
    """run the release callbacks queued by repeat_timer.stop() (the asynchronous notifications)"""
    from pyIRDecoder import ir_code
    pw = ir_code._process_thread_worker
    n = 0
    while pw.queue:
        func, args = pw.queue.pop(0)
        try:
            func(*args)
        except Exception:  # noqa
            pass
        n += 1
    return n


def canon_sig(word, probe_key):
    """signature of a (minimal) failing history, up to the symmetry between the two keys: P/p = full / last frame of the probe key,
    O/o = of the other key"""
    m = {'A': 'P', 'a': 'p', 'B': 'O', 'b': 'o'} if probe_key == 'A' else {'B': 'P', 'b': 'p', 'A': 'O', 'a': 'o'}
    return ''.join(m.get(c, c) for c in word)


def search(ctx, protos, depth, per):
    hits = {}
    rng = ctx.rng
    alphabet = ['A', 'a', 'B', 'b', 'G', 'E', 'R', 'D']
    for p in protos:
        name = p['name']
        al = gen_inputs.param_assignments(p, rng, 4)
        keys = []
        for a in al:
            if any(a == k[0] for k in keys):
                continue
            c, e = engine.fresh_encode(p, a, repeat_count=1)
            if c is not None:
                keys.append((a, [list(f) for f in c.normalized_rlc]))
            if len(keys) == 2:
                break
        if len(keys) < 2:
            continue
        (aA, fA), (aB, fB) = keys
        words = list(itertools.product(alphabet, repeat=depth))
        rng.shuffle(words)
        ecount = [0]

        def run_word(word, probe):
            inst = p['cls']()
            vlib.drain_workers()
            with engine.class_guard(p['cls']):
                for op in word:
                    if op == 'A':
                        outcome(p, inst, fA[0])
                    elif op == 'a':
                        outcome(p, inst, fA[-1])
                    elif op == 'B':
                        outcome(p, inst, fB[0])
                    elif op == 'b':
                        outcome(p, inst, fB[-1])
                    elif op == 'G':
                        outcome(p, inst, garbage)
                    elif op in ('E', 'R'):
                        try:
                            if op == 'R' and 'repeat_count' in p['enc_args']:
                                inst.encode(**aA, repeat_count=2)
                            else:
                                inst.encode(**aA)
                        except Exception:  # noqa
                            pass
                    elif op == 'D':
                        deliver()
                got = outcome(p, inst, probe)
                vlib.drain_workers()
                want = outcome(p, p['cls'](), probe)
                vlib.drain_workers()
            return got, want

        def differs(got, want):
            return got != want and not (got[0] == 'code' and want[0] == 'code' and got[1:] == want[1:])

        found = 0
        for word in words[:per]:
            if found >= 4:
                break
            garbage = gen_inputs.garbage(rng)
            for probe_key, probe in (('B', fB[0]), ('A', fA[0])):
                got, want = run_word(word, probe)
                ctx.count_eval(key=(name, word, probe_key))
                if differs(got, want):
                    # shrink the history: drop operations as long as the probe still decodes differently
                    w = list(word)
                    i = 0
                    while i < len(w):
                        w2 = w[:i] + w[i + 1:]
                        g2, t2 = run_word(w2, probe)
                        if differs(g2, t2):
                            w, got, want = w2, g2, t2
                        else:
                            i += 1
                    hits[name] = True
                    found += 1
                    if len(w) <= 2:
                        continue
                    # single removals can get stuck on a word that is not minimal (SolidTek16: A fails, AA passes, AAA fails):
                    # a word with a failing sub-history of one or two operations is covered by the enumeration below
                    subs = set()
                    for n in (1, 2):
                        subs.update(itertools.combinations(range(len(w)), n))
                    if any(differs(*run_word([w[i] for i in idx], probe)) for idx in sorted(subs)):
                        continue
                    ctx.report(name, 'full frame decoded differently after a history',
                               dict(word=''.join(word), held_same_key=(word[-1].upper() == probe_key), sig=canon_sig(w, probe_key)),
                               dict(protocol=name, keyA=aA, keyB=aB, word=list(word), minimal_word=w, garbage=garbage, probe=probe_key,
                                    after_history=list(got), fresh=list(want)))
        if not found:
            ctx.passed(name, dict(word='', held_same_key=False))
        # encoding on the instance (every repeat count the encoder accepts) must not change what it decodes afterwards
        garbage = []
        for w in (['E'], ['R'], ['A', 'E'], ['A', 'R'], ['R', 'R']):
            for probe_key, probe in (('B', fB[0]), ('A', fA[0])):
                got, want = run_word(w, probe)
                ctx.count_eval(key=(name, tuple(w), probe_key, 'enc'))
                if differs(got, want):
                    found += 1
        # a decoder that depends on its history: enumerate ALL histories of up to two operations and report every minimal failing
        # one, so that the set of signatures of a recorded finding does not depend on the random words of this run
        if found:
            garbage = [9000, -4500, 560, -560, 560, -1690, 560, -40000]
            failing = set()
            for n in (1, 2):
                for w in itertools.product(alphabet, repeat=n):
                    for probe_key, probe in (('B', fB[0]), ('A', fA[0])):
                        cs = canon_sig(w, probe_key)
                        if any(canon_sig(w[:i] + w[i + 1:], probe_key) in failing for i in range(len(w))) or cs in failing:
                            continue
                        got, want = run_word(list(w), probe)
                        ctx.count_eval(key=(name, w, probe_key, 'all'))
                        if differs(got, want):
                            failing.add(cs)
                            hits[name] = True
                            ctx.report(name, 'full frame decoded differently after a history',
                                       dict(word=''.join(w), held_same_key=(w[-1].upper() == probe_key), sig=cs),
                                       dict(protocol=name, keyA=aA, keyB=aB, word=list(w), minimal_word=list(w), garbage=garbage,
                                            probe=probe_key, after_history=list(got), fresh=list(want)))
    return hits


def near_key_search(ctx, protos, hits):
    """History = one full frame of key A; probe = a full frame of a key that differs from A in ONE bit of one parameter: the decoder
    must answer with the probe's parameters exactly as a fresh decoder does (a held key must not absorb a neighbouring key)."""
    for p in protos:
        name = p['name']
        eps = p['encode_parameters']
        if not eps:
            continue
        for base in ({a: lo for a, lo, hi in eps}, {a: (lo + hi) // 2 for a, lo, hi in eps}, {a: hi for a, lo, hi in eps}):
            cA, e = engine.fresh_encode(p, base, repeat_count=0)
            if cA is None:
                continue
            fA = list(cA.normalized_rlc[0])
            variants = []
            for a, lo, hi in eps:
                b = 1
                while b <= hi:
                    v = base[a] ^ b
                    if lo <= v <= hi:
                        nb = dict(base)
                        nb[a] = v
                        variants.append(nb)
                    b <<= 1
            # small parameters: other values too, not only one-bit neighbours (identity forms that drop or wrap bits)
            for a, lo, hi in eps:
                if hi - lo + 1 <= 32:
                    for v in range(lo, hi + 1):
                        if v != base[a] and not any(x[a] == v and all(x[k] == base[k] for k in base if k != a) for x in variants):
                            nb = dict(base)
                            nb[a] = v
                            variants.append(nb)
            for nb in variants[:120]:
                cB, e = engine.fresh_encode(p, nb, repeat_count=0)
                if cB is None:
                    continue
                fB = list(cB.normalized_rlc[0])
                ctx.count_eval(key=(name, 'near', tuple(sorted(base.items())), tuple(sorted(nb.items()))))
                with engine.class_guard(p['cls']):
                    inst = p['cls']()
                    outcome(p, inst, fA)
                    got = outcome(p, inst, fB)
                    vlib.drain_workers()
                    want = outcome(p, p['cls'](), fB)
                    vlib.drain_workers()
                if got != want and not (got[0] == 'code' and want[0] == 'code' and got[1:] == want[1:]):
                    hits[name] = True
                    ctx.report(name, 'full frame decoded differently after a history', dict(word='A', held_same_key=False, sig='near-key'),
                               dict(protocol=name, keyA=base, keyB=nb, word=['A'], probe='B', after_history=list(got), fresh=list(want)))
                    break
            else:
                continue
            break


def delivery_search(ctx, protos, hits):
    """History = full frame of key A, full frame of a neighbouring key B (one bit of one parameter differs); then B's repeat
    frame, once with the release notifications queued so far still pending and once after they have been delivered: the result
    must be the same (and a further full frame of B too)."""
    for p in protos:
        name = p['name']
        eps = p['encode_parameters']
        if not eps or 'repeat_count' not in p['enc_args']:
            continue
        base = {a: (lo + hi) // 2 for a, lo, hi in eps}
        cA, e = engine.fresh_encode(p, base, repeat_count=0)
        if cA is None:
            continue
        fA = list(cA.normalized_rlc[0])
        variants = []
        for a, lo, hi in eps:
            b = 1
            while b <= hi:
                v = base[a] ^ b
                if lo <= v <= hi:
                    nb = dict(base)
                    nb[a] = v
                    variants.append((a, nb))
                b <<= 1
        done = False
        for pname, nb in variants[:40]:
            cB, e = engine.fresh_encode(p, nb, repeat_count=1)
            if cB is None or len(cB.normalized_rlc) < 2:
                continue
            fB, rB = list(cB.normalized_rlc[0]), list(cB.normalized_rlc[-1])
            outs = []
            for deliver_first in (False, True):
                with engine.class_guard(p['cls']):
                    vlib.drain_workers()
                    inst = p['cls']()
                    outcome(p, inst, fA)
                    outcome(p, inst, fB)
                    if deliver_first:
                        deliver()
                    o1 = outcome(p, inst, rB)
                    if deliver_first:
                        deliver()
                    o2 = outcome(p, inst, fB)
                    vlib.drain_workers()
                outs.append((o1, o2))
            ctx.count_eval(key=(name, 'delivery', pname, tuple(sorted(nb.items()))))
            if outs[0] != outs[1]:
                hits[name] = True
                ctx.report(name, 'decode result depends on whether release notifications have been delivered',
                           dict(parameter=pname, sig='differs in ' + pname),
                           dict(protocol=name, keyA=base, keyB=nb, history=['full A', 'full B', '(deliver)', 'repeat B', '(deliver)', 'full B'],
                                pending=[list(map(str, o)) for o in outs[0]], delivered=[list(map(str, o)) for o in outs[1]]))
                done = True
                break
        if done:
            continue
        # codes of several frames: [all frames of A, all of B, all of A, all but the last frame of B, (deliver), last frame of B]
        cA0, e = engine.fresh_encode(p, base, repeat_count=0)
        if cA0 is not None and len(cA0.normalized_rlc) >= 2 and variants:
            cB0, e = engine.fresh_encode(p, variants[0][1], repeat_count=0)
            if cB0 is not None and len(cB0.normalized_rlc) == len(cA0.normalized_rlc):
                FA, FB = [list(f) for f in cA0.normalized_rlc], [list(f) for f in cB0.normalized_rlc]
                outs = []
                for deliver_first in (False, True):
                    with engine.class_guard(p['cls']):
                        vlib.drain_workers()
                        inst = p['cls']()
                        for f in FA + FB + FA + FB[:-1]:
                            outcome(p, inst, f)
                        if deliver_first:
                            deliver()
                        o1 = outcome(p, inst, FB[-1])
                        vlib.drain_workers()
                    outs.append(o1)
                ctx.count_eval(key=(name, 'delivery-multi-frame'))
                if outs[0] != outs[1]:
                    hits[name] = True
                    ctx.report(name, 'decode result depends on whether release notifications have been delivered',
                               dict(parameter='multi-frame', sig='last frame of a code of several frames'),
                               dict(protocol=name, keyA=base, keyB=variants[0][1],
                                    history=['all frames of A', 'all of B', 'all of A', 'all but the last frame of B', '(deliver)', 'last frame of B'],
                                    pending=list(map(str, outs[0])), delivered=list(map(str, outs[1]))))
        # the same question after a REJECTED frame: [full A, rejected frame, (deliver), repeat A, (deliver), full A]
        cA1, e = engine.fresh_encode(p, base, repeat_count=1)
        if cA1 is None or len(cA1.normalized_rlc) < 2:
            continue
        rA = list(cA1.normalized_rlc[-1])
        rejected = [('garbage', [9000, -4500, 560, -560, 560, -1690, 560, -40000]),
                    ('truncated frame', fA[:max(2, len(fA) // 2)]),
                    ('frame with a far-off burst', fA[:2] + [fA[2] * 3] + fA[3:] if len(fA) > 3 else fA[:1]),
                    ('frame of another protocol', [2400, -600, 1200, -600, 600, -600, 1200, -600, 600, -600, 600, -600, 600, -600,
                                                   600, -600, 600, -600, 600, -600, 600, -600, 600, -600, 600, -25800])]
        for label, bad in rejected:
            outs = []
            for deliver_first in (False, True):
                with engine.class_guard(p['cls']):
                    vlib.drain_workers()
                    inst = p['cls']()
                    outcome(p, inst, fA)
                    ob = outcome(p, inst, bad)
                    if deliver_first:
                        deliver()
                    o1 = outcome(p, inst, rA)
                    if deliver_first:
                        deliver()
                    o2 = outcome(p, inst, fA)
                    vlib.drain_workers()
                outs.append((o1, o2))
            ctx.count_eval(key=(name, 'delivery-after-rejected', label))
            if outs[0] != outs[1]:
                hits[name] = True
                ctx.report(name, 'decode result depends on whether release notifications have been delivered',
                           dict(parameter=label, sig='after ' + label),
                           dict(protocol=name, keyA=base, rejected=bad, history=['full A', label, '(deliver)', 'repeat A', '(deliver)', 'full A'],
                                pending=[list(map(str, o)) for o in outs[0]], delivered=[list(map(str, o)) for o in outs[1]]))
                break


def run(ctx):
    vlib.import_repo()
    info = perproto.prepare_models(ctx)
    protos = [e['p'] for e in info.values()]
    hits = search(ctx, protos, 3 if ctx.tier == 'quick' else 4, 12 if ctx.tier == 'quick' else 300)
    near_key_search(ctx, protos, hits)
    delivery_search(ctx, protos, hits)
    results = perproto.run_obligations(ctx, 'C07', info, gen_obligation, timeout=120)
    vlib.check_props_file(ctx, 'C07')
    perproto.settle(ctx, 'C07', results, hits)
    import instance_chk as ic
    items = []
    for name, e in info.items():
        p = e['p']
        if e['compiled'] and results.get(name, {}).get('status') == 'proved':
            for seq in ih.sequences_for(p, ctx.rng, 5 if ctx.tier == 'quick' else 60):
                items.append((p, 20, seq))
    bad = ic.corr_instance_chk(ctx, items)
    if bad is None:
        ctx.report('correspondence', 'model-eval-failed', {}, dict(theorem='PyIR.Ctl.InstanceChk.run_instance_chk evaluation'), found_input=False)
        bad = []
    for (p, tol, frames), impl, model in bad:
        ctx.report(p['name'], 'instance-model-disagrees', dict(frames=len(frames)),
                   dict(protocol=p['name'], frames=frames, impl=impl[:80], model=model[:80]))
    ctx.extra['correspondence'] = dict(sequences=len(items), disagreements=len(bad))
    ctx.cov['checker_cmd'] = vlib.COQC_CMD + ' for Gen/Tables.v, C07_<p>.v and Props/C07.v'
    ctx.cov['rule'] = ('all protocols x two keys x history words of depth %d over {full A, last frame of A, full B, last frame of B, '
                       'garbage, encode call, deliver queued release callbacks} followed by a full frame of A or B, compared with a '
                       'fresh decoder; distinct = (protocol, word, probe)' % (3 if ctx.tier == 'quick' else 4))
    ctx.cov['trusted_base'] += ['hand-written model PyIR.Ctl.InstanceChk: IrProtocolBase.decode with its held key, for classes that do not '
                                'override decode or override it after the common template (recognised syntactically by tools/instance_chk.py), '
                                'with the regenerated decode tree as the protocol check; tied by correspondence on frame sequences; other '
                                'decoders are covered by the history search only']


def replay(path):
    vlib.import_repo()
    r = json.load(open(path))['replay']
    print(r)
    return 1
