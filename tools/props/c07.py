# C07  A full frame decodes to its own parameters whatever was decoded before
import itertools
import json

import engine
import gen_inputs
import instance_harness as ih
import perproto
import protoinfo
import vlib

LEVEL = 'proof'

OBL = '''From Coq Require Import ZArith List Bool String Lia.
Require Import PyIR.Base.Result PyIR.IW.IW PyIR.Engine.Parse PyIR.Proto.Descriptor PyIR.Ctl.Instance.
Require Import Gen.Tables.
Import ListNotations.
Open Scope Z_scope.

(* %s: for EVERY state of a decoder instance (any held key, after any history), every ptable, every tolerance and every frame
   whose length is not that of the repeat marker (%d durations): same key or same error as a fresh decoder *)
Theorem C07_%s : forall t tol s frame, List.length frame <> %d%%nat ->
  res_ident D_%s (snd (fst (decode_inst D_%s t tol s frame))) = res_ident D_%s (snd (fst (decode_inst D_%s t tol fresh frame))).
Proof.
  intros t tol s frame Hlen. apply full_frame_history_independent; [reflexivity| |exact Hlen].
  repeat constructor; discriminate.
Qed.
Print Assumptions C07_%s.
'''


def gen_obligation(e):
    p = e['p']
    if not ih.modelled_instance(p):
        return None, 'decode() is overridden or the engine class is outside the instance model'
    if p['rep_bursts']:
        return None, 'refuted-candidate: repeat frames carry data (_repeat_bursts not empty): the repeat branch can accept full frames'
    n = len(p['rep_lead_in']) + len(p['rep_lead_out'])
    nm = p['name']
    return OBL % (nm, n, nm, n, nm, nm, nm, nm, nm), None


def outcome(p, inst, frame):
    from pyIRDecoder import IRException
    try:
        c = inst.decode(list(frame), p['frequency'])
        vals = {}
        for arg, lo, hi in p['encode_parameters']:
            v = getattr(c, arg, None)
            vals[arg] = None if v is None else int(v)
        try:
            ident = str(c)
        except Exception:  # noqa
            ident = '?'
        return ('code', ident, tuple(sorted(vals.items())))
    except IRException as ex:
        return ('raise', type(ex).__name__)
    except Exception as ex:  # noqa
        return ('raise!', type(ex).__name__)


def deliver():
    """run the release callbacks queued by repeat_timer.stop() (the asynchronous notifications)"""
    from pyIRDecoder import ir_code
    pw = ir_code._process_thread_worker
    n = 0
    while pw.queue:
        func, args = pw.queue.pop(0)
        try:
            func(*args)
        except Exception:  # noqa
            pass
        n += 1
    return n


def search(ctx, protos, depth, per):
    hits = {}
    rng = ctx.rng
    alphabet = ['A', 'a', 'B', 'b', 'G', 'E', 'D']
    for p in protos:
        name = p['name']
        al = gen_inputs.param_assignments(p, rng, 4)
        keys = []
        for a in al:
            c, e = engine.fresh_encode(p, a, repeat_count=1)
            if c is not None:
                keys.append((a, [list(f) for f in c.normalized_rlc]))
            if len(keys) == 2:
                break
        if len(keys) < 2:
            continue
        (aA, fA), (aB, fB) = keys
        words = list(itertools.product(alphabet, repeat=depth))
        rng.shuffle(words)
        for word in words[:per]:
            for probe_key, probe in (('B', fB[0]), ('A', fA[0])):
                inst = p['cls']()
                vlib.drain_workers()
                with engine.class_guard(p['cls']):
                    for op in word:
                        if op == 'A':
                            outcome(p, inst, fA[0])
                        elif op == 'a':
                            outcome(p, inst, fA[-1])
                        elif op == 'B':
                            outcome(p, inst, fB[0])
                        elif op == 'b':
                            outcome(p, inst, fB[-1])
                        elif op == 'G':
                            outcome(p, inst, gen_inputs.garbage(rng))
                        elif op == 'E':
                            try:
                                inst.encode(**aA)
                            except Exception:  # noqa
                                pass
                        elif op == 'D':
                            deliver()
                    got = outcome(p, inst, probe)
                    vlib.drain_workers()
                    want = outcome(p, p['cls'](), probe)
                    vlib.drain_workers()
                ctx.count_eval(key=(name, word, probe_key))
                if got != want and not (got[0] == 'code' and want[0] == 'code' and got[1:] == want[1:]):
                    hits[name] = True
                    ctx.report(name, 'full frame decoded differently after a history', dict(word=''.join(word), held_same_key=(word[-1].upper() == probe_key)),
                               dict(protocol=name, keyA=aA, keyB=aB, word=list(word), probe=probe_key, after_history=list(got), fresh=list(want)))
                    break
            else:
                continue
            break
        else:
            ctx.passed(name, dict(word='', held_same_key=False))
    return hits


def run(ctx):
    vlib.import_repo()
    info = perproto.prepare_models(ctx)
    protos = [e['p'] for e in info.values()]
    hits = search(ctx, protos, 3 if ctx.tier == 'quick' else 4, 12 if ctx.tier == 'quick' else 300)
    results = perproto.run_obligations(ctx, 'C07', info, gen_obligation, timeout=120)
    vlib.check_props_file(ctx, 'C07')
    perproto.settle(ctx, 'C07', results, hits)
    items = []
    for p in protos:
        if ih.modelled_instance(p):
            for seq in ih.sequences_for(p, ctx.rng, 5 if ctx.tier == 'quick' else 60):
                items.append((p, 20, seq))
    bad = ih.corr_instance(ctx, items)
    if bad is None:
        ctx.report('correspondence', 'model-eval-failed', {}, dict(theorem='PyIR.Ctl.Instance.run_instance evaluation'), found_input=False)
        bad = []
    for (p, tol, frames), impl, model in bad:
        ctx.report(p['name'], 'instance-model-disagrees', dict(frames=len(frames)),
                   dict(protocol=p['name'], frames=frames, impl=impl[:80], model=model[:80]))
    ctx.extra['correspondence'] = dict(sequences=len(items), disagreements=len(bad))
    ctx.cov['checker_cmd'] = vlib.COQC_CMD + ' for Gen/Tables.v, C07_<p>.v and Props/C07.v'
    ctx.cov['rule'] = ('all protocols x two keys x history words of depth %d over {full A, last frame of A, full B, last frame of B, '
                       'garbage, encode call, deliver queued release callbacks} followed by a full frame of A or B, compared with a '
                       'fresh decoder; distinct = (protocol, word, probe)' % (3 if ctx.tier == 'quick' else 4))
    ctx.cov['trusted_base'] += ['hand-written model PyIR.Ctl.Instance (classes that do not override decode), tied by correspondence; '
                                'overriding decoders are covered by the history search only']


def replay(path):
    vlib.import_repo()
    r = json.load(open(path))['replay']
    print(r)
    return 1
