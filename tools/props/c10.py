# C10  The dispatcher only uses enabled, frequency-compatible protocols
import json

import dispatch_run as dr
import engine
import protoinfo
import vlib

LEVEL = 'proof'


def oracle(ctx, d, rec):
    """C10 on one recorded call, judged on the real objects."""
    r = rec['result']
    ctx.count_eval(key=(json.dumps(rec['op'][:4], default=str), rec['freq'], rec['pre']))
    if r[0] != 'code':
        return
    pid = r[1][0]
    if pid >= len(rec['cfg']):
        ctx.report('dispatcher', 'code of an unregistered decoder', dict(), dict(ops=None))
        return
    en, nominal, ftol = rec['cfg'][pid]
    name = d.names[pid]
    if not en:
        ctx.report('dispatcher', 'code from a disabled protocol', dict(protocol=name, held=rec['pre'][0] is not None),
                   dict(sequence=rec['seq'], call_index=rec['idx'], protocol=name))
    elif rec['freq'] != 0 and not dr.float_match(rec['freq'], nominal, ftol):
        ctx.report('dispatcher', 'code from a frequency-incompatible protocol', dict(protocol=name, freq=rec['freq']),
                   dict(sequence=rec['seq'], call_index=rec['idx'], protocol=name, frequency=rec['freq'], nominal=nominal))


def helper_check(ctx, d):
    """Helper entry points must not change the enabled set behind the caller's back."""
    import pyIRDecoder
    d.reset()
    before = [x.enabled for x in d.decs]
    sig = [300, -700, 300, -1400, 300, -700, 900, -700, 300, -2100, 300, -700, 300, -20000]
    from pyIRDecoder import pronto
    p = pronto.rlc_to_pronto(38000, sig)
    try:
        pyIRDecoder.decode_pronto_code(p)
        err = None
    except Exception as e:  # noqa
        err = type(e).__name__
    after = [x.enabled for x in d.decs]
    changed = [d.names[i] for i in range(len(before)) if before[i] != after[i]]
    ctx.count_eval(key='decode_pronto_code')
    d.reset()
    if changed:
        ctx.report('decode_pronto_code', 'helper changes the enabled set', dict(changed=changed),
                   dict(call='pyIRDecoder.decode_pronto_code', pronto=p, disabled_afterwards=changed, raised=err))


def renderings_check(ctx, d, n):
    """C11: a frame handed over as a list, a tuple or a Pronto hex string is the same key press: the Pronto rendering carries its
    carrier, so it must be decoded by the same protocol as the list with that carrier."""
    from pyIRDecoder import pronto
    import protoinfo
    rng = ctx.rng
    ps = protoinfo.all_protocols()
    rng.shuffle(ps)
    for p in ps[:n]:
        k = dr.key_frames(p, rng)
        if not k or p['frequency'] <= 0:
            continue
        f = k[1][0]
        if len(f) % 2:
            continue
        try:
            hexs = pronto.rlc_to_pronto(p['frequency'], list(f))
            freq2, seqs = pronto.pronto_to_rlc(hexs)
            flat = [x for sq in seqs for x in sq]
        except Exception:  # noqa   (conversion defects are C15's business)
            continue
        outs = []
        for form in (('list', flat, freq2), ('tuple', tuple(flat), freq2), ('pronto', hexs, 0)):
            d.reset()
            d.set_enabled(set(d.names))
            try:
                c = d.mod.decode(form[1], form[2]) if form[0] != 'pronto' else d.mod.decode(form[1])
                outs.append(None if c is None else (c.decoder.__class__.__name__, d.code_key(c)))
            except Exception as e:  # noqa
                outs.append(('raise', type(e).__name__))
            vlib.drain_workers()
        d.reset()
        ctx.count_eval(key=('renderings', p['name'], tuple(f[:8])))
        if not (outs[0] == outs[1] == outs[2]):
            ctx.report('dispatcher', 'renderings of one signal decode differently', dict(protocol=p['name']),
                       dict(protocol=p['name'], params=k[0], pronto=hexs, as_list=str(outs[0]), as_tuple=str(outs[1]), as_pronto=str(outs[2])))


def reload_check(ctx, names):
    """Switching a protocol off (or emptying its carrier window) THROUGH protocols.<Name> after the configuration has been saved and
    loaded back must reach the dispatcher: tools/c10_worker.py runs the scenario in a fresh interpreter."""
    import os
    import subprocess
    import sys
    env = dict(os.environ, PYTHONPATH=vlib.REPO, PYTHONHASHSEED='0')
    try:
        r = subprocess.run([sys.executable, '-B', os.path.join(os.path.dirname(os.path.dirname(os.path.abspath(__file__))), 'c10_worker.py')],
                           input=json.dumps(names), capture_output=True, text=True, timeout=600, env=env)
        recs = json.loads(r.stdout.strip().splitlines()[-1])
    except Exception as e:  # noqa
        ctx.report('harness', 'reload worker failed', {}, dict(theorem='tools/c10_worker.py', error=repr(e)[:300]), found_input=False)
        return
    for rec in recs:
        for how in ('disabled', 'carrier window empty'):
            ctx.count_eval(key=('reload', rec['protocol'], how))
            if rec.get(how) == rec['protocol']:
                ctx.report('dispatcher', 'code from a protocol switched off through protocols.<Name> after a reload',
                           dict(protocol=rec['protocol'], how=how),
                           dict(protocol=rec['protocol'], how=how, params=rec.get('params'),
                                scenario='read protocols.P, config.save, load_config, set through protocols.P, protocols.decode'))
        if 'error' in rec:
            ctx.note('reload scenario not run for %s: %s' % (rec['protocol'], rec['error']))


def run(ctx, prop='C10'):
    vlib.import_repo()
    vlib.ensure_static_build()
    vlib.check_props_file(ctx, prop)
    d = dr.disp()
    nseq, depth = (120, 7) if ctx.tier == 'quick' else (2500, 11)
    recs = []
    ops_kinds = {}
    for i in range(nseq):
        ops = dr.gen_sequence(ctx, d, depth)
        rs = dr.run_sequence(d, ops)
        for j, r in enumerate(rs):
            r['seq'] = [dr.op_json(o) for o in ops]
            r['idx'] = j
        recs += rs
        for o in ops:
            ops_kinds[o[0]] = ops_kinds.get(o[0], 0) + 1
    for r in recs:
        ORACLES[prop](ctx, d, r)
    if prop == 'C10':
        helper_check(ctx, d)
        reload_check(ctx, ['NEC', 'Sony12', 'RC5', 'JVC', 'Panasonic', 'Samsung36'] if ctx.tier == 'quick' else
                     [n for n in d.names if n != 'Universal'][::4])
    if prop == 'C11':
        renderings_check(ctx, d, 40 if ctx.tier == 'quick' else 173)
    bad = dr.correspondence(ctx, recs)
    if bad is None:
        ctx.report('correspondence', 'model-eval-failed', {}, dict(theorem='PyIR.Ctl.DispatchRun.run_dispatch evaluation'),
                   found_input=False)
        bad = []
    for r, exp, model in bad:
        ctx.report('dispatcher', 'model-disagrees', dict(result=r['result'][0]),
                   dict(sequence=r['seq'], call_index=r['idx'], log=[[p, list(o)] for p, o in r['log']],
                        impl=exp, model=model))
    outcomes = {}
    for r in recs:
        outcomes[r['result'][0]] = outcomes.get(r['result'][0], 0) + 1
    ctx.extra['correspondence'] = dict(calls=len(recs), disagreements=len(bad), sequences=nseq, depth=depth,
                                       op_distribution=ops_kinds, outcome_distribution=outcomes,
                                       decoder_calls_logged=sum(len(r['log']) for r in recs))
    if recs:
        r = recs[len(recs) // 2]
        ctx.sample(dict(op=dr.op_json(r['op'])[:4], pre_state=r['pre'], held_match=r['hm'],
                        decoder_calls=[[d.names[p], list(o)] for p, o in r['log'][:8]], result=list(r['result']), post_state=r['post']))
    ctx.cov['checker_cmd'] = vlib.COQC_CMD + ' on a copy of coq/theories/Props/%s.v (static library built by setup_cmd)' % prop
    ctx.cov['rule'] = ('op sequences (enable subset: all / singleton / co-singleton / cast / random; frames of 1-3 protocols '
                       'x 1-2 keys; frequencies 0, nominal, nominal*(1+-tol)+-eps, far; garbage; release; toggle) on the real '
                       'dispatcher; every call is replayed in the Gallina model with the logged decoder outcomes as oracle; '
                       'distinct = distinct (op, frequency, pre-state)')
    ctx.cov['trusted_base'] += ['hand-written model PyIR.Ctl.Dispatcher of FakeModule._decode, tied by trace-oracle '
                                'correspondence (same decoder calls in the same order, same result, same new state)',
                                'per-protocol decoders are a parameter of the theorems (any behaviour)']
    ctx.assumptions.append('a decoder returns codes whose .decoder is itself (checked by the harness on every logged call)')


def oracle_c11(ctx, d, rec):
    from pyIRDecoder import IRException
    r = rec['result']
    ctx.count_eval(key=(json.dumps(rec['op'][:4], default=str), rec['freq'], rec['pre']))
    log = rec['log']
    rep = [o for _, o in log if o[0] == 'err' and o[1] in ('RepeatLeadInError', 'RepeatLeadOutError', 'RepeatTimeoutExpired',
                                                    'ExpectingMoreData')]
    possible = [i for i, (en, nominal, ftol) in enumerate(rec['cfg'])
                if en and (rec['freq'] == 0 or dr.float_match(rec['freq'], nominal, ftol))]
    data = rec['op'][4] if rec['op'][0] == 'frame' else rec['op'][1]
    if r[0] == 'none' and not rec['hm'] and not rep:
        # nobody may accept: ask a fresh instance of every possible protocol
        for i in possible:
            cls = d.decs[i].__class__
            with engine.class_guard(cls):
                try:
                    c = cls().decode(list(data), rec['freq'])
                    ok = True
                except Exception:  # noqa
                    ok = False
            vlib.drain_workers()
            if ok:
                ctx.report('dispatcher', 'new key not reported', dict(protocol=d.names[i], pre_held=rec['pre'][0] is not None),
                           dict(sequence=rec['seq'], call_index=rec['idx'], accepting_protocol=d.names[i]))
                break
    if r[0] == 'code':
        pid = r[1][0]
        cls = d.decs[pid].__class__
        with engine.class_guard(cls):
            try:
                c = cls().decode(list(data), rec['freq'])
                key = d.code_key(c)
            except Exception:  # noqa
                key = None
        vlib.drain_workers()
        if key is not None and key != r[1][1]:
            ctx.report('dispatcher', 'returned code differs from the protocol decoder', dict(protocol=d.names[pid]),
                       dict(sequence=rec['seq'], call_index=rec['idx'], protocol=d.names[pid]))


ORACLES = {'C10': oracle, 'C11': oracle_c11}


def replay(path):
    vlib.import_repo()
    r = json.load(open(path))['replay']
    if 'sequence' not in r or r['sequence'] is None:
        print('replay:', r)
        return 1
    d = dr.disp()
    ops = [tuple(o) for o in r['sequence']]
    recs = dr.run_sequence(d, ops)
    rec = recs[r['call_index']]
    print('call', r['call_index'], 'result', rec['result'], 'decoder calls', [(d.names[p], o) for p, o in rec['log']][:10])
    return 1
