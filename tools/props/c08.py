# C08  Arbitrary input never crashes or hangs a decoder or the dispatcher
import json
import time
import traceback

import dispatch_run as dr
import engine
import gen_inputs
import instance_harness as ih
import perproto
import protoinfo
import vlib

LEVEL = 'proof'
SLOW = 10.0          # seconds for one decode call; generous: the check itself loads all 16 cores

OBL = '''From Coq Require Import ZArith List Bool Lia.
Require Import PyIR.Base.Result PyIR.Engine.Parse PyIR.Engine.NoCrash PyIR.Engine.ParseM PyIR.Engine.ParseMProps PyIR.Proto.Descriptor PyIR.Proto.RoundTrip
               PyIR.Engine.ParseMD PyIR.Engine.ParseMDProps PyIR.Engine.ParseHT PyIR.Engine.ParseHTProps PyIR.Engine.ParseB PyIR.Engine.ParseMT PyIR.Engine.ParseMTProps PyIR.Ctl.Instance PyIR.Ctl.NoCrash.
Require Import Gen.Tables.
Import ListNotations.
Open Scope Z_scope.
'''


def gen_obligation(e):
    p = e['p']
    name = p['name']
    if engine.modelled_MD(p):
        md = p['middle'][0]
        return OBL + '''
(* %s: Manchester table with one positional middle-timing entry (the RC6 toggle bit).  The engine part of decode(): CodeWrapper on
   the class tables, for every input list *)
Definition md_%s : mdict := {| md_start := %s; md_stop := %s; md_bursts := %s |}.
Theorem C08_%s : exists t, as_pairs (d_bursts D_%s) = Some t /\\
  forall frame, is_pyerr (parseMD 20 (d_lead_in D_%s) (d_lead_out D_%s) t md_%s frame) = false.
Proof.
  eexists. split; [reflexivity|]. intros frame. apply parseMD_no_pyerr. vm_compute. lia.
Qed.
Print Assumptions C08_%s.
''' % (name, name, vlib.z(md['start']), vlib.z(md['stop']), engine.coq_ptable(md['bursts']), name, name, name, name, name, name), None
    if engine.modelled_HT(p):
        return OBL + '''
(* %s: halfbit table with (mark, space) middle timings.  The engine part of decode(): CodeWrapper on the class tables, for every
   input list *)
Theorem C08_%s : exists t, as_pairs (d_bursts D_%s) = Some t /\\
  forall frame, is_pyerr (parseHT 20 (d_lead_in D_%s) (d_lead_out D_%s) %s t frame) = false.
Proof.
  eexists. split; [reflexivity|]. intros frame. apply parseHT_no_pyerr.
Qed.
Print Assumptions C08_%s.
''' % (name, name, name, name, name, engine.coq_ptable(p['middle']), name), None
    if engine.modelled_MT(p):
        return OBL + '''
(* %s: Manchester table with tuple / integer middle timings.  The engine part of decode(): CodeWrapper on the class tables, for
   every input list *)
Theorem C08_%s : exists t, as_pairs (d_bursts D_%s) = Some t /\\
  forall frame, is_pyerr (parseMT 20 (d_lead_in D_%s) (d_lead_out D_%s) (map mk_mid %s) t frame) = false.
Proof.
  eexists. split; [reflexivity|]. intros frame. apply parseMT_no_pyerr.
Qed.
Print Assumptions C08_%s.
''' % (name, name, name, name, name, engine.coq_mids(p['middle']), name), None
    if engine.modelled_B(p):
        return OBL + '''
(* %s: serial ("bit") table [mark, space].  The engine part of decode(): CodeWrapper on the class tables, for every input list *)
Theorem C08_%s : forall frame, is_pyerr (parseB 20 (d_lead_in D_%s) (d_lead_out D_%s) (%s) (%s) frame) = false.
Proof.
  intros frame. apply parseB_no_pyerr; discriminate.
Qed.
Print Assumptions C08_%s.
''' % (name, name, name, name, vlib.z(p['bursts'][0]), vlib.z(p['bursts'][1]), name), None
    if not engine.modelled_C(p):
        return None, 'engine class %s%s not in the proved fragment' % (p['eclass'], ' with middle timings' if p['middle'] else '')
    if not all(len(b) == 2 for b in p['bursts']) or not all(len(b) == 2 for b in p['rep_bursts']):
        return None, 'symbol tables are not pair tables'
    out = [OBL]
    if p['overrides_decode'] or not p['parameters']:
        # decode() is the protocol's own code on top of the engine: the engine part only
        out.append('''(* %s overrides decode(): this is the engine part (CodeWrapper on the class tables); the protocol's own code on top of
   it is covered by the search oracle only *)
Theorem C08_%s : exists t, as_pairs (d_bursts D_%s) = Some t /\\
  forall frame, is_pyerr (parseC 20 (d_lead_in D_%s) (d_lead_out D_%s) t frame) = false.
Proof.
  eexists. split; [reflexivity|]. intros frame. apply parseC_no_pyerr.
Qed.
Print Assumptions C08_%s.
''' % (name, name, name, name, name, name))
    else:
        out.append('''(* every sequence of arbitrary integer lists fed to one %s decoder, from any state: no call leaks a Python exception *)
Theorem C08_%s : exists t, as_pairs (d_bursts D_%s) = Some t /\\
  forall frames s, Forall (fun r => is_pyerr r = false) (run_seq D_%s t 20 s frames).
Proof.
  eexists. split; [reflexivity|]. apply run_seq_no_pyerr.
Qed.
Print Assumptions C08_%s.
''' % (name, name, name, name, name))
    return '\n'.join(out), None


# ---------------------------------------------------------------------- malformed inputs
def malformed_inputs(rng, valid, n):
    out = []
    for _ in range(n):
        r = rng.random()
        if r < 0.3:
            out.append(('garbage', gen_inputs.garbage(rng)))
        elif r < 0.6:
            f = rng.choice(valid)
            g, kind = gen_inputs.mutate(list(f), rng)
            out.append((kind, g))
        elif r < 0.75:
            f = rng.choice(valid)
            out.append(('short', f[:rng.randint(1, 6)]))
        elif r < 0.85:
            f = rng.choice(valid)
            out.append(('extended', f + f[:rng.randint(1, len(f))]))
        elif r < 0.95:
            out.append(('tiny', [rng.choice([500, -500, 0, 1000, -100000, 1, -1, 9000]) for _ in range(rng.randint(1, 8))]))
        else:
            f = rng.choice(valid)
            out.append(('long', (f * rng.randint(2, 6))[:rng.randint(len(f), 600)]))
    return [(k, g) for k, g in out if g]


def valid_frames(protos, rng):
    valid = {}
    for p in protos:
        fs = []
        for a in gen_inputs.param_assignments(p, rng, 2):
            c, e = engine.fresh_encode(p, a, repeat_count=1)
            if c is not None:
                fs += [list(f) for f in c.normalized_rlc[:2]]
        if fs:
            valid[p['name']] = fs
    return valid


def site_of(e):
    tb = traceback.extract_tb(e.__traceback__)
    for fr in reversed(tb):
        if '/pyIRDecoder/' in fr.filename:
            return '%s:%s' % (fr.filename.split('/pyIRDecoder/')[-1], fr.name)
    return 'unknown'


def search_decoders(ctx, protos, valid, per):
    from pyIRDecoder import IRException
    rng = ctx.rng
    allvalid = [f for fs in valid.values() for f in fs]
    hits = {}
    dist = {}
    for p in protos:
        name = p['name']
        own = valid.get(name, [])
        # mostly mutations of the protocol's own frames (they get deep into the decoder), plus cross-protocol and garbage
        pool = (own * 3 + rng.sample(allvalid, min(len(allvalid), 12))) if own else allvalid
        seen = set()
        for kind, data in malformed_inputs(rng, pool, per):
            dist[kind] = dist.get(kind, 0) + 1
            ctx.count_eval(key=(name, tuple(data[:12]), len(data)))
            inst = p['cls']()
            t0 = time.time()
            with engine.class_guard(p['cls']):
                try:
                    inst.decode(list(data), p['frequency'])
                    out = None
                except IRException:
                    out = None
                except Exception as e:  # noqa
                    out = (type(e).__name__, site_of(e))
                finally:
                    vlib.drain_workers()
            # the same input on a decoder that holds a key (it has just decoded a full frame of the protocol): the repeat-frame path
            # of decode() is only reachable from that state
            if out is None and own:
                inst = p['cls']()
                with engine.class_guard(p['cls']):
                    try:
                        inst.decode(list(own[0]), p['frequency'])
                    except Exception:  # noqa
                        pass
                    vlib.drain_workers()
                    try:
                        inst.decode(list(data), p['frequency'])
                    except IRException:
                        pass
                    except Exception as e:  # noqa
                        out = (type(e).__name__, site_of(e))
                        kind = kind + ' on a decoder holding a key'
                    finally:
                        vlib.drain_workers()
                ctx.count_eval(key=(name, 'held', tuple(data[:12]), len(data)))
            dt = time.time() - t0
            if dt > SLOW:
                hits[name] = True
                ctx.report(name, 'decode takes %d s or more' % SLOW, dict(n=len(data)), dict(protocol=name, data=data, seconds=dt))
            if out is not None and out not in seen:
                seen.add(out)
                hits[name] = True
                ctx.report(name, 'decode leaks %s at %s' % out, dict(n=len(data)),
                           dict(protocol=name, data=data, exception=out[0], site=out[1], input_kind=kind,
                                held_key_frame=(own[0] if 'holding' in kind else None)))
        if not seen:
            ctx.passed(name, dict(n=0))
    ctx.extra['input_distribution'] = dist
    return hits


def damaged_frames(frame):
    """Systematic damage of one frame of the protocol: every single duration and every neighbouring pair dropped (the lost data bit
    of a repeat frame), and the first a / last b durations kept with everything between them lost."""
    f = list(frame)
    n = len(f)
    out = []
    for i in range(n):
        out.append(('drop1@%d' % i, f[:i] + f[i + 1:]))
    for i in range(n - 1):
        out.append(('drop2@%d' % i, f[:i] + f[i + 2:]))
    for a in range(0, 5):
        for b in range(1, 4):
            if a + b < n:
                out.append(('keep%d+%d' % (a, b), f[:a] + f[n - b:]))
    return [(k, g) for k, g in out if g]


def search_held(ctx, protos, per, hits):
    """Damaged frames of the protocol fed to a decoder that holds a key (it has just decoded one complete code of the protocol, the
    way it is transmitted with one repeat): the repeat-frame path of decode() and the multi-part state are only reachable from
    there.  Candidates come from every distinct frame of encode(repeat_count=1); short frames (the repeat frames) are taken whole."""
    from pyIRDecoder import IRException
    rng = ctx.rng
    n_cases = 0
    for p in protos:
        name = p['name']
        a = gen_inputs.param_assignments(p, rng, 1)[0]
        kw = dict(repeat_count=1) if 'repeat_count' in p['enc_args'] else {}
        c, e = engine.fresh_encode(p, a, **kw)
        if c is None:
            continue
        frames = []
        for f in c.normalized_rlc:
            if list(f) not in frames:
                frames.append(list(f))
        cands = []
        for f in frames:
            d = damaged_frames(f)
            cands += d if len(d) <= 60 else rng.sample(d, 60)
        if per and len(cands) > per:
            cands = cands[-60:] + rng.sample(cands[:-60], per - 60) if per > 60 else rng.sample(cands, per)
        seen = set()
        for kind, data in cands:
            for hist in ((frames[0],), tuple(frames)):
                inst = p['cls']()
                out = None
                with engine.class_guard(p['cls']):
                    for h in hist:
                        try:
                            inst.decode(list(h), p['frequency'])
                        except Exception:  # noqa
                            pass
                    try:
                        inst.decode(list(data), p['frequency'])
                    except IRException:
                        pass
                    except Exception as e:  # noqa
                        out = (type(e).__name__, site_of(e))
                    finally:
                        vlib.drain_workers()
                n_cases += 1
                ctx.count_eval(key=(name, 'held-damaged', kind, len(hist)))
                if out is not None and out not in seen:
                    seen.add(out)
                    hits[name] = True
                    ctx.report(name, 'decode leaks %s at %s' % out, dict(n=len(data)),
                               dict(protocol=name, data=data, exception=out[0], site=out[1],
                                    input_kind=kind + ' on a decoder holding a key', params=a, history=[list(h) for h in hist]))
                if len(frames) == 1:
                    break
    ctx.extra['held_key_damaged_cases'] = n_cases


def search_dispatcher(ctx, valid, n):
    """protocols.decode with every protocol enabled: never raises."""
    rng = ctx.rng
    d = dr.disp()
    allvalid = [f for fs in valid.values() for f in fs]
    d.reset()
    d.set_enabled(set(d.names))
    recs = []
    seen = set()
    for kind, data in malformed_inputs(rng, allvalid, n):
        freq = rng.choice([0, 0, 36000, 38000, 40000, 56000])
        d.reset()
        d.set_enabled(set(d.names))
        t0 = time.time()
        rec = d.call(data, freq)
        dt = time.time() - t0
        ctx.count_eval(key=('dispatcher', tuple(data[:12]), len(data), freq))
        rec['op'] = ('garbage', data, freq)
        recs.append(rec)
        if dt > 6 * SLOW:
            ctx.report('dispatcher', 'decode takes a minute or more', dict(n=len(data)), dict(data=data, frequency=freq, seconds=dt))
        if rec['result'][0] == 'raise':
            culprit = d.names[rec['log'][-1][0]] if rec['log'] else '?'
            key = (rec['result'][1], culprit)
            if key not in seen:
                seen.add(key)
                ctx.report('dispatcher', 'protocols.decode raises %s (from %s)' % key, dict(n=len(data)),
                           dict(data=data, frequency=freq, exception=rec['result'][1], decoder=culprit))
        # the idle fallback of the streaming thread: an undecoded remainder of more than six durations goes to the Universal
        # decoder through _decode_universal; a raise there ends DecodeThread.run
        if len(data) > 6 and rec['result'][0] != 'raise':
            d.reset()
            d.set_enabled(set(d.names))
            try:
                for _ in range(2):          # twice: the second call meets the held fallback code
                    d.mod._decode_universal(list(data), freq)
                ctx.count_eval(key=('universal-fallback', tuple(data[:12]), len(data), freq))
            except Exception as e:  # noqa
                key = ('fallback', type(e).__name__)
                if key not in seen:
                    seen.add(key)
                    ctx.report('DecodeThread', 'streaming thread dies in the idle fallback: %s' % type(e).__name__, dict(n=len(data)),
                               dict(data=data, frequency=freq, exception=repr(e)[:200], fallback=True))
            finally:
                vlib.drain_workers()
    # valid first frames of multi-frame protocols: ExpectingMoreData must not come out of the dispatcher either
    for name, fs in sorted(valid.items()):
        p = protoinfo.by_name()[name]
        d.reset()
        d.set_enabled(set(d.names))
        # ... and a short history without a reset in between: the same first frame again (its follow-up was lost), a damaged copy,
        # the next frame of the code - the dispatcher's shortcuts through the held key and the last-used decoder are only taken then
        hist = [fs[0], fs[0], fs[0][:-3] + fs[0][-1:], fs[min(1, len(fs) - 1)], fs[0], fs[0] + fs[0][-2:], fs[0][:-1] + [fs[0][-1] // 2, 560, -30000]]
        for step, fr in enumerate(hist):
            rec = d.call(fr, p['frequency'])
            rec['op'] = ('frame', name, {}, 0, fr, p['frequency'])
            if step == 0:
                recs.append(rec)
            ctx.count_eval(key=('dispatcher-valid', name, step))
            if rec['result'][0] == 'raise':
                culprit = d.names[rec['log'][-1][0]] if rec['log'] else '?'
                key = (rec['result'][1], culprit)
                if key not in seen:
                    seen.add(key)
                    ctx.report('dispatcher', 'protocols.decode raises %s (from %s)' % key, dict(n=len(fr)),
                               dict(data=fr, frequency=p['frequency'], exception=rec['result'][1], decoder=culprit, valid_frame_of=name,
                                    history=[list(h) for h in hist[:step]]))
                break
    d.reset()
    return recs


def search_stream(ctx, valid, n):
    import props.c13 as c13
    rng = ctx.rng
    d = dr.disp()
    allvalid = [f for fs in valid.values() for f in fs]
    seen = set()
    for _ in range(n):
        stream = []
        for kind, data in malformed_inputs(rng, allvalid, rng.randint(1, 3)):
            stream += data[:200]
        if rng.random() < 0.5:
            stream += [-rng.choice([3000, 20000, 100000])]
        if len(stream) < 2:
            stream = stream + [-3000, 500]
        ops = c13.ops_for(stream, c13.chunkings(stream, rng, 1)[-1], rng, 'random')
        got = c13.run_ops(d, set(d.names), rng.choice([0, 38000]), ops)
        ctx.count_eval(key=('stream', tuple(stream[:12]), len(stream)))
        if got[3] is not None and got[3] not in seen:
            seen.add(got[3])
            ctx.report('DecodeThread', 'streaming thread dies: ' + got[3], dict(n=len(stream)),
                       dict(stream=stream, ops=[list(o) for o in ops], exception=got[3]))


def run(ctx):
    vlib.import_repo()
    info = perproto.prepare_models(ctx)
    protos = [e['p'] for e in info.values()]
    quick = ctx.tier == 'quick'
    valid = valid_frames(protos, ctx.rng)
    hits = search_decoders(ctx, protos, valid, 120 if quick else 3000)
    search_held(ctx, protos, 150 if quick else 0, hits)
    recs = search_dispatcher(ctx, valid, 60 if quick else 1500)
    search_stream(ctx, valid, 25 if quick else 600)
    results = perproto.run_obligations(ctx, 'C08', info, gen_obligation, timeout=180)
    vlib.check_props_file(ctx, 'C08')
    perproto.settle(ctx, 'C08', results, hits)
    # ---- correspondence on the malformed stream: the models must give the implementation's outcome, error kind included
    modelled = [info[n]['p'] for n in results if results[n]['status'] == 'proved']
    items = []
    allvalid = [f for fs in valid.values() for f in fs]
    for p in modelled:
        own = valid.get(p['name'], [])
        for kind, data in malformed_inputs(ctx.rng, (own * 3 + ctx.rng.sample(allvalid, 6)) if own else allvalid, 8 if quick else 80):
            if len(data) <= 300:
                items.append((p, data, 20, False, kind))
                if p['rep_lead_in'] or p['rep_lead_out']:
                    if ctx.rng.random() < 0.3:
                        items.append((p, data, 20, True, kind))
    # the two engine models with middle timings (RC6 family: positional entry; halfbit tables with (mark, space) tuples)
    md_items, ht_items, b_items, mt_items = [], [], [], []
    for p in modelled:
        if not (engine.modelled_MD(p) or engine.modelled_HT(p) or engine.modelled_B(p) or engine.modelled_MT(p)):
            continue
        own = valid.get(p['name'], [])
        cand = [(kind, data) for kind, data in malformed_inputs(ctx.rng, (own * 3 + ctx.rng.sample(allvalid, 6)) if own else allvalid,
                                                                 14 if quick else 120) if len(data) <= 300]
        cand += [('valid', list(f)) for f in own[:4]]
        for f in own[:2]:
            cand += [(k, g) for k, g in damaged_frames(f)][:: (7 if quick else 1)]
            for pat in ('long', 'short', 'alt', 'random'):
                cand.append(('perturbed-' + pat, gen_inputs.perturb(list(f), 20, pat, ctx.rng)))
        for kind, data in cand:
            (md_items if engine.modelled_MD(p) else b_items if engine.modelled_B(p) else mt_items if engine.modelled_MT(p) else ht_items).append(
                (p, data, ctx.rng.choice([20, 20, 10, 5]), kind))
    items = [it for it in items if not (engine.modelled_MD(it[0]) or engine.modelled_HT(it[0]) or engine.modelled_B(it[0]) or engine.modelled_MT(it[0]))]
    for nm, its, fn in (('parseMD', md_items, engine.corr_parseMD), ('parseHT', ht_items, engine.corr_parseHT),
                        ('parseB', b_items, engine.corr_parseB), ('parseMT', mt_items, engine.corr_parseMT)):
        mb = fn(ctx, its, name='corr_%s_malformed' % nm) if its else []
        if mb is None:
            ctx.report('correspondence', 'model-eval-failed', {}, dict(theorem='PyIR.Engine.%s evaluation' % nm), found_input=False)
            mb = []
        for (p, code, tol, tag), impl, model in mb:
            ctx.report(p['name'], 'parse-model-disagrees', dict(tag=tag), dict(protocol=p['name'], frame=code, tolerance=tol,
                                                                                   impl=impl[:60], model=model[:60]))
        ctx.extra.setdefault('correspondence_middle', {})[nm] = dict(cases=len(its), disagreements=len(mb))
    bad = engine.corr_parseH(ctx, items, name='corr_parse_malformed')
    if bad is None:
        ctx.report('correspondence', 'model-eval-failed', {}, dict(theorem='PyIR.Engine.Parse evaluation'), found_input=False)
        bad = []
    for (p, code, tol, rep, tag), impl, model in bad:
        ctx.report(p['name'], 'parse-model-disagrees', dict(tag=tag), dict(protocol=p['name'], frame=code, repeat_tables=rep,
                                                                               impl=impl[:60], model=model[:60]))
    seqs = []
    for p in modelled:
        if ih.modelled_instance(p):
            for seq in ih.sequences_for(p, ctx.rng, 2 if quick else 20):
                seqs.append((p, 20, seq))
    ibad = ih.corr_instance(ctx, seqs, name='corr_instance_malformed')
    if ibad is None:
        ctx.report('correspondence', 'model-eval-failed', {}, dict(theorem='PyIR.Ctl.Instance.run_instance evaluation'), found_input=False)
        ibad = []
    for (p, tol, frames), impl, model in ibad:
        ctx.report(p['name'], 'instance-model-disagrees', dict(frames=len(frames)),
                   dict(protocol=p['name'], frames=frames, impl=impl[:80], model=model[:80]))
    dbad = dr.correspondence(ctx, recs, name='corr_dispatch_malformed')
    if dbad is None:
        ctx.report('correspondence', 'model-eval-failed', {}, dict(theorem='PyIR.Ctl.DispatchRun evaluation'), found_input=False)
        dbad = []
    for rec, impl, model in dbad:
        ctx.report('dispatcher', 'dispatcher-model-disagrees', dict(),
                   dict(op=dr.op_json(rec['op']), impl=impl[:60], model=model[:60]))
    ctx.extra['correspondence'] = dict(parse_cases=len(items), parse_disagreements=len(bad), instance_sequences=len(seqs),
                                       instance_disagreements=len(ibad), dispatcher_calls=len(recs), dispatcher_disagreements=len(dbad))
    ctx.cov['checker_cmd'] = vlib.COQC_CMD + ' for Gen/Tables.v, C08_<p>.v and Props/C08.v'
    ctx.cov['rule'] = ('every protocol x malformed inputs (garbage incl. zeros and same-sign neighbours, one structural mutation of a '
                       'valid frame of the same or another protocol, prefixes of 1..6, extended, long up to 600); the dispatcher with all '
                       'protocols enabled on the same kinds plus the first valid frame of every protocol; the streaming thread on '
                       'concatenations; distinct = distinct (target, input)')
    ctx.cov['trusted_base'] += ['hand-written models PyIR.Engine.Parse / PyIR.Ctl.Instance / PyIR.Ctl.Dispatcher tied by correspondence on '
                                'malformed inputs with the error kind compared; decoders that override decode() or use another engine '
                                'class are covered by the search oracle only',
                                'wall-clock "promptly" is only a generous threshold in the oracle; termination of the models is by '
                                'structural recursion']
    ctx.assumptions.append('partial: the no-leak theorem covers CodeWrapper for pair tables without middle timings and decoders that do '
                           'not override decode(); the dispatcher/thread theorems are conditional on every decoder being tame')


def replay(path):
    vlib.import_repo()
    from pyIRDecoder import IRException
    r = json.load(open(path))['replay']
    if 'data' in r and 'protocol' in r:
        p = protoinfo.by_name()[r['protocol']]
        inst = p['cls']()
        for h in ([r['held_key_frame']] if r.get('held_key_frame') else []) + list(r.get('history') or []):
            try:
                inst.decode(list(h), p['frequency'])
            except Exception:  # noqa
                pass
        try:
            print(inst.decode(list(r['data']), p['frequency']))
            return 0
        except IRException as e:
            print('rejected:', type(e).__name__)
            return 0
        except Exception as e:  # noqa
            print('leaks', type(e).__name__, e)
            return 1
    if 'data' in r and r.get('fallback'):
        from pyIRDecoder import protocols
        try:
            protocols._decode_universal(list(r['data']), r.get('frequency', 0))
            return 0
        except Exception as e:  # noqa
            print('_decode_universal raises', type(e).__name__, e)
            return 1
    if 'data' in r:
        from pyIRDecoder import protocols
        for h in r.get('history') or []:
            try:
                protocols.decode(list(h), r.get('frequency', 0))
            except Exception:  # noqa
                pass
        try:
            print(protocols.decode(list(r['data']), r.get('frequency', 0)))
            return 0
        except Exception as e:  # noqa
            print('protocols.decode raises', type(e).__name__)
            return 1
    print(r)
    return 1
