# C04  Decoding honours the configured timing tolerance in both directions
import json
import math

import engine
import gen_inputs
import perproto
import props.c01 as c01
import protoinfo
import vlib

LEVEL = 'proof'
TOLS = (5, 10, 20)


def int_window(e, tol):
    """PyIR.Engine.Match.matchb bounds."""
    hi = (e * (100 + tol)) // 100
    lo = (e * (100 - tol)) // 100
    return (hi, lo) if e < 0 else (lo, hi)


def float_window(e, tol):
    high = math.floor(e + (e * (tol / 100.0)))
    low = math.floor(e - (e * (tol / 100.0)))
    if e < 0:
        low, high = high, low
    return low, high


def match_sweep(ctx):
    """The integer window the theorems use is the binary64 window of _match, on the whole practical range."""
    from pyIRDecoder import protocol_base
    lim = 300000 if ctx.tier == 'quick' else 1200000
    step = 1 if ctx.tier != 'quick' else 1
    n = 0
    for tol in TOLS:
        for e in range(-lim, lim + 1, step):
            if e == 0:
                continue
            n += 1
            if float_window(e, tol) != int_window(e, tol):
                ctx.report('_match', 'float window differs from the integer window', dict(e=e, tol=tol),
                           dict(expected=e, tolerance=tol, float_window=float_window(e, tol), int_window=int_window(e, tol)))
                return n
    # and the implementation's own function agrees with the formula on a sample
    inst = protoinfo.all_protocols()[0]['cls']()
    for _ in range(4000):
        e = ctx.rng.randint(-200000, 200000) or 5
        tol = ctx.rng.choice(TOLS)
        lo, hi = int_window(e, tol)
        for v in (lo - 1, lo, hi, hi + 1, e):
            want = lo <= v <= hi and not (v < 0 < e or v > 0 > e)
            if bool(inst._match(v, e, tol)) != want:
                ctx.report('_match', 'IrProtocolBase._match differs from the integer window', dict(e=e, tol=tol, v=v),
                           dict(value=v, expected=e, tolerance=tol))
                return n
    return n


def legal_durations(p):
    vals = set()
    for b in p['bursts']:
        for x in (b if isinstance(b, list) else [b]):
            vals.add(x)
    for x in p['lead_in'] + p['lead_out']:
        vals.add(x)
    for m in p['middle']:
        if isinstance(m, (tuple, list)):
            vals.update(x for x in m if isinstance(x, int))
        elif isinstance(m, int):
            vals.add(m)
        elif isinstance(m, dict):
            for b in m['bursts']:
                vals.update(b)
    if p['eclass'] not in ('H', 'M'):
        # bit-class tables: a run of k equal bits is one duration of k units
        for x in list(vals):
            for k in range(2, 41):
                vals.add(x * k)
    base = set(vals)
    # merged durations (sums of two and three legal durations of one sign)
    for a in base:
        for b in base:
            if (a > 0) == (b > 0):
                vals.add(a + b)
                for c in base:
                    if (c > 0) == (a > 0):
                        vals.add(a + b + c)
    return vals


def far_value(p, sign, tol, rng):
    """A duration of the given sign clearly outside the window of every legal (and merged) duration."""
    legal = [abs(x) for x in legal_durations(p) if (x > 0) == (sign > 0) and x != 0]
    if not legal:
        return None
    for _ in range(200):
        v = rng.randint(40, 3 * max(legal))
        if all(abs(v - e) > e * (tol + 15) / 100.0 for e in legal) and all(v % e > e * 0.3 for e in legal if e > 30):
            return sign * v
    return None


def decode_params(p, frame, tol, want, inst=None):
    """fresh decoder at tolerance tol (or the given instance); returns None if it reports exactly `want`, else a description."""
    from pyIRDecoder import IRException
    if inst is None:
        inst = p['cls']()
        inst.tolerance = tol
    try:
        c = inst.decode(list(frame), p['frequency'])
    except IRException as e:
        return 'rejected: ' + type(e).__name__
    except Exception as e:  # noqa
        return 'raises ' + type(e).__name__
    finally:
        vlib.drain_workers()
    bad = []
    for k, v in want.items():
        g = getattr(c, k, None)
        if g is None or int(g) != v:
            bad.append(k)
    return ('reports other ' + ','.join(bad)) if bad else None


def near_outside(p, e, tol):
    """A duration of the sign of e that is clearly outside the tolerance window of e at `tol` (off by tol + max(6, tol) percent)
    and outside the window of every other legal or merged duration; None if there is none."""
    off = tol + max(6, tol)
    legal = [abs(x) for x in legal_durations(p) if (x > 0) == (e > 0) and x != 0]
    for sign in (1, -1):
        v = int(abs(e) * (100 + sign * off) / 100.0)
        if v <= 0:
            continue
        if all(abs(v - x) * 100 > x * (tol + 3) for x in legal):
            return v if e > 0 else -v
    return None


def search(ctx, protos, per):
    hits = {}
    rng = ctx.rng
    for pi, p in enumerate(protos):
        name = p['name']
        period = engine.period_of(p)
        # the order in which tolerances are used alternates between protocols: a decoder must honour the tolerance configured
        # on the instance whatever tolerance was in force for earlier decodes in the process
        order = TOLS if pi % 2 else tuple(reversed(TOLS))
        first_a = None
        for a in gen_inputs.param_assignments(p, rng, per):
            c, e = engine.fresh_encode(p, a)
            if c is None:
                continue
            if first_a is None:
                first_a = a
            frames = c.normalized_rlc
            if len(frames) != 1 and decode_params(p, frames[0], 20, a) is not None:
                continue        # multi-frame groups are C01's concern
            f = list(frames[0])
            if decode_params(p, f, 20, a) is not None:
                continue        # not decodable even exactly: C01's finding, not C04's
            for tol in order:
                for pattern in ('long', 'short', 'alt', 'random'):
                    fp = gen_inputs.perturb(f, tol, pattern, rng, period)
                    ctx.count_eval(key=(name, tuple(sorted(a.items())), tol, pattern))
                    r = decode_params(p, fp, tol, a)
                    if r is not None:
                        hits[name] = True
                        ctx.report(name, 'perturbed frame not decoded to the same parameters', dict(a, tol=tol, pattern_long=(pattern == 'long'), sig='tol%d:%s' % (tol, pattern)),
                                   dict(protocol=name, params=a, tolerance=tol, pattern=pattern, frame=fp, outcome=r))
                        break
                else:
                    continue
                break
            else:
                ctx.passed(name, dict(a, tol=20, pattern_long=False))
            # the configured tolerance stays in force while a key is held: after the frames of a held key (full frame + repeats)
            # the instance still reports the tolerance that was set and still accepts a quarter-tolerance perturbation
            if a is first_a and 'repeat_count' in p['enc_args']:
                cR, e = engine.fresh_encode(p, a, repeat_count=4)
                if cR is not None and len(cR.normalized_rlc) >= 3:
                    from pyIRDecoder import IRException
                    for tol in order[:2]:
                        inst = p['cls']()
                        inst.tolerance = tol
                        with engine.class_guard(p['cls']):
                            for fr in cR.normalized_rlc:
                                try:
                                    inst.decode(list(fr), p['frequency'])
                                except Exception:  # noqa
                                    pass
                                vlib.drain_workers()
                            ctx.count_eval(key=(name, tuple(sorted(a.items())), tol, 'held'))
                            if inst.tolerance != tol:
                                hits[name] = True
                                ctx.report(name, 'decoding changes the configured tolerance', dict(a, tol=tol),
                                           dict(protocol=name, params=a, tolerance_set=tol, tolerance_after=inst.tolerance,
                                                frames=[list(x) for x in cR.normalized_rlc]))
                                break
                            fp = gen_inputs.perturb(f, tol, 'long', rng, period)
                            r0 = decode_params(p, fp, tol, a)
                            r1 = decode_params(p, fp, tol, a, inst=inst)
                            if r0 is None and r1 is not None:
                                hits[name] = True
                                ctx.report(name, 'perturbed frame not decoded to the same parameters', dict(a, tol=tol, pattern_long=True, sig='tol%d:after-held-key' % tol),
                                           dict(protocol=name, params=a, tolerance=tol, pattern='long, after the frames of a held key',
                                                history=[list(x) for x in cR.normalized_rlc], frame=fp, outcome=r1))
                                break
            nli = len(p['lead_in'])
            nlo = len(p['lead_out'])
            # a lead-in duration clearly outside the configured tolerance (off by tol + max(6, tol) percent, either direction)
            if a is first_a and len(f) > nli + nlo and p['lead_in'] == f[:nli]:
                for tol in order:
                    off = tol + max(6, tol)
                    for j in range(nli):
                        for sgn in (-1, 1):
                            g = list(f)
                            g[j] = f[j] * (100 + sgn * off) // 100
                            if g[j] == 0 or (g[j] > 0) != (f[j] > 0):
                                continue
                            if period is not None and len(g) > 1 and g[-1] < 0 and period > sum(abs(x) for x in g[:-1]):
                                g[-1] = -(period - sum(abs(x) for x in g[:-1]))
                            r = decode_params(p, g, tol, a)
                            ctx.count_eval(key=(name, 'lead-in-off', tol, j, sgn))
                            if r is None:
                                hits[name] = True
                                ctx.report(name, 'lead-in clearly outside the configured tolerance decoded as the original',
                                           dict(a, tol=tol, position=j, sig='tol%d:li%d:%+d' % (tol, j, sgn)),
                                           dict(protocol=name, params=a, tolerance=tol, frame=g, position=j, burst=g[j], original=f[j]))
            if len(f) - nli - nlo >= 2:
                # rejection of a far burst in the data section
                i = rng.randrange(nli, len(f) - max(nlo, 1))
                v = far_value(p, 1 if f[i] > 0 else -1, 20, rng)
                if v is not None:
                    g = list(f)
                    g[i] = v
                    r = decode_params(p, g, 20, a)
                    ctx.count_eval(key=(name, tuple(sorted(a.items())), 'far', i))
                    if r is None:
                        hits[name] = True
                        ctx.report(name, 'frame with a far-off burst decoded as the original', dict(a, position=i),
                                   dict(protocol=name, params=a, frame=g, position=i, burst=v, original=f[i]))
                # rejection at a SMALL configured tolerance of a burst that a larger tolerance would accept
                for tol in order:
                    if tol == 20:
                        continue
                    i = rng.randrange(nli, len(f) - max(nlo, 1))
                    v = near_outside(p, f[i], tol)
                    if v is None:
                        continue
                    g = list(f)
                    g[i] = v
                    if period is not None and len(g) > 1 and g[-1] < 0:
                        g[-1] = -(period - sum(abs(x) for x in g[:-1])) if period > sum(abs(x) for x in g[:-1]) else g[-1]
                    r = decode_params(p, g, tol, a)
                    ctx.count_eval(key=(name, tuple(sorted(a.items())), 'near', tol, i))
                    if r is None:
                        hits[name] = True
                        ctx.report(name, 'burst clearly outside the configured tolerance decoded as the original',
                                   dict(a, tol=tol, position=i),
                                   dict(protocol=name, params=a, tolerance=tol, frame=g, position=i, burst=v, original=f[i]))
    return hits


def run(ctx):
    vlib.import_repo()
    info = perproto.prepare_models(ctx)
    protos = [e['p'] for e in info.values()]
    nsweep = match_sweep(ctx)
    ctx.extra['match_sweep'] = dict(points=nsweep, tolerances=list(TOLS))
    hits = search(ctx, protos, 3 if ctx.tier == 'quick' else 40)
    results = perproto.run_obligations(ctx, 'C04', info, lambda e: rename(c01.gen_obligation_for(TOLS)(e)), timeout=180)
    vlib.check_props_file(ctx, 'C04')
    perproto.settle(ctx, 'C04', results, hits)
    # correspondence of the parse model at the three tolerances on corner perturbations and far bursts
    modelled = [info[n]['p'] for n in results if results[n]['status'] == 'proved']
    items = []
    for p in modelled:
        for a in gen_inputs.param_assignments(p, ctx.rng, 2 if ctx.tier == 'quick' else 20):
            c, e = engine.fresh_encode(p, a)
            if c is None:
                continue
            f = list(c.normalized_rlc[0])
            for tol in TOLS:
                pat = ctx.rng.choice(['long', 'short', 'alt', 'random'])
                items.append((p, gen_inputs.perturb(f, tol, pat, ctx.rng, engine.period_of(p)), tol, False, pat))
            for tol in (5, 10):
                if len(f) > len(p['lead_in']) + len(p['lead_out']) + 2:
                    i = ctx.rng.randrange(len(p['lead_in']), len(f) - max(len(p['lead_out']), 1))
                    v2 = near_outside(p, f[i], tol)
                    if v2 is not None:
                        g = list(f)
                        g[i] = v2
                        items.append((p, g, tol, False, 'near'))
            v = far_value(p, 1, 20, ctx.rng)
            if v is not None and len(f) > len(p['lead_in']) + 2:
                g = list(f)
                i = len(p['lead_in']) + 2 * ctx.rng.randrange(0, max(1, (len(f) - len(p['lead_in']) - len(p['lead_out'])) // 2))
                if i < len(g) and g[i] > 0:
                    g[i] = v
                    items.append((p, g, 20, False, 'far'))
    bad = engine.corr_parseH(ctx, items)
    if bad is None:
        ctx.report('correspondence', 'model-eval-failed', {}, dict(theorem='PyIR.Engine.Parse evaluation'), found_input=False)
        bad = []
    for (p, code, tol, rep, tag), impl, model in bad:
        ctx.report(p['name'], 'parse-model-disagrees', dict(tag=tag, tol=tol),
                   dict(protocol=p['name'], frame=code, tolerance=tol, impl=impl[:60], model=model[:60]))
    ctx.extra['correspondence'] = dict(parse_cases=len(items), parse_disagreements=len(bad))
    ctx.cov['checker_cmd'] = vlib.COQC_CMD + ' for Gen/Tables.v, Gen/P_<p>.v, C04_<p>.v and Props/C04.v'
    ctx.cov['rule'] = ('all protocols x in-range assignments x tolerance {5,10,20} x perturbation patterns all-long / all-short / '
                       'alternating / random at exactly tolerance/4 (the gap absorbing the difference for period protocols), plus one '
                       'data burst replaced by a value outside the window of every legal and merged duration; '
                       'float-vs-integer window sweep over |e| <= %d' % (300000 if ctx.tier == 'quick' else 1200000))
    ctx.cov['trusted_base'] += ['the integer window of PyIR.Engine.Match = the binary64 window of _match: swept exhaustively on '
                                'every run over the stated range (a check of the model against the code, not a proof)',
                                'tracing translator and hand models as for C01']


def rename(r):
    txt, why = r
    if txt is None:
        return r
    return txt.replace('C01_', 'C04_'), why


def replay(path):
    vlib.import_repo()
    r = json.load(open(path))['replay']
    if 'frame' not in r:
        print(r)
        return 1
    p = protoinfo.by_name()[r['protocol']]
    out = decode_params(p, r['frame'], r.get('tolerance', 20), r['params'])
    print('decode ->', out or 'the original parameters')
    if 'burst' in r:
        return 1 if out is None else 0
    return 0 if out is None else 1
