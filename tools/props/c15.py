# C15  Pronto hex conversion round-trips within carrier quantisation
import json

import dispatch_run as dr
import engine
import gen_inputs
import protoinfo
import vlib

LEVEL = 'proof'
K = 10 ** 6
A = 241246


def gen_list(rng, odd=False):
    freq = rng.choice([rng.randint(10000, 100000), 36000, 38000, 40000, 56000, 455000, 455000])
    n = rng.randint(1, 100) * 2 - (1 if odd else 0)
    hi = 500000 if freq <= 100000 else 100000
    vals = []
    for i in range(n):
        mag = rng.choice([rng.randint(1, hi), rng.randint(1, 3000), rng.choice([25, 50, 100, 250, 444, 500, 560, 600, 889, 1000]),
                          hi])
        vals.append(mag if i % 2 == 0 else -mag)
    return freq, vals


def roundtrip_violation(freq, data, words, f2, seqs):
    """C15's clauses judged on the implementation's own output (independent of the model)."""
    if any(len('%04X' % w) != 4 for w in words):
        return 'word is not four hex digits'
    if len(words) < 4 or words[2] * 2 + words[3] * 2 != len(words) - 4:
        return 'header burst-pair counts do not match the data words'
    flat = [x for s in seqs for x in s]
    if len(flat) != len(data):
        return 'number of durations changed'
    P = words[1]
    for v, v2 in zip(data, flat):
        if v2 != 0 and (v > 0) != (v2 > 0):
            return 'sign changed'
        w = abs(v) * freq // K
        # one carrier period + carrier word quantisation + two truncations
        if abs(abs(v2) - abs(v)) * 2 * K * freq > w * (freq * A + 2) + 2 * K * freq + 2 * K * K + 2 * freq + 2 * K + 2 * K * freq:
            return 'duration outside the carrier quantisation'
    if abs(f2 - freq) * 2 * P * A > freq * A + 2 * P * A + 6:
        return 'carrier outside the quantisation'
    return None


def relations_ok(freq, data, words, seqs):
    """The hypotheses of the theorems hold for what the implementation computed (slack of one unit for binary64)."""
    P = words[1]
    if not (2 * abs(P * freq * A - K * K) <= freq * A + 2):
        return 'carrier_word_ok'
    flat = [x for s in seqs for x in s]
    for i, v in enumerate(data[:len(flat)]):
        w = words[4 + i]
        v = abs(v)
        if not (K * w <= v * freq + 1 and v * freq < K * w + K + 1):
            return 'data_word_ok'
        v2 = abs(flat[i])
        if not (K * v2 <= w * P * A + 1 and w * P * A < K * v2 + K + 1):
            return 'decoded_ok'
    return None


def run(ctx):
    vlib.import_repo()
    from pyIRDecoder import pronto
    vlib.ensure_static_build()
    vlib.check_props_file(ctx, 'C15')
    rng = ctx.rng
    n = 1500 if ctx.tier == 'quick' else 60000
    cases, meta = [], []
    dist = dict(even=0, odd=0, f455=0)
    for i in range(n):
        odd = rng.random() < 0.15
        freq, data = gen_list(rng, odd)
        dist['odd' if odd else 'even'] += 1
        dist['f455'] += freq == 455000
        try:
            s = pronto.rlc_to_pronto(freq, list(data))
            words = [int(x, 16) for x in s.split(' ')]
            f2, seqs = pronto.pronto_to_rlc(s)
            err = None
        except Exception as e:  # noqa
            err = type(e).__name__
        ctx.count_eval(key=(freq, tuple(data[:6]), len(data)))
        if err:
            ctx.report('pronto', 'conversion raises ' + err, dict(odd=odd, n=len(data)), dict(freq=freq, data=data))
            continue
        if len(cases) < (600 if ctx.tier == 'quick' else 6000):
            cases.append(('(%s, %s)' % (vlib.z(freq), vlib.zlist(data)), words + [-1, f2] + [x for sq in seqs for x in sq]))
            meta.append((freq, data))
        v = roundtrip_violation(freq, data, words, f2, seqs)
        if v:
            ctx.report('pronto', v, dict(odd=len(data) % 2 == 1, n=len(data)), dict(freq=freq, data=data, pronto=s,
                                                                                     back=[f2, seqs]))
        else:
            ctx.passed('pronto', dict(odd=len(data) % 2 == 1, n=len(data)))
        r = relations_ok(freq, data, words, seqs)
        if r:
            ctx.report('pronto', 'theorem hypothesis %s does not hold for the computed words' % r, dict(n=len(data)),
                       dict(freq=freq, data=data, pronto=s))
    # ---- a hex string with a once-sequence AND a repeat-sequence: each part must decode as it does on its own
    for i in range(200 if ctx.tier == 'quick' else 4000):
        freq, d1 = gen_list(rng, False)
        _, d2 = gen_list(rng, False)
        try:
            w1 = pronto.rlc_to_pronto(freq, list(d1)).split(' ')
            w2 = pronto.rlc_to_pronto(freq, list(d2)).split(' ')
            alone1 = pronto.pronto_to_rlc(' '.join(w1))[1]
            alone2 = pronto.pronto_to_rlc(' '.join(w2))[1]
            both = ' '.join(w1[:2] + [w1[3], w2[3]] + w1[4:] + w2[4:])        # rlc_to_pronto writes its pair count into word 3
            nrep = rng.choice([0, 0, 1, 2])
            got = pronto.pronto_to_rlc(both, nrep)[1]
        except Exception as e:  # noqa
            ctx.report('pronto', 'conversion raises ' + type(e).__name__, dict(odd=False, n=len(d1) + len(d2)),
                       dict(freq=freq, once=d1, repeat=d2))
            continue
        ctx.count_eval(key=('two', freq, tuple(d1[:4]), tuple(d2[:4]), len(d1), len(d2)))
        want = [list(alone1[0]), list(alone2[0])] + [list(alone2[0])] * nrep
        if [list(x) for x in got] != want:
            ctx.report('pronto', 'once/repeat sequences of one hex string decode differently than on their own', dict(n=len(d1) + len(d2)),
                       dict(freq=freq, once=d1, repeat=d2, pronto=both, repeat_count=nrep, decoded=[list(x) for x in got][:4], expected=want[:4]))
    # ---- the same durations converted several times in one process with different once / repeat structure (flat = repeat only,
    # [once, repeat] cut at several even points, flat again): every result must have the header counts of ITS structure, the
    # data words of the flat conversion, and must come back as sequences of those lengths
    for i in range(150 if ctx.tier == 'quick' else 3000):
        freq, dd = gen_list(rng, False)
        n2 = len(dd) // 2
        cuts = sorted(set([0, 2 * rng.randint(0, n2), 2 * rng.randint(0, n2), len(dd)]))
        rng.shuffle(cuts)
        try:
            flat = pronto.rlc_to_pronto(freq, list(dd)).split(' ')
            for c in cuts + [None, 'twice']:
                if c == 'twice':
                    # the once sequence and the repeat sequence are the same durations (a held key learned as once + repeat)
                    got = pronto.rlc_to_pronto(freq, [list(dd), list(dd)]).split(' ')
                    want = flat[:2] + ['%04X' % (len(dd) // 2)] * 2 + flat[4:] + flat[4:]
                    back = pronto.pronto_to_rlc(' '.join(got))[1]
                    ctx.count_eval(key=('structure', freq, tuple(dd[:4]), len(dd), c))
                    if got != want or [len(x) for x in back] != [len(dd), len(dd)]:
                        ctx.report('pronto', 'once sequence equal to the repeat sequence is not kept', dict(n=len(dd)),
                                   dict(freq=freq, data=dd, pronto=' '.join(got), expected=' '.join(want), decoded_lengths=[len(x) for x in back]))
                    continue
                arg = list(dd) if c is None else [list(dd[:c]), list(dd[c:])]
                got = pronto.rlc_to_pronto(freq, arg).split(' ')
                want = flat if c is None else flat[:2] + ['%04X' % (c // 2), '%04X' % ((len(dd) - c) // 2)] + flat[4:]
                ctx.count_eval(key=('structure', freq, tuple(dd[:4]), len(dd), c))
                back = pronto.pronto_to_rlc(' '.join(got))[1]
                lens = [len(x) for x in back]
                wl = [len(dd)] if c in (None, 0) else ([c] if c == len(dd) else [c, len(dd) - c])
                if got != want or lens != wl:
                    ctx.report('pronto', 'conversion depends on an earlier conversion of the same durations', dict(n=len(dd)),
                               dict(freq=freq, data=dd, cut=c, order_of_cuts=cuts, pronto=' '.join(got), expected=' '.join(want),
                                    decoded_lengths=lens, expected_lengths=wl))
                    break
        except Exception as e:  # noqa
            ctx.report('pronto', 'conversion raises ' + type(e).__name__, dict(odd=False, n=len(dd)), dict(freq=freq, data=dd, structured=True))
    bad = vlib.run_model_cases(ctx, 'corr_pronto', 'Require Import PyIR.Util.Pronto.', 'run_pronto', '(Z * list Z)', cases,
                               shard=100, timeout=900)
    if bad is None:
        ctx.report('correspondence', 'model-eval-failed', {}, dict(theorem='PyIR.Util.Pronto.run_pronto evaluation'), found_input=False)
        bad = []
    for i, o in bad:
        ctx.report('pronto', 'binary64 twin disagrees', dict(n=len(meta[i][1])),
                   dict(freq=meta[i][0], data=meta[i][1], impl=cases[i][1][:60], model=o[:60]))
    ctx.extra['correspondence'] = dict(cases=len(cases), disagreements=len(bad), distribution=dist)
    # ---- the Pronto rendering of a single-frame code decodes, with only that protocol enabled, to the same parameters
    d = dr.disp()
    ps = protoinfo.all_protocols()
    for p, a in [(p, a) for p in ps for a in gen_inputs.param_assignments(p, rng, 3 if ctx.tier == 'quick' else 40)]:
        c, e = engine.fresh_encode(p, a)
        if c is None or len(c.normalized_rlc) != 1:
            continue
        try:
            pr = c.normalized_rlc_pronto
        except Exception as e2:  # noqa
            ctx.report(p['name'], 'pronto rendering raises ' + type(e2).__name__, dict(a), dict(protocol=p['name'], params=a))
            continue
        d.reset()
        d.set_enabled({p['name']})
        try:
            got = d.mod.decode(pr)
            res = None
            if got is None:
                res = 'not decoded'
            else:
                badp = [(k, v) for k, v in a.items() if getattr(got, k, None) is None or int(getattr(got, k)) != v]
                if badp:
                    res = 'decodes to other parameters'
        except Exception as e2:  # noqa
            res = 'decode raises ' + type(e2).__name__
        d.reset()
        ctx.count_eval(key=('render', p['name']))
        if res:
            ctx.report(p['name'], 'pronto rendering of a frame: ' + res, dict(a), dict(protocol=p['name'], params=a, pronto=pr))
        else:
            ctx.passed(p['name'], dict(a))
    if meta:
        ctx.sample(dict(freq=meta[0][0], data=meta[0][1][:12], words=cases[0][1][:12]))
    ctx.cov['checker_cmd'] = vlib.COQC_CMD + ' on a copy of coq/theories/Props/C15.v'
    ctx.cov['rule'] = ('alternating lists of 1..200 durations (15% odd length), 1us..500ms at 10..100 kHz and up to 100 ms at 455 kHz; '
                       'distinct = distinct (carrier, list)')
    ctx.cov['trusted_base'] += ['Coq primitive floats (PrimFloat/Uint63 kernel primitives, listed by Print Assumptions) for the '
                                'bit-exact twin; the theorems are over Z and take the words\' defining relations as hypotheses, '
                                'which the harness checks on every case (slack of one unit for binary64 rounding)']
    ctx.assumptions.append('partial: binary64 rounding is not reasoned about inside Coq; the hypotheses carrier_word_ok / '
                           'data_word_ok / decoded_ok are validated per case')


def replay(path):
    vlib.import_repo()
    from pyIRDecoder import pronto
    r = json.load(open(path))['replay']
    if 'data' in r:
        s = pronto.rlc_to_pronto(r['freq'], list(r['data']))
        words = [int(x, 16) for x in s.split(' ')]
        f2, seqs = pronto.pronto_to_rlc(s)
        v = roundtrip_violation(r['freq'], r['data'], words, f2, seqs)
        print(s[:120], '->', f2, [len(x) for x in seqs], v)
        return 1 if v else 0
    print(r)
    return 1
