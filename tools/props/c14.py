# C14  A code's identity (string, int, hex, equality) is consistent and collision-free
import json

import engine
import gen_inputs
import perproto
import protoinfo
import protomodel
import vlib

LEVEL = 'proof'
HEX = '0123456789ABCDEF'

OBL_HEADER = '''From Coq Require Import ZArith List Bool Lia.
Require Import PyIR.Proto.Identity.
Import ListNotations.
Open Scope Z_scope.
'''


def id_fields(p, attr):
    """[(encode arg, field, code_order width, lo, hi)] for the identifying fields, or None when a _code_order field
    is not an encode parameter."""
    inv = {f: a for a, f in attr.items()}
    rng = {a: (lo, hi) for a, lo, hi in p['encode_parameters']}
    out = []
    for f, w in p['code_order']:
        if f not in inv:
            return None
        a = inv[f]
        out.append((a, f, w, rng[a][0], rng[a][1]))
    return out


def gen_obligation(e):
    p, m = e['p'], e['model']
    if not p['code_order']:
        return None, 'no _code_order'
    idf = id_fields(p, m['attr'])
    if idf is None:
        return None, 'a _code_order field is not an encode parameter'
    for a, f, w, lo, hi in idf:
        if lo < 0 or hi >= (1 << w) or w <= 0:
            return None, 'refuted: range %d..%d of %s exceeds its %d-bit _code_order width' % (lo, hi, a, w)
    name = p['name']
    vs_a = ' '.join('a_' + x[0] for x in idf)
    vs_b = ' '.join('b_' + x[0] for x in idf)
    hyp = lambda pre: ' -> '.join('%d <= %s_%s <= %d' % (lo, pre, a, hi) for a, f, w, lo, hi in idf)  # noqa
    co = vlib.zlist([w for a, f, w, lo, hi in idf])
    la = '[' + '; '.join('a_' + x[0] for x in idf) + ']'
    lb = '[' + '; '.join('b_' + x[0] for x in idf) + ']'
    msb = 'true' if p['encoding'] == 'msb' else 'false'
    txt = OBL_HEADER + '''
(* all in-range assignments of the identifying parameters of %s: equal integer identity or equal identity string
   implies equal parameters *)
Theorem C14_%s : forall %s %s : Z, %s -> %s ->
  (int_of %s %s %s = int_of %s %s %s -> %s = %s) /\\
  (str_fields %s %s = str_fields %s %s -> %s = %s).
Proof.
  intros. split.
  - apply int_injective; unfold fits; repeat (apply Forall2_cons || apply Forall2_nil); split; try lia;
      match goal with |- _ <= _ < 2 ^ ?n => let v := eval vm_compute in (2 ^ n) in change (2 ^ n) with v; lia end.
  - apply str_injective; try reflexivity; repeat (apply Forall_cons || apply Forall_nil); lia.
Qed.
Print Assumptions C14_%s.
''' % (name, name, vs_a, vs_b, hyp('a'), hyp('b'), msb, co, la, msb, co, lb, la, lb, co, la, co, lb, la, lb, name)
    return txt, None


def parse_str(s, name):
    """'Name.0A:1F' -> model encoding of the fields."""
    assert s.startswith(name + '.'), s
    out = []
    for fld in s[len(name) + 1:].split(':'):
        out += [HEX.index(ch) for ch in fld] + [-1]
    return out


def run(ctx):
    vlib.import_repo()
    info = perproto.prepare_models(ctx)
    vlib.check_props_file(ctx, 'C14')
    hits = {}
    rng = ctx.rng
    cases, meta = [], []
    per = 12 if ctx.tier == 'quick' else 200
    for name, e in info.items():
        p = e['p']
        if not p['encode_parameters']:
            continue
        attr = e['model']['attr']
        idf = id_fields(p, attr) if p['code_order'] else None
        ident_args = set(a for a, f, w, lo, hi in idf) if idf else None
        assigns = gen_inputs.param_assignments(p, rng, per)
        # plus pairs differing in exactly one parameter
        extra = []
        for a in assigns[:4]:
            for nm, lo, hi in p['encode_parameters']:
                b = dict(a)
                b[nm] = lo if a[nm] != lo else hi
                extra.append(b)
        seen = {}
        prev_codes = []
        for a in assigns + extra:
            c, err = engine.fresh_encode(p, a)
            ctx.count_eval(key=(name, tuple(sorted(a.items()))))
            if c is None:
                continue
            rec = dict(a=a)
            # == between keys that differ in every identifying parameter (independent of the string / integer forms, which some
            # protocols cannot compute)
            for a2, c2 in prev_codes[-6:]:
                names_ = [k for k in a if ident_args is None or k in ident_args]
                if names_ and all(a[k] != a2[k] for k in names_):
                    try:
                        eq = bool(c == c2)
                    except Exception:  # noqa
                        eq = False
                    if eq:
                        hits[name] = True
                        ctx.report(name, 'different keys compare equal', dict(a), dict(protocol=name, params=a, other=a2))
                        break
            prev_codes.append((a, c))
            try:
                rec['str'] = str(c)
                rec['int'] = int(c)
                rec['hex'] = c.hexadecimal
            except Exception as ex:  # noqa
                hits[name] = True
                ctx.report(name, 'identity raises ' + type(ex).__name__, dict(a), dict(protocol=name, params=a, on='encoded code'))
                continue
            finally:
                c.repeat_timer.cancel()
            h = rec['hex']
            try:
                hex_ok = h.startswith('0x') and len(h) % 2 == 0 and len(h) > 2 and int(h, 16) == rec['int']
            except (ValueError, TypeError):
                hex_ok = False
            if not hex_ok:
                hits[name] = True
                ctx.report(name, 'hex form odd or does not parse back', dict(a), dict(protocol=name, params=a, hex=h, int=rec['int']))
            # decoded == encoded, == own timings, != other keys' timings
            with engine.class_guard(p['cls']):
                import props.c01 as c01
                got, derr = c01.decode_first_group(p, c.normalized_rlc)
            if got is not None:
                try:
                    same = (got == c) and (str(got) == rec['str']) and int(got) == rec['int']
                except Exception as ex:  # noqa
                    hits[name] = True
                    ctx.report(name, 'identity raises ' + type(ex).__name__, dict(a), dict(protocol=name, params=a, on='decoded code'))
                    same = True
                if not same:
                    hits[name] = True
                    ctx.report(name, 'decoded code differs from the encoded code', dict(a), dict(protocol=name, params=a))
                try:
                    own = (got == [list(f) for f in got.normalized_rlc]) if len(got.normalized_rlc) > 1 else (got == list(got.normalized_rlc[0]))
                except Exception:  # noqa
                    own = True
                if not own:
                    hits[name] = True
                    ctx.report(name, 'code differs from its own normalised timings', dict(a), dict(protocol=name, params=a))
                rec['got'] = got
            key = tuple(a[k] for k in sorted(a) if ident_args is None or k in ident_args)
            rec['code'] = c
            # == must agree with the identity string, whatever the protocol's _code_order is
            for rec2 in list(seen.values())[:12]:
                try:
                    eq = bool(c == rec2['code'])
                except Exception:  # noqa
                    continue
                if eq != (rec2['str'] == rec['str']):
                    hits[name] = True
                    ctx.report(name, 'equality of two codes disagrees with their identity strings', dict(a),
                               dict(protocol=name, params=a, other=rec2['a'], str=[rec['str'], rec2['str']], equal=eq))
                    break
            for key2, rec2 in seen.items():
                if ident_args is None:
                    break
                if key2 != key and (rec2['str'] == rec['str'] or rec2['int'] == rec['int']):
                    hits[name] = True
                    form = ('str' if rec2['str'] == rec['str'] else '') + ('int' if rec2['int'] == rec['int'] else '')
                    differ = sorted(k for k in a if a[k] != rec2['a'].get(k))
                    ctx.report(name, 'different keys share an identity', dict(a, sig=form + ':' + (differ[0] if len(differ) == 1 else 'several parameters')),
                               dict(protocol=name, params=a, other=rec2['a'], str=[rec['str'], rec2['str']], int=[rec['int'], rec2['int']]))
                    break
                if key2 != key and len(c.normalized_rlc) > 1 and len(rec2['code'].normalized_rlc) == len(c.normalized_rlc):
                    # codes of several frames: a code must not equal the frame list of another key (also when the first frames agree)
                    try:
                        other = [list(f) for f in rec2['code'].normalized_rlc]
                        mine = [list(f) for f in c.normalized_rlc]
                        if other != mine and bool(c == other):
                            hits[name] = True
                            differ = sorted(k for k in a if a[k] != rec2['a'].get(k))
                            ctx.report(name, 'code equals the timings of another key',
                                       dict(a, sig=(differ[0] if len(differ) == 1 else 'several parameters')),
                                       dict(protocol=name, params=a, other=rec2['a'], frames=len(mine)))
                            break
                    except Exception:  # noqa
                        pass
                if key2 != key and 'got' in rec2 and len(c.normalized_rlc) == 1:
                    try:
                        if rec2['got'] == list(c.normalized_rlc[0]):
                            hits[name] = True
                            differ = sorted(k for k in a if a[k] != rec2['a'].get(k))
                            ctx.report(name, 'code equals the timings of another key', dict(a, sig=(differ[0] if len(differ) == 1 else 'several parameters')),
                                       dict(protocol=name, params=a, other=rec2['a']))
                            break
                    except Exception:  # noqa
                        pass
                if key2 == key and (rec2['str'] != rec['str'] or rec2['int'] != rec['int']):
                    hits[name] = True
                    ctx.report(name, 'equal identifying parameters give different identities', dict(a),
                               dict(protocol=name, params=a, other=rec2['a']))
                    break
            seen.setdefault(key, rec)
            if not hits.get(name):
                ctx.passed(name, dict(a))
            # correspondence case for the model of str / int / hex
            if idf and len(cases) < (1500 if ctx.tier == 'quick' else 20000) and rng.random() < 0.4:
                try:
                    vals = [int(c._data[f]) for a_, f, w, lo, hi in idf]
                    exp = parse_str(rec['str'], name) + [-2, rec['int'], -2] + [HEX.index(ch) for ch in rec['hex'][2:]]
                    cases.append(('(%s, %s, %s)' % ('true' if p['encoding'] == 'msb' else 'false',
                                                    vlib.zlist([w for a_, f, w, lo, hi in idf]), vlib.zlist(vals)), exp))
                    meta.append((name, a))
                except Exception:  # noqa
                    pass
    bad = vlib.run_model_cases(ctx, 'corr_identity', 'Require Import PyIR.Proto.Identity.', 'run_identity',
                               '(bool * list Z * list Z)', cases, shard=400)
    if bad is None:
        ctx.report('correspondence', 'model-eval-failed', {}, dict(theorem='PyIR.Proto.Identity.run_identity evaluation'), found_input=False)
        bad = []
    for i, o in bad:
        ctx.report(meta[i][0], 'identity-model-disagrees', dict(meta[i][1]),
                   dict(protocol=meta[i][0], params=meta[i][1], impl=cases[i][1], model=o))
    ctx.extra['correspondence'] = dict(cases=len(cases), disagreements=len(bad))
    results = perproto.run_obligations(ctx, 'C14', info, gen_obligation, timeout=120)
    perproto.settle(ctx, 'C14', results, hits)
    ctx.cov['checker_cmd'] = vlib.COQC_CMD + ' for C14_<p>.v (one per protocol) and Props/C14.v'
    ctx.cov['rule'] = ('all protocols x in-range assignments (min, max, one-hot, random) + single-parameter-difference pairs; '
                       'every pair within a protocol compared; distinct = distinct (protocol, assignment)')
    ctx.cov['trusted_base'] += ['hand-written model PyIR.Proto.Identity of IRCode.__str__/__int__/hexadecimal (tied by correspondence); '
                                '_code_order widths and encode ranges regenerated from /repo on every run']
    if cases:
        ctx.sample(dict(protocol=meta[0][0], params=meta[0][1], identity_encoding=cases[0][1]))


def replay(path):
    vlib.import_repo()
    r = json.load(open(path))['replay']
    if 'params' not in r:
        print(r)
        return 1
    p = protoinfo.by_name()[r['protocol']]
    c, e = engine.fresh_encode(p, r['params'])
    if c is None:
        print('encode raises', repr(e))
        return 1
    try:
        print(str(c), int(c), c.hexadecimal)
    except Exception as ex:  # noqa
        print('identity raises', repr(ex))
        return 1
    if 'other' in r:
        c2, _ = engine.fresh_encode(p, r['other'])
        print(str(c2), int(c2))
        return 1 if str(c2) == str(c) or int(c2) == int(c) else 0
    return 0
