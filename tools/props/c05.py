# C05  A corrupted frame is rejected or decoded as what it actually says
import json

import engine
import gen_inputs
import perproto
import props.c01 as c01
import protoinfo
import protomodel
import tracer
import vlib

LEVEL = 'proof'

OBL_HEADER = c01.OBL_HEADER


def gen_obligation(e):
    """C05_<p>: whatever bit fields the base decoder hands over, if the protocol's own checks accept them, then they
    are exactly the fields the encoder builds for the parameters the code reports."""
    p, m = e['p'], e['model']
    name = p['name']
    if not e['compiled']:
        return None, e['why']
    # the statement is about the protocol's own checks as a function of the fields the base decoder hands over: it needs an engine model
    # (tied by correspondence in C08) only for the provenance of those fields - any of the six engine models will do
    if not (engine.modelled_C(p) or engine.modelled_MD(p) or engine.modelled_HT(p) or engine.modelled_MT(p) or engine.modelled_B(p)):
        return None, 'engine class %s%s not in the proved fragment' % (p['eclass'], ' with middle timings' if p['middle'] else '')
    if m['status'].get('encode') != 'ok' or m['status'].get('decode') != 'ok':
        return None, m['status'].get('encode') if m['status'].get('encode') != 'ok' else m['status'].get('decode')
    if not m['dec'].get('complete'):
        return None, 'more decode paths than the translator explores'
    pk, why = c01.first_packet(m)
    if pk is None:
        return None, why
    fields = dict(pk['fields'])
    order = [x[0] for x in p['parameters']]
    if [k for k, _ in pk['fields']] != order:
        return None, 'encode supplies other fields than _parameters declares'
    for nm, start, stop in p['parameters']:
        w = tracer.static_nbits(fields[nm])
        if w is None or w != stop - start + 1:
            return None, 'inconclusive: width of field %s is not static / not the declared one' % nm
    attr = m['attr']
    inv = {f: a for a, f in attr.items()}
    # every encode argument must be reported through a field that is the plain argument
    for arg, lo, hi in p['encode_parameters']:
        if arg not in attr or fields[attr[arg]] != ('mk', ('arg', arg), fields[attr[arg]][2]):
            return None, 'inconclusive: parameter %s is not reported through a plain field' % arg
    # decode overrides of reported fields change what is reported: not handled
    for leaf in protomodel.tree_leaves(m['dec']['tree']):
        if leaf[0] == 'leaf' and leaf[1]['outcome'][0] == 'return':
            if any(k in inv for k in leaf[1]['outcome'][1]):
                return None, 'inconclusive: decode overrides a reported field'
    args = [x[0] for x in p['encode_parameters']]
    fl = ' '.join('f_' + nm for nm in order)
    hyps = ' -> '.join('canonical f_%s -> nbits f_%s = %d' % (nm, nm, stop - start + 1) for nm, start, stop in p['parameters'])
    xs = '[%s]' % '; '.join(protomodel.ciw(fields[nm]) for nm in order)
    binder = '(%s : Z)' % ' '.join('a_' + a for a in args) if args else ''
    reported = ' '.join('(value f_%s)' % attr[a] for a in args)
    out = [OBL_HEADER % name]
    out.append('Definition xs %s : list iw := %s.\n' % (binder, xs))
    out.append('''(* for ALL bit fields (of the declared widths) the base decoder may hand over - from a valid, a corrupted or a garbage
   frame: if the decode checks of %s accept them, they are the fields encode() builds for the reported parameters *)
Theorem C05_%s : forall %s : iw, %s ->
  forall ov, tree_eval (dec_%s %s) = DecOk ov -> [%s] = xs %s.
Proof.
  intros %s. intros. unfold xs.
  match goal with H : tree_eval _ = DecOk _ |- _ => unfold dec_%s in H; split_tree H end.
  timeout 30 fields_tac.
Qed.
Print Assumptions C05_%s.
''' % (name, name, fl, hyps, name, fl, '; '.join('f_' + nm for nm in order), reported, fl, name, name))
    return '\n'.join(out), None


# ---------------------------------------------------------------------- oracle on the real code
def symbols_of(p):
    if p['eclass'] in ('H', 'M'):
        return [list(b) for b in p['bursts']]
    return None


def reencode_matches(p, code, frame, tol=20):
    """The decoded code's own encoding is the corrupted frame (within the tolerance windows), ignoring the toggle bit."""
    args = {}
    for arg, lo, hi in p['encode_parameters']:
        v = getattr(code, arg, None)
        if v is None:
            return None
        args[arg] = int(v)
    candidates = [args]
    c2, e2 = engine.fresh_encode(p, args)
    if c2 is None:
        return 'reported parameters %s do not encode (%s)' % (args, type(e2).__name__)
    inst = p['cls']()
    for f2 in c2.normalized_rlc:
        if len(f2) == len(frame) and all(inst._match(a, b, tol) for a, b in zip(frame, f2)):
            return True
    return 'encoding of the reported parameters differs from the frame'


def corruptions(p, frame, rng, n):
    """single-symbol substitutions at data positions, drop / append a symbol, lead-in damage"""
    syms = symbols_of(p)
    nli, nlo = len(p['lead_in']), len(p['lead_out'])
    out = []
    data_len = len(frame) - nli - nlo
    if syms and p['eclass'] == 'H' and data_len >= 2 and all(len(s) == 2 for s in syms):
        positions = list(range(nli, nli + data_len - 1, 2))
        rng.shuffle(positions)
        for i in positions[:n]:
            cur = [frame[i], frame[i + 1]]
            for s in syms:
                if s != cur:
                    g = list(frame)
                    g[i], g[i + 1] = s[0], s[1]
                    out.append(('substitute', i, g))
        g = list(frame)
        del g[nli:nli + 2]
        out.append(('drop', nli, g))
        g = list(frame)
        g[nli:nli] = syms[0]
        out.append(('append', nli, g))
    if nli:
        g = list(frame)
        g[0] = int(g[0] * 0.5)
        out.append(('lead-in', 0, g))
        g = list(frame)
        g[nli - 1] = int(g[nli - 1] * 2.2)
        out.append(('lead-in', nli - 1, g))
        # every lead-in duration moderately off: beyond the tolerance (20 %) in both directions, up to twice and three times it
        for j in range(nli):
            for fac in (0.62, 0.7, 0.76, 1.26, 1.35, 1.45):
                g = list(frame)
                g[j] = int(g[j] * fac)
                out.append(('lead-in-scaled', j, g))
    return out


def field_flips(p, params, rng, per_field):
    """Well-formed frames that say something else: the FIRST _build_packet call of encode(**params) is recorded and replayed with one
    bit of one transmitted field flipped - a named field (constants, checksums and parameters alike; toggles are left alone) or one
    symbol of a positional `.timings` list.  Covers every engine class (Manchester, middle timings, serial), where a substitution at
    a position of the duration list is not a symbol substitution."""
    from pyIRDecoder import protocol_base
    cls = p['cls']
    orig = protocol_base.IrProtocolBase.__dict__['_build_packet']
    calls = []

    def rec(c, *args, **kwargs):
        calls.append((c, args, kwargs))
        return orig.__func__(c, *args, **kwargs)
    protocol_base.IrProtocolBase._build_packet = classmethod(rec)
    try:
        code = cls().encode(**params)
    except Exception:  # noqa
        code = None
    finally:
        protocol_base.IrProtocolBase._build_packet = orig
    out = []
    if code is None or not calls:
        return out
    try:
        code.repeat_timer.cancel()
    except Exception:  # noqa
        pass
    c, args, kwargs = calls[0]
    try:
        base = list(orig.__func__(c, *args, **kwargs))
    except Exception:  # noqa
        return out
    if base != list(code.normalized_rlc[0]):
        return out              # the first frame is not (only) this packet
    table = [list(b) for b in p['bursts'] if isinstance(b, list)]
    # positional items: lists of [mark, space] symbols
    for ai, arg in enumerate(args):
        if not (isinstance(arg, list) and arg and all(isinstance(x, list) and len(x) == 2 for x in arg)):
            continue
        idx = list(range(len(arg))) if len(arg) <= per_field else sorted(set([0, len(arg) - 1] + rng.sample(range(len(arg)), per_field - 2)))
        for k in idx:
            for sym in table:
                if sym != list(arg[k]):
                    a2 = list(args)
                    a2[ai] = [list(x) for x in arg[:k]] + [list(sym)] + [list(x) for x in arg[k + 1:]]
                    try:
                        g = list(orig.__func__(c, *a2, **kwargs))
                    except Exception:  # noqa
                        continue
                    if g != base:
                        out.append(('fieldflip', 'item%d' % ai, g))
                    break
    # named fields
    for nm, v in kwargs.items():
        un = nm.upper()
        if un in ('T', 'T1', 'T2') or un.startswith('TOGGLE'):
            continue            # a toggle bit is not part of the key: either value is a frame of the same key
        w = None
        for n2, start, stop in p['parameters']:
            if n2 == nm:
                w = stop - start + 1
        if w is None:
            continue
        try:
            val = int(v)
        except Exception:  # noqa
            continue
        bits = list(range(w)) if w <= per_field else sorted(set([0, w - 1] + rng.sample(range(w), per_field - 2)))
        for b in bits:
            k2 = dict(kwargs)
            try:
                k2[nm] = type(v)(val ^ (1 << b), w, v._timings, v.encoding) if hasattr(v, '_timings') else val ^ (1 << b)
                g = list(orig.__func__(c, *args, **k2))
            except Exception:  # noqa
                continue
            if g != base:
                out.append(('fieldflip', nm, g))
    return out


def field_at(p, frame, pos):
    """name of the parameter whose bits the data symbol at list position `pos` carries (pair tables), for the signature"""
    nli = len(p['lead_in'])
    if pos < nli:
        return 'lead-in'
    k = {2: 1, 4: 2, 16: 4}.get(len(p['bursts']), 1)
    bit = ((pos - nli) // 2) * k
    for nm, start, stop in p['parameters']:
        if start <= bit <= stop:
            return nm
    return 'beyond'


def search(ctx, protos, per, nsub):
    from pyIRDecoder import IRException
    hits = {}
    rng = ctx.rng
    for p in protos:
        name = p['name']
        for a in gen_inputs.param_assignments(p, rng, per):
            c, e = engine.fresh_encode(p, a)
            if c is None or len(c.normalized_rlc) < 1:
                continue
            f = list(c.normalized_rlc[0])
            flips = []
            with engine.class_guard(p['cls']):
                try:
                    flips = field_flips(p, a, rng, 4 if nsub <= 6 else 16)
                except Exception:  # noqa
                    flips = []
            for kind, pos, g in corruptions(p, f, rng, nsub) + flips:
                ctx.count_eval(key=(name, kind, pos, tuple(g[:8]), len(g)))
                inst = p['cls']()
                with engine.class_guard(p['cls']):
                    try:
                        got = inst.decode(list(g), p['frequency'])
                    except IRException:
                        continue
                    except Exception as ex:  # noqa  (leaked exceptions are C08's business)
                        continue
                    finally:
                        vlib.drain_workers()
                    r = reencode_matches(p, got, g)
                if r is True or r is None:
                    ctx.passed(name, dict(kind=kind))
                    continue
                hits[name] = True
                fld = field_at(p, f, pos) if kind == 'substitute' else (str(pos) if kind == 'fieldflip' else kind)
                ctx.report(name, 'corrupted frame decoded as parameters that do not encode it', dict(kind=kind, sig=kind + ':' + fld),
                           dict(protocol=name, params=a, corruption=kind, position=pos, field=fld, frame=g, why=r))
            # the same on a decoder that has just decoded the intact frame (a key is held): a corrupted frame must not come back as
            # the held key either
            for kind, pos, g in sorted(corruptions(p, f, rng, 10 ** 6), key=lambda x: (x[0], x[1], x[2])):          # every data position
                if kind not in ('substitute',):
                    continue
                ctx.count_eval(key=(name, 'held', kind, pos, tuple(g[:8]), len(g)))
                inst = p['cls']()
                with engine.class_guard(p['cls']):
                    try:
                        inst.decode(list(f), p['frequency'])
                        got = inst.decode(list(g), p['frequency'])
                    except IRException:
                        continue
                    except Exception:  # noqa
                        continue
                    finally:
                        vlib.drain_workers()
                    r = reencode_matches(p, got, g)
                if r is True or r is None:
                    continue
                hits[name] = True
                fld = field_at(p, f, pos)
                ctx.report(name, 'corrupted frame decoded as the held key', dict(kind=kind, sig=kind + ':' + fld),
                           dict(protocol=name, params=a, corruption=kind, position=pos, field=fld, frame=g, why=r))
    return hits


def run(ctx):
    vlib.import_repo()
    info = perproto.prepare_models(ctx)
    protos = [e['p'] for e in info.values()]
    hits = search(ctx, protos, 8 if ctx.tier == 'quick' else 32, 6 if ctx.tier == 'quick' else 64)
    results = perproto.run_obligations(ctx, 'C05', info, gen_obligation, timeout=120)
    vlib.check_props_file(ctx, 'C05')
    perproto.settle(ctx, 'C05', results, hits)
    # the decode trees compare fields with `==` / `!=`: the model's reading of those operators (value comparison, widths play
    # no part) is tied to IntegerWrapper's on every run
    import props.c19 as c19
    c19.corr_cmp(ctx)
    # correspondence: parse model on corrupted frames; decode trees on arbitrary field contents
    import protocorr
    modelled = [info[n]['p'] for n in results if results[n]['status'] == 'proved']
    items = []
    xitems = {}
    for p in modelled:
        for a in gen_inputs.param_assignments(p, ctx.rng, 2 if ctx.tier == 'quick' else 16):
            c, e = engine.fresh_encode(p, a)
            if c is None:
                continue
            for kind, pos, g in corruptions(p, list(c.normalized_rlc[0]), ctx.rng, 2)[:5]:
                if engine.modelled_C(p):
                    items.append((p, g, 20, False, kind))
                else:
                    cls = 'MD' if engine.modelled_MD(p) else 'HT' if engine.modelled_HT(p) else 'MT' if engine.modelled_MT(p) else 'B'
                    xitems.setdefault(cls, []).append((p, g, 20, kind))
    for cls, its in sorted(xitems.items()):
        fn = dict(MD=engine.corr_parseMD, HT=engine.corr_parseHT, MT=engine.corr_parseMT, B=engine.corr_parseB)[cls]
        mb = fn(ctx, its, name='corr_parse%s' % cls)
        if mb is None:
            ctx.report('correspondence', 'model-eval-failed', {}, dict(theorem='PyIR.Engine.Parse%s evaluation' % cls), found_input=False)
            mb = []
        for (p, code, tol, tag), impl, model in mb:
            ctx.report(p['name'], 'parse-model-disagrees', dict(tag=tag),
                       dict(protocol=p['name'], frame=code, tolerance=tol, impl=impl[:60], model=model[:60]))
    bad = engine.corr_parseH(ctx, items)
    if bad is None:
        ctx.report('correspondence', 'model-eval-failed', {}, dict(theorem='PyIR.Engine.Parse evaluation'), found_input=False)
        bad = []
    for (p, code, tol, rep, tag), impl, model in bad:
        ctx.report(p['name'], 'parse-model-disagrees', dict(tag=tag),
                   dict(protocol=p['name'], frame=code, impl=impl[:60], model=model[:60]))
    dcases, dbad = protocorr.corr_decode(ctx, modelled, 4 if ctx.tier == 'quick' else 40)
    for p, a, impl, model in dbad:
        ctx.report(p['name'], 'decode-model-disagrees', dict(), dict(protocol=p['name'], fields=a, impl=impl[:60], model=model[:60]))
    ctx.extra['correspondence'] = dict(parse_cases=len(items), parse_disagreements=len(bad), decode_cases=dcases,
                                       decode_disagreements=len(dbad))
    ctx.cov['checker_cmd'] = vlib.COQC_CMD + ' for Gen/P_<p>.v, C05_<p>.v and Props/C05.v'
    ctx.cov['rule'] = ('all protocols x in-range assignments x every other symbol at sampled data positions (all positions in '
                       'thorough), one symbol dropped / appended, lead-in damage; each accepted corruption is re-encoded from the '
                       'reported parameters and compared with the corrupted frame; distinct = distinct corrupted frames')
    ctx.cov['trusted_base'] += ['tracing translator (decode trees) tied by the decode correspondence on arbitrary field contents; '
                                'engine soundness theorem is about the hand model PyIR.Engine.Parse (parse correspondence)']


def replay(path):
    vlib.import_repo()
    from pyIRDecoder import IRException
    r = json.load(open(path))['replay']
    if 'frame' not in r:
        print(r)
        return 1
    p = protoinfo.by_name()[r['protocol']]
    try:
        got = p['cls']().decode(list(r['frame']), p['frequency'])
    except IRException as e:
        print('rejected:', type(e).__name__)
        return 0
    res = reencode_matches(p, got, r['frame'])
    print('decoded', got, '->', res)
    return 0 if res is True else 1
