# C18  An interrupted save never yields a half-loaded configuration
import json
import os
import shutil
import tempfile

import vlib

LEVEL = 'proof'

OBL = '''From Coq Require Import List Bool Arith.
Require Import PyIR.Util.Xml.
Import ListNotations.

Definition tag : str := %s.
Definition text : str := %s.

(* every truncation offset of this file: the completeness test of handle_file fails, so (C18_incomplete_file_never_loaded)
   the file is never loaded and never replaces the backup *)
Lemma all_offsets : forallb (fun k => negb (complete tag (firstn k text))) (seq 0 %d) = true.
Proof. vm_compute. reflexivity. Qed.

Theorem C18_this_file : forall k, (k < %d)%%nat -> complete tag (firstn k text) = false.
Proof.
  intros k Hk. pose proof all_offsets as H. rewrite forallb_forall in H.
  specialize (H k). rewrite negb_true_iff in H. apply H. apply in_seq. split; [apply Nat.le_0_l|exact Hk].
Qed.
(* the complete file passes *)
Example whole_file_complete : complete tag text = true.
Proof. vm_compute. reflexivity. Qed.
Print Assumptions C18_this_file.
'''


def small_config(rng, n):
    """A configuration file as config.save() writes it, with n protocol elements (xml_handler is generic)."""
    from pyIRDecoder import xml_handler
    root = xml_handler.XMLRootElement('IRConfig')
    root.database_url = 'http://h/?a=1&b=<2>/'
    for i in range(n):
        el = xml_handler.XMLElement('IRProtocol', name='P%d' % i)
        el.enabled = rng.random() < 0.5
        el.tolerance = rng.choice([5, 10, 20])
        el.frequency_tolerance = 2
        root.append(el)
    return str(root)


def load_outcome(path, n_children):
    """('loaded', complete?) | ('raised', name); plus whether the backup still holds the good data."""
    from pyIRDecoder import xml_handler
    try:
        r = xml_handler.XMLRootElement.handle_file(path)
        kids = len(list(r))
        return ('loaded', kids)
    except Exception as e:  # noqa
        return ('raised', type(e).__name__)


def public_load_outcome(path):
    """The same through the public entry point xml_handler.load(path) (what Config(path) calls)."""
    from pyIRDecoder import xml_handler
    try:
        r = xml_handler.load(path, 'IRConfig')
        return ('loaded', len(list(r)))
    except Exception as e:  # noqa
        return ('raised', type(e).__name__)


def config_outcome(path):
    """... and through Config(path), the object an application builds from the file."""
    from pyIRDecoder import Config
    try:
        c = Config(path)
        return ('loaded', len(list(c)))
    except Exception as e:  # noqa
        return ('raised', type(e).__name__)


def session_history(ctx, rng, d):
    """Several sessions on one file: configuration A is loaded, the application saves B (of the same length as A, or shorter, or
    longer), restarts and loads B - a good load, whose backup copy must be B - and then a save is interrupted at offset k: the next
    load must give B's settings (from the backup) or fail, never A's."""
    from pyIRDecoder import xml_handler

    def build(settings):
        root = xml_handler.XMLRootElement('IRConfig')
        root.database_url = 'http://h/x'
        for nm, en, tol in settings:
            el = xml_handler.XMLElement('IRProtocol', name=nm)
            el.enabled, el.tolerance, el.frequency_tolerance = en, tol, 2
            root.append(el)
        return str(root)

    def snap(root):
        return [(e.name, e.enabled, e.tolerance) for e in root]

    n = rng.randint(3, 6)
    A = [('P%d' % i, i % 2 == 0, 10) for i in range(n)]
    variants = {
        'same length': [(nm, not en, 25 if i == 0 else tol) for i, (nm, en, tol) in enumerate(A[:2])] + A[2:],
        'shorter': [(nm, en, 5) for nm, en, tol in A[:-1]],
        'longer': A + [('Q', True, 12.5)],
    }
    path = os.path.join(d, 'hist.xml')
    for label, B in variants.items():
        ta, tb = build(A), build(B)
        if label == 'same length' and len(ta) != len(tb):
            continue
        for f in (path, path + '.backup'):
            if os.path.exists(f):
                os.remove(f)
        open(path, 'w').write(ta)
        try:
            xml_handler.XMLRootElement.handle_file(path)
            open(path, 'w').write(tb)
            r = xml_handler.XMLRootElement.handle_file(path)
            want = snap(r)
        except Exception as e:  # noqa
            ctx.report('handle_file', 'good file does not load: ' + type(e).__name__, dict(variant=label), dict(variant=label, file=tb))
            continue
        bk = open(path + '.backup').read() if os.path.exists(path + '.backup') else None
        ctx.count_eval(key=('history', label))
        if bk is None or bk.strip() != tb.strip():
            ctx.report('handle_file', 'backup not refreshed by a good load', dict(variant=label),
                       dict(variant=label, scenario='load A, save B, load B: the backup still holds ' +
                            ('A' if bk is not None and bk.strip() == ta.strip() else 'something else'),
                            file_A=ta, file_B=tb, backup=bk))
        for k in sorted(set([0, 1, len(tb) // 3, len(tb) // 2, len(tb) - 5, len(tb) - 1]) | set(rng.sample(range(len(tb)), 6))):
            if k < 0 or tb[:k].strip() == tb.strip():
                continue
            open(path, 'w').write(tb[:k])
            ctx.count_eval(key=('history', label, k))
            try:
                got = snap(xml_handler.XMLRootElement.handle_file(path))
            except Exception:  # noqa
                continue
            if got != want:
                ctx.report('handle_file', 'interrupted save falls back to an older configuration', dict(variant=label, offset=k),
                           dict(variant=label, offset=k, file_A=ta, file_B=tb, loaded=[list(x) for x in got],
                                last_good=[list(x) for x in want]))
                break


def run(ctx):
    vlib.import_repo()
    from pyIRDecoder import protocols, xml_handler
    vlib.ensure_static_build()
    vlib.check_props_file(ctx, 'C18')
    rng = ctx.rng
    d = tempfile.mkdtemp(prefix='c18_')
    try:
        # ---- kernel-checked: every truncation offset of concrete files written by the real writer fails the test
        files = []
        for n in ((3, 9) if ctx.tier == 'quick' else (3, 9, 25)):
            files.append(('small%d' % n, small_config(rng, n)))
        vfiles = []
        for name, text in files:
            fn = 'C18_%s.v' % name
            L = len(text.rstrip())
            with open(os.path.join(ctx.build, fn), 'w') as fh:
                fh.write(OBL % (vlib.zlist([ord(c) for c in 'IRConfig']).replace('(', '').replace(')', ''),
                                '[' + '; '.join(str(ord(c)) for c in text) + ']', L, L))
            vfiles.append(fn)
        res = vlib.coqc_many(ctx.build, vfiles, timeout=900)
        for (name, text), fn in zip(files, vfiles):
            ok, out = res[fn]
            if not ok and not out.strip():
                # killed by the shell timeout (a loaded machine): the evaluation proves nothing and refutes nothing
                ctx.note('C18_this_file for %s: evaluation over all offsets did not finish within the time limit (not counted)' % name)
                continue
            ctx.obligation('C18_this_file[%s, %d offsets]' % (name, len(text.rstrip())), ok, None if ok else out[-400:])
            if not ok:
                ctx.report('handle_file', 'proof-broken', dict(file=name), dict(theorem='C18_this_file for ' + name, output=out[-800:]),
                           found_input=False)
        # correspondence of the completeness test: model vs the implementation's decision on real prefixes
        cases = []
        meta = []
        name, text = files[-1]
        good_kids = len(list(xml_handler.XMLRootElement.from_string(text)))
        path = os.path.join(d, 'corr.xml')
        for k in sorted(set(list(range(0, len(text), max(1, len(text) // (120 if ctx.tier == 'quick' else 1200)))) +
                            list(range(max(0, len(text) - 25), len(text) + 1)))):
            with open(path, 'w') as fh:
                fh.write(text[:k])
            if os.path.exists(path + '.backup'):
                os.remove(path + '.backup')
            out = load_outcome(path, good_kids)
            accepted = 1 if out[0] == 'loaded' else 0
            cases.append(('(%s, %s)' % (vlib.zlist([ord(c) for c in 'IRConfig']), vlib.zlist([ord(c) for c in text[:k]])), [accepted]))
            meta.append(k)
        bad = vlib.run_model_cases(ctx, 'corr_complete', 'Require Import PyIR.Util.Xml.',
                                   'fun c => [if complete (map Z.to_nat (fst c)) (map Z.to_nat (snd c)) then 1 else 0]',
                                   '(list Z * list Z)', cases, shard=150)
        if bad is None:
            ctx.report('correspondence', 'model-eval-failed', {}, dict(theorem='PyIR.Util.Xml.complete evaluation'), found_input=False)
            bad = []
        for i, o in bad:
            # the model's test passing while the implementation refuses is harmless only when from_string itself raised
            ctx.report('handle_file', 'completeness-model-disagrees', dict(offset=meta[i]),
                       dict(file=text, offset=meta[i], impl_accepts=cases[i][1], model_accepts=o))
        ctx.extra['correspondence'] = dict(cases=len(cases), disagreements=len(bad))
        # ---- oracle on the real save / load with the live configuration: truncate at offsets, with and without backup
        cfgpath = os.path.join(d, 'cfg.xml')
        protocols.NEC.enabled = False
        protocols.config.save(cfgpath)
        protocols.NEC.enabled = True
        good = open(cfgpath).read()
        xml_handler.XMLRootElement.handle_file(cfgpath)
        n_good = len(list(xml_handler.XMLRootElement.from_string(good)))
        step = 211 if ctx.tier == 'quick' else 7
        offsets = sorted(set(list(range(0, len(good), step)) + list(range(len(good) - 40, len(good)))))
        if ctx.tier != 'quick':
            offsets = sorted(set(offsets + [rng.randrange(len(good)) for _ in range(3000)]))
        for with_backup in (True, False):
            for k in offsets:
                with open(cfgpath, 'w') as fh:
                    fh.write(good[:k])
                if with_backup:
                    with open(cfgpath + '.backup', 'w') as fh:
                        fh.write(good)
                elif os.path.exists(cfgpath + '.backup'):
                    os.remove(cfgpath + '.backup')
                out = load_outcome(cfgpath, n_good)
                ctx.count_eval(key=(k, with_backup))
                if k % 5 == 0 or k < 3:
                    # the public loader must not be more permissive than handle_file (an empty or cut file is not a new file)
                    with open(cfgpath, 'w') as fh:
                        fh.write(good[:k])
                    if with_backup:
                        with open(cfgpath + '.backup', 'w') as fh:
                            fh.write(good)
                    pub = public_load_outcome(cfgpath)
                    if pub[0] == 'loaded' and pub[1] != n_good:
                        ctx.report('xml_handler.load', 'truncated file silently loaded', dict(offset=k, backup=with_backup),
                                   dict(offset=k, with_backup=with_backup, children_loaded=pub[1], children_saved=n_good))
                    # ... and neither must Config(path) (with the good backup, or with none)
                    for bk in ((good,) if with_backup else (None,)):
                        with open(cfgpath, 'w') as fh:
                            fh.write(good[:k])
                        if bk is not None:
                            with open(cfgpath + '.backup', 'w') as fh:
                                fh.write(bk)
                        elif os.path.exists(cfgpath + '.backup'):
                            os.remove(cfgpath + '.backup')
                        cfo = config_outcome(cfgpath)
                        ctx.count_eval(key=(k, with_backup, 'Config', bk is good))
                        if cfo[0] == 'loaded' and cfo[1] != n_good and good[:k].strip() != good.strip():
                            ctx.report('Config', 'truncated file silently loaded', dict(offset=k, backup=with_backup, backup_damaged=bk is not good),
                                       dict(offset=k, with_backup=with_backup, backup_damaged=bk is not good,
                                            children_loaded=cfo[1], children_saved=n_good))
                    if with_backup:
                        with open(cfgpath + '.backup', 'w') as fh:
                            fh.write(good)
                complete_prefix = good[:k].strip() == good.strip()
                if with_backup and (k % 5 == 0 or k < 3) and good[:k].strip() != good.strip():
                    # the session that recovered from the backup goes on and saves again: that save must not put the damaged file
                    # in the place of the good backup either (a second interrupted save would then leave nothing to recover from)
                    with open(cfgpath, 'w') as fh:
                        fh.write(good[:k])
                    with open(cfgpath + '.backup', 'w') as fh:
                        fh.write(good)
                    try:
                        r = xml_handler.XMLRootElement.handle_file(cfgpath)
                        r.save()
                        r.write_file()
                    except Exception:  # noqa
                        r = None
                    ctx.count_eval(key=(k, 'save after recovery'))
                    b = open(cfgpath + '.backup').read() if os.path.exists(cfgpath + '.backup') else ''
                    if r is not None and b.strip() != good.strip():
                        ctx.report('write_file', 'good backup overwritten by the damaged file', dict(offset=k),
                                   dict(offset=k, scenario='truncated file + good backup -> load (recovers) -> save', backup_length=len(b),
                                        good_length=len(good)))
                    with open(cfgpath, 'w') as fh:
                        fh.write(good[:k])
                    with open(cfgpath + '.backup', 'w') as fh:
                        fh.write(good)
                if out[0] == 'loaded' and out[1] != n_good:
                    ctx.report('handle_file', 'truncated file silently loaded', dict(offset=k, backup=with_backup),
                               dict(offset=k, with_backup=with_backup, children_loaded=out[1], children_saved=n_good))
                if with_backup and not complete_prefix:
                    b = open(cfgpath + '.backup').read()
                    if b != good:
                        ctx.report('handle_file', 'good backup overwritten by the damaged file', dict(offset=k),
                                   dict(offset=k, backup_length=len(b), good_length=len(good)))
                if not with_backup and out[0] == 'loaded' and not complete_prefix:
                    ctx.report('handle_file', 'truncated file accepted without a backup', dict(offset=k),
                               dict(offset=k, children_loaded=out[1]))
        session_history(ctx, ctx.rng, d)
        ctx.extra['search'] = dict(offsets=len(offsets), file_length=len(good), protocols_in_file=n_good)
        ctx.sample(dict(file='small config, %d bytes' % len(files[0][1]), obligation='forall k < %d, complete tag (firstn k text) = false'
                        % len(files[0][1].rstrip())))
    finally:
        shutil.rmtree(d, ignore_errors=True)
        vlib.drain_workers()
    ctx.cov['checker_cmd'] = vlib.COQC_CMD + ' for C18_small<n>.v (all offsets of concrete files, vm_compute) and Props/C18.v'
    ctx.cov['rule'] = ('truncation offsets of the file config.save() writes for the live 174-decoder configuration (every %d-th '
                       'offset + the last 40 in quick, every 7th + random in thorough), with and without a backup; distinct = (offset, backup)'
                       % (211,))
    ctx.cov['exhaustive'] = False
    ctx.cov['trusted_base'] += ['hand-written model PyIR.Util.Xml.complete / handle_file (tied by correspondence on real prefixes); '
                                'XMLElement.from_string is an arbitrary parameter of the theorem; OS write atomicity is outside the model']
    ctx.assumptions.append('partial: the all-offsets theorem is proved for concrete small files written by the real writer; the '
                           '15 kB live configuration is covered by the oracle at sampled (thorough: dense) offsets')


def replay(path):
    vlib.import_repo()
    r = json.load(open(path))['replay']
    print(r)
    return 1
