# C02  Emitted frames match the protocol's published IRP timing specification
import random
import json

import engine
import gen_inputs
import irp
import irpplan
import perproto
import props.c01 as c01
import tracer
import protoinfo
import protomodel
import vlib

LEVEL = 'proof'
ENUM_LIMIT = 1 << 12

HEADER = '''From Coq Require Import ZArith List Bool Lia.
Require Import PyIR.Base.Result PyIR.IW.IW PyIR.Proto.Descriptor PyIR.Proto.Model PyIR.Proto.Irp.
Require Import Gen.Tables.
Import ListNotations.
Open Scope Z_scope.
'''


def merge(l):
    return irpplan.merge_consts(l)


def parse_all(protos):
    out = {}
    for p in protos:
        s = getattr(p['cls'], 'irp', None)
        if not isinstance(s, str) or not s.strip():
            out[p['name']] = (None, 'no irp string')
            continue
        try:
            out[p['name']] = (irp.parse(s), None)
        except irp.IrpError as e:
            out[p['name']] = (None, 'not well-formed IRP: %s' % e)
    return out


def var_map(p, model):
    """IRP variable (= packet field name) -> encode argument."""
    return {f: a for a, f in model['attr'].items()}


def choose_plans(p, model, ast):
    """For n = 0, 1, 2: (lib frames, irp frames, k) with equal shapes, or raises Unmodelled."""
    out = []
    for n in (0, 1, 2):
        lib, consts = irpplan.lib_plan(model, n)
        found = None
        why = None
        for k in [n + 1, n, n + 2] + list(range(0, 2 * n + 5)):
            try:
                fr = irpplan.irp_plan(ast, k, consts)
            except irpplan.Unmodelled as e:
                raise
            if irpplan.shape(fr) == irpplan.shape(lib):
                found = (lib, fr, k)
                break
            fr2 = irpplan.regroup(fr, lib)
            if fr2 is not None and irpplan.shape(fr2) == irpplan.shape(lib) and \
                    not any(s[0] == 'ext' for f in fr2 for s in f[:-1]):
                found = (lib, fr2, k)
                break
        if found is None:
            raise irpplan.Unmodelled('inconclusive: no repeat count of the IRP gives the slot structure of encode(repeat_count=%d)' % n)
        out.append(found)
    return out


def gen_files(e, ast):
    p, m = e['p'], e['model']
    name = p['name']
    if not e['compiled']:
        return None, e['why']
    if m['status'].get('encode') != 'ok':
        return None, m['status'].get('encode')
    try:
        plans = choose_plans(p, m, ast)
        eps = p['encode_parameters']
        arg_index = {a: i for i, (a, lo, hi) in enumerate(eps)}
        ranges = {a: (lo, hi) for a, lo, hi in eps}
        v2a = var_map(p, m)
        for lib, fr, k in plans:
            if irpplan.enum_size(lib, fr, ranges, v2a) > ENUM_LIMIT:
                return None, 'inconclusive: a field depends on more than %d parameter combinations' % ENUM_LIMIT
        defs = ['Definition ranges : list (Z * Z) := [%s].' % '; '.join('(%s, %s)' % (vlib.z(lo), vlib.z(hi)) for a, lo, hi in eps)]
        for n, (lib, fr, k) in enumerate(plans):
            defs.append('Definition lib_%d : list (list slot) :=\n  %s.' % (n, irpplan.cplan(lib, arg_index, v2a, fr)))
            defs.append('(* IRP unrolled with %d repetition(s) of its repeating group *)\nDefinition irp_%d : list (list slot) :=\n  %s.'
                        % (k, n, irpplan.cplan(fr, arg_index, v2a, lib)))
    except irpplan.Unmodelled as ex:
        return None, str(ex)
    except tracer_refused() as ex:
        return None, 'translator: %s' % ex
    freq = ast['general']['freq']
    if freq is None or freq.denominator != 1:
        return None, 'inconclusive: carrier of the specification is not an integer'
    lf = '(* plans of %s: traced from encode() / translated from\n   %s *)\n' % (name, p['cls'].irp.replace('(*', '( *').replace('*)', '* )').replace('"', "''"))
    lfile = HEADER + lf + '\n'.join(defs) + '\n'
    obl = [HEADER, 'Require Import Gen.L_%s.\n' % name]
    for n in range(3):
        obl.append('Lemma agree_%d : plan_agree ranges lib_%d irp_%d = true.\nProof. vm_compute. reflexivity. Qed.' % (n, n, n))
        obl.append('Lemma deps_%d : forallb (forallb (deps_ok (List.length ranges))) lib_%d = true.\nProof. vm_compute. reflexivity. Qed.' % (n, n))
    obl.append('''
(* for EVERY assignment of the encode parameters inside their advertised ranges and repeat_count 0, 1, 2: the signal of the
   plan traced from encode() is the signal of the protocol's IRP string; and the carriers are equal *)
Theorem C02_%s : forall env, env_ok ranges env ->
  plan_signal (inst_plan env lib_0) = plan_signal (inst_plan env irp_0) /\\
  plan_signal (inst_plan env lib_1) = plan_signal (inst_plan env irp_1) /\\
  plan_signal (inst_plan env lib_2) = plan_signal (inst_plan env irp_2) /\\
  d_freq D_%s = %s.
Proof.
  intros env He. split; [|split; [|split]].
  - apply (plan_agree_sound ranges env He _ _ agree_0 deps_0).
  - apply (plan_agree_sound ranges env He _ _ agree_1 deps_1).
  - apply (plan_agree_sound ranges env He _ _ agree_2 deps_2).
  - vm_compute. reflexivity.
Qed.
(* the specification is not void on this protocol: the minimum assignment has a defined signal *)
Example defined_%s : plan_signal (inst_plan (fun i => fst (nth i ranges (0, 0))) irp_0) <> None.
Proof. vm_compute. discriminate. Qed.
Print Assumptions C02_%s.
''' % (name, name, vlib.z(int(freq)), name, name))
    return (lfile, '\n'.join(obl)), None



RHEADER = """From Coq Require Import ZArith List Bool Lia String.
Require Import PyIR.Base.Result PyIR.IW.IW PyIR.IW.IWProps PyIR.Engine.Render PyIR.Proto.Descriptor PyIR.Proto.Model
               PyIR.Proto.C01 PyIR.Proto.Irp PyIR.Proto.IrpLib.
Require Import Gen.Tables Gen.L_%s.
Import ListNotations.
Open Scope Z_scope.
"""


def gen_renderer(e):
    """C02R_<p>: the first frame that the renderer model computes for encode(repeat_count=0) is the first frame of the IRP
    signal - for every in-range assignment.  Applies when that frame is one _build_packet call on a two-entry table."""
    p, m = e['p'], e['model']
    name = p['name']
    pk, why = c01.first_packet(m)
    if pk is None:
        return None, why
    if len(pk['bursts']) != 2 or not all(isinstance(b, (list, tuple)) for b in pk['bursts']):
        return None, 'symbol table does not have two entries'
    if (pk['lead_in'], pk['lead_out'], pk['bursts']) != (p['lead_in'], p['lead_out'], p['bursts']) or pk['encoding'] != p['encoding']:
        return None, 'packet built on other tables than the class tables'
    widths = []
    for nm, ex in pk['fields']:
        w = tracer.static_nbits(ex)
        if w is None:
            return None, 'field %s of value-dependent width' % nm
        widths.append(w)
    eps = p['encode_parameters']
    if not eps or len(eps) > 6:
        return None, 'no or too many encode parameters'
    args = ['a_' + a for a, lo, hi in eps]
    hyps = ' -> '.join('%s <= a_%s <= %s' % (vlib.z(lo), a, vlib.z(hi)) for a, lo, hi in eps)
    xs = '[%s]' % '; '.join(protomodel.ciw(ex) for nm, ex in pk['fields'])
    s0, s1 = (vlib.zlist(list(b)) for b in pk['bursts'])
    al = ' '.join(args)
    pat = 'i'
    for _ in eps:
        pat = '[|%s]' % pat
    out = [RHEADER % name]
    out.append('Definition xs (%s : Z) : list iw := %s.' % (al, xs))
    out.append('Definition envf (%s : Z) : nat -> Z := fun i => nth i [%s] 0.' % (al, '; '.join(args)))
    out.append("""Lemma frame0 : forall %s, map (inst_slot (envf %s)) (nth 0 lib_0 []) =
  packet_atoms (d_lead_in D_%s) (d_lead_out D_%s) (d_bursts D_%s) (d_msb D_%s) (xs %s).
Proof. intros. reflexivity. Qed.
Lemma fields_canonical : forall %s, %s -> Forall canonical (xs %s).
Proof. intros. unfold xs. canon_tac. Qed.
Lemma env_in_range : forall %s, %s -> env_ok ranges (envf %s).
Proof. intros %s. intros. intros i Hi. unfold ranges, range_of, envf in *. cbn [List.length] in Hi.
  destruct i as %s; cbn [nth fst snd]; try lia. Qed.
Lemma agree0 : frame_agree ranges (nth 0 lib_0 []) (nth 0 irp_0 []) = true. Proof. vm_compute. reflexivity. Qed.
Lemma deps0 : forallb (deps_ok (List.length ranges)) (nth 0 lib_0 []) = true. Proof. vm_compute. reflexivity. Qed.
Lemma pok : packet_ok (d_lead_in D_%s) (d_lead_out D_%s) %s %s %d = true. Proof. vm_compute. reflexivity. Qed.

(* every in-range assignment: the frame the model of _build_packet / IntegerWrapper.timings renders from the traced fields of
   encode(repeat_count=0) is, duration for duration, the first frame of the signal of the protocol's IRP string *)
Theorem C02R_%s : forall %s, %s ->
  exists l, render_part (PPacket (d_lead_in D_%s) (d_lead_out D_%s) (d_bursts D_%s) (d_msb D_%s) [] (xs %s)) = Ok l /\\
            frame_signal (map (inst_slot (envf %s)) (nth 0 irp_0 [])) = Some l.
Proof.
  intros %s. intros.
  destruct (render_packet_is_irp_b (d_lead_in D_%s) (d_lead_out D_%s) %s %s (d_msb D_%s) (xs %s) %d
              ltac:(apply fields_canonical; assumption) ltac:(vm_compute; discriminate) pok) as [l [Hrender Hsignal]].
  exists l. split; [exact Hrender|].
  rewrite <- (frame_agree_signal ranges (envf %s) _ _ ltac:(apply env_in_range; assumption) agree0 deps0).
  rewrite frame0. exact Hsignal.
Qed.
Print Assumptions C02R_%s.
""" % (al, al, name, name, name, name, al,
       al, hyps, al,
       al, hyps, al, al, pat,
       name, name, s0, s1, sum(widths),
       name, al, hyps, name, name, name, name, al, al,
       al, name, name, s0, s1, name, al, sum(widths),
       al, name))
    return '\n'.join(out), None


def tracer_refused():
    import tracer
    return tracer.Refused


# ---------------------------------------------------------------------- oracle: reference renderer vs the real encoders
def oracle(ctx, protos, asts, models, per):
    rng = ctx.rng
    hits = {}
    for p in protos:
        name = p['name']
        ast = asts[name][0]
        if ast is None:
            continue
        m = models[name]['model']
        inv = {f: a for a, f in (m.get('attr') or {}).items()} if m else {}
        params = irp.variables(ast)
        freq = ast['general']['freq']
        if freq is not None and int(freq) != p['frequency']:
            hits[name] = True
            ctx.report(name, 'declared carrier differs from the specification', dict(declared=p['frequency']),
                       dict(protocol=name, declared=p['frequency'], specification=float(freq), irp=p['cls'].irp))
        # two passes: every request on a fresh process state, and AGAIN right after an earlier encode(repeat_count=1) of the same key
        # (another fresh instance, class-level tables not restored in between)
        first_cls = None
        for again in ((False, True) if 'repeat_count' in p['enc_args'] else (False,)):
            bad = None
            skipped = None
            for asg in gen_inputs.param_assignments(p, rng, per):
                for n in ((0, 1) if again else (0, 1, 2)):
                    if again:
                        c, e = engine.second_encode(p, asg, dict(repeat_count=1), repeat_count=n)
                    else:
                        c, e = engine.fresh_encode(p, asg, repeat_count=n)
                    if c is None:
                        skipped = 'encode raises'
                        break
                    lib = merge([x for f in c.normalized_rlc for x in f])
                    env, missing = {}, []
                    for v in params:
                        if v in inv:
                            env[v] = asg[inv[v]]
                            continue
                        val = None
                        try:
                            val = int(c._data[v])
                        except Exception:  # noqa
                            pass
                        if val is None:
                            missing.append(v)
                        else:
                            env[v] = val
                    if missing:
                        skipped = 'IRP variable without a counterpart: ' + ','.join(sorted(missing))
                        break
                    ctx.count_eval(key=(name, tuple(sorted(asg.items())), n, again))
                    why = None
                    ok = False
                    for k in [n + 1, n, n + 2] + list(range(0, 2 * n + 5)):
                        try:
                            sig = irp.render(ast, env, k)
                        except irp.IrpError as ex:
                            why = why or 'specification undefined: %s' % ex
                            continue
                        if len(sig) == len(lib) and all(abs(d - q) < cnt + 1 for d, (q, cnt) in zip(lib, sig)):
                            ok = True
                            break
                        if why is None or why.startswith('spec'):
                            if len(sig) != len(lib):
                                why = 'number of durations %d, specification %d' % (len(lib), len(sig))
                                cls = 'n%d:%s' % (n, 'shorter' if len(lib) < len(sig) else 'longer')
                            else:
                                i = [j for j, (d, (q, cnt)) in enumerate(zip(lib, sig)) if abs(d - q) >= cnt + 1][0]
                                why = 'duration %d is %d, specification %.1f' % (i, lib[i], float(sig[i][0]))
                                cls = 'n%d:dur@%s' % (n, 'first' if i == 0 else ('last' if i == len(lib) - 1 else 'inner'))
                    if not ok:
                        bad = (asg, n, why, lib, ('again:' if again else '') + (cls if why and not why.startswith('spec') else 'n%d:undefined' % n))
                        break
                if bad or skipped:
                    break
            # a protocol whose emitted signal has another LENGTH than the specification (frames sent twice, another repeat structure)
            # is still compared duration by duration over the common prefix, for every assignment: a value-dependent deviation
            # (a wrong checksum for some operands) must not hide behind the structural one
            if bad and not again and bad[2] and bad[2].startswith('number'):
                pre = []
                asgs = gen_inputs.param_assignments(p, random.Random(7), max(per, 12))       # own generator: does not shift the run's sample
                for asg2 in asgs:
                    c2, e2 = engine.fresh_encode(p, asg2, repeat_count=0)
                    if c2 is None:
                        continue
                    lib2 = merge([x for f in c2.normalized_rlc for x in f])
                    env2 = {}
                    try:
                        for v in params:
                            env2[v] = asg2[inv[v]] if v in inv else int(c2._data[v])
                        sig2 = irp.render(ast, env2, 1)
                    except Exception:  # noqa
                        continue
                    m2 = min(len(sig2), len(lib2)) - 1
                    dev = [j for j in range(max(m2, 0)) if abs(lib2[j] - sig2[j][0]) >= sig2[j][1] + 1]
                    ctx.count_eval(key=(name, tuple(sorted(asg2.items())), 'prefix'))
                    pre.append((asg2, dev[0] if dev else None, lib2))
                devs = [x for x in pre if x[1] is not None]
                if pre and devs:
                    hits[name] = True
                    asg2, j, lib2 = devs[0]
                    info = dict(asg2)
                    info['n'] = 0
                    info['sig'] = 'prefix:' + ('every assignment' if len(devs) == len(pre) else 'some assignments')
                    ctx.report(name, 'emitted signal differs from the specification: duration within the common prefix', info,
                               dict(protocol=name, params=asg2, repeat_count=0, position=j, assignments_compared=len(pre),
                                    assignments_deviating=len(devs), emitted=lib2[:80], irp=p['cls'].irp))
            if bad and again and first_cls is not None and bad[4] == 'again:' + first_cls:
                bad = None          # the deviation of the first pass again: one defect, reported once
                skipped = None
            if bad and not again:
                first_cls = bad[4]
            if bad:
                hits[name] = True
                asg, n, why, lib, cls = bad
                kind = 'emitted signal differs from the specification: ' + ('length' if why.startswith('number') else
                                                                                 ('undefined' if why.startswith('spec') else 'duration'))
                info = dict(asg)
                info['n'] = n
                info['sig'] = cls          # which repeat count first deviates and how (shorter / longer / which duration)
                ctx.report(name, kind, info, dict(protocol=name, params=asg, repeat_count=n, difference=why, emitted=lib[:80],
                                                   irp=p['cls'].irp))
            elif skipped:
                ctx.extra.setdefault('oracle_skipped', {})[name] = skipped
            else:
                ctx.passed(name, dict(n=2))
    return hits


def run(ctx):
    vlib.import_repo()
    info = perproto.prepare_models(ctx)
    protos = [e['p'] for e in info.values()]
    asts = parse_all(protos)
    ctx.extra['not_well_formed'] = {n: why for n, (a, why) in asts.items() if a is None}
    import os
    import time
    t0 = time.time()
    hits = oracle(ctx, protos, asts, info, 3 if ctx.tier == 'quick' else 40)
    ctx.extra['t_oracle'] = round(time.time() - t0, 1)
    lfiles = []
    pending = {}

    def gen(e):
        name = e['p']['name']
        ast, why = asts[name]
        if ast is None:
            return None, why
        r, why = gen_files(e, ast)
        if r is None:
            return None, why
        with open(os.path.join(ctx.build, 'L_%s.v' % name), 'w') as fh:
            fh.write(r[0])
        lfiles.append('L_%s.v' % name)
        pending[name] = r[1]
        return r[1], None
    # plan files first (the obligations import them)
    texts = {}
    for name, e in info.items():
        texts[name] = gen(e)
    ctx.extra['t_gen'] = round(time.time() - t0, 1)
    lres = vlib.coqc_many(ctx.build, lfiles, timeout=300)
    ctx.extra['t_plans'] = round(time.time() - t0, 1)

    def gen2(e):
        name = e['p']['name']
        txt, why = texts[name]
        if txt is None:
            return None, why
        ok, out = lres['L_%s.v' % name]
        if not ok:
            return None, 'generated plans do not compile: ' + out[-300:]
        return txt, None
    results = perproto.run_obligations(ctx, 'C02', info, gen2, timeout=120)

    def gen3(e):
        name = e['p']['name']
        if results[name]['status'] != 'proved':
            return None, 'base obligation C02_%s not proved' % name
        return gen_renderer(e)
    rresults = perproto.run_obligations(ctx, 'C02R', info, gen3, timeout=120)
    perproto.settle(ctx, 'C02R', rresults, hits)
    ctx.extra['renderer_theorem_protocols'] = ctx.extra.pop('proved_protocols')
    ctx.extra['renderer_theorem_inconclusive'] = ctx.extra.pop('inconclusive_protocols')
    ctx.extra['renderer_theorem_not_applicable'] = ctx.extra.pop('unmodelled_protocols')
    ctx.extra['t_obl'] = round(time.time() - t0, 1)
    vlib.check_props_file(ctx, 'C02')
    perproto.settle(ctx, 'C02', results, hits)
    # ---- correspondence: the plan traced from encode() gives the frames the real encoder emits
    proved = [n for n in results if results[n]['status'] == 'proved']
    cases, meta = [], []
    for name in proved:
        p = info[name]['p']
        for asg in gen_inputs.param_assignments(p, ctx.rng, 3 if ctx.tier == 'quick' else 25):
            for n in (0, 1, 2):
                c, e = engine.fresh_encode(p, asg, repeat_count=n)
                if c is None:
                    continue
                frames = [merge(list(f)) for f in c.normalized_rlc]
                exp = [y for f in frames for y in [len(f)] + f]
                env = '[%s]' % '; '.join(vlib.z(asg[a]) for a, lo, hi in p['encode_parameters'])
                cases.append(('(L_%s.lib_%d, %s)' % (name, n, env), exp))
                meta.append((name, asg, n))
    imports = 'Require Import PyIR.Proto.Irp.\n' + '\n'.join('Require Gen.L_%s.' % n for n in proved)
    bad = vlib.run_model_cases(ctx, 'corr_plan', imports,
                               '(fun c => run_plan (inst_plan (fun i => nth i (snd c) 0) (fst c)))',
                               '(list (list slot) * list Z)', cases, shard=150, timeout=900) if cases else []
    if bad is None:
        ctx.report('correspondence', 'model-eval-failed', {}, dict(theorem='PyIR.Proto.Irp.run_plan evaluation'), found_input=False)
        bad = []
    for i, o in bad:
        name, asg, n = meta[i]
        ctx.report(name, 'plan-model-disagrees', dict(asg, n=n), dict(protocol=name, params=asg, repeat_count=n,
                                                                        impl=cases[i][1][:80], model=o[:80]))
    # ---- and the regenerated encode models (expression language of the tracer, IW / Render models) against the real encoders for
    #      EVERY traced protocol, also those whose plan does not agree with the IRP: a change of a shared helper must not hide
    #      behind a protocol's known discrepancy
    import protocorr
    traced = [e['p'] for e in info.values() if e['compiled'] and e['model']['status'].get('encode') == 'ok']
    ncases, ebad, unknown, failed = protocorr.corr_encode(ctx, traced, 3 if ctx.tier == 'quick' else 30, ns=(0, 1, 2))
    for p, a, n, impl, model in ebad:
        ctx.report(p['name'], 'encode-model-disagrees', dict(a, n=n),
                   dict(protocol=p['name'], params=a, repeat_count=n, impl=impl[:80], model=model[:80]))
    for name, out in failed:
        ctx.report(name, 'model-eval-failed', {}, dict(theorem='Gen.P_%s evaluation' % name, output=out), found_input=False)
    ctx.extra['correspondence'] = dict(cases=len(cases), disagreements=len(bad), encode_model_cases=ncases,
                                       encode_model_disagreements=len(ebad), encode_model_protocols=len(traced))
    ctx.cov['checker_cmd'] = vlib.COQC_CMD + ' for Gen/Tables.v, Gen/L_<p>.v, C02_<p>.v and Props/C02.v'
    ctx.cov['rule'] = ('every protocol with a well-formed irp string x in-range assignments x repeat_count 0,1,2: the concatenated emitted '
                       'durations against an independent exact-arithmetic IRP renderer (tolerance: 1 us per primitive duration merged, for '
                       'the rounding of non-integral units), the number of repetitions of the IRP repeat group chosen among 0..2n+4; '
                       'carrier compared exactly; distinct = (protocol, assignment, n)')
    ctx.cov['trusted_base'] += ['tools/irp.py (parser of the irp strings; 15 strings are rejected as not well-formed and listed), '
                                'tools/irpplan.py (unrolling of the IRP for a repeat count; traced packet -> slots), tracing translator',
                                'the plan traced from encode() is tied to the real encoder by the plan correspondence; the signal '
                                'semantics PyIR.Proto.Irp.plan_signal is the specification side and is not derived from the library']
    ctx.assumptions.append('partial: proved for protocols whose IRP has integral durations, static widths and fields depending on at most '
                           '2^16 parameter combinations; frame boundaries of the IRP are re-cut at the library\'s frame boundaries; '
                           'the others are covered by the reference renderer oracle')


def replay(path):
    vlib.import_repo()
    r = json.load(open(path))['replay']
    print(json.dumps(r)[:800])
    return 1
