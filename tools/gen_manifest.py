# Regenerates MANIFEST.json from the table below (maintenance command, not run by any check).
import json, os
V = os.path.dirname(os.path.dirname(os.path.abspath(__file__)))
CLAIMED = {
 'C19': dict(
   technique='Coq proof (induction on width / bit extensionality) about a hand-written Gallina model of IntegerWrapper; model tied by exhaustive differential correspondence',
   text='The clauses of C19 are theorems for all widths and all values (constructor = v mod 2^n, iteration, slice and complemented slice, '
        'reversal/inversion involutions, popcount, render/parse round trip with ceil(n/k) symbols for 2/4/16-entry tables, both orders) about a '
        'line-by-line Gallina model of integer_wrapper.py. The model is tied to the class by running operation descriptors on every value '
        'of their range in Coq (vm_compute) and on the real class (exhaustive small widths, sampled to 128 bits).',
   note='Trusted: Coq kernel + vm_compute, the hand-written model (bounded by the correspondence), the harness. No axioms.',
   ref='3 C19'),
 'C16': dict(
   technique='Coq proof (lia) on a Gallina function regenerated from utils.build_mce_rlc by a translator; hand model of rlc_to_mce tied by correspondence',
   text='Every clause of C16 is a theorem over all of Z and all list lengths (flat and nested) about the per-duration function '
        'that a fail-closed translator regenerates from /repo on every run; rlc_to_mce is a hand-written model tied by a '
        'correspondence check observing result and argument-after. A Python sweep of the whole stated domain on the real code '
        'supplies replays.',
   note='Trusted: Coq kernel, tools/pyfun_to_gallina.py (loop->map, %,// -> Z.modulo,Z.div), the correspondence harness. '
        'No axioms (Print Assumptions: closed under the global context).',
   ref='3 C16'),
}
ALL = ['C%02d' % i for i in range(1, 21)]
def main():
    checks = []
    for p in ALL:
        if p not in CLAIMED:
            continue
        c = CLAIMED[p]
        checks.append(dict(property_id=p, quick_cmd='./check %s quick' % p, thorough_cmd='./check %s thorough' % p,
                           evidence_file='/verif/evidence/%s.json' % p, replay_cmd_template='./check %s --replay {path}' % p,
                           engine='coq-proof+correspondence',
                           level_claimed=dict(category=c.get('category', 'proof'), text=c['text'], design_ref=c['ref']),
                           level_note=c['note'], technique=c['technique']))
    man = dict(version=1,
               setup_cmd='cd /verif/coq && coq_makefile -f _CoqProject -o Makefile && timeout 3000 make -j16',
               hooks=dict(guard='PYIRDECODER_VERIF', enable='export PYIRDECODER_VERIF=1 (set by ./check; no source hook exists, all instrumentation is monkey-patching from the harness)',
                          baseline_off_cmd='/verif/tools/run_baseline.sh', source_commits=[], add_only=True),
               engines=[dict(name='coq-proof+correspondence', path='/verif/check',
                             serves_properties=[c['property_id'] for c in checks],
                             kind_free_text='Coq 8.16.1 theorems about Gallina models (static development in coq/theories built by setup_cmd; per-run generated models and obligations in build/), translator + correspondence tie, Python search oracles on the real code for replays')],
               checks=checks,
               notes='See DESIGN.md. Known findings: known_findings.json. Expected per-protocol proof status: proof_status.json.',
               not_applicable=[dict(property_id=p, reason='check not built yet in this round (machine-checked proof is applicable; see DESIGN.md section 3)')
                               for p in ALL if p not in CLAIMED])
    json.dump(man, open(os.path.join(V, 'MANIFEST.json'), 'w'), indent=1)
main()
