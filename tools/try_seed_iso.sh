#!/bin/bash
# Maintenance: run checks against a seeded change WITHOUT touching /repo: a scratch worktree of /repo gets the patch, a scratch
# copy of /verif (tools, findings, status; the built Coq library is shared read-only through VERIF_COQ_DIR) runs the checks with
# VERIF_REPO pointing at the worktree.  Several of these can run side by side.
#   tools/try_seed_iso.sh <seed dir name under seeded/> <tier> <property ids...>
V=$(cd "$(dirname "$0")/.." && pwd)
seed=$1; tier=$2; shift 2
WT=/tmp/wt_iso_${seed}_$$; VC=/tmp/verif_iso_${seed}_$$
git -C /repo worktree add --detach $WT HEAD >/dev/null 2>&1 || { echo "$seed: cannot add worktree"; exit 2; }
trap 'git -C /repo worktree remove --force $WT >/dev/null 2>&1; rm -rf $VC' EXIT
git -C $WT apply $V/seeded/$seed/patch.diff || { echo "$seed: patch does not apply"; exit 2; }
mkdir -p $VC && cp -r $V/check $V/tools $V/known_findings.json $V/proof_status.json $V/properties.jsonl $V/corpus $VC/ 2>/dev/null
mkdir -p $VC/evidence $VC/replays $VC/build
(cd $WT && PYTHONPATH=$WT PYTHONDONTWRITEBYTECODE=1 timeout 900 /venv/bin/python $V/seeded/$seed/demo.py > /tmp/demo_$seed.out 2>&1; echo "$seed demo exit=$? (expected 1)")
for p in "$@"; do
  out=$(cd $VC && VERIF_REPO=$WT VERIF_COQ_DIR=$V/coq VERIF_JOBS=${VERIF_JOBS:-6} VERIF_SEED=${VERIF_SEED:-1} timeout 3000 ./check $p $tier 2>/dev/null | grep "VIOLATION\|^C[0-9][0-9] ")
  code=$(echo "$out" | grep -c VIOLATION)
  echo "$seed $p violations=$code :: $(echo "$out" | grep VIOLATION | head -3 | sed 's#.*/replays/##' | tr '\n' ' ') $(echo "$out" | tail -1)"
done
