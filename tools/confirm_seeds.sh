#!/bin/bash
# Maintenance: confirm seeded changes in a scratch worktree of /repo (never in /repo itself): the demonstration exits 0 on the
# unchanged tree and 1 with the change, and the repository's own test suite passes the same stable tests with the change.
#   tools/confirm_seeds.sh <seed dir names...>      -> one JSON line per seed on stdout, also stored in seeded/<id>/confirmed.json
V=$(cd "$(dirname "$0")/.." && pwd)
WT=/tmp/wt_confirm_$$
git -C /repo worktree add --detach $WT HEAD >/dev/null 2>&1 || exit 2
trap 'git -C /repo worktree remove --force $WT >/dev/null 2>&1; rm -f /tmp/confirm_$$.*' EXIT
suite() {  # prints the sorted list of BASELINE stable tests that do not pass
  (cd $WT && PYTHONDONTWRITEBYTECODE=1 PYTHONPATH=$WT /venv/bin/python -m pytest -q -p no:cacheprovider --timeout=900 --continue-on-collection-errors --junitxml=/tmp/confirm_$$.xml >/dev/null 2>&1)
  /venv/bin/python - /tmp/confirm_$$.xml <<'PY'
import json, sys, xml.etree.ElementTree as ET
base = json.load(open('/root/.vp/BASELINE.json'))
passed = set()
for tc in ET.parse(sys.argv[1]).getroot().iter('testcase'):
    if not any(c.tag in ('failure', 'error', 'skipped') for c in tc):
        passed.add(tc.get('classname') + '::' + tc.get('name'))
print(' '.join(sorted(set(base['stable_pass']) - passed)))
PY
}
# the suite is timing sensitive (a known group of *_encode tests flips from run to run): a test counts as failing on the unchanged
# tree when it fails in any of three runs, and as broken by a change only when it fails in two runs out of two with the change
base_missing=$( (suite; echo; suite; echo; suite) | tr ' ' '\n' | sort -u | tr '\n' ' ')
for seed in "$@"; do
  d=$V/seeded/$seed
  (cd $WT && PYTHONPATH=$WT PYTHONDONTWRITEBYTECODE=1 timeout 900 /venv/bin/python $d/demo.py >/dev/null 2>&1); e0=$?
  git -C $WT apply $d/patch.diff || { echo "{\"seed\": \"$seed\", \"error\": \"patch does not apply\"}"; continue; }
  (cd $WT && PYTHONPATH=$WT PYTHONDONTWRITEBYTECODE=1 timeout 900 /venv/bin/python $d/demo.py >/dev/null 2>&1); e1=$?
  m1=$(suite); m2=$(suite)
  miss=$(comm -12 <(echo $m1 | tr ' ' '\n' | sort) <(echo $m2 | tr ' ' '\n' | sort) | tr '\n' ' ')
  git -C $WT checkout -- . ; git -C $WT clean -fdq
  new=$(comm -13 <(echo $base_missing | tr ' ' '\n' | sort) <(echo $miss | tr ' ' '\n' | sort) | tr '\n' ' ')
  line="{\"seed\": \"$seed\", \"demo_exit_unchanged\": $e0, \"demo_exit_changed\": $e1, \"stable_tests_failing_only_with_change\": \"$new\", \"stable_tests_failing_unchanged_worktree\": \"$base_missing\"}"
  echo "$line"; echo "$line" > $d/confirmed.json
done
