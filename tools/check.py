import importlib
import os
import sys

sys.path.insert(0, os.path.dirname(os.path.abspath(__file__)))
import vlib  # noqa


def main():
    if len(sys.argv) < 3:
        print(__doc__ or 'usage: check <Cxx> quick|thorough | --replay <file>')
        sys.exit(2)
    prop = sys.argv[1].upper()
    mod = importlib.import_module('props.' + prop.lower())
    if sys.argv[2] == '--replay':
        sys.exit(mod.replay(sys.argv[3]))
    tier = sys.argv[2]
    assert tier in ('quick', 'thorough')
    seed = int(os.environ.get('VERIF_SEED', '1'))
    os.environ['VERIF_TIER'] = tier
    ctx = vlib.Ctx(prop, tier, seed)
    mod.run(ctx)
    ctx.finish(getattr(mod, 'LEVEL', 'proof'))


main()
