import importlib
import os
import sys

sys.path.insert(0, os.path.dirname(os.path.abspath(__file__)))
import vlib  # noqa


def main():
    if len(sys.argv) < 3:
        print(__doc__ or 'usage: check <Cxx> quick|thorough | --replay <file>')
        sys.exit(2)
    prop = sys.argv[1].upper()
    mod = importlib.import_module('props.' + prop.lower())
    if sys.argv[2] == '--replay':
        sys.exit(mod.replay(sys.argv[3]))
    tier = sys.argv[2]
    assert tier in ('quick', 'thorough')
    seed = int(os.environ.get('VERIF_SEED', '1'))
    os.environ['VERIF_TIER'] = tier
    ctx = vlib.Ctx(prop, tier, seed)
    try:
        mod.run(ctx)
    except SystemExit:
        raise
    except BaseException as e:  # noqa
        # the implementation (or the harness on top of it) failed in a way the check does not anticipate: the property is
        # no longer shown to hold; never end without a verdict
        import traceback
        tb = traceback.format_exc()
        sys.stderr.write(tb)
        frames = [f for f in traceback.extract_tb(e.__traceback__) if (vlib.REPO + '/') in f.filename]
        site = '%s:%s' % (frames[-1].filename.split(vlib.REPO + '/')[-1], frames[-1].name) if frames else 'harness'
        ctx.report('check', 'check aborted by %s at %s' % (type(e).__name__, site), {},
                   dict(theorem='the run of %s %s did not complete' % (prop, tier), exception=repr(e)[:300], traceback=tb[-1500:]),
                   found_input=False)
    ctx.finish(getattr(mod, 'LEVEL', 'proof'))


main()
