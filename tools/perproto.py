# Shared driver of per-protocol proof obligations: regenerate Gen/, write one obligation file per protocol,
# compile them in parallel, compare the outcome with the committed expectation (proof_status.json).
import json
import os

import protoinfo
import protomodel
import vlib


def prepare_models(ctx):
    """Regenerate Gen/Tables.v and Gen/P_<name>.v from /repo and compile them.  Returns {name: dict(p, model,
    emitted, compiled, why)}."""
    vlib.ensure_static_build()
    ps = protoinfo.write_tables(ctx.build)
    ok, out = vlib.coqc(ctx.build, 'Tables.v')
    if not ok:
        ctx.note('Gen/Tables.v does not compile: ' + out[-400:])
    res = protomodel.write_all(ctx.build, ps)
    files = ['P_%s.v' % p['name'] for p in ps if res[p['name']][1]]
    cres = vlib.coqc_many(ctx.build, files, timeout=300)
    info = {}
    for p in ps:
        m, emitted, why = res[p['name']]
        compiled = emitted and cres['P_%s.v' % p['name']][0]
        if emitted and not compiled:
            why = 'generated model does not compile: ' + cres['P_%s.v' % p['name']][1][-300:]
        info[p['name']] = dict(p=p, model=m, emitted=emitted, compiled=compiled, why=why)
    return info


def expected_status(prop):
    st = vlib.load_json(vlib.STATUS_FILE, {})
    return st.get(prop, {})


def run_obligations(ctx, prop, info, gen, timeout=600):
    """gen(entry) -> (coq_text, None) or (None, reason).  Returns {name: dict(status=proved|failed|unmodelled, detail)}."""
    files = {}
    out = {}
    for name, e in info.items():
        txt, why = gen(e)
        if txt is None:
            out[name] = dict(status='unmodelled', detail=why)
            continue
        fn = '%s_%s.v' % (prop, name)
        with open(os.path.join(ctx.build, fn), 'w') as fh:
            fh.write(txt)
        files[name] = fn
    res = vlib.coqc_many(ctx.build, list(files.values()), timeout=timeout)
    for name, fn in files.items():
        ok, o = res[fn]
        out[name] = dict(status='proved' if ok else 'failed', detail=None if ok else o[-600:],
                         assumptions=vlib.parse_assumptions(o) if ok else None)
    return out


def settle(ctx, prop, results, search_hits, merge=False, key=None):
    """Compare per-protocol proof outcomes with the committed expectation.
    search_hits: {name: True} for protocols on which the search oracle found a (known or new) concrete violation.
    Returns summary dict; reports violations for regressions."""
    exp = expected_status(prop)
    write = os.environ.get('VERIF_WRITE_STATUS')
    key = key or prop
    new_status = {}
    summary = dict(proved=[], failed_expected=[], unmodelled=[], regressions=[], improvements=[])
    for name, r in sorted(results.items()):
        st = r['status']
        e = exp.get(name, 'unlisted')
        if st == 'proved':
            ctx.obligation('%s_%s' % (prop, name), True)
            summary['proved'].append(name)
            new_status[name] = 'proved'
            if e not in ('proved', 'unlisted'):
                summary['improvements'].append(name)
        elif st == 'unmodelled':
            summary['unmodelled'].append(name)
            new_status[name] = 'unmodelled: ' + (r['detail'] or '')[:120]
            if e == 'proved' and not write:
                # the translator refused a protocol it used to model
                ctx.obligation('%s_%s' % (prop, name), False, 'translator refused: ' + (r['detail'] or ''))
                if not search_hits.get(name):
                    ctx.report(name, 'model-lost', dict(reason=r['detail']),
                               dict(theorem='%s_%s' % (prop, name), reason='translator refused: %s' % r['detail']),
                               found_input=False)
                summary['regressions'].append(name)
        else:
            new_status[name] = 'inconclusive'
            if e == 'proved' and not write:
                ctx.obligation('%s_%s' % (prop, name), False, r['detail'])
                summary['regressions'].append(name)
                if not search_hits.get(name):
                    ctx.report(name, 'proof-broken', dict(),
                               dict(theorem='%s_%s' % (prop, name), output=r['detail']), found_input=False)
            else:
                summary['failed_expected'].append(name)
    if write:
        allst = vlib.load_json(vlib.STATUS_FILE, {})
        if merge:
            # a family whose members are attempted per tier (exhaustive proofs: larger spaces only in the thorough tier): the run
            # updates the entries it attempted and keeps the others
            new_status = dict(allst.get(prop, {}), **new_status)
        allst[prop] = new_status
        with open(vlib.STATUS_FILE, 'w') as fh:
            json.dump(allst, fh, indent=1, sort_keys=True)
        ctx.note('proof_status.json rewritten for ' + prop)
    if key != prop or merge:
        ctx.extra[prop + '_proved_protocols'] = summary['proved']
        ctx.extra[prop + '_inconclusive_protocols'] = summary['failed_expected']
        ctx.extra[prop + '_regressions'] = summary['regressions']
        return summary
    ctx.extra['proved_protocols'] = summary['proved']
    ctx.extra['inconclusive_protocols'] = summary['failed_expected']
    ctx.extra['unmodelled_protocols'] = {n: results[n]['detail'] for n in summary['unmodelled']}
    ctx.extra['regressions'] = summary['regressions']
    ctx.extra['improvements'] = summary['improvements']
    return summary
