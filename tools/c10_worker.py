# Worker of the C10 check: runs in a FRESH interpreter (it reloads the configuration of the process-wide dispatcher).
#   python c10_worker.py < names.json
# Scenario per protocol P (the way an application uses the library): read a setting through protocols.P, save the configuration,
# load it back (load_config rebuilds every decoder), then switch P off - or make its carrier window empty - THROUGH protocols.P and
# hand a frame of P to protocols.decode at P's carrier: no code may come from P.  Prints one JSON list of records.
import json
import os
import sys
import tempfile

sys.path.insert(0, os.path.dirname(os.path.abspath(__file__)))
import vlib  # noqa

vlib.import_repo()
vlib.park_workers()
import protoinfo  # noqa
from pyIRDecoder import protocols, Config  # noqa


def main():
    names = json.load(sys.stdin)
    by = protoinfo.by_name()
    out = []
    d = tempfile.mkdtemp(prefix='c10w_')
    path = os.path.join(d, 'cfg.xml')
    for name in names:
        p = by[name]
        rec = dict(protocol=name)
        try:
            a = {k: (lo + hi) // 2 for k, lo, hi in p['encode_parameters']}
            frame = list(p['cls']().encode(**a).normalized_rlc[0])
            getattr(protocols, name).enabled                 # the application looks at the setting
            protocols.config.save(path)
            protocols.load_config(Config(path))
            for how in ('disabled', 'carrier window empty'):
                dec = getattr(protocols, name)
                for x in protocols:
                    x.enabled = True
                    x.frequency_tolerance = 2
                if how == 'disabled':
                    dec.enabled = False
                    freq = p['frequency']
                else:
                    dec.frequency_tolerance = 0
                    freq = p['frequency'] + 1000
                protocols._last_code = None
                protocols._last_decoder = None
                try:
                    c = protocols.decode(list(frame), freq)
                    rec[how] = None if c is None else c.decoder.__class__.__name__
                except Exception as e:  # noqa
                    rec[how] = 'raises ' + type(e).__name__
                vlib.drain_workers()
            rec['params'] = a
        except Exception as e:  # noqa
            rec['error'] = type(e).__name__ + ': ' + str(e)[:100]
        out.append(rec)
    print(json.dumps(out))
    sys.stdout.flush()
    os._exit(0)


main()
