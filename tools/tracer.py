# Translator, part 2: per-protocol logic by concolic tracing of the real encode()/decode() methods.
#
# The protocol's own Python runs concretely, unchanged; integers and IntegerWrappers carry, next to
# their concrete value, a symbolic expression over the encode arguments (for encode) or over the decoded
# fields (for decode).  Every branch taken on a symbolic value is recorded as a path condition.  Anything
# the tracer cannot represent (a symbolic value used as an index, a list of durations edited in place, a
# value-dependent width where a static one is needed) marks the trace REFUSED: the protocol is then
# "unmodelled" for that run — never silently approximated.
#
# Expression trees (tuples):
#   Z-typed :  ('int', n) ('arg', name) ('zop', op, a, b) ('zun', op, a) ('value', iw) ('nbits', iw) ('bit', iw, i)
#              ('b2z', bool)
#   iw-typed:  ('mk', z, w|None) ('mkof', iw, w|None) ('iwop', op, iw, ('OInt', z)|('OIW', iw)) ('iwrop', op, iw, z)
#              ('iwun', op, iw, n|None) ('slice', iw, start, stop, step) ('field', name, width)
#   bool    :  ('cmp', op, z, z) ('not', b) ('slicecmp', iw, start, stop, step)
import warnings

warnings.filterwarnings('ignore', category=DeprecationWarning)


class Refused(Exception):
    pass


class Trace(object):
    """State of one traced execution."""
    current = None

    def __init__(self, forced=None):
        self.path = []          # (bool-expr, outcome)
        self.forced = list(forced or [])
        self.refused = None
        self.packets = []

    def refuse(self, why):
        if self.refused is None:
            self.refused = why
        raise Refused(why)

    def branch(self, expr, concrete):
        if is_closed(expr):
            return bool(concrete)        # a condition over constants is not a decision point
        k = len(self.path)
        out = self.forced[k] if k < len(self.forced) else bool(concrete)
        self.path.append((expr, out))
        return out


def is_closed(e):
    if isinstance(e, tuple):
        if e and e[0] in ('arg', 'field'):
            return False
        return all(is_closed(x) for x in e)
    return True


def zexpr(x):
    if isinstance(x, SymInt):
        return x.expr
    if isinstance(x, SymIW):
        return ('value', x.expr)
    if isinstance(x, bool):
        return ('int', int(x))
    if isinstance(x, int):
        return ('int', int(x))
    if isinstance(x, SymBool):
        return ('b2z', x.expr)
    raise Refused('not an integer expression: %r' % type(x))


def conc(x):
    if isinstance(x, SymInt):
        return int.__int__(x)
    if isinstance(x, SymIW):
        return x.conc
    if isinstance(x, SymBool):
        return x.conc
    return x


class SymBool(object):
    def __init__(self, expr, concrete):
        self.expr = expr
        self.conc = bool(concrete)

    def __bool__(self):
        return Trace.current.branch(self.expr, self.conc)

    def __eq__(self, other):
        return SymBool(('cmp', 'eq', ('b2z', self.expr), zexpr(other)), self.conc == conc(other))

    def __ne__(self, other):
        return SymBool(('cmp', 'ne', ('b2z', self.expr), zexpr(other)), self.conc != conc(other))

    def __hash__(self):
        Trace.current.refuse('hash of a symbolic bool')

    def __int__(self):
        return SymInt(int(self.conc), ('b2z', self.expr))

    def __index__(self):
        Trace.current.refuse('symbolic bool used as an index')


def _zbin(op, pyop):
    def f(self, other):
        if isinstance(other, SymIW):
            return NotImplemented
        if isinstance(other, float):
            Trace.current.refuse('float arithmetic on a symbolic integer')
        if not isinstance(other, (int, SymBool)):
            return NotImplemented
        return SymInt(pyop(int.__int__(self), conc(other)), ('zop', op, self.expr, zexpr(other)))
    return f


def _zrbin(op, pyop):
    def f(self, other):
        if isinstance(other, float):
            Trace.current.refuse('float arithmetic on a symbolic integer')
        if isinstance(other, list):
            Trace.current.refuse('list repeated a symbolic number of times')
        if not isinstance(other, (int, SymBool)):
            return NotImplemented
        return SymInt(pyop(conc(other), int.__int__(self)), ('zop', op, zexpr(other), self.expr))
    return f


def _zcmp(op, pyop):
    def f(self, other):
        if isinstance(other, SymIW):
            return SymBool(('cmp', op, self.expr, ('value', other.expr)), pyop(int.__int__(self), int(other.conc)))
        if other is None:
            return op == 'ne'
        if not isinstance(other, (int, SymBool)):
            return NotImplemented
        return SymBool(('cmp', op, self.expr, zexpr(other)), pyop(int.__int__(self), conc(other)))
    return f


import operator as _o


class SymInt(int):
    def __new__(cls, value, expr):
        self = int.__new__(cls, int(value))
        self.expr = expr
        return self

    __add__ = _zbin('add', _o.add); __radd__ = _zrbin('add', _o.add)
    __sub__ = _zbin('sub', _o.sub); __rsub__ = _zrbin('sub', _o.sub)
    __mul__ = _zbin('mul', _o.mul); __rmul__ = _zrbin('mul', _o.mul)
    __floordiv__ = _zbin('div', _o.floordiv); __rfloordiv__ = _zrbin('div', _o.floordiv)
    __mod__ = _zbin('mod', _o.mod); __rmod__ = _zrbin('mod', _o.mod)
    __and__ = _zbin('land', _o.and_); __rand__ = _zrbin('land', _o.and_)
    __or__ = _zbin('lor', _o.or_); __ror__ = _zrbin('lor', _o.or_)
    __xor__ = _zbin('lxor', _o.xor); __rxor__ = _zrbin('lxor', _o.xor)
    __lshift__ = _zbin('shl', _o.lshift); __rlshift__ = _zrbin('shl', _o.lshift)
    __rshift__ = _zbin('shr', _o.rshift); __rrshift__ = _zrbin('shr', _o.rshift)
    __eq__ = _zcmp('eq', _o.eq); __ne__ = _zcmp('ne', _o.ne)
    __lt__ = _zcmp('lt', _o.lt); __le__ = _zcmp('le', _o.le)
    __gt__ = _zcmp('gt', _o.gt); __ge__ = _zcmp('ge', _o.ge)

    def __truediv__(self, other):
        Trace.current.refuse('true division of a symbolic integer')

    def __neg__(self):
        return SymInt(-int.__int__(self), ('zun', 'neg', self.expr))

    def __invert__(self):
        return SymInt(~int.__int__(self), ('zun', 'lnot', self.expr))

    def __abs__(self):
        return SymInt(abs(int.__int__(self)), ('zun', 'abs', self.expr))

    def __pos__(self):
        return self

    def __int__(self):
        return self

    def __index__(self):
        Trace.current.refuse('symbolic integer used as an index / range / format argument')

    def __bool__(self):
        return Trace.current.branch(('cmp', 'ne', self.expr, ('int', 0)), int.__int__(self) != 0)

    def __hash__(self):
        Trace.current.refuse('symbolic integer used as a dict key / set member')

    def __repr__(self):
        return 'SymInt(%d)' % int.__int__(self)

    __str__ = __repr__

    def bit_length(self):
        Trace.current.refuse('bit_length of a symbolic integer')


def static_nbits(e):
    """Width of an iw expression when it does not depend on values; None otherwise."""
    k = e[0]
    if k == 'mk':
        return e[2]
    if k == 'mkof':
        return e[2] if e[2] is not None else static_nbits(e[1])
    if k == 'field':
        return e[2]
    if k == 'slice':
        _, x, start, stop, step = e
        if isinstance(stop, int) and stop != 0:
            return abs(stop)
        if stop is None and step is None:
            return static_nbits(x)
        return None
    if k == 'iwun':
        op, x, n = e[1], e[2], e[3]
        if op in ('invert_bits', 'reverse'):
            return n if n is not None else static_nbits(x)
        if op in ('neg', 'pos', 'abs'):
            return static_nbits(x)
        return None
    if k == 'iwop' and e[1] in ('shl', 'shr'):
        w = static_nbits(e[2])
        if w is not None and e[3][0] == 'OInt' and e[3][1][0] == 'int':
            return w + e[3][1][1] if e[1] == 'shl' else w - e[3][1][1]
    return None


class SymIW(object):
    """Stands for pyIRDecoder.integer_wrapper.IntegerWrapper during a trace."""
    RealIW = None

    def __init__(self, value, num_bits=None, timings=None, encoding=None, _expr=None, _conc=None):
        if _expr is not None:
            self.expr, self.conc = _expr, _conc
        else:
            if isinstance(num_bits, (SymInt, SymIW)):
                Trace.current.refuse('symbolic width')
            if isinstance(value, SymIW):
                self.expr = ('mkof', value.expr, num_bits)
                self.conc = SymIW.RealIW(value.conc, num_bits, timings, encoding)
            else:
                self.expr = ('mk', zexpr(value), num_bits)
                self.conc = SymIW.RealIW(int(conc(value)), num_bits, timings, encoding)
        self._timings = self.conc._timings if timings is None else timings
        self.encoding = self.conc.encoding if encoding is None else encoding

    def _mk(self, expr, concrete):
        return SymIW(None, _expr=expr, _conc=concrete)

    @staticmethod
    def _operand(o):
        if isinstance(o, SymIW):
            return ('OIW', o.expr), o.conc
        return ('OInt', zexpr(o)), conc(o)

    def _bin(op, pyop):  # noqa
        def f(self, other):
            if isinstance(other, (float, list)):
                Trace.current.refuse('unsupported operand for IntegerWrapper')
            oe, oc = SymIW._operand(other)
            if op in ('shl', 'shr') and not (oe[0] == 'OInt' and oe[1][0] == 'int' and oe[1][1] >= 0):
                Trace.current.refuse('shift by a symbolic amount')
            if op in ('div', 'mod') and not (oe[0] == 'OInt' and oe[1][0] == 'int' and oe[1][1] != 0):
                Trace.current.refuse('division by a symbolic amount')
            return self._mk(('iwop', op, self.expr, oe), pyop(self.conc, oc))
        return f

    def _rbin(op, pyop):  # noqa
        def f(self, other):
            if not isinstance(other, int):
                return NotImplemented
            return self._mk(('iwrop', op, self.expr, zexpr(other)), pyop(conc(other), self.conc))
        return f

    def _cmp(op, pyop):  # noqa
        def f(self, other):
            if other is None:
                return op == 'ne'
            if isinstance(other, (SymIW, int, SymBool)):
                oe = ('value', other.expr) if isinstance(other, SymIW) else zexpr(other)
                oc = int(other.conc) if isinstance(other, SymIW) else conc(other)
                return SymBool(('cmp', op, ('value', self.expr), oe), pyop(int(self.conc), oc))
            return NotImplemented
        return f

    __add__ = _bin('add', _o.add); __sub__ = _bin('sub', _o.sub); __mul__ = _bin('mul', _o.mul)
    __floordiv__ = _bin('div', _o.floordiv); __mod__ = _bin('mod', _o.mod)
    __and__ = _bin('and', _o.and_); __or__ = _bin('or', _o.or_); __xor__ = _bin('xor', _o.xor)
    __lshift__ = _bin('shl', _o.lshift); __rshift__ = _bin('shr', _o.rshift)
    __radd__ = _rbin('add', _o.add); __rsub__ = _rbin('sub', _o.sub); __rmul__ = _rbin('mul', _o.mul)
    __rand__ = _rbin('and', _o.and_); __ror__ = _rbin('or', _o.or_); __rxor__ = _rbin('xor', _o.xor)
    __eq__ = _cmp('eq', _o.eq); __ne__ = _cmp('ne', _o.ne); __lt__ = _cmp('lt', _o.lt)
    __le__ = _cmp('le', _o.le); __gt__ = _cmp('gt', _o.gt); __ge__ = _cmp('ge', _o.ge)

    def __invert__(self):
        return self._mk(('iwun', 'invert', self.expr, None), ~self.conc)

    def __neg__(self):
        return self._mk(('iwun', 'neg', self.expr, None), -self.conc)

    def __pos__(self):
        return self._mk(('iwun', 'pos', self.expr, None), +self.conc)

    def __abs__(self):
        return self._mk(('iwun', 'abs', self.expr, None), abs(self.conc))

    def __int__(self):
        return SymInt(int(self.conc), ('value', self.expr))

    def __index__(self):
        Trace.current.refuse('IntegerWrapper used as an index')

    def __hash__(self):
        Trace.current.refuse('IntegerWrapper used as a dict key / set member')

    def __len__(self):
        w = static_nbits(self.expr)
        if w is None or w != self.conc.num_bits:
            Trace.current.refuse('len() of a value-dependent width')
        return w

    @property
    def num_bits(self):
        w = static_nbits(self.expr)
        if w is not None and w == self.conc.num_bits:
            return w
        return SymInt(self.conc.num_bits, ('nbits', self.expr))

    def __bool__(self):
        w = static_nbits(self.expr)
        if w is None:
            return Trace.current.branch(('cmp', 'ne', ('nbits', self.expr), ('int', 0)), self.conc.num_bits != 0)
        return w != 0

    def __getitem__(self, item):
        if not isinstance(item, slice):
            if isinstance(item, (SymInt, SymIW)):
                Trace.current.refuse('bit index is symbolic')
            w = static_nbits(self.expr)
            if w is None:
                Trace.current.refuse('bit index into a value-dependent width')
            i = item if item >= 0 else item + w
            if not 0 <= i < w:
                raise IndexError(item)
            return SymInt(self.conc[item], ('bit', self.expr, i))
        for part in (item.start, item.stop, item.step):
            if isinstance(part, (SymInt, SymIW, SymBool)):
                Trace.current.refuse('symbolic slice bound')
        r = self.conc[item]
        if isinstance(r, bool):
            return SymBool(('slicecmp', self.expr, item.start, item.stop, item.step), r)
        return self._mk(('slice', self.expr, item.start, item.stop, item.step), r)

    def __iter__(self):
        w = static_nbits(self.expr)
        if w is None or w != self.conc.num_bits:
            Trace.current.refuse('iteration over a value-dependent width')
        for i, b in enumerate(self.conc):
            yield SymInt(b, ('bit', self.expr, i))

    def __reversed__(self):
        return self._mk(('iwun', 'reverse', self.expr, None), reversed(self.conc))

    def invert_bits(self, num_bits=None):
        if isinstance(num_bits, (SymInt, SymIW)):
            Trace.current.refuse('symbolic width')
        return self._mk(('iwun', 'invert_bits', self.expr, num_bits), self.conc.invert_bits(num_bits))

    def reverse_bit_order(self, num_bits=None):
        if isinstance(num_bits, (SymInt, SymIW)):
            Trace.current.refuse('symbolic width')
        return self._mk(('iwun', 'reverse', self.expr, num_bits), self.conc.reverse_bit_order(num_bits))

    @property
    def num_one_bits(self):
        return self._mk(('iwun', 'popcount', self.expr, None), self.conc.num_one_bits)

    @property
    def timings(self):
        return SymTimings(self)

    @property
    def bits(self):
        return list(reversed(list(self)))

    def __repr__(self):
        return 'SymIW(%r)' % (self.conc,)

    __str__ = __repr__


class SymTimings(list):
    """IntegerWrapper.timings handed to _build_packet as a positional item."""
    def __init__(self, iw):
        list.__init__(self, iw.conc.timings)
        self.iw = iw


class SymPacket(list):
    """A frame under construction: concrete durations + parts, each ('packet', model) or ('const', [durations])."""
    def __init__(self, durations, model=None, parts=None):
        list.__init__(self, durations)
        self.parts = parts if parts is not None else ([('packet', model)] if model is not None else None)

    @property
    def model(self):
        return self.parts

    def __getitem__(self, item):
        if isinstance(item, slice) and item.start is None and item.stop is None and item.step is None:
            return SymPacket(list(self), parts=self.parts)
        r = list.__getitem__(self, item)
        if isinstance(item, slice):
            return SymPacket(r, parts=None)
        return r

    @staticmethod
    def _parts_of(other):
        if isinstance(other, SymPacket):
            return other.parts
        out = []
        for x in other:
            if isinstance(x, (SymInt, SymIW, SymBool)) or not isinstance(x, int):
                return None
            out.append(int(x))
        return [('const', out)] if out else []

    def __add__(self, other):
        if not isinstance(other, list):
            return NotImplemented
        a, b = self.parts, SymPacket._parts_of(other)
        return SymPacket(list(self) + list(other), parts=None if a is None or b is None else a + b)

    def __radd__(self, other):
        if not isinstance(other, list):
            return NotImplemented
        a, b = SymPacket._parts_of(other), self.parts
        return SymPacket(list(other) + list(self), parts=None if a is None or b is None else a + b)

    def __mul__(self, k):
        if isinstance(k, (SymInt, SymIW, SymBool)):
            Trace.current.refuse('frame repeated a symbolic number of times')
        return SymPacket(list(self) * k, parts=None if self.parts is None else self.parts * k)

    __rmul__ = __mul__

    def _taint(name):  # noqa
        def f(self, *a, **k):
            self.parts = None
            return getattr(list, name)(self, *a, **k)
        return f

    for _n in ('__setitem__', '__delitem__', '__imul__', 'append', 'extend', 'insert', 'pop', 'remove',
               'reverse', 'sort', 'clear'):
        locals()[_n] = _taint(_n)
    del _n

    def __iadd__(self, other):
        b = SymPacket._parts_of(other) if isinstance(other, list) else None
        self.parts = None if self.parts is None or b is None else self.parts + b
        list.__iadd__(self, other)
        return self

    def copy(self):
        return SymPacket(list(self), parts=self.parts)


def concretize(x, RealIW):
    if isinstance(x, SymIW):
        return x.conc
    if isinstance(x, SymInt):
        return int.__int__(x)
    if isinstance(x, SymTimings):
        return list(x)
    if isinstance(x, SymBool):
        Trace.current.refuse('symbolic bool as a field')
    return x


class CapturedCode(object):
    """Stand-in for IRCode while tracing encode(): records the constructor arguments, answers attribute
    reads the way IRCode does (properties D/S/F/..., upper-cased data keys) and accepts attribute writes."""
    PROPS = dict(device='D', sub_device='S', function='F', toggle='T', mode='M', n='N', g='G', address='A', x='X',
                 extended_function='E', checksum='CHECKSUM', u='U', oem='OEM', oem1='OEM1', oem2='OEM2')

    def __init__(self, **kw):
        self.__dict__['_c'] = kw
        self.__dict__['_data'] = kw['data']

    def __getitem__(self, k):
        return self._c[k]

    def __getattr__(self, item):
        d = self.__dict__['_data']
        if item in CapturedCode.PROPS:
            return d.get(CapturedCode.PROPS[item], None)
        if item.upper() in d:
            return d[item.upper()]
        if item in self.__dict__['_c']:
            return self.__dict__['_c'][item]
        raise AttributeError(item)

    def __setattr__(self, k, v):
        self.__dict__[k] = v


class Patch(object):
    """Context manager installing the tracing stand-ins into pyIRDecoder.protocol_base."""
    def __init__(self, trace, capture):
        self.trace, self.capture = trace, capture

    def __enter__(self):
        from pyIRDecoder import protocol_base, integer_wrapper
        self.pb = protocol_base
        SymIW.RealIW = integer_wrapper.IntegerWrapper
        self.saved = (protocol_base.IntegerWrapper, protocol_base.IRCode,
                      protocol_base.IrProtocolBase.__dict__['_build_packet'])
        Trace.current = self.trace
        orig_bp = self.saved[2].__func__
        trace, capture = self.trace, self.capture

        def build_packet(cls, *args, **kwargs):
            if cls._parameters:
                parameters = cls._parameters[:]
            else:
                try:
                    parameters = cls._parameters2[:]
                except AttributeError:
                    parameters = cls._parameters1[:]
            pos = []
            for a in args:
                if isinstance(a, SymTimings):
                    pos.append(('timings', a.iw.expr))
                elif isinstance(a, (SymInt, SymIW, SymBool, SymPacket)):
                    trace.refuse('symbolic positional item in _build_packet')
                else:
                    def flat(v):
                        if isinstance(v, (list, tuple)):
                            out = []
                            for y in v:
                                out += flat(y)
                            return out
                        if isinstance(v, (SymInt, SymIW, SymBool)) or not isinstance(v, int):
                            trace.refuse('unsupported positional item')
                        return [int(v)]
                    pos.append(('const', flat(a)))
            fields = []
            for key, start, stop in parameters:
                if key in kwargs:
                    v = kwargs[key]
                    if isinstance(v, SymIW):
                        fields.append((key, v.expr))
                    elif isinstance(v, SymBool):
                        fields.append((key, ('mk', ('b2z', v.expr), stop + 1 - start)))
                    elif isinstance(v, int):
                        fields.append((key, ('mk', zexpr(v), stop + 1 - start)))
                    else:
                        trace.refuse('field %s of type %s' % (key, type(v).__name__))
            cargs = [concretize(a, SymIW.RealIW) for a in args]
            ckw = {k: concretize(v, SymIW.RealIW) for k, v in kwargs.items()}
            protocol_base.IntegerWrapper = SymIW.RealIW
            try:
                durations = orig_bp(cls, *cargs, **ckw)
            finally:
                protocol_base.IntegerWrapper = SymIW
            model = dict(cls=cls.__name__, lead_in=list(cls._lead_in), lead_out=list(cls._lead_out),
                         bursts=[list(b) if not isinstance(b, int) else b for b in cls._bursts],
                         encoding=cls.encoding, positional=pos, fields=fields)
            return SymPacket(durations, model=model)

        def ircode(decoder, original_rlc, normalized_rlc, data, repeat_count=-1, name=None):
            c = CapturedCode(decoder=decoder, original_rlc=original_rlc, normalized_rlc=normalized_rlc,
                             data=data, repeat_count=repeat_count)
            capture.append(c)
            return c

        protocol_base.IntegerWrapper = SymIW
        if capture is not None:
            protocol_base.IRCode = ircode
        protocol_base.IrProtocolBase._build_packet = classmethod(build_packet)
        return self

    def __exit__(self, *a):
        self.pb.IntegerWrapper, self.pb.IRCode = self.saved[0], self.saved[1]
        self.pb.IrProtocolBase._build_packet = self.saved[2]
        Trace.current = None
        return False


def frame_model(f):
    """One element of normalized_rlc -> list of parts, each ('packet', model) | ('const', [durations])."""
    if isinstance(f, SymPacket):
        if f.parts is None:
            raise Refused('a built packet was edited in place')
        return list(f.parts)
    out = []
    for x in f:
        if isinstance(x, (SymInt, SymIW, SymBool)) or not isinstance(x, int):
            raise Refused('frame contains a symbolic or non-integer duration')
        out.append(int(x))
    return [('const', out)]


def trace_encode(p, assignment, repeat_count=0, extra_kwargs=None):
    """Run p.encode concolically on `assignment`.  Returns dict(frames, params, path, frequency) or raises Refused /
    returns dict(error=exception name)."""
    tr = Trace()
    cap = []
    sym_args = {k: SymInt(v, ('arg', k)) for k, v in assignment.items()}
    kw = dict(extra_kwargs or {})
    try:
        with Patch(tr, cap):
            inst = p['cls']()
            try:
                inst.encode(**sym_args, repeat_count=repeat_count, **kw)
            except Refused:
                raise
            except Exception as e:  # noqa
                if tr.refused:
                    raise Refused(tr.refused)
                return dict(error=type(e).__name__, path=tr.path)
    except Refused as e:
        return dict(refused=str(e))
    if tr.refused:
        return dict(refused=tr.refused)
    if len(cap) != 1:
        return dict(refused='encode built %d IRCode objects' % len(cap))
    c = cap[0]
    try:
        nr = c['normalized_rlc']
        if nr and isinstance(nr, SymPacket):
            nr = [nr]
        if nr and not isinstance(nr[0], list):
            nr = [nr]
        frames = [frame_model(f) for f in nr]
        params = {}
        for k, v in c['data'].items():
            if isinstance(v, SymIW):
                params[k] = ('iw', v.expr)
            elif isinstance(v, (SymInt, int)) and not isinstance(v, bool):
                params[k] = ('z', zexpr(v))
            elif isinstance(v, SymBool):
                params[k] = ('z', ('b2z', v.expr))
            else:
                raise Refused('parameter %s of type %s' % (k, type(v).__name__))
    except Refused as e:
        return dict(refused=str(e))
    return dict(frames=frames, params=params, path=tr.path, repeat_count=c['repeat_count'],
                concrete_frames=[list(map(int, f)) for f in nr])


# ---------------------------------------------------------------------- reference evaluator of expression trees
def ev(e, env, IW, tables):
    """Evaluate an expression tree with the implementation's own IntegerWrapper (used to cross-check the tracer:
    the expressions must reproduce the concrete run on other inputs of the same path)."""
    k = e[0]
    if k == 'int':
        return e[1]
    if k == 'arg':
        return env[e[1]]
    if k == 'zop':
        a, b = ev(e[2], env, IW, tables), ev(e[3], env, IW, tables)
        return {'add': _o.add, 'sub': _o.sub, 'mul': _o.mul, 'div': _o.floordiv, 'mod': _o.mod, 'land': _o.and_,
                'lor': _o.or_, 'lxor': _o.xor, 'shl': _o.lshift, 'shr': _o.rshift}[e[1]](a, b)
    if k == 'zun':
        a = ev(e[2], env, IW, tables)
        return {'neg': -a, 'lnot': ~a, 'abs': abs(a)}[e[1]]
    if k == 'value':
        return int(ev(e[1], env, IW, tables))
    if k == 'nbits':
        return ev(e[1], env, IW, tables).num_bits
    if k == 'bit':
        return list(ev(e[1], env, IW, tables))[e[2]]
    if k == 'b2z':
        return int(bool(ev(e[1], env, IW, tables)))
    if k == 'mk':
        return IW(ev(e[1], env, IW, tables), e[2], *tables)
    if k == 'mkof':
        return IW(ev(e[1], env, IW, tables), e[2], *tables)
    if k == 'field':
        return env[('field', e[1])]
    if k == 'iwop':
        x = ev(e[2], env, IW, tables)
        o = ev(e[3][1], env, IW, tables)
        return {'add': _o.add, 'sub': _o.sub, 'mul': _o.mul, 'div': _o.floordiv, 'mod': _o.mod, 'and': _o.and_,
                'or': _o.or_, 'xor': _o.xor, 'shl': _o.lshift, 'shr': _o.rshift}[e[1]](x, o)
    if k == 'iwrop':
        x = ev(e[2], env, IW, tables)
        z = ev(e[3], env, IW, tables)
        return {'add': _o.add, 'sub': _o.sub, 'mul': _o.mul, 'and': _o.and_, 'or': _o.or_, 'xor': _o.xor}[e[1]](z, x)
    if k == 'iwun':
        x = ev(e[2], env, IW, tables)
        op = e[1]
        if op == 'invert':
            return ~x
        if op == 'neg':
            return -x
        if op == 'pos':
            return +x
        if op == 'abs':
            return abs(x)
        if op == 'invert_bits':
            return x.invert_bits(e[3])
        if op == 'reverse':
            return x.reverse_bit_order(e[3])
        if op == 'popcount':
            return x.num_one_bits
    if k == 'slice':
        return ev(e[1], env, IW, tables)[slice(e[2], e[3], e[4])]
    if k == 'slicecmp':
        return ev(e[1], env, IW, tables)[slice(e[2], e[3], e[4])]
    if k == 'cmp':
        a, b = ev(e[2], env, IW, tables), ev(e[3], env, IW, tables)
        return {'eq': _o.eq, 'ne': _o.ne, 'lt': _o.lt, 'le': _o.le, 'gt': _o.gt, 'ge': _o.ge}[e[1]](a, b)
    if k == 'not':
        return not ev(e[1], env, IW, tables)
    raise AssertionError(e)


# ---------------------------------------------------------------------- decode tracing
class DecodePatch(Patch):
    """Additionally wraps IrProtocolBase.decode: the base decoder runs concretely (real classes), then every
    decoded field of the returned IRCode is replaced by a symbolic wrapper ('field', name, width)."""
    def __enter__(self):
        Patch.__enter__(self)
        pb = self.pb
        self.saved_decode = pb.IrProtocolBase.__dict__['decode']
        orig = self.saved_decode
        trace = self.trace
        trace.base_calls = 0

        def base_decode(inst, data, frequency=0):
            pb.IntegerWrapper = SymIW.RealIW
            try:
                c = orig(inst, data, frequency)
            finally:
                pb.IntegerWrapper = SymIW
            trace.base_calls += 1
            if trace.base_calls > 1:
                trace.refuse('base decode called more than once')
            for name, start, stop in inst._parameters:
                if name in c._data and isinstance(c._data[name], SymIW.RealIW):
                    c._data[name] = SymIW(None, _expr=('field', name, stop - start + 1), _conc=c._data[name])
            trace.planted = c
            return c

        pb.IrProtocolBase.decode = base_decode
        return self

    def __exit__(self, *a):
        self.pb.IrProtocolBase.decode = self.saved_decode
        return Patch.__exit__(self, *a)


def trace_decode(p, frame, forced=None):
    """One concolic run of p.decode on a fresh instance.  Returns dict(path, outcome) with outcome
    ('raise', name) | ('return', overrides) — or dict(refused=...)."""
    tr = Trace(forced)
    tr.planted = None
    try:
        with DecodePatch(tr, None):
            inst = p['cls']()
            try:
                code = inst.decode(list(frame), p['frequency'])
            except Refused:
                raise
            except Exception as e:  # noqa
                if tr.refused:
                    raise Refused(tr.refused)
                return dict(path=tr.path, outcome=('raise', type(e).__name__), base_calls=tr.base_calls)
    except Refused as e:
        return dict(refused=str(e))
    if tr.base_calls == 0:
        return dict(refused='decode does not go through IrProtocolBase.decode')
    overrides = {}
    data = getattr(code, '_data', None)
    if data is None:
        return dict(refused='decode returned %s' % type(code).__name__)
    try:
        for k, v in data.items():
            if k == 'frequency':
                continue
            if isinstance(v, SymIW):
                if v.expr[0] == 'field' and v.expr[1] == k:
                    continue
                overrides[k] = ('iw', v.expr)
            elif isinstance(v, SymBool):
                overrides[k] = ('z', ('b2z', v.expr))
            elif isinstance(v, int):
                overrides[k] = ('z', zexpr(v))
            elif isinstance(v, SymIW.RealIW):
                if not type(v._value) is int:
                    raise Refused('a real IntegerWrapper was built around a symbolic value')
                overrides[k] = ('iw', ('mk', ('int', int(v)), v.num_bits))
            else:
                raise Refused('decoded parameter %s of type %s' % (k, type(v).__name__))
    except Refused as e:
        return dict(refused=str(e))
    return dict(path=tr.path, outcome=('return', overrides), base_calls=tr.base_calls,
                same_object=code is tr.planted)


def explore(run, limit=96):
    """Enumerate the paths of a traced function by forcing branch outcomes (depth-first).
    run(forced) -> dict with 'path' (list of (expr, outcome)) or 'refused'.  Returns (leaves, complete):
    leaves = list of (path, result dict)."""
    leaves = []
    seen = set()
    stack = [[]]
    complete = True
    while stack:
        forced = stack.pop()
        r = run(forced)
        if 'refused' in r:
            return None, r['refused']
        path = r['path']
        key = tuple((repr(e), o) for e, o in path)
        if key in seen:
            continue
        seen.add(key)
        leaves.append((path, r))
        if len(leaves) >= limit:
            complete = False
            break
        # flip every decision beyond the forced prefix
        for k in range(len(forced), len(path)):
            stack.append([o for _, o in path[:k]] + [not path[k][1]])
    return leaves, complete
