# C02: signal plans.  lib_plan: from the traced encode model (tools/tracer.py) of a protocol; irp_plan: from the parsed
# irp string (tools/irp.py), unrolled for a repeat count.  Both are lists of frames of slots
#   ('durs', [int us])  |  ('ext', int us)  |  ('bits', table, msb, width, deps(set of arg names), expr, side)
# and are emitted as Gallina terms of type list (list slot) (PyIR.Proto.Irp).
from fractions import Fraction

import irp
import protomodel
import tracer
import vlib


class Unmodelled(Exception):
    pass


def merge_consts(l):
    out = []
    for d in l:
        if d == 0:
            continue
        if out and (out[-1] > 0) == (d > 0):
            out[-1] += d
        else:
            out.append(d)
    return out


def norm_frame(slots):
    """Merge adjacent constant runs (same-sign neighbours summed): the signal semantics is invariant under it."""
    out = []
    for s in slots:
        if s[0] == 'durs':
            if not s[1]:
                continue
            if out and out[-1][0] == 'durs':
                out[-1] = ('durs', merge_consts(out[-1][1] + list(s[1])))
            else:
                out.append(('durs', merge_consts(list(s[1]))))
        else:
            out.append(s)
    out = [s for s in out if s[0] != 'durs' or s[1]]
    # an extent that follows constants only is itself a constant gap (its frame has no data-dependent duration before it)
    if len(out) == 2 and out[0][0] == 'durs' and out[1][0] == 'ext':
        used = sum(abs(d) for d in out[0][1])
        if used < out[1][1]:
            out = [('durs', merge_consts(out[0][1] + [-(out[1][1] - used)]))]
    return out


# ---------------------------------------------------------------------- library side
def expr_args(e, acc=None):
    acc = set() if acc is None else acc
    if isinstance(e, tuple):
        if e and e[0] == 'arg':
            acc.add(e[1])
        else:
            for x in e:
                expr_args(x, acc)
    elif isinstance(e, list):
        for x in e:
            expr_args(x, acc)
    return acc


def lib_plan(model, n):
    enc = model['enc'][n]
    t = enc.get('tree')
    if t is None:
        raise Unmodelled(enc.get('refused') or 'encode not traced')
    if t[0] != 'leaf':
        raise Unmodelled('encode branches on its arguments')
    leaf = t[1]
    if 'frames' not in leaf:
        raise Unmodelled('encode raises on the traced path')
    frames = []
    for f in leaf['frames']:
        slots = []
        for part in f:
            if part[0] == 'const':
                slots.append(('durs', list(part[1])))
                continue
            m = part[1]
            table = [list(b) if isinstance(b, (list, tuple)) else [b] for b in m['bursts']]
            msb = m['encoding'] == 'msb'
            slots.append(('durs', list(m['lead_in'])))
            for x in m['positional']:
                if x[0] == 'timings':
                    w = tracer.static_nbits(x[1])
                    if w is None:
                        raise Unmodelled('positional field of value-dependent width')
                    slots.append(('bits', table, msb, w, expr_args(x[1]), x[1], 'lib'))
                else:
                    slots.append(('durs', list(x[1])))
            for name, e in m['fields']:
                w = tracer.static_nbits(e)
                if w is None:
                    raise Unmodelled('field %s of value-dependent width' % name)
                slots.append(('bits', table, msb, w, expr_args(e), e, 'lib'))
            lo = list(m['lead_out'])
            if lo and lo[-1] > 0:
                slots.append(('durs', lo[:-1]))
                slots.append(('ext', lo[-1]))
            else:
                slots.append(('durs', [x for x in lo if x != -999999999999]))
        frames.append(norm_frame(slots))
    consts = {}
    for k, v in leaf.get('params', []):
        if v[0] == 'z' and v[1][0] == 'int':
            consts[k] = v[1][1]
        elif v[0] == 'iw' and v[1][0] == 'mk' and v[1][1][0] == 'int':
            consts[k] = v[1][1][1]
    return frames, consts


# ---------------------------------------------------------------------- IRP side
def subst(e, senv, defs, depth=0):
    """Replace assigned / defined variables by their expressions; what remains are protocol parameters."""
    if depth > 30:
        raise Unmodelled('circular IRP definitions')
    k = e[0]
    if k == 'num':
        return e
    if k == 'var':
        if e[1] in senv:
            return senv[e[1]]
        for n, d in defs:
            if n == e[1]:
                return subst(d, senv, defs, depth + 1)
        return e
    if k in ('neg', 'not', 'count'):
        return (k, subst(e[1], senv, defs, depth))
    if k == 'bin':
        return ('bin', e[1], subst(e[2], senv, defs, depth), subst(e[3], senv, defs, depth))
    if k == 'field':
        return ('field', e[1], subst(e[2], senv, defs, depth), None if e[3] is None else subst(e[3], senv, defs, depth),
                subst(e[4], senv, defs, depth))
    raise Unmodelled('expression %r' % (e,))


def const_value(e):
    if irp.free_vars(e):
        return None
    try:
        return irp.ev(e, {}, [])
    except irp.IrpError:
        return None


class Unroller(object):
    def __init__(self, ast, reps, consts):
        self.ast = ast
        self.g = ast['general']
        self.reps = reps
        self.senv = {k: ('num', v) for k, v in consts.items()}
        self.frames = []
        self.cur = []
        self.variation = 0

    def us(self, v, unit):
        g = self.g
        if unit == 'u':
            q = v
        elif unit == 'm':
            q = v * 1000
        elif unit == 'p' or (unit == '' and g['unit_kind'] == 'p'):
            if not g['freq']:
                raise Unmodelled('carrier periods without a carrier')
            q = v * (g['unit'] if unit == '' else 1) * Fraction(1000000) / g['freq']
        else:
            q = v * g['unit']
        if q.denominator != 1:
            raise Unmodelled('non-integral duration %s us' % float(q))
        return int(q)

    def cut(self):
        if self.cur:
            self.frames.append(self.cur)
        self.cur = []

    def table(self, bitspec):
        return [[self.us(d[1], d[2]) for d in alt] for alt in bitspec]

    def items(self, items, bitspec):
        for it in items:
            k = it[0]
            if k == 'dur':
                self.cur.append(('durs', [self.us(it[1], it[2])]))
            elif k == 'extent':
                self.cur.append(('ext', self.us(it[1], it[2])))
                self.cut()
            elif k == 'bits':
                _, compl, f = it
                _, rev, p, w, off = f
                wv = const_value(subst(w, self.senv, self.ast['defs']))
                ov = const_value(subst(off, self.senv, self.ast['defs']))
                if wv is None or ov is None:
                    raise Unmodelled('bit field with a computed width or offset')
                e = subst(p, self.senv, self.ast['defs'])
                if compl:
                    e = ('not', e)
                e = ('field', rev, e, ('num', wv), ('num', ov))
                self.cur.append(('bits', self.table(bitspec), self.g['order'] == 'msb', wv, set(irp.free_vars(e)), e, 'irp'))
            elif k == 'assign':
                self.senv[it[1]] = subst(it[2], self.senv, self.ast['defs'])
            elif k == 'variation':
                alts = it[1]
                self.items(alts[min(self.variation, len(alts) - 1)], bitspec)
            elif k == 'sub':
                self.items(it[2], it[1])
            elif k == 'group':
                _, its, (rk, rn) = it
                count = rn if rk == 'n' else (self.reps if rk == '*' else max(rn, self.reps))
                if rk != 'n' or rn != 1:
                    self.cut()
                for _ in range(count):
                    self.items(its, bitspec)
                    if rk != 'n' or rn != 1:
                        self.cut()
            else:
                raise Unmodelled('IRP item %s' % k)

    def run(self):
        rk, rn = self.ast['rep']
        if (rk, rn) == ('n', 1) and not irp.has_repeat(self.ast['items']):
            rk = '+'
        count = rn if rk == 'n' else (self.reps if rk == '*' else max(rn, self.reps))
        for j in range(count):
            self.variation = 0 if j == 0 else 1
            self.items(self.ast['items'], self.ast['bitspec'])
            self.cut()
        return [norm_frame(f) for f in self.frames]


def irp_plan(ast, reps, consts):
    return Unroller(ast, reps, consts).run()


# ---------------------------------------------------------------------- alignment and emission
def shape(frames):
    return [[(s[0], s[3]) if s[0] == 'bits' else ((s[0], len(s[1])) if s[0] == 'durs' else (s[0],)) for s in f] for f in frames]


def regroup(irp_frames, lib_frames):
    """The library may put several IRP groups into one frame or split one at its gaps; frame boundaries carry no signal
    information except as the origin of extents.  Re-cut the IRP slots at the library's boundaries when the flattened
    slot kinds agree and no extent would change its origin."""
    flat = [s for f in irp_frames for s in f]
    out, i = [], 0
    for lf in lib_frames:
        need = len(lf)
        got = []
        while len(got) < need and i < len(flat):
            got.append(flat[i])
            i += 1
        out.append(norm_frame(got))
    if i != len(flat):
        return None
    return out


def cexpr_irp(e, names):
    k = e[0]
    if k == 'num':
        return vlib.z(e[1])
    if k == 'var':
        if e[1] not in names:
            raise Unmodelled('IRP variable %s has no counterpart among the encode parameters' % e[1])
        return names[e[1]]
    if k == 'neg':
        return '(Z.opp %s)' % cexpr_irp(e[1], names)
    if k == 'not':
        return '(Z.lnot %s)' % cexpr_irp(e[1], names)
    if k == 'count':
        return '(zpopcount %s)' % cexpr_irp(e[1], names)
    if k == 'bin':
        op = {'+': 'Z.add', '-': 'Z.sub', '*': 'Z.mul', '/': 'Z.div', '%': 'Z.modulo', '&': 'Z.land', '|': 'Z.lor',
              '^': 'Z.lxor', '<<': 'Z.shiftl', '>>': 'Z.shiftr', '**': 'Z.pow'}[e[1]]
        return '(%s %s %s)' % (op, cexpr_irp(e[2], names), cexpr_irp(e[3], names))
    if k == 'field':
        _, rev, p, w, off = e
        pv = cexpr_irp(p, names)
        ov = cexpr_irp(off, names)
        if w is None:
            return '(Z.shiftr %s %s)' % (pv, ov)
        wv = cexpr_irp(w, names)
        body = '(Z.modulo (Z.shiftr %s %s) (2 ^ %s))' % (pv, ov, wv)
        if rev:
            if w[0] != 'num':
                raise Unmodelled('reversed field of computed width')
            return '(zreverse %s %d%%nat)' % (body, w[1])
        return body
    raise Unmodelled('IRP expression %r' % (e,))


def cslot(s, arg_index, var_to_arg, other_deps=None):
    """Gallina slot.  arg_index: encode argument -> position; var_to_arg: IRP variable -> encode argument."""
    if s[0] == 'durs':
        return '(SDurs %s)' % vlib.zlist(s[1])
    if s[0] == 'ext':
        return '(SExt %s)' % vlib.z(s[1])
    _, table, msb, w, deps, e, side = s
    if side == 'irp':
        missing = [v for v in deps if v not in var_to_arg]
        if missing:
            raise Unmodelled('IRP variable %s has no counterpart among the encode parameters' % ', '.join(sorted(missing)))
        args = {var_to_arg[v] for v in deps}
    else:
        args = set(deps)
    args |= (other_deps or set())
    order = sorted(args, key=lambda a: arg_index[a])
    binder = '[%s]' % '; '.join('a_' + a for a in order)
    if side == 'irp':
        body = cexpr_irp(e, {v: 'a_' + a for v, a in var_to_arg.items()})
    else:
        body = '(value %s)' % protomodel.ciw(e)
    fn = '(fun l => match l with %s => %s | _ => 0 end)' % (binder, body) if order else '(fun _ => %s)' % body
    return '(SBits %s %s %d%%nat [%s] %s)' % (
        '[' + '; '.join(vlib.zlist(b) for b in table) + ']', 'true' if msb else 'false', w,
        '; '.join('%d%%nat' % arg_index[a] for a in order), fn)


def slot_args(s, var_to_arg):
    if s[0] != 'bits':
        return set()
    if s[6] == 'irp':
        return {var_to_arg[v] for v in s[4] if v in var_to_arg}
    return set(s[4])


def cplan(frames, arg_index, var_to_arg, partner=None):
    out = []
    for fi, f in enumerate(frames):
        slots = []
        for si, s in enumerate(f):
            other = None
            if partner is not None and fi < len(partner) and si < len(partner[fi]):
                other = slot_args(partner[fi][si], var_to_arg)
            slots.append(cslot(s, arg_index, var_to_arg, other))
        out.append('[' + ';\n     '.join(slots) + ']')
    return '[' + ';\n    '.join(out) + ']'


def enum_size(frames_a, frames_b, ranges, var_to_arg):
    worst = 1
    for fa, fb in zip(frames_a, frames_b):
        for a, b in zip(fa, fb):
            args = slot_args(a, var_to_arg) | slot_args(b, var_to_arg)
            n = 1
            for x in args:
                lo, hi = ranges[x]
                n *= (hi - lo + 1)
            worst = max(worst, n)
    return worst
