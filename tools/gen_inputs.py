# Structured input generators shared by the correspondence checks and the search oracles.
# Every random choice is drawn from the rng handed in (one PRNG per run, seeded by VERIF_SEED).
import math


def param_assignments(p, rng, n, exhaustive_limit=0, dictionary=False):
    """In-range assignments of the advertised encode parameters: all-min, all-max, one-hot/boundary per
    parameter, pairs differing in one high bit, random.  p is a protoinfo dict."""
    eps = p['encode_parameters']
    if not eps:
        return [{}]
    space = 1
    for _, lo, hi in eps:
        space *= (hi - lo + 1)
    out = []
    if exhaustive_limit and space <= exhaustive_limit:
        def rec(i, cur):
            if i == len(eps):
                out.append(dict(cur))
                return
            n_, lo, hi = eps[i]
            for v in range(lo, hi + 1):
                cur[n_] = v
                rec(i + 1, cur)
        rec(0, {})
        return out
    lo_all = {n_: lo for n_, lo, hi in eps}
    hi_all = {n_: hi for n_, lo, hi in eps}
    # per parameter: every value of a small parameter, else boundaries, the middle, one-hot bits and their complements - the other
    # parameters at their minimum
    per_param = []
    for n_, lo, hi in eps:
        if hi - lo + 1 <= 8:
            vals = list(range(lo, hi + 1))
        else:
            vs = {lo, hi, (lo + hi) // 2}
            b = 1
            while b <= hi:
                if lo <= b <= hi:
                    vs.add(b)
                if lo <= hi - b <= hi:
                    vs.add(hi - b)
                b <<= 1
            vals = sorted(vs, key=lambda v: (v not in (hi, (lo + hi) // 2, lo + 1), v))
        cands = []
        for v in vals:
            a = dict(lo_all)
            a[n_] = v
            if a != lo_all and a != hi_all:
                cands.append(a)
        per_param.append(cands)
    # round-robin over the parameters so that each gets its share of a small budget
    rr = []
    i = 0
    while any(i < len(c) for c in per_param):
        for c in per_param:
            if i < len(c) and c[i] not in rr:
                rr.append(c[i])
        i += 1
    res = [lo_all] + ([hi_all] if hi_all != lo_all else [])
    budget = max(0, n - len(res))
    fixed = rr[:(budget * 2 + 2) // 3]          # deterministic part: does not depend on the seed
    rest = rr[len(fixed):]
    rng.shuffle(rest)
    res += fixed
    for a in rest:
        if len(res) >= n:
            break
        res.append(a)
    tries = 0
    while len(res) < n and tries < 4 * n:
        a = {n_: rng.randint(lo, hi) for n_, lo, hi in eps}
        tries += 1
        if a not in res:
            res.append(a)
    # dictionary: the constants encode() compares its arguments with, all together (value-specific branches of the encoder);
    # appended beyond n so that the assignments above do not depend on it
    consts = (p.get('arg_constants') or {}) if dictionary else {}
    names = [n_ for n_, lo, hi in eps if any(lo <= c <= hi for c in consts.get(n_, []) if isinstance(c, int))]
    if names:
        combos = [dict(lo_all)]
        for n_ in names:
            lo, hi = [(l, h) for m, l, h in eps if m == n_][0]
            vals = [c for c in consts[n_] if lo <= c <= hi][:4]
            combos = [dict(c, **{n_: v}) for c in combos for v in vals][:16]
        for a in combos:
            if a not in res:
                res.append(a)
    for d in (consts.get('__together__') or [])[:12]:
        if all(any(m == k and lo <= v <= hi for m, lo, hi in eps) for k, v in d.items()):
            a = dict(lo_all, **d)
            if a not in res:
                res.append(a)
    return res


def perturb(frame, tol, pattern, rng, fixed_period=None):
    """Perturb every duration by at most tol/4 percent.  pattern: long | short | alt | random.
    With a fixed frame period the trailing gap absorbs the difference."""
    out = []
    for i, d in enumerate(frame):
        q = (tol * abs(d)) // 400      # floor: |v-e|*400 <= tol*|e|
        if pattern == 'long':
            k = q
        elif pattern == 'short':
            k = -q
        elif pattern == 'alt':
            k = q if i % 2 == 0 else -q
        else:
            k = rng.randint(-q, q)
        v = abs(d) + k
        if v <= 0:
            v = abs(d)
        out.append(v if d > 0 else -v)
    if fixed_period is not None and len(out) > 1:
        rest = sum(abs(x) for x in out[:-1])
        gap = fixed_period - rest
        if gap > 0:
            out[-1] = -gap
    return out


def garbage(rng, maxlen=12):
    """Malformed stream: short lists, zeros, same-sign neighbours, huge values."""
    n = rng.randint(1, maxlen)
    kind = rng.random()
    out = []
    for i in range(n):
        mag = rng.choice([0, 1, 5, 100, 250, 444, 500, 560, 600, 889, 1000, 1200, 2400, 4500, 9000, 50000, 10 ** 6,
                          rng.randint(1, 3000), rng.randint(1, 100000)])
        if kind < 0.5:
            sign = 1 if i % 2 == 0 else -1
        elif kind < 0.75:
            sign = rng.choice([1, -1])
        else:
            sign = -1 if i % 2 == 0 else 1
        out.append(sign * mag)
    return out


def mutate(frame, rng):
    """One structural mutation of a valid frame: truncate, extend, drop, duplicate, scale one, zero one, swap sign."""
    f = list(frame)
    if not f:
        return f, 'empty'
    k = rng.randint(0, 8)
    i = rng.randrange(len(f))
    if k == 0:
        return f[:rng.randint(0, len(f))], 'truncate'
    if k == 1:
        return f + [rng.choice([1, -1]) * rng.randint(1, 5000) for _ in range(rng.randint(1, 3))], 'extend'
    if k == 2:
        del f[i]
        return f, 'drop'
    if k == 3:
        f.insert(i, f[i])
        return f, 'duplicate'
    if k == 4:
        f[i] = int(f[i] * rng.choice([0.3, 0.5, 0.7, 1.3, 1.5, 2, 3, 10]))
        return f, 'scale'
    if k == 5:
        f[i] = 0
        return f, 'zero'
    if k == 6:
        f[i] = -f[i]
        return f, 'flip'
    if k == 7:
        return f[i:], 'suffix'
    j = rng.randrange(len(f))
    f[i], f[j] = f[j], f[i]
    return f, 'swap'
