# Structured input generators shared by the correspondence checks and the search oracles.
# Every random choice is drawn from the rng handed in (one PRNG per run, seeded by VERIF_SEED).
import math


def param_assignments(p, rng, n, exhaustive_limit=0):
    """In-range assignments of the advertised encode parameters: all-min, all-max, one-hot/boundary per
    parameter, pairs differing in one high bit, random.  p is a protoinfo dict."""
    eps = p['encode_parameters']
    if not eps:
        return [{}]
    space = 1
    for _, lo, hi in eps:
        space *= (hi - lo + 1)
    out = []
    if exhaustive_limit and space <= exhaustive_limit:
        def rec(i, cur):
            if i == len(eps):
                out.append(dict(cur))
                return
            n_, lo, hi = eps[i]
            for v in range(lo, hi + 1):
                cur[n_] = v
                rec(i + 1, cur)
        rec(0, {})
        return out
    out.append({n_: lo for n_, lo, hi in eps})
    out.append({n_: hi for n_, lo, hi in eps})
    base = {n_: lo for n_, lo, hi in eps}
    for n_, lo, hi in eps:
        # one-hot bits and boundaries of this parameter, others at their minimum / random
        vals = {lo, hi, (lo + hi) // 2}
        b = 1
        while b <= hi:
            if lo <= b <= hi:
                vals.add(b)
            if lo <= hi - b <= hi:
                vals.add(hi - b)
            b <<= 1
        for v in sorted(vals):
            a = dict(base)
            a[n_] = v
            out.append(a)
            if len(out) >= n * 3:
                break
    while len(out) < n:
        out.append({n_: rng.randint(lo, hi) for n_, lo, hi in eps})
    # keep deterministic prefix (min, max) and sample the rest
    head, tail = out[:2], out[2:]
    rng.shuffle(tail)
    res = head + tail[:max(0, n - 2)]
    # top up with random assignments
    while len(res) < n:
        res.append({n_: rng.randint(lo, hi) for n_, lo, hi in eps})
    return res


def perturb(frame, tol, pattern, rng, fixed_period=None):
    """Perturb every duration by at most tol/4 percent.  pattern: long | short | alt | random.
    With a fixed frame period the trailing gap absorbs the difference."""
    out = []
    for i, d in enumerate(frame):
        q = (tol * abs(d)) // 400      # floor: |v-e|*400 <= tol*|e|
        if pattern == 'long':
            k = q
        elif pattern == 'short':
            k = -q
        elif pattern == 'alt':
            k = q if i % 2 == 0 else -q
        else:
            k = rng.randint(-q, q)
        v = abs(d) + k
        if v <= 0:
            v = abs(d)
        out.append(v if d > 0 else -v)
    if fixed_period is not None and len(out) > 1:
        rest = sum(abs(x) for x in out[:-1])
        gap = fixed_period - rest
        if gap > 0:
            out[-1] = -gap
    return out


def garbage(rng, maxlen=12):
    """Malformed stream: short lists, zeros, same-sign neighbours, huge values."""
    n = rng.randint(1, maxlen)
    kind = rng.random()
    out = []
    for i in range(n):
        mag = rng.choice([0, 1, 5, 100, 250, 444, 500, 560, 600, 889, 1000, 1200, 2400, 4500, 9000, 50000, 10 ** 6,
                          rng.randint(1, 3000), rng.randint(1, 100000)])
        if kind < 0.5:
            sign = 1 if i % 2 == 0 else -1
        elif kind < 0.75:
            sign = rng.choice([1, -1])
        else:
            sign = -1 if i % 2 == 0 else 1
        out.append(sign * mag)
    return out


def mutate(frame, rng):
    """One structural mutation of a valid frame: truncate, extend, drop, duplicate, scale one, zero one, swap sign."""
    f = list(frame)
    if not f:
        return f, 'empty'
    k = rng.randint(0, 8)
    i = rng.randrange(len(f))
    if k == 0:
        return f[:rng.randint(0, len(f))], 'truncate'
    if k == 1:
        return f + [rng.choice([1, -1]) * rng.randint(1, 5000) for _ in range(rng.randint(1, 3))], 'extend'
    if k == 2:
        del f[i]
        return f, 'drop'
    if k == 3:
        f.insert(i, f[i])
        return f, 'duplicate'
    if k == 4:
        f[i] = int(f[i] * rng.choice([0.3, 0.5, 0.7, 1.3, 1.5, 2, 3, 10]))
        return f, 'scale'
    if k == 5:
        f[i] = 0
        return f, 'zero'
    if k == 6:
        f[i] = -f[i]
        return f, 'flip'
    if k == 7:
        return f[i:], 'suffix'
    j = rng.randrange(len(f))
    f[i], f[j] = f[j], f[i]
    return f, 'swap'
