#!/bin/bash
# Maintenance: apply a behaviour-preserving refactoring (seeded/harmless_<id>/patch.diff) to /repo, run the given checks, undo.
# Any VIOLATION line here is a false alarm of the machinery.
cd "$(dirname "$0")/.."
seed=$1; tier=$2; shift 2
git -C /repo diff --quiet || { echo "/repo is not clean"; exit 2; }
git -C /repo apply $PWD/seeded/$seed/patch.diff || { echo "patch does not apply"; exit 2; }
trap 'git -C /repo checkout -- . ' EXIT
for p in "$@"; do
  out=$(VERIF_SEED=${VERIF_SEED:-1} timeout 3000 ./check $p $tier 2>/dev/null | grep "VIOLATION\|^C[0-9][0-9] ")
  echo "$seed $p violations=$(echo "$out" | grep -c VIOLATION) :: $(echo "$out" | grep VIOLATION | head -4 | sed 's#.*/replays/##' | tr '\n' ' ') $(echo "$out" | tail -1)"
done
