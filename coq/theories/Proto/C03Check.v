(* C03 — decidable check of one explored encode path and its soundness:
   if the check computes to true, every frame of that path is a well-formed mark/space list for every value of
   the encode arguments, the number of frames is the stated one, period frames last exactly the period and the
   code reports the stated carrier. *)
From Coq Require Import ZArith List Bool Lia ZifyBool String.
Require Import PyIR.Base.Result PyIR.IW.IW PyIR.Engine.Match PyIR.Engine.Render PyIR.Engine.RenderProps
               PyIR.Engine.Parse PyIR.Engine.ParseProps PyIR.Proto.Descriptor PyIR.Proto.Model PyIR.Proto.Shape.
Import ListNotations.
Open Scope Z_scope.

Definition std_tableb (t : ptable) : bool := forallb (fun p => (0 <? fst p) && (snd p <? 0)) t.
Lemma std_tableb_sound t : std_tableb t = true -> std_table t.
Proof. intros H. unfold std_tableb in H. rewrite forallb_forall in H. apply Forall_forall. intros p Hp. specialize (H p Hp). lia. Qed.

Definition len_ok (n : nat) : bool := Nat.eqb n 2 || Nat.eqb n 4 || Nat.eqb n 16.
Lemma len_ok_sound n : len_ok n = true -> (n = 2 \/ n = 4 \/ n = 16)%nat.
Proof. unfold len_ok. intros H. apply orb_true_iff in H as [H|H]; [apply orb_true_iff in H as [H|H]|]; apply Nat.eqb_eq in H; auto. Qed.

Definition is_nil {A} (l : list A) : bool := match l with [] => true | _ => false end.

(* value-independent description (empty?, maximal total duration) of the body of a packet *)
Fixpoint fields_spec (t : ptable) (xs : list iw) : bool * Z :=
  match xs with
  | [] => (true, 0)
  | x :: r => let '(e, m) := fields_spec t r in
              let n := symcount (List.length t) (nbits x) in
              (Nat.eqb n 0 && e, Z.of_nat n * maxsym t + m)
  end.
Fixpoint pos_spec (t : ptable) (ps : list pos_item) : option (bool * Z) :=
  match ps with
  | [] => Some (true, 0)
  | PTimings x :: r =>
      match pos_spec t r with
      | Some (e, m) => let n := symcount (List.length t) (nbits x) in Some (Nat.eqb n 0 && e, Z.of_nat n * maxsym t + m)
      | None => None end
  | PConst l :: r =>
      match pos_spec t r with
      | Some (e, m) => if const_body_ok l then Some (is_nil l && e, sum_abs l + m) else None
      | None => None end
  end.

Lemma field_body msb t x : std_table t -> (List.length t = 2 \/ List.length t = 4 \/ List.length t = 16)%nat ->
  exists l, field_durations msb (pairs_to_table t) x = Ok l /\
            body_ok (Nat.eqb (symcount (List.length t) (nbits x)) 0) (Z.of_nat (symcount (List.length t) (nbits x)) * maxsym t) l.
Proof.
  intros Hstd Hlen. destruct (symbols_total msb (List.length t) x Hlen) as [syms [E1 [E2 [E3 _]]]].
  exists (render_data t syms). unfold field_durations.
  replace (List.length (pairs_to_table t)) with (List.length t) by (unfold pairs_to_table; rewrite map_length; reflexivity).
  rewrite E1. cbn [bind]. split; [apply lookup_syms_pairs; exact E3|].
  pose proof (render_data_body t syms Hstd E3) as H. rewrite <- E2.
  destruct syms; cbn [List.length Nat.eqb] in *; exact H.
Qed.

Lemma fields_spec_sound msb t xs : std_table t -> (List.length t = 2 \/ List.length t = 4 \/ List.length t = 16)%nat ->
  exists l, fields_durations msb (pairs_to_table t) xs = Ok l /\ body_ok (fst (fields_spec t xs)) (snd (fields_spec t xs)) l.
Proof.
  intros Hstd Hlen. induction xs as [|x xs [l [E1 E2]]].
  - exists []. split; [reflexivity|]. cbn. split; [constructor|]. split; [cbn; lia|reflexivity].
  - destruct (field_body msb t x Hstd Hlen) as [a [F1 F2]].
    exists (a ++ l). cbn [fields_durations]. rewrite F1, E1. cbn [bind]. split; [reflexivity|].
    cbn [fields_spec]. destruct (fields_spec t xs) as [e m]. cbn [fst snd] in *. apply body_ok_app; assumption.
Qed.

Lemma pos_spec_sound msb t ps e m : std_table t -> (List.length t = 2 \/ List.length t = 4 \/ List.length t = 16)%nat ->
  pos_spec t ps = Some (e, m) -> exists l, pos_durations msb (pairs_to_table t) ps = Ok l /\ body_ok e m l.
Proof.
  intros Hstd Hlen. revert e m. induction ps as [|p ps IH]; intros e m H.
  - cbn in H. injection H as <- <-. exists []. split; [reflexivity|]. split; [constructor|]. split; [cbn; lia|reflexivity].
  - destruct p as [x|c]; cbn [pos_spec] in H; destruct (pos_spec t ps) as [[e' m']|] eqn:E; try discriminate.
    + injection H as <- <-. destruct (IH e' m' eq_refl) as [l [E1 E2]].
      destruct (field_body msb t x Hstd Hlen) as [a [F1 F2]].
      exists (a ++ l). cbn [pos_durations]. rewrite F1, E1. cbn [bind]. split; [reflexivity|]. apply body_ok_app; assumption.
    + destruct (const_body_ok c) eqn:Ec; [|discriminate]. injection H as <- <-.
      destruct (IH e' m' eq_refl) as [l [E1 E2]].
      exists (c ++ l). cbn [pos_durations]. rewrite E1. cbn [bind]. split; [reflexivity|].
      apply body_ok_app; [|exact E2]. pose proof (const_body_sound c Ec) as Hc. destruct c; exact Hc.
Qed.

(* ---- the packet around a body *)
Definition nzb (l : list Z) : bool := forallb (fun x => negb (x =? 0)) l.
Definition head_pos (l : list Z) : bool := match l with a :: _ => 0 <? a | [] => false end.
Definition last_neg (l : list Z) : bool := match last_opt l with Some b => b <? 0 | None => false end.

(* head of  li ++ body ++ rest  is a mark *)
Definition head_ok (li : list Z) (e : bool) (rest : list Z) : bool :=
  match li with
  | _ :: _ => head_pos li
  | [] => if e then head_pos rest else true
  end.

Definition packet_ok (li lo : list Z) (e : bool) (m : Z) : bool :=
  nzb li && nzb lo &&
  match last_opt lo with
  | Some last =>
      if 0 <? last then
        head_ok li e (removelast lo) && (sum_abs li + m + sum_abs (removelast lo) <? last)
      else head_ok li e lo
  | None => head_ok li e [] && (if e then last_neg li else true)
  end.

Lemma head_ok_sound li e m body rest : head_ok li e rest = true -> body_ok e m body ->
  exists a r, li ++ body ++ rest = a :: r /\ 0 < a.
Proof.
  intros H [_ [_ Hb]]. unfold head_ok in H. destruct li as [|a li'].
  - destruct e.
    + subst body. cbn [app]. destruct rest as [|a r]; [discriminate|]. exists a, r. cbn in H. split; [reflexivity|lia].
    + destruct Hb as [a [r [b [E [Ha _]]]]]. rewrite E. exists a, (r ++ rest). split; [reflexivity|exact Ha].
  - cbn in H. exists a, (li' ++ body ++ rest). split; [reflexivity|lia].
Qed.

Theorem packet_ok_sound li lo e m body : packet_ok li lo e m = true -> body_ok e m body ->
  frame_wf (build_packet li lo body) /\
  (forall P, last_opt lo = Some P -> 0 < P -> sum_abs (build_packet li lo body) = P).
Proof.
  intros H Hb. unfold packet_ok in H. apply andb_true_iff in H as [H H3]. apply andb_true_iff in H as [H1 H2].
  apply forallb_nonzero in H1. apply forallb_nonzero in H2. pose proof Hb as [Hnzb [Hsum Hshape]].
  assert (nonzero (li ++ body ++ lo)) as Hnz by (apply nonzero_app; split; [exact H1|apply nonzero_app; split; assumption]).
  destruct (last_opt lo) as [last|] eqn:El.
  - destruct (0 <? last) eqn:Ep.
    + apply andb_true_iff in H3 as [Hh Hs].
      destruct (head_ok_sound li e m body (removelast lo) Hh Hb) as [a [r [Ea Ha]]].
      pose proof (removelast_last _ _ El) as Elo.
      assert (exists a' r', li ++ body ++ lo = a' :: r' /\ 0 < a') as Hhead.
      { rewrite Elo. rewrite !app_assoc. rewrite <- app_assoc with (l := li). rewrite Ea. exists a, (r ++ [last]). split; [reflexivity|exact Ha]. }
      assert (sum_abs (li ++ body ++ removelast lo) < last) as Hlt by (rewrite !sum_abs_app; lia).
      destruct (build_packet_wf li lo body Hnz Hhead) as [Hwf Hp].
      { rewrite El. right. split; [lia|]. split; [exact Hlt|]. exists a, r. auto. }
      split; [exact Hwf|]. rewrite El in Hp. intros P [= <-] HP. apply Hp. exact HP.
    + destruct (head_ok_sound li e m body lo H3 Hb) as [a [r [Ea Ha]]].
      destruct (build_packet_wf li lo body Hnz ltac:(eauto)) as [Hwf _].
      { rewrite El. left. assert (last <> 0); [|lia].
        pose proof (removelast_last _ _ El) as Elo. rewrite Elo in H2. apply nonzero_app in H2 as [_ H2]. inversion H2; auto. }
      split; [exact Hwf|]. intros P [= <-] HP. lia.
  - apply andb_true_iff in H3 as [Hh Hl].
    assert (lo = []) as ->.
    { unfold last_opt in El. destruct (rev lo) eqn:E; [|discriminate].
      apply (f_equal (@rev Z)) in E. rewrite rev_involutive in E. exact E. }
    destruct (head_ok_sound li e m body [] Hh Hb) as [a [r [Ea Ha]]].
    destruct (build_packet_wf li [] body Hnz ltac:(eauto)) as [Hwf _].
    { cbn [last_opt rev]. destruct e.
      - subst body. rewrite app_nil_r. unfold last_neg in Hl. destruct (last_opt li) as [b|]; [|discriminate]. exists b. split; [reflexivity|lia].
      - destruct Hshape as [a' [r' [b [E [_ [Eb Hneg]]]]]]. exists b. split; [|exact Hneg].
        rewrite last_opt_app; [exact Eb|]. rewrite E. discriminate. }
    split; [exact Hwf|]. intros P HP. discriminate.
Qed.

(* ---- the same for pair tables of any polarity (Manchester tables, inverted tables): the body is described by
   "zero-free, at most mx long" only; the frame then has to get its leading mark from the lead-in and its trailing
   space from the lead-out (a negative gap, or a frame period the frame fits into) *)
Definition nz_tableb (t : ptable) : bool := forallb (fun p => negb (fst p =? 0) && negb (snd p =? 0)) t.
Definition maxsymA (t : ptable) : Z := fold_right (fun p m => Z.max (Z.abs (fst p) + Z.abs (snd p)) m) 0 t.
Lemma maxsymA_ge t p : In p t -> Z.abs (fst p) + Z.abs (snd p) <= maxsymA t.
Proof. induction t as [|q t IH]; intros H; [destruct H|]. cbn [maxsymA fold_right]. destruct H as [->|H]; [lia|]. specialize (IH H). unfold maxsymA in IH. lia. Qed.
Lemma maxsymA_nonneg t : 0 <= maxsymA t.
Proof. induction t as [|q t IH]; cbn [maxsymA fold_right]; [lia|]. unfold maxsymA in IH. lia. Qed.

Definition bodyW (mx : Z) (l : list Z) : Prop := nonzero l /\ sum_abs l <= mx.
Lemma bodyW_app m1 l1 m2 l2 : bodyW m1 l1 -> bodyW m2 l2 -> bodyW (m1 + m2) (l1 ++ l2).
Proof. intros [A1 A2] [B1 B2]. split; [apply nonzero_app; auto|rewrite sum_abs_app; lia]. Qed.

Lemma render_data_bodyW t syms : nz_tableb t = true -> Forall (fun i => (i < List.length t)%nat) syms ->
  bodyW (Z.of_nat (List.length syms) * maxsymA t) (render_data t syms).
Proof.
  intros Hnz Hs. unfold nz_tableb in Hnz. rewrite forallb_forall in Hnz.
  induction syms as [|i syms IH]; [split; [constructor|cbn; lia]|].
  inversion Hs as [|? ? Hi Hs']; subst. destruct (IH Hs') as [I1 I2].
  unfold render_data. cbn [flat_map]. fold (render_data t syms). unfold sym.
  destruct (nth_error t i) as [[m s]|] eqn:E; [|apply nth_error_None in E; lia].
  pose proof (nth_error_In _ _ E) as Hin. specialize (Hnz _ Hin). pose proof (maxsymA_ge t _ Hin) as Hmx. cbn [fst snd] in *.
  cbn [app]. split; [constructor; [lia|constructor; [lia|exact I1]]|].
  rewrite !sum_abs_cons. cbn [List.length]. rewrite Nat2Z.inj_succ. lia.
Qed.

Fixpoint fields_specW (t : ptable) (xs : list iw) : Z :=
  match xs with
  | [] => 0
  | x :: r => Z.of_nat (symcount (List.length t) (nbits x)) * maxsymA t + fields_specW t r
  end.
Fixpoint pos_specW (t : ptable) (ps : list pos_item) : option Z :=
  match ps with
  | [] => Some 0
  | PTimings x :: r => match pos_specW t r with
                       | Some m => Some (Z.of_nat (symcount (List.length t) (nbits x)) * maxsymA t + m)
                       | None => None end
  | PConst l :: r => match pos_specW t r with
                     | Some m => if forallb (fun x => negb (x =? 0)) l then Some (sum_abs l + m) else None
                     | None => None end
  end.

Lemma field_bodyW msb t x : nz_tableb t = true -> (List.length t = 2 \/ List.length t = 4 \/ List.length t = 16)%nat ->
  exists l, field_durations msb (pairs_to_table t) x = Ok l /\
            bodyW (Z.of_nat (symcount (List.length t) (nbits x)) * maxsymA t) l.
Proof.
  intros Hnz Hlen. destruct (symbols_total msb (List.length t) x Hlen) as [syms [E1 [E2 [E3 _]]]].
  exists (render_data t syms). unfold field_durations.
  replace (List.length (pairs_to_table t)) with (List.length t) by (unfold pairs_to_table; rewrite map_length; reflexivity).
  rewrite E1. cbn [bind]. split; [apply lookup_syms_pairs; exact E3|].
  rewrite <- E2. apply render_data_bodyW; assumption.
Qed.

Lemma fields_specW_sound msb t xs : nz_tableb t = true -> (List.length t = 2 \/ List.length t = 4 \/ List.length t = 16)%nat ->
  exists l, fields_durations msb (pairs_to_table t) xs = Ok l /\ bodyW (fields_specW t xs) l.
Proof.
  intros Hnz Hlen. induction xs as [|x xs [l [E1 E2]]].
  - exists []. split; [reflexivity|]. split; [constructor|cbn; lia].
  - destruct (field_bodyW msb t x Hnz Hlen) as [a [F1 F2]].
    exists (a ++ l). cbn [fields_durations]. rewrite F1, E1. cbn [bind]. split; [reflexivity|].
    cbn [fields_specW]. apply bodyW_app; assumption.
Qed.

Lemma pos_specW_sound msb t ps m : nz_tableb t = true -> (List.length t = 2 \/ List.length t = 4 \/ List.length t = 16)%nat ->
  pos_specW t ps = Some m -> exists l, pos_durations msb (pairs_to_table t) ps = Ok l /\ bodyW m l.
Proof.
  intros Hnz Hlen. revert m. induction ps as [|p ps IH]; intros m H.
  - cbn in H. injection H as <-. exists []. split; [reflexivity|]. split; [constructor|cbn; lia].
  - destruct p as [x|c]; cbn [pos_specW] in H; destruct (pos_specW t ps) as [m'|] eqn:E; try discriminate.
    + injection H as <-. destruct (IH m' eq_refl) as [l [E1 E2]].
      destruct (field_bodyW msb t x Hnz Hlen) as [a [F1 F2]].
      exists (a ++ l). cbn [pos_durations]. rewrite F1, E1. cbn [bind]. split; [reflexivity|]. apply bodyW_app; assumption.
    + destruct (forallb (fun x => negb (x =? 0)) c) eqn:Ec; [|discriminate]. injection H as <-.
      destruct (IH m' eq_refl) as [l [E1 E2]].
      exists (c ++ l). cbn [pos_durations]. rewrite E1. cbn [bind]. split; [reflexivity|].
      apply bodyW_app; [|exact E2]. split; [apply forallb_nonzero; exact Ec|lia].
Qed.

Definition packet_okW (li lo : list Z) (m : Z) : bool :=
  nzb li && nzb lo && head_pos li &&
  match last_opt lo with
  | Some last => if 0 <? last then sum_abs li + m + sum_abs (removelast lo) <? last else true
  | None => false
  end.

Theorem packet_okW_sound li lo m body : packet_okW li lo m = true -> bodyW m body ->
  frame_wf (build_packet li lo body) /\
  (forall P, last_opt lo = Some P -> 0 < P -> sum_abs (build_packet li lo body) = P).
Proof.
  intros H [Hbnz Hbs]. unfold packet_okW in H.
  apply andb_true_iff in H as [H H4]. apply andb_true_iff in H as [H H3]. apply andb_true_iff in H as [H1 H2].
  apply forallb_nonzero in H1. apply forallb_nonzero in H2.
  destruct li as [|a li']; [discriminate|]. cbn [head_pos] in H3.
  assert (nonzero ((a :: li') ++ body ++ lo)) as Hnz by (apply nonzero_app; split; [exact H1|apply nonzero_app; split; assumption]).
  destruct (last_opt lo) as [last|] eqn:El; [|discriminate].
  pose proof (removelast_last _ _ El) as Elo.
  assert (last <> 0) as Hl0 by (rewrite Elo in H2; apply nonzero_app in H2 as [_ H2]; inversion H2; auto).
  destruct (build_packet_wf (a :: li') lo body Hnz) as [Hwf Hp].
  - exists a, (li' ++ body ++ lo). split; [reflexivity|lia].
  - rewrite El. destruct (0 <? last) eqn:Ep.
    + right. split; [lia|]. split; [rewrite !sum_abs_app; lia|]. exists a, (li' ++ body ++ removelast lo). split; [reflexivity|lia].
    + left. lia.
  - split; [exact Hwf|]. rewrite El in Hp. intros P [= <-] HP. apply Hp. exact HP.
Qed.

(* ---- parts, frames, whole encode paths *)
Definition part_ok (p : part) : bool :=
  match p with
  | PConstD l => frame_wfb l
  | PPacket li lo bursts msb pos fields =>
      match as_pairs bursts with
      | Some t =>
          (std_tableb t && len_ok (List.length t) &&
           match pos_spec t pos with
           | Some (e1, m1) => let '(e2, m2) := fields_spec t fields in packet_ok li lo (e1 && e2) (m1 + m2)
           | None => false
           end)
          || (nz_tableb t && len_ok (List.length t) &&
              match pos_specW t pos with
              | Some m1 => packet_okW li lo (m1 + fields_specW t fields)
              | None => false
              end)
      | None => false
      end
  end.

(* total duration of a part when it does not depend on the data *)
Definition part_sum (p : part) : option Z :=
  match p with
  | PConstD l => Some (sum_abs l)
  | PPacket li lo _ _ _ _ => match last_opt lo with Some P => if 0 <? P then Some P else None | None => None end
  end.

Lemma alternatingb_sound l : alternatingb l = true -> alternating l.
Proof.
  induction l as [|a [|b r] IH]; cbn [alternatingb alternating]; auto.
  intros H. apply andb_true_iff in H as [H1 H2]. split; [lia|]. apply IH. exact H2.
Qed.

Lemma frame_wfb_sound l : frame_wfb l = true -> frame_wf l.
Proof.
  unfold frame_wfb. destruct l as [|a r]; [discriminate|]. intros H.
  apply andb_true_iff in H as [H H4]. apply andb_true_iff in H as [H H3]. apply andb_true_iff in H as [H1 H2].
  unfold frame_wf. split; [discriminate|]. split; [apply forallb_nonzero; exact H2|].
  split; [apply alternatingb_sound; exact H3|]. split; [exists a, r; split; [reflexivity|lia]|].
  destruct (last_opt (a :: r)) as [b|]; [|discriminate]. exists b. split; [reflexivity|lia].
Qed.

Theorem part_ok_sound p : part_ok p = true ->
  exists l, render_part p = Ok l /\ frame_wf l /\ (forall s, part_sum p = Some s -> sum_abs l = s).
Proof.
  destruct p as [li lo bursts msb pos fields|l]; cbn [part_ok render_part part_sum].
  - destruct (as_pairs bursts) as [t|] eqn:Et; [|discriminate]. apply as_pairs_table in Et. subst bursts.
    intros H. apply orb_true_iff in H as [H|H].
    2:{ apply andb_true_iff in H as [H H3]. apply andb_true_iff in H as [H1 H2]. apply len_ok_sound in H2.
        destruct (pos_specW t pos) as [m1|] eqn:Ep; [|discriminate].
        destruct (pos_specW_sound msb t pos m1 H1 H2 Ep) as [a [Ea Hba]].
        destruct (fields_specW_sound msb t fields H1 H2) as [b [Eb Hbb]].
        rewrite Ea, Eb. cbn [bind]. exists (build_packet li lo (a ++ b)). split; [reflexivity|].
        destruct (packet_okW_sound li lo (m1 + fields_specW t fields) (a ++ b) H3 (bodyW_app _ _ _ _ Hba Hbb)) as [Hwf Hp].
        split; [exact Hwf|]. intros s Hs. destruct (last_opt lo) as [P|] eqn:El; [|discriminate].
        destruct (0 <? P) eqn:EP; [|discriminate]. injection Hs as <-. apply Hp; [reflexivity|lia]. }
    apply andb_true_iff in H as [H H3]. apply andb_true_iff in H as [H1 H2].
    apply std_tableb_sound in H1. apply len_ok_sound in H2.
    destruct (pos_spec t pos) as [[e1 m1]|] eqn:Ep; [|discriminate].
    destruct (fields_spec t fields) as [e2 m2] eqn:Ef.
    destruct (pos_spec_sound msb t pos e1 m1 H1 H2 Ep) as [a [Ea Hba]].
    destruct (fields_spec_sound msb t fields H1 H2) as [b [Eb Hbb]]. rewrite Ef in Hbb. cbn [fst snd] in Hbb.
    rewrite Ea, Eb. cbn [bind]. exists (build_packet li lo (a ++ b)). split; [reflexivity|].
    destruct (packet_ok_sound li lo (e1 && e2) (m1 + m2) (a ++ b) H3 (body_ok_app _ _ _ _ _ _ Hba Hbb)) as [Hwf Hp].
    split; [exact Hwf|]. intros s Hs. destruct (last_opt lo) as [P|] eqn:El; [|discriminate].
    destruct (0 <? P) eqn:EP; [|discriminate]. injection Hs as <-. apply Hp; [reflexivity|lia].
  - intros H. exists l. split; [reflexivity|]. split; [apply frame_wfb_sound; exact H|]. intros s [= <-]. reflexivity.
Qed.

(* concatenating well-formed frames gives a well-formed frame *)
Lemma alternating_app x y ra rb : alternating (ra ++ [x]) -> alternating (y :: rb) -> x * y < 0 ->
  alternating ((ra ++ [x]) ++ y :: rb).
Proof.
  intros Ha Hb Hxy. induction ra as [|c ra IH].
  - cbn. split; [exact Hxy|exact Hb].
  - destruct ra as [|d ra'].
    + cbn in *. destruct Ha as [H1 _]. repeat split; auto.
    + cbn [app alternating] in *. destruct Ha as [H1 H2]. split; [exact H1|]. apply IH. exact H2.
Qed.

Lemma frame_wf_app a b : frame_wf a -> frame_wf b -> frame_wf (a ++ b).
Proof.
  intros [Ha1 [Ha2 [Ha3 [[ha [ta [Eha Hha]]] [la [Ela Hla]]]]]] [Hb1 [Hb2 [Hb3 [[hb [tb [Ehb Hhb]]] [lb [Elb Hlb]]]]]].
  unfold frame_wf. split; [destruct a; [contradiction|discriminate]|].
  split; [apply nonzero_app; auto|]. split.
  - pose proof (removelast_last _ _ Ela) as Ea. rewrite Ea, Ehb. rewrite Ea in Ha3. rewrite Ehb in Hb3.
    apply alternating_app; auto. nia.
  - split; [exists ha, (ta ++ b); rewrite Eha; split; [reflexivity|exact Hha]|].
    exists lb. split; [|exact Hlb]. rewrite last_opt_app; [exact Elb|exact Hb1].
Qed.

Fixpoint frame_sum (f : frame_model) : option Z :=
  match f with
  | [] => Some 0
  | p :: r => match part_sum p, frame_sum r with Some a, Some b => Some (a + b) | _, _ => None end
  end.

Definition frame_ok (f : frame_model) : bool := negb (is_nil f) && forallb part_ok f.

Theorem frame_ok_sound f : frame_ok f = true ->
  exists l, render_frame f = Ok l /\ frame_wf l /\ (forall s, frame_sum f = Some s -> sum_abs l = s).
Proof.
  unfold frame_ok. intros H. apply andb_true_iff in H as [Hne H].
  induction f as [|p f IH]; [discriminate|].
  cbn [forallb] in H. apply andb_true_iff in H as [Hp Hf].
  destruct (part_ok_sound p Hp) as [a [Ea [Wa Sa]]].
  destruct f as [|q f'].
  - exists a. cbn [render_frame]. rewrite Ea. cbn [bind]. rewrite app_nil_r. split; [reflexivity|]. split; [exact Wa|].
    intros s Hs. cbn [frame_sum] in Hs. destruct (part_sum p) as [x|]; [|discriminate]. injection Hs as <-.
    rewrite (Sa x eq_refl). lia.
  - destruct (IH eq_refl Hf) as [b [Eb [Wb Sb]]].
    exists (a ++ b). cbn [render_frame] in *. rewrite Ea. cbn [bind]. rewrite Eb. cbn [bind].
    split; [reflexivity|]. split; [apply frame_wf_app; assumption|].
    intros s Hs. cbn [frame_sum] in Hs. destruct (part_sum p) as [x|]; [|discriminate].
    destruct (match part_sum q with Some a0 => match frame_sum f' with Some b0 => Some (a0 + b0) | None => None end | None => None end) as [y|] eqn:Ey; [|discriminate].
    injection Hs as <-. rewrite sum_abs_app. rewrite (Sa x eq_refl). rewrite (Sb y); [reflexivity|]. exact Ey.
Qed.

Definition str_eqb (a b : string) : bool := if string_dec a b then true else false.
Fixpoint lookup_param (k : string) (ps : list (string * pval)) : option pval :=
  match ps with [] => None | (k', v) :: r => if str_eqb k k' then Some v else lookup_param k r end.

Definition period_ok (period : option Z) (f : frame_model) : bool :=
  match period with
  | Some P => match frame_sum f with Some s => s =? P | None => false end
  | None => true
  end.

(* one explored encode path *)
Definition c03_leaf (freq : Z) (period : option Z) (count : nat) (m : enc_model) : bool :=
  match m with
  | EncFrames fs ps =>
      Nat.eqb (List.length fs) count && forallb frame_ok fs && forallb (period_ok period) fs &&
      match lookup_param "frequency" ps with Some (PZ f) => f =? freq | _ => false end
  | EncRaise c => c =? 30
  | EncUnknown => false
  end.

Definition c03_holds (freq : Z) (period : option Z) (count : nat) (m : enc_model) : Prop :=
  match m with
  | EncFrames fs ps =>
      exists frames, render_frames fs = Ok frames /\ List.length frames = count /\ Forall frame_wf frames /\
                     (forall P, period = Some P -> Forall (fun f => sum_abs f = P) frames) /\
                     lookup_param "frequency" ps = Some (PZ freq)
  | EncRaise c => c = 30          (* the library's EncodeError *)
  | EncUnknown => False
  end.

Theorem c03_leaf_sound freq period count m : c03_leaf freq period count m = true -> c03_holds freq period count m.
Proof.
  destruct m as [fs ps|c|]; cbn [c03_leaf c03_holds]; [|lia|discriminate].
  intros H. apply andb_true_iff in H as [H H4]. apply andb_true_iff in H as [H H3]. apply andb_true_iff in H as [H1 H2].
  apply Nat.eqb_eq in H1.
  assert (exists frames, render_frames fs = Ok frames /\ List.length frames = List.length fs /\ Forall frame_wf frames /\
          (forall P, period = Some P -> Forall (fun f => sum_abs f = P) frames)) as [frames [E1 [E2 [E3 E4]]]].
  { clear H1 H4. induction fs as [|f fs IH].
    - exists []. repeat split; constructor.
    - cbn [forallb] in H2, H3. apply andb_true_iff in H2 as [Hf H2]. apply andb_true_iff in H3 as [Hpf H3].
      destruct (IH H2 H3) as [frames [E1 [E2 [E3 E4]]]]. destruct (frame_ok_sound f Hf) as [l [El [Wl Sl]]].
      exists (l :: frames). cbn [render_frames]. rewrite El. cbn [bind]. rewrite E1. cbn [bind].
      split; [reflexivity|]. split; [cbn [List.length]; lia|]. split; [constructor; assumption|].
      intros P HP. constructor; [|apply E4; exact HP]. subst period. cbn [period_ok] in Hpf.
      destruct (frame_sum f) as [s|] eqn:Es; [|discriminate]. rewrite (Sl s eq_refl). lia. }
  exists frames. split; [exact E1|]. split; [lia|]. split; [exact E3|]. split; [exact E4|].
  destruct (lookup_param "frequency" ps) as [[f|x]|]; try discriminate. f_equal. f_equal. lia.
Qed.

(* lifted to a whole decision tree: whatever path the arguments select *)
Theorem c03_tree_sound freq period count (t : tree enc_model) :
  tree_all (c03_leaf freq period count) t = true -> c03_holds freq period count (tree_eval t).
Proof. intros H. apply c03_leaf_sound. apply tree_all_sound. exact H. Qed.
