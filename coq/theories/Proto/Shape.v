(* Value-independent facts about rendered fields: how many symbols a field of a given width emits,
   that rendering never raises for 2/4/16-entry tables, and what the emitted durations look like for a
   pair table of standard polarity (every symbol = a mark followed by a space). *)
From Coq Require Import ZArith List Bool Lia ZifyBool ZifyNat Arith.
Require Import PyIR.Base.Result PyIR.IW.IW PyIR.IW.IWProps PyIR.IW.Timings
               PyIR.Engine.Match PyIR.Engine.Render PyIR.Engine.RenderProps PyIR.Engine.Parse PyIR.Engine.ParseProps
               PyIR.Proto.Descriptor.
Import ListNotations.
Open Scope Z_scope.
Ltac Zify.zify_post_hook ::= Z.to_euclidean_division_equations.

Definition symcount (tl : nat) (w : Z) : nat := ((Z.to_nat w + bps tl - 1) / bps tl)%nat.

(* rendering a field to symbol indices is total for tables of 2, 4 and 16 entries, whatever the value *)
Lemma symbols_total msb tl x : (tl = 2 \/ tl = 4 \/ tl = 16)%nat ->
  exists syms, symbols msb tl x = Ok syms /\ length syms = symcount tl (nbits x) /\ Forall (fun i => (i < tl)%nat) syms
               /\ flat_map (sym_to_bits tl) syms = padded_bits msb tl x.
Proof.
  intros Htl. pose proof (padded_bits_length msb tl x) as Hl. unfold symbols, symcount.
  set (n := Z.to_nat (nbits x)) in *.
  destruct Htl as [E|[E|E]]; subst tl; cbn [Nat.eqb bps] in *.
  - exists (map b2n (padded_bits msb 2 x)). split; [reflexivity|]. split; [|split].
    + rewrite map_length, Hl. change (pad_count 2 n) with 0%nat. lia.
    + apply Forall_forall. intros i Hi. apply in_map_iff in Hi as [b [<- _]]. destruct b; cbn; lia.
    + apply map_b2n_back.
  - change (pad_count 4 n) with (n mod 2)%nat in Hl.
    assert (Nat.even (length (padded_bits msb 4 x)) = true) as He.
    { rewrite Hl. rewrite Nat.even_spec. exists ((n + n mod 2) / 2)%nat. lia. }
    destruct (symbols2_ok _ He) as [syms [E1 [E2 [E3 E4]]]].
    exists syms. split; [exact E1|]. split; [rewrite Hl in E3; lia|]. split; [exact E4|exact E2].
  - change (pad_count 16 n) with ((4 - n mod 4) mod 4)%nat in Hl.
    assert (length (padded_bits msb 16 x) mod 4 = 0)%nat as He by (rewrite Hl; lia).
    destruct (symbols4_ok _ He) as [syms [E1 [E2 [E3 E4]]]].
    exists syms. split; [exact E1|]. split; [rewrite Hl in E3; lia|]. split; [exact E4|exact E2].
Qed.

(* pair-table view *)
Definition pairs_to_table (t : ptable) : table := map (fun p => [fst p; snd p]) t.

Lemma as_pairs_table b t : as_pairs b = Some t -> b = pairs_to_table t.
Proof.
  revert t. induction b as [|e b IH]; intros t H; cbn in H.
  - injection H as <-. reflexivity.
  - destruct e as [|m [|s [|? ?]]]; try discriminate.
    destruct (as_pairs b) as [t'|] eqn:E; [|discriminate]. injection H as <-.
    cbn. f_equal. apply IH. reflexivity.
Qed.

Lemma lookup_syms_pairs t syms : Forall (fun i => (i < length t)%nat) syms ->
  lookup_syms (pairs_to_table t) syms = Ok (render_data t syms).
Proof.
  induction syms as [|i syms IH]; intros H; [reflexivity|]. inversion H; subst.
  cbn [lookup_syms]. unfold pairs_to_table at 1. rewrite nth_error_map.
  unfold render_data. cbn [flat_map]. unfold sym at 1.
  destruct (nth_error t i) as [[m s]|] eqn:E; [|apply nth_error_None in E; lia].
  cbn [option_map]. fold (pairs_to_table t). rewrite IH by assumption. reflexivity.
Qed.

(* all fields of a packet, rendered through a pair table of 2/4/16 entries: total, and the data of
   [sum of symcounts] valid symbols *)
Lemma fields_durations_pairs msb t xs : (length t = 2 \/ length t = 4 \/ length t = 16)%nat ->
  exists syms, fields_durations msb (pairs_to_table t) xs = Ok (render_data t syms)
    /\ Forall (fun i => (i < length t)%nat) syms
    /\ length syms = fold_right (fun x n => (symcount (length t) (nbits x) + n)%nat) 0%nat xs
    /\ flat_map (sym_to_bits (length t)) syms = flat_map (padded_bits msb (length t)) xs.
Proof.
  intros Htl. induction xs as [|x xs [syms [E1 [E2 [E3 E4]]]]].
  - exists []. repeat split; constructor.
  - assert (length (pairs_to_table t) = length t) as Hlt by (unfold pairs_to_table; apply map_length).
    destruct (symbols_total msb (length t) x Htl) as [s1 [F1 [F2 [F3 F4]]]].
    exists (s1 ++ syms). cbn [fields_durations]. unfold field_durations. rewrite Hlt, F1. cbn [bind].
    rewrite lookup_syms_pairs by exact F3. cbn [bind]. rewrite E1. cbn [bind].
    split; [unfold render_data; rewrite flat_map_app; reflexivity|].
    split; [apply Forall_app; auto|]. split.
    + rewrite app_length, F2, E3. reflexivity.
    + rewrite flat_map_app, F4, E4. reflexivity.
Qed.

(* ------------------------------------------------------------------ what rendered data looks like (standard polarity) *)
Definition maxsym (t : ptable) : Z := fold_right (fun p m => Z.max (fst p - snd p) m) 0 t.

Lemma maxsym_ge t p : In p t -> fst p - snd p <= maxsym t.
Proof. induction t as [|q t IH]; intros H; [destruct H|]. cbn [maxsym fold_right]. destruct H as [->|H]; [lia|]. specialize (IH H). unfold maxsym in IH. lia. Qed.
Lemma maxsym_nonneg t : 0 <= maxsym t.
Proof. induction t as [|q t IH]; cbn [maxsym fold_right]; [lia|]. unfold maxsym in IH. lia. Qed.

(* a body: durations between lead-in and lead-out.  [body_ok e mx l]: zero-free; when non-empty it starts with a
   mark and ends with a space; e tells emptiness; its total duration is at most mx *)
Definition body_ok (e : bool) (mx : Z) (l : list Z) : Prop :=
  nonzero l /\ sum_abs l <= mx /\
  (if e then l = [] else exists a r b, l = a :: r /\ 0 < a /\ last_opt l = Some b /\ b < 0).

Lemma render_data_body t syms : std_table t -> Forall (fun i => (i < length t)%nat) syms ->
  body_ok (match syms with [] => true | _ => false end) (Z.of_nat (length syms) * maxsym t) (render_data t syms).
Proof.
  intros Hstd Hs. unfold std_table in Hstd. rewrite Forall_forall in Hstd.
  assert (forall i, (i < length t)%nat -> exists m s, sym t i = [m; s] /\ 0 < m /\ s < 0 /\ m - s <= maxsym t) as Hsym.
  { intros i Hi. unfold sym. destruct (nth_error t i) as [[m s]|] eqn:E; [|apply nth_error_None in E; lia].
    pose proof (nth_error_In _ _ E) as Hin. destruct (Hstd _ Hin). pose proof (maxsym_ge t _ Hin). cbn in *.
    exists m, s. auto. }
  induction syms as [|i syms IH].
  - split; [constructor|]. split; [cbn; lia|reflexivity].
  - inversion Hs as [|? ? Hi Hs']; subst. destruct (Hsym i Hi) as [m [s [E [Hm [Hn Hmx]]]]].
    destruct (IH Hs') as [I1 [I2 I3]].
    unfold render_data. cbn [flat_map]. rewrite E. fold (render_data t syms). cbn [app].
    split; [constructor; [lia|constructor; [lia|exact I1]]|]. split.
    + rewrite !sum_abs_cons. cbn [length]. rewrite Nat2Z.inj_succ. lia.
    + exists m, (s :: render_data t syms). destruct syms as [|j syms'].
      * cbn. exists s. auto.
      * destruct I3 as [a [r [b [E1 [E2 [E3 E4]]]]]]. exists b. repeat split; auto.
        rewrite E1 in *. unfold last_opt in *. cbn [rev] in *. destruct (rev r) as [|y q]; cbn in *; congruence.
Qed.

Lemma last_opt_cons_ne a l : l <> [] -> last_opt (a :: l) = last_opt l.
Proof. intros H. change (a :: l) with ([a] ++ l). apply last_opt_app. exact H. Qed.

Lemma body_ok_app e1 m1 l1 e2 m2 l2 : body_ok e1 m1 l1 -> body_ok e2 m2 l2 -> body_ok (e1 && e2) (m1 + m2) (l1 ++ l2).
Proof.
  intros [A1 [A2 A3]] [B1 [B2 B3]]. split; [apply nonzero_app; auto|]. split; [rewrite sum_abs_app; lia|].
  destruct e1; cbn [andb].
  - subst l1. cbn [app]. exact B3.
  - destruct A3 as [a [r [b [E1 [E2 [E3 E4]]]]]]. destruct e2.
    + subst l2. rewrite app_nil_r. exists a, r, b. auto.
    + destruct B3 as [a' [r' [b' [F1 [F2 [F3 F4]]]]]]. exists a, (r ++ l2), b'. rewrite E1. repeat split; auto.
      rewrite <- E1. rewrite last_opt_app; [exact F3|]. rewrite F1. discriminate.
Qed.

(* decidable description of a constant duration list as a body *)
Definition const_body_ok (l : list Z) : bool :=
  forallb (fun x => negb (x =? 0)) l &&
  match l with [] => true | a :: _ => (0 <? a) && match last_opt l with Some b => b <? 0 | None => false end end.

Lemma forallb_nonzero l : forallb (fun x => negb (x =? 0)) l = true -> nonzero l.
Proof. intros H. rewrite forallb_forall in H. apply Forall_forall. intros x Hx. specialize (H x Hx). lia. Qed.

Lemma const_body_sound l : const_body_ok l = true ->
  body_ok (match l with [] => true | _ => false end) (sum_abs l) l.
Proof.
  unfold const_body_ok. intros H. apply andb_true_iff in H as [H1 H2]. split; [apply forallb_nonzero; exact H1|].
  split; [lia|]. destruct l as [|a r]; [reflexivity|].
  apply andb_true_iff in H2 as [H2 H3]. destruct (last_opt (a :: r)) as [b|] eqn:E; [|discriminate].
  exists a, r, b. repeat split; auto; lia.
Qed.
