(* C02, second half: the model of the library's own renderer (Engine/Render.v: IntegerWrapper.timings through a two-entry
   symbol table, _build_packet with its run-compression and frame-period gap) computes the IRP signal of the packet's plan.
   Together with plan_agree_sound this makes the per-protocol statement one about render_part itself. *)
From Coq Require Import ZArith List Bool Lia ZifyBool.
Require Import PyIR.Base.Result PyIR.IW.IW PyIR.IW.IWProps PyIR.IW.Timings PyIR.Engine.Render PyIR.Engine.RenderProps
               PyIR.Proto.Model PyIR.Proto.Irp.
Import ListNotations.
Open Scope Z_scope.


(* ------------------------------------------------------------------ one bit field through a two-entry table *)
Definition sel (s0 s1 : list Z) (b : bool) : list Z := if b then s1 else s0.

Lemma lookup_syms_b2n s0 s1 bits : lookup_syms [s0; s1] (map b2n bits) = Ok (flat_map (sel s0 s1) bits).
Proof.
  induction bits as [|b r IH]; [reflexivity|]. cbn [map lookup_syms flat_map].
  destruct b; cbn [b2n nth_error]; rewrite IH; reflexivity.
Qed.
Lemma lookup_all_b2n s0 s1 bits : lookup_all [s0; s1] (map b2n bits) = Some (flat_map (sel s0 s1) bits).
Proof.
  induction bits as [|b r IH]; [reflexivity|]. cbn [map lookup_all flat_map].
  destruct b; cbn [b2n nth_error]; rewrite IH; reflexivity.
Qed.
Lemma chunks_one msb : forall bits, chunks (length bits) 1 msb bits = Some (map b2n bits).
Proof.
  induction bits as [|b r IH]; [reflexivity|]. cbn [length chunks]. 
  replace (Nat.ltb (S (length r)) 1) with false by (symmetry; apply Nat.ltb_ge; lia).
  cbn [firstn skipn]. rewrite IH. destruct msb, b; reflexivity.
Qed.

Lemma bits_of_field msb x : canonical x ->
  bits_of msb (value x) (Z.to_nat (nbits x)) = if msb then bits_msb x else iter_bits x.
Proof. intros Hx. unfold bits_of, bits_msb. rewrite (iter_bits_testbits x Hx). reflexivity. Qed.

Lemma bits_of_length msb v w : length (bits_of msb v w) = w.
Proof. unfold bits_of. destruct msb; rewrite ?rev_length, map_length, seq_length; reflexivity. Qed.

Theorem field_durations_is_irp msb s0 s1 x : canonical x ->
  field_durations msb [s0; s1] x = Ok (flat_map (sel s0 s1) (bits_of msb (value x) (Z.to_nat (nbits x)))) /\
  bits_durs [s0; s1] msb (value x) (Z.to_nat (nbits x)) = Some (flat_map (sel s0 s1) (bits_of msb (value x) (Z.to_nat (nbits x)))).
Proof.
  intros Hx. split.
  - unfold field_durations, symbols. cbn [length Nat.eqb]. unfold padded_bits, pad_count. cbn [Nat.eqb Nat.ltb Nat.leb].
    rewrite (bits_of_field msb x Hx).
    destruct msb; cbn [repeat app bind]; rewrite ?app_nil_r; apply lookup_syms_b2n.
  - unfold bits_durs. cbn [length chunk_size].
    pose proof (chunks_one msb (bits_of msb (value x) (Z.to_nat (nbits x)))) as H. rewrite bits_of_length in H. rewrite H.
    apply lookup_all_b2n.
Qed.

(* ------------------------------------------------------------------ a whole packet *)
Definition field_atom (t : list (list Z)) (msb : bool) (x : iw) : atom := ABits t msb (value x) (Z.to_nat (nbits x)).
Definition field_body (s0 s1 : list Z) (msb : bool) (x : iw) : list Z :=
  flat_map (sel s0 s1) (bits_of msb (value x) (Z.to_nat (nbits x))).

(* the IRP plan of one _build_packet call: lead-in, the fields in order, lead-out - a positive last lead-out entry is a
   frame period (an extent) *)
Definition durs_atom (l : list Z) : list atom := match l with [] => [] | _ => [ADurs l] end.
Definition packet_atoms (li lo : list Z) (t : list (list Z)) (msb : bool) (fields : list iw) : list atom :=
  durs_atom li ++ map (field_atom t msb) fields ++
  match last_opt lo with
  | Some last => if 0 <? last then durs_atom (removelast lo) ++ [AExt last] else durs_atom lo
  | None => []
  end.

Lemma frame_durs_durs_atom acc l rest : frame_durs acc (durs_atom l ++ rest) = frame_durs (acc ++ l) rest.
Proof. destruct l; cbn [durs_atom app frame_durs]; [rewrite app_nil_r|]; reflexivity. Qed.

Lemma fields_durations_irp msb s0 s1 : forall fields, Forall canonical fields ->
  fields_durations msb [s0; s1] fields = Ok (flat_map (field_body s0 s1 msb) fields).
Proof.
  induction fields as [|x r IH]; intros H; [reflexivity|]. inversion H as [|? ? Hx Hr]; subst.
  cbn [fields_durations flat_map]. rewrite (proj1 (field_durations_is_irp msb s0 s1 x Hx)). cbn [bind].
  rewrite (IH Hr). reflexivity.
Qed.

Lemma frame_durs_fields msb s0 s1 : forall fields acc rest, Forall canonical fields ->
  frame_durs acc (map (field_atom [s0; s1] msb) fields ++ rest) = frame_durs (acc ++ flat_map (field_body s0 s1 msb) fields) rest.
Proof.
  induction fields as [|x r IH]; intros acc rest H; [cbn; rewrite app_nil_r; reflexivity|].
  inversion H as [|? ? Hx Hr]; subst. cbn [map app frame_durs field_atom flat_map].
  rewrite (proj2 (field_durations_is_irp msb s0 s1 x Hx)). rewrite (IH _ _ Hr). rewrite <- app_assoc. reflexivity.
Qed.

(* the renderer model on a packet without positional items = the IRP signal of the packet's plan *)
Theorem render_packet_is_irp li lo s0 s1 msb fields :
  Forall canonical fields ->
  (forall last, last_opt lo = Some last -> 0 < last ->
     let acc := li ++ flat_map (field_body s0 s1 msb) fields ++ removelast lo in
     nonzero acc /\ acc <> [] /\ sum_abs acc < last) ->
  exists l, render_part (PPacket li lo [s0; s1] msb [] fields) = Ok l /\
            frame_signal (packet_atoms li lo [s0; s1] msb fields) = Some l.
Proof.
  intros Hc Hper. unfold render_part. cbn [pos_durations bind]. rewrite (fields_durations_irp msb s0 s1 fields Hc). cbn [bind app].
  eexists. split; [reflexivity|].
  unfold frame_signal, packet_atoms. rewrite frame_durs_durs_atom. cbn [app]. rewrite (frame_durs_fields msb s0 s1 fields li _ Hc).
  unfold build_packet. destruct (last_opt lo) as [last|] eqn:El.
  - destruct (0 <? last) eqn:Ep.
    + destruct (Hper last eq_refl ltac:(lia)) as [Hnz [Hne Hlt]]. cbv zeta in *.
      rewrite frame_durs_durs_atom. cbn [frame_durs]. rewrite <- app_assoc.
      set (acc := li ++ flat_map (field_body s0 s1 msb) fields ++ removelast lo) in *.
      replace (sum_abs acc <? last) with true by lia. cbn [frame_durs].
      rewrite compress_sum_abs. f_equal.
      replace (sum_abs acc - last) with (- (last - sum_abs acc)) by lia.
      symmetry. apply append_gap_compress; [exact Hnz|lia|exact Hne].
    + rewrite <- (app_nil_r (durs_atom lo)). rewrite frame_durs_durs_atom. cbn [frame_durs]. rewrite <- app_assoc. reflexivity.
  - cbn [frame_durs]. reflexivity.
Qed.


(* ------------------------------------------------------------------ a decidable form of the side condition *)
Fixpoint nonzerob (l : list Z) : bool := match l with [] => true | x :: r => negb (x =? 0) && nonzerob r end.
Lemma nonzerob_sound l : nonzerob l = true -> nonzero l.
Proof. induction l as [|x r IH]; cbn; intros H; [constructor|]. apply andb_true_iff in H as [H1 H2]. constructor; [lia|apply IH; exact H2]. Qed.

Lemma sel_bits_sum_abs s0 s1 bits :
  sum_abs (flat_map (sel s0 s1) bits) <= Z.of_nat (length bits) * Z.max (sum_abs s0) (sum_abs s1).
Proof.
  induction bits as [|b r IH]; [cbn; lia|]. cbn [flat_map length]. rewrite sum_abs_app.
  assert (sum_abs (sel s0 s1 b) <= Z.max (sum_abs s0) (sum_abs s1)) by (destruct b; cbn [sel]; lia). nia.
Qed.
Lemma sel_bits_nonzero s0 s1 bits : nonzero s0 -> nonzero s1 -> nonzero (flat_map (sel s0 s1) bits).
Proof.
  intros H0 H1. induction bits as [|b r IH]; [constructor|]. cbn [flat_map]. apply nonzero_app. split; [destruct b; assumption|exact IH].
Qed.

Definition total_width (fields : list iw) : Z := fold_right (fun x s => Z.of_nat (Z.to_nat (nbits x)) + s) 0 fields.

Lemma fields_body_sum_abs s0 s1 msb : forall fields,
  sum_abs (flat_map (field_body s0 s1 msb) fields) <= total_width fields * Z.max (sum_abs s0) (sum_abs s1).
Proof.
  induction fields as [|x r IH]; [cbn; lia|]. cbn [flat_map total_width fold_right]. rewrite sum_abs_app. fold (total_width r).
  pose proof (sel_bits_sum_abs s0 s1 (bits_of msb (value x) (Z.to_nat (nbits x)))) as H. rewrite bits_of_length in H.
  unfold field_body at 1. pose proof (sum_abs_nonneg s0). pose proof (sum_abs_nonneg s1). nia.
Qed.
Lemma fields_body_nonzero s0 s1 msb : nonzero s0 -> nonzero s1 -> forall fields, nonzero (flat_map (field_body s0 s1 msb) fields).
Proof.
  intros H0 H1. induction fields as [|x r IH]; [constructor|]. cbn [flat_map]. apply nonzero_app. split; [apply sel_bits_nonzero; assumption|exact IH].
Qed.

(* tw = an upper bound of the total number of bits of the packet *)
Definition packet_ok (li lo s0 s1 : list Z) (tw : Z) : bool :=
  match last_opt lo with
  | Some last =>
      if 0 <? last then
        nonzerob li && nonzerob s0 && nonzerob s1 && nonzerob (removelast lo) &&
        negb (match li with [] => true | _ => false end) &&
        (sum_abs li + tw * Z.max (sum_abs s0) (sum_abs s1) + sum_abs (removelast lo) <? last)
      else true
  | None => true
  end.

Theorem render_packet_is_irp_b li lo s0 s1 msb fields tw :
  Forall canonical fields -> total_width fields <= tw -> packet_ok li lo s0 s1 tw = true ->
  exists l, render_part (PPacket li lo [s0; s1] msb [] fields) = Ok l /\
            frame_signal (packet_atoms li lo [s0; s1] msb fields) = Some l.
Proof.
  intros Hc Htw Hok. apply render_packet_is_irp; [exact Hc|].
  intros last El Hp. cbv zeta. unfold packet_ok in Hok. rewrite El in Hok. replace (0 <? last) with true in Hok by lia.
  repeat (apply andb_true_iff in Hok as [Hok ?]).
  apply nonzerob_sound in Hok. repeat match goal with H : nonzerob _ = true |- _ => apply nonzerob_sound in H end.
  split; [|split].
  - apply nonzero_app. split; [assumption|]. apply nonzero_app. split; [apply fields_body_nonzero; assumption|assumption].
  - destruct li; [discriminate|discriminate].
  - rewrite !sum_abs_app. pose proof (fields_body_sum_abs s0 s1 msb fields).
    pose proof (sum_abs_nonneg s0). pose proof (sum_abs_nonneg s1).
    assert (0 <= Z.max (sum_abs s0) (sum_abs s1)) by lia. nia.
Qed.

(* the frame-level form of plan agreement *)
Lemma frame_agree_signal ranges env a b : env_ok ranges env ->
  frame_agree ranges a b = true -> forallb (deps_ok (length ranges)) a = true ->
  frame_signal (map (inst_slot env) a) = frame_signal (map (inst_slot env) b).
Proof. intros He H Hd. unfold frame_signal. rewrite (frame_agree_sound ranges env He a b [] H Hd). reflexivity. Qed.

