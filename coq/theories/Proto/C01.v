(* C01 / C04 (acceptance) — what the generated per-protocol proofs use: the protocol-level round trip packaged
   with totality of rendering, and canonicity lemmas for the field expressions the translator emits. *)
From Coq Require Import ZArith List Bool Lia ZifyBool String.
Require Import PyIR.Base.Result PyIR.IW.IW PyIR.IW.IWProps PyIR.Engine.Match PyIR.Engine.Render PyIR.Engine.Parse
               PyIR.Proto.Descriptor PyIR.Proto.Model PyIR.Proto.Shape PyIR.Proto.C03Check PyIR.Proto.RoundTrip.
Import ListNotations.
Open Scope Z_scope.

Theorem c01_generic D tol xs :
  rt_ok D tol = true -> Forall canonical xs -> map nbits xs = widths (d_params D) ->
  (exists frame, render_part (PPacket (d_lead_in D) (d_lead_out D) (d_bursts D) (d_msb D) [] xs) = Ok frame) /\
  (forall frame ds,
     render_part (PPacket (d_lead_in D) (d_lead_out D) (d_bursts D) (d_msb D) [] xs) = Ok frame ->
     perturbed tol (period_of D) frame ds ->
     exists t, as_pairs (d_bursts D) = Some t /\ base_decode D t tol ds = Ok xs).
Proof.
  intros Hok Hc Hw. split.
  - unfold rt_ok in Hok. destruct (as_pairs (d_bursts D)) as [t|] eqn:Et; [|discriminate].
    pose proof (as_pairs_table _ _ Et) as Eb.
    assert (List.length t = 2 \/ List.length t = 4 \/ List.length t = 16)%nat as Hl.
    { destruct (PyIR.Engine.ParseM.is_manchester t).
      - unfold rtM_ok_t in Hok. destruct t as [|[m s] [|[s' m'] [|q r]]]; try discriminate. left; reflexivity.
      - unfold rt_ok_t in Hok.
        repeat match type of Hok with (_ && _ = true) => let H := fresh "H" in apply andb_true_iff in Hok as [Hok H] end.
        apply len_ok_sound. assumption. }
    destruct (fields_durations_pairs (d_msb D) t xs Hl) as [syms [Efd _]].
    cbn [render_part pos_durations bind]. rewrite Eb, Efd. cbn [bind]. eexists. reflexivity.
  - intros frame ds Hr Hp. eapply base_decode_roundtrip; eauto.
Qed.

(* ---- canonicity of emitted field expressions *)
Lemma canon_mk v n : 0 <= v -> 0 <= n -> canonical (mk v (Some n)).
Proof. apply mk_canonical. Qed.

Lemma slice_bits_nonneg x s c : 0 <= slice_bits x s c.
Proof. unfold slice_bits. apply build_range. Qed.

Lemma canon_invert x : 0 <= nbits x -> canonical (invert_bits x None).
Proof. intros H. apply invert_bits_canonical. exact H. Qed.

Lemma canon_slice_iw x inv w s : 0 < w -> 0 <= s -> canonical (slice_iw x inv (Some w) (Some s)).
Proof.
  intros Hw Hs. unfold slice_iw, slice_val.
  destruct (negb (s =? 0) && (0 <=? w)) eqn:E1.
  - destruct (s <? 0) eqn:E2; [lia|].
    assert (canonical (mk (slice_bits x s (w + 1)) (Some w))) as Hc by (apply mk_canonical; [apply slice_bits_nonneg|lia]).
    destruct inv; [|exact Hc]. apply canon_invert. cbn. lia.
  - destruct (0 <? w) eqn:E3; [|lia].
    assert (canonical (mk (slice_bits x 0 w) (Some w))) as Hc by (apply mk_canonical; [apply slice_bits_nonneg|lia]).
    destruct inv; [|exact Hc]. apply canon_invert. cbn. lia.
Qed.

Lemma canon_slice_iw_nostep x inv w : 0 < w -> canonical (slice_iw x inv (Some w) None).
Proof.
  intros Hw. unfold slice_iw, slice_val. destruct (0 <? w) eqn:E3; [|lia].
  assert (canonical (mk (slice_bits x 0 w) (Some w))) as Hc by (apply mk_canonical; [apply slice_bits_nonneg|lia]).
  destruct inv; [|exact Hc]. apply canon_invert. cbn. lia.
Qed.

Lemma canon_invert_bits x n : 0 <= n -> canonical (invert_bits x (Some n)).
Proof.
  intros Hn. unfold invert_bits. apply mk_canonical; [|exact Hn].
  apply build_range.
Qed.
Lemma canon_reverse x n : 0 <= n -> canonical (reverse_bit_order x (Some n)).
Proof. intros Hn. unfold reverse_bit_order. apply mk_canonical; [|exact Hn]. apply build_range. Qed.

(* the value held by a directly wrapped argument inside its range *)
Lemma mk_value_small v n : 0 <= v < 2 ^ n -> 0 <= n -> value (mk v (Some n)) = v.
Proof. intros Hv Hn. destruct (mk_value v n ltac:(lia) Hn) as [E _]. rewrite E. apply Z.mod_small. exact Hv. Qed.

Ltac canon_tac :=
  repeat (apply Forall_cons || apply Forall_nil);
  first [ apply canon_mk; lia
        | apply canon_slice_iw; lia
        | apply canon_slice_iw_nostep; lia
        | apply canon_invert_bits; lia
        | apply canon_reverse; lia ].

(* evaluate the conditions of a decode tree on the encoder's own field expressions *)
Ltac dec_tac :=
  repeat (cbn [tree_eval];
          first [ rewrite Z.eqb_refl; cbn [negb]
                | match goal with
                  | |- context [if ?c then _ else _] =>
                      let v := eval vm_compute in c in
                      match v with
                      | true => change c with true
                      | false => change c with false
                      end; cbv iota
                  end ]);
  cbn [tree_eval].

(* ---- C05 helpers: a decoded field is what the encoder would have produced *)
Lemma iw_ext x y : value x = value y -> nbits x = nbits y -> x = y.
Proof. destruct x, y. cbn. intros -> ->. reflexivity. Qed.

Lemma canon_id x w : canonical x -> nbits x = w -> mk (value x) (Some w) = x.
Proof.
  intros [Hn Hv] <-. destruct x as [v n]. cbn [mk value nbits] in *. rewrite mask_small by lia. reflexivity.
Qed.

(* split a hypothesis  tree_eval (...) = DecOk ov  along the decode tree, keeping the equations of the passing path.
   Inversion lemmas are used instead of `destruct c eqn:` on the (large) condition terms: the kernel re-check of the
   dependent match that destruct builds does not come back on these open Z-heavy terms. *)
Lemma node_inv (c : bool) (t f : tree dec_model) r :
  tree_eval (Node c t f) = r -> (c = true /\ tree_eval t = r) \/ (c = false /\ tree_eval f = r).
Proof. cbn [tree_eval]. destruct c; intros H; [left|right]; split; auto. Qed.
Lemma leaf_raise_inv c ov : tree_eval (Leaf (DecRaise c)) = DecOk ov -> False.
Proof. discriminate. Qed.
Lemma leaf_unknown_inv ov : tree_eval (Leaf DecUnknown) = DecOk ov -> False.
Proof. discriminate. Qed.
Lemma negb_eqb_false a b : negb (a =? b) = false -> a = b.
Proof. intros H. apply negb_false_iff in H. apply Z.eqb_eq in H. exact H. Qed.
Lemma negb_eqb_true a b : negb (a =? b) = true -> a <> b.
Proof. intros H. apply negb_true_iff in H. apply Z.eqb_neq in H. exact H. Qed.

Ltac cond_to_eq H :=
  first [ apply negb_eqb_false in H
        | apply negb_eqb_true in H
        | apply Z.eqb_eq in H
        | apply Z.eqb_neq in H
        | idtac ].

Ltac split_tree H :=
  repeat match type of H with
         | tree_eval (Node _ _ _) = _ =>
             let E := fresh "Ec" in
             apply node_inv in H; destruct H as [[E H]|[E H]]; cond_to_eq E
         | tree_eval (Leaf (DecRaise _)) = DecOk _ => exfalso; exact (leaf_raise_inv _ _ H)
         | tree_eval (Leaf DecUnknown) = DecOk _ => exfalso; exact (leaf_unknown_inv _ H)
         end.

(* widths of the emitted field expressions, without computing their values *)
Lemma slice_iw_nbits x inv w s : 0 < w -> 0 <= s -> nbits (slice_iw x inv (Some w) (Some s)) = w.
Proof.
  intros Hw Hs. unfold slice_iw, slice_val.
  destruct (negb (s =? 0) && (0 <=? w)) eqn:E1.
  - destruct (s <? 0) eqn:E2; [lia|]. destruct inv; reflexivity.
  - destruct (0 <? w) eqn:E3; [|lia]. destruct inv; reflexivity.
Qed.
Lemma slice_iw_nostep_nbits x inv w : 0 < w -> nbits (slice_iw x inv (Some w) None) = w.
Proof. intros Hw. unfold slice_iw, slice_val. destruct (0 <? w) eqn:E3; [|lia]. destruct inv; reflexivity. Qed.

(* everything is matched syntactically (constr_eq): non-linear Ltac patterns and `assumption` compare up to
   conversion, which on these open Z-heavy field expressions does not come back *)
Ltac hyp_eq :=
  match goal with
  | H : ?a = ?b |- ?c = ?d => first [ constr_eq a c; constr_eq b d; exact H | constr_eq a d; constr_eq b c; exact (eq_sym H) ]
  end.

Ltac same_tac := match goal with |- ?x = ?y => constr_eq x y; reflexivity end.

Ltac nbits_tac :=
  repeat match goal with H : nbits ?f = _ |- context [nbits ?g] => constr_eq f g; rewrite H end;
  first [ rewrite slice_iw_nbits by lia
        | rewrite slice_iw_nostep_nbits by lia
        | idtac ];
  first [ same_tac
        | match goal with
          | |- _ = nbits (mk _ (Some _)) => reflexivity
          | |- nbits (mk _ (Some _)) = _ => reflexivity
          end ].

Ltac field_tac :=
  first [ same_tac
        | match goal with
          | Hc : canonical ?g, Hn : nbits ?h = ?v |- ?f = mk ?c (Some ?w) =>
              constr_eq f g; constr_eq f h; constr_eq w v;
              refine (eq_trans (eq_sym (canon_id f w Hc Hn)) _);
              apply (f_equal (fun z => mk z (Some w))); first [hyp_eq | congruence]
          end
        | apply iw_ext; [first [hyp_eq | congruence] | nbits_tac] ].

Ltac fields_tac :=
  repeat match goal with
         | Hc : canonical ?f, Hn : nbits ?g = ?w |- context [mk (value ?h) (Some ?v)] =>
             constr_eq f g; constr_eq f h; constr_eq w v; rewrite (canon_id f w Hc Hn)
         end;
  repeat match goal with |- _ :: _ = _ :: _ => apply (f_equal2 cons) end;
  field_tac.
