(* C02: the signal of an (unrolled) IRP specification, and when two signal plans - the one traced from encode() and the
   one translated from the protocol's irp string - describe the same signal for EVERY parameter assignment.

   A plan is a list of frames; a frame is a list of slots: constant durations, a bit field whose value is a function of
   some of the protocol parameters, or an extent (frame period).  The semantics below is the IRP one: bit fields are sent
   bit by bit in the general-spec order through the bitspec table (chunks of log2 |table| bits, the first bit sent being
   the most significant one of its chunk), consecutive durations of the same sign merge, an extent is a gap that fills the
   frame up to the given period.  It does not use the models of IntegerWrapper.timings or _build_packet. *)
From Coq Require Import ZArith List Bool Lia ZifyBool.
Require Import PyIR.Base.Result PyIR.Engine.Render.
Import ListNotations.
Open Scope Z_scope.

(* ------------------------------------------------------------------ atoms and their signal *)
Inductive atom :=
  | ADurs (l : list Z)
  | ABits (t : list (list Z)) (msb : bool) (v : Z) (w : nat)
  | AExt (p : Z).

(* the w low bits of v in transmission order *)
Definition bits_of (msb : bool) (v : Z) (w : nat) : list bool :=
  let lsb_first := map (fun i => Z.testbit v (Z.of_nat i)) (seq 0 w) in
  if msb then rev lsb_first else lsb_first.

Definition chunk_size (n : nat) : option nat :=
  match n with 2%nat => Some 1%nat | 4%nat => Some 2%nat | 8%nat => Some 3%nat | 16%nat => Some 4%nat | _ => None end.

(* value of a chunk: msb order - first bit is the most significant; lsb order - first bit is the least significant *)
Fixpoint chunk_msb (c : list bool) (acc : nat) : nat :=
  match c with [] => acc | b :: r => chunk_msb r (2 * acc + (if b then 1 else 0))%nat end.
Fixpoint chunk_lsb (c : list bool) : nat :=
  match c with [] => 0%nat | b :: r => ((if b then 1 else 0) + 2 * chunk_lsb r)%nat end.

(* fuel = number of bits; k >= 1 *)
Fixpoint chunks (fuel k : nat) (msb : bool) (bits : list bool) : option (list nat) :=
  match bits with
  | [] => Some []
  | _ =>
      match fuel with
      | O => None
      | S fuel' =>
          if Nat.ltb (length bits) k then None        (* the field does not fill the last symbol *)
          else let c := firstn k bits in
               match chunks fuel' k msb (skipn k bits) with
               | Some l => Some ((if msb then chunk_msb c 0 else chunk_lsb c) :: l)
               | None => None
               end
      end
  end.

Fixpoint lookup_all (t : list (list Z)) (syms : list nat) : option (list Z) :=
  match syms with
  | [] => Some []
  | i :: r => match nth_error t i, lookup_all t r with
              | Some e, Some l => Some (e ++ l)
              | _, _ => None
              end
  end.

Definition bits_durs (t : list (list Z)) (msb : bool) (v : Z) (w : nat) : option (list Z) :=
  match chunk_size (length t) with
  | Some k => match chunks w k msb (bits_of msb v w) with
              | Some syms => lookup_all t syms
              | None => None
              end
  | None => None
  end.

(* one frame: durations so far (unmerged), extents fill up to the period counted from the start of the frame *)
Fixpoint frame_durs (acc : list Z) (f : list atom) : option (list Z) :=
  match f with
  | [] => Some acc
  | ADurs l :: r => frame_durs (acc ++ l) r
  | ABits t msb v w :: r => match bits_durs t msb v w with Some l => frame_durs (acc ++ l) r | None => None end
  | AExt p :: r => let used := sum_abs acc in
                   if used <? p then frame_durs (acc ++ [- (p - used)]) r else None
  end.

Definition frame_signal (f : list atom) : option (list Z) :=
  match frame_durs [] f with Some l => Some (compress l) | None => None end.

Fixpoint plan_signal (p : list (list atom)) : option (list (list Z)) :=
  match p with
  | [] => Some []
  | f :: r => match frame_signal f, plan_signal r with
              | Some a, Some b => Some (a :: b)
              | _, _ => None
              end
  end.

(* ------------------------------------------------------------------ slots: atoms as functions of the parameters *)
Inductive slot :=
  | SDurs (l : list Z)
  | SBits (t : list (list Z)) (msb : bool) (w : nat) (dep : list nat) (f : list Z -> Z)
  | SExt (p : Z).

Definition inst_slot (env : nat -> Z) (s : slot) : atom :=
  match s with
  | SDurs l => ADurs l
  | SBits t msb w dep f => ABits t msb (f (map env dep)) w
  | SExt p => AExt p
  end.
Definition inst_plan (env : nat -> Z) (p : list (list slot)) : list (list atom) := map (map (inst_slot env)) p.

(* ------------------------------------------------------------------ enumeration of parameter ranges *)
Definition zrange (lo hi : Z) : list Z := map (fun i => lo + Z.of_nat i) (seq 0 (Z.to_nat (hi - lo + 1))).
Fixpoint enum (rs : list (Z * Z)) : list (list Z) :=
  match rs with
  | [] => [[]]
  | (lo, hi) :: r => flat_map (fun v => map (cons v) (enum r)) (zrange lo hi)
  end.

Lemma zrange_in lo hi v : lo <= v <= hi -> In v (zrange lo hi).
Proof.
  intros H. unfold zrange. apply in_map_iff. exists (Z.to_nat (v - lo)). split; [lia|]. apply in_seq. lia.
Qed.

Lemma enum_complete : forall rs vals, Forall2 (fun v r => fst r <= v <= snd r) vals rs -> In vals (enum rs).
Proof.
  induction rs as [|[lo hi] r IH]; intros vals H; inversion H as [|v ? vs ? Hv Hr]; subst; cbn [enum]; [left; reflexivity|].
  apply in_flat_map. exists v. split; [apply zrange_in; exact Hv|]. apply in_map. apply IH. exact Hr.
Qed.

(* ------------------------------------------------------------------ agreement of two plans *)
Fixpoint zlist_eqb (a b : list Z) : bool :=
  match a, b with [], [] => true | x :: a', y :: b' => (x =? y) && zlist_eqb a' b' | _, _ => false end.
Lemma zlist_eqb_eq a : forall b, zlist_eqb a b = true -> a = b.
Proof. induction a as [|x a IH]; intros [|y b] H; cbn in H; try discriminate; [reflexivity|]. apply andb_true_iff in H as [H1 H2]. f_equal; [lia|apply IH; exact H2]. Qed.
Fixpoint table_eqb (a b : list (list Z)) : bool :=
  match a, b with [], [] => true | x :: a', y :: b' => zlist_eqb x y && table_eqb a' b' | _, _ => false end.
Lemma table_eqb_eq a : forall b, table_eqb a b = true -> a = b.
Proof. induction a as [|x a IH]; intros [|y b] H; cbn in H; try discriminate; [reflexivity|]. apply andb_true_iff in H as [H1 H2]. f_equal; [apply zlist_eqb_eq; exact H1|apply IH; exact H2]. Qed.
Fixpoint natlist_eqb (a b : list nat) : bool :=
  match a, b with [], [] => true | x :: a', y :: b' => Nat.eqb x y && natlist_eqb a' b' | _, _ => false end.
Lemma natlist_eqb_eq a : forall b, natlist_eqb a b = true -> a = b.
Proof. induction a as [|x a IH]; intros [|y b] H; cbn in H; try discriminate; [reflexivity|]. apply andb_true_iff in H as [H1 H2]. f_equal; [apply Nat.eqb_eq; exact H1|apply IH; exact H2]. Qed.

(* ranges: parameter index -> (lo, hi) *)
Definition range_of (ranges : list (Z * Z)) (i : nat) : Z * Z := nth i ranges (0, -1).

Definition slot_agree (ranges : list (Z * Z)) (a b : slot) : bool :=
  match a, b with
  | SDurs l, SDurs l' => zlist_eqb l l'
  | SExt p, SExt p' => p =? p'
  | SBits t msb w dep f, SBits t' msb' w' dep' f' =>
      table_eqb t t' && Bool.eqb msb msb' && Nat.eqb w w' && natlist_eqb dep dep' &&
      forallb (fun vals => (f vals) mod 2 ^ Z.of_nat w =? (f' vals) mod 2 ^ Z.of_nat w) (enum (map (range_of ranges) dep))
  | _, _ => false
  end.

Fixpoint frame_agree (ranges : list (Z * Z)) (a b : list slot) : bool :=
  match a, b with
  | [], [] => true
  | x :: a', y :: b' => slot_agree ranges x y && frame_agree ranges a' b'
  | _, _ => false
  end.
Fixpoint plan_agree (ranges : list (Z * Z)) (a b : list (list slot)) : bool :=
  match a, b with
  | [], [] => true
  | x :: a', y :: b' => frame_agree ranges x y && plan_agree ranges a' b'
  | _, _ => false
  end.

Definition env_ok (ranges : list (Z * Z)) (env : nat -> Z) : Prop :=
  forall i, (i < length ranges)%nat -> fst (range_of ranges i) <= env i <= snd (range_of ranges i).

(* ------------------------------------------------------------------ soundness *)
Lemma bits_of_mod msb v v' w : v mod 2 ^ Z.of_nat w = v' mod 2 ^ Z.of_nat w -> bits_of msb v w = bits_of msb v' w.
Proof.
  intros H. unfold bits_of.
  assert (map (fun i => Z.testbit v (Z.of_nat i)) (seq 0 w) = map (fun i => Z.testbit v' (Z.of_nat i)) (seq 0 w)) as ->; [|reflexivity].
  apply map_ext_in. intros i Hi. apply in_seq in Hi.
  rewrite <- (Z.mod_pow2_bits_low v (Z.of_nat w)) by lia. rewrite <- (Z.mod_pow2_bits_low v' (Z.of_nat w)) by lia.
  rewrite H. reflexivity.
Qed.

Lemma slot_agree_sound ranges env a b : env_ok ranges env -> slot_agree ranges a b = true ->
  (forall i, match a with SBits _ _ _ dep _ => In i dep -> (i < length ranges)%nat | _ => True end) ->
  match inst_slot env a, inst_slot env b with
  | ADurs l, ADurs l' => l = l'
  | AExt p, AExt p' => p = p'
  | ABits t msb v w, ABits t' msb' v' w' => t = t' /\ msb = msb' /\ w = w' /\ bits_of msb v w = bits_of msb v' w
  | _, _ => False
  end.
Proof.
  intros He H Hdep. destruct a as [l|t msb w dep f|p]; destruct b as [l'|t' msb' w' dep' f'|p']; cbn in H; try discriminate; cbn [inst_slot].
  - apply zlist_eqb_eq. exact H.
  - apply andb_true_iff in H as [H H5]. apply andb_true_iff in H as [H H4]. apply andb_true_iff in H as [H H3].
    apply andb_true_iff in H as [H1 H2].
    apply table_eqb_eq in H1. apply eqb_prop in H2. apply Nat.eqb_eq in H3. apply natlist_eqb_eq in H4. subst.
    repeat split. apply bits_of_mod. rewrite forallb_forall in H5.
    specialize (H5 (map env dep')). apply Z.eqb_eq. apply H5. apply enum_complete.
    clear H5. induction dep' as [|i r IH]; cbn [map]; constructor.
    + apply He. apply (Hdep i). left; reflexivity.
    + apply IH. intros j. specialize (Hdep j). cbn in Hdep. intros Hj. apply Hdep. right. exact Hj.
  - lia.
Qed.

Definition deps_ok (n : nat) (s : slot) : bool :=
  match s with SBits _ _ _ dep _ => forallb (fun i => Nat.ltb i n) dep | _ => true end.

Lemma frame_agree_sound ranges env : env_ok ranges env -> forall a b acc,
  frame_agree ranges a b = true -> forallb (deps_ok (length ranges)) a = true ->
  frame_durs acc (map (inst_slot env) a) = frame_durs acc (map (inst_slot env) b).
Proof.
  intros He. induction a as [|x a IH]; intros [|y b] acc H Hd; cbn in H; try discriminate; [reflexivity|].
  apply andb_true_iff in H as [H1 H2]. cbn [forallb] in Hd. apply andb_true_iff in Hd as [Hd1 Hd2].
  pose proof (slot_agree_sound ranges env x y He H1) as Hs.
  assert (forall i, match x with SBits _ _ _ dep _ => In i dep -> (i < length ranges)%nat | _ => True end) as Hx.
  { intros i. destruct x as [|t msb w dep f|]; auto. intros Hi. cbn in Hd1. rewrite forallb_forall in Hd1. apply Nat.ltb_lt. apply Hd1. exact Hi. }
  specialize (Hs Hx). cbn [map].
  destruct (inst_slot env x) as [l|t msb v w|p]; destruct (inst_slot env y) as [l'|t' msb' v' w'|p']; try contradiction.
  - subst. cbn [frame_durs]. apply IH; assumption.
  - destruct Hs as [-> [-> [-> Hb]]]. cbn [frame_durs]. unfold bits_durs. rewrite Hb.
    destruct (chunk_size (length t')); [|reflexivity]. destruct (chunks w' n msb' (bits_of msb' v' w')); [|reflexivity].
    destruct (lookup_all t' l); [|reflexivity]. apply IH; assumption.
  - subst. cbn [frame_durs]. destruct (_ <? _); [|reflexivity]. apply IH; assumption.
Qed.

(* two plans that agree slot by slot (bit fields compared on every assignment of the parameters they depend on) give the
   same signal for EVERY environment inside the parameter ranges *)
Theorem plan_agree_sound ranges env : env_ok ranges env -> forall a b,
  plan_agree ranges a b = true -> forallb (forallb (deps_ok (length ranges))) a = true ->
  plan_signal (inst_plan env a) = plan_signal (inst_plan env b).
Proof.
  intros He. induction a as [|x a IH]; intros [|y b] H Hd; cbn in H; try discriminate; [reflexivity|].
  apply andb_true_iff in H as [H1 H2]. cbn [forallb] in Hd. apply andb_true_iff in Hd as [Hd1 Hd2].
  unfold inst_plan. cbn [map plan_signal]. unfold frame_signal.
  rewrite (frame_agree_sound ranges env He x y [] H1 Hd1). fold (inst_plan env a). fold (inst_plan env b).
  rewrite (IH b H2 Hd2). reflexivity.
Qed.

(* ------------------------------------------------------------------ helpers for the generated expressions *)
(* # (number of one bits) of a non-negative number *)
Fixpoint pos_popcount (p : positive) : Z :=
  match p with xH => 1 | xO q => pos_popcount q | xI q => 1 + pos_popcount q end.
Definition zpopcount (z : Z) : Z := match z with Zpos p => pos_popcount p | _ => 0 end.
(* reversal of the w low bits *)
Definition zreverse (v : Z) (w : nat) : Z :=
  fold_left (fun acc i => if Z.testbit v (Z.of_nat i) then Z.lor acc (Z.shiftl 1 (Z.of_nat (w - 1 - i))) else acc) (seq 0 w) 0.

(* executable interface: signal of a concrete plan as one list, frames prefixed by their length; [-1] if undefined *)
Definition run_plan (p : list (list atom)) : list Z :=
  match plan_signal p with
  | Some fs => flat_map (fun f => Z.of_nat (length f) :: f) fs
  | None => [-1]
  end.

(* non-vacuity: NEC-like frame, lsb first, with a frame period *)
Example irp_example :
  plan_signal [[ADurs [9024; -4512]; ABits [[564; -564]; [564; -1692]] false 5 4; ADurs [564]; AExt 30000]]
  = Some [[9024; -4512; 564; -1692; 564; -564; 564; -1692; 564; -564; 564; -9132]].
Proof. vm_compute. reflexivity. Qed.
