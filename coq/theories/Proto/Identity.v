(* C14 — identity of a code: IRCode.__str__, __int__, hexadecimal (ir_code.py 486-587) over the fields named
   by _code_order.  Strings are lists of digit values (0..15), the field separator ':' is the value -1. *)
From Coq Require Import ZArith List Bool Lia ZifyBool ZifyNat.
Import ListNotations.
Open Scope Z_scope.
Ltac Zify.zify_post_hook ::= Z.to_euclidean_division_equations.

(* ---- positional notation, most significant digit first *)
Fixpoint digits_fuel (b : Z) (fuel : nat) (z : Z) (acc : list Z) : list Z :=
  match fuel with
  | O => acc
  | S k => if z =? 0 then acc else digits_fuel b k (z / b) (z mod b :: acc)
  end.
(* '%X' % z  /  bin(z)[2:]  /  hex(z)[2:]  for z >= 0 *)
Definition digits (b z : Z) : list Z := if z =? 0 then [0] else digits_fuel b (Z.to_nat (Z.log2 z + 1)) z [].
Definition undigits (b : Z) (l : list Z) : Z := fold_left (fun acc d => acc * b + d) l 0.

Lemma fold_digits_acc b l : forall a,
  fold_left (fun acc d => acc * b + d) l a = a * b ^ Z.of_nat (length l) + fold_left (fun acc d => acc * b + d) l 0.
Proof.
  induction l as [|d l IH]; intros a; [cbn; lia|].
  cbn [fold_left length]. rewrite (IH (a * b + d)), (IH (0 * b + d)). rewrite Nat2Z.inj_succ, Z.pow_succ_r by lia. ring.
Qed.
Lemma undigits_app b l1 l2 : undigits b (l1 ++ l2) = undigits b l1 * b ^ Z.of_nat (length l2) + undigits b l2.
Proof. unfold undigits. rewrite fold_left_app. apply fold_digits_acc. Qed.

Lemma digits_fuel_spec b : 1 < b -> forall fuel z acc, 0 <= z -> z < 2 ^ Z.of_nat fuel ->
  undigits b (digits_fuel b fuel z acc) = z * b ^ Z.of_nat (length acc) + undigits b acc.
Proof.
  intros Hb. induction fuel as [|k IH]; intros z acc Hz Hlt.
  - change (Z.of_nat 0) with 0 in Hlt. assert (z = 0) by lia. subst. cbn [digits_fuel]. lia.
  - cbn [digits_fuel]. destruct (Z.eqb_spec z 0) as [->|Hne]; [lia|].
    rewrite IH.
    + cbn [length]. rewrite Nat2Z.inj_succ, Z.pow_succ_r by lia.
      change (z mod b :: acc) with ([z mod b] ++ acc). rewrite undigits_app. cbn [undigits fold_left].
      pose proof (Z.div_mod z b ltac:(lia)). nia.
    + apply Z.div_pos; lia.
    + rewrite Nat2Z.inj_succ, Z.pow_succ_r in Hlt by lia.
      apply Z.div_lt_upper_bound; [lia|]. assert (2 * 2 ^ Z.of_nat k <= b * 2 ^ Z.of_nat k) by (apply Z.mul_le_mono_nonneg_r; [apply Z.pow_nonneg|]; lia). lia.
Qed.

Theorem undigits_digits b z : 1 < b -> 0 <= z -> undigits b (digits b z) = z.
Proof.
  intros Hb Hz. unfold digits. destruct (Z.eqb_spec z 0) as [->|Hne]; [reflexivity|].
  rewrite digits_fuel_spec; [cbn; lia|exact Hb|exact Hz|].
  rewrite Z2Nat.id by (pose proof (Z.log2_nonneg z); lia). apply Z.log2_spec. lia.
Qed.

(* str.zfill *)
Definition zfill (k : nat) (l : list Z) : list Z := repeat 0 (k - length l) ++ l.
Lemma undigits_zfill b k l : undigits b (zfill k l) = undigits b l.
Proof.
  unfold zfill. rewrite undigits_app. assert (undigits b (repeat 0 (k - length l)) = 0) as ->; [|lia].
  induction (k - length l)%nat as [|n IH]; [reflexivity|]. cbn [repeat]. change (0 :: repeat 0 n) with ([0] ++ repeat 0 n).
  rewrite undigits_app, IH. cbn. lia.
Qed.

(* ---- the identity string: one zero-filled upper-case hex field per _code_order entry *)
Definition fill_of (nbits : Z) : nat := let f := Z.to_nat (nbits / 8 + 1) in (f + Nat.modulo f 2)%nat.
Definition str_field (v nbits : Z) : list Z := zfill (fill_of nbits) (digits 16 v).
Definition str_fields (co : list Z) (vals : list Z) : list (list Z) := map (fun p => str_field (fst p) (snd p)) (combine vals co).

(* the string determines every identifying value (zfill never truncates, '%X' is positional notation) *)
Theorem str_injective co : forall a b, length a = length co -> length b = length co ->
  Forall (fun v => 0 <= v) a -> Forall (fun v => 0 <= v) b ->
  str_fields co a = str_fields co b -> a = b.
Proof.
  induction co as [|n co IH]; intros a b La Lb Ha Hb H.
  - destruct a, b; try discriminate; reflexivity.
  - destruct a as [|x a], b as [|y b]; try discriminate.
    cbn in La, Lb. inversion Ha as [|? ? Hx Ha']; inversion Hb as [|? ? Hy Hb']; subst. unfold str_fields in H. cbn [combine map fst snd] in H.
    injection H as E1 E2. f_equal.
    + unfold str_field in E1. apply (f_equal (undigits 16)) in E1. rewrite !undigits_zfill in E1.
      rewrite !undigits_digits in E1 by lia. exact E1.
    + apply IH; auto.
Qed.

(* ---- the integer identity: per field  bin(v)[2:].zfill(n)[:n], reversed for lsb protocols, concatenated *)
Definition int_field (msb : bool) (v n : Z) : list Z :=
  let bts := firstn (Z.to_nat n) (zfill (Z.to_nat n) (digits 2 v)) in
  if msb then bts else rev bts.
Definition int_bits (msb : bool) (co vals : list Z) : list Z := flat_map (fun p => int_field msb (fst p) (snd p)) (combine vals co).
Definition int_of (msb : bool) (co vals : list Z) : Z := undigits 2 (int_bits msb co vals).

Lemma digits_fuel_length_le b : 1 < b -> forall fuel z acc, 0 <= z -> z < b ^ Z.of_nat fuel ->
  forall m, 0 <= m -> z < b ^ m -> (Z.of_nat (length (digits_fuel b fuel z acc)) <= m + Z.of_nat (length acc)).
Proof.
  intros Hb. induction fuel as [|k IH]; intros z acc Hz Hlt m Hm Hzm.
  - cbn. lia.
  - cbn [digits_fuel]. destruct (Z.eqb_spec z 0) as [->|Hne]; [lia|].
    assert (0 < m) as Hmp by (destruct (Z.eq_dec m 0) as [->|]; [cbn in Hzm; lia|lia]).
    specialize (IH (z / b) (z mod b :: acc)). cbn [length] in IH. rewrite Nat2Z.inj_succ in IH.
    assert (Z.of_nat (length (digits_fuel b k (z / b) (z mod b :: acc))) <= (m - 1) + Z.succ (Z.of_nat (length acc))); [|lia].
    apply IH; try lia.
    + apply Z.div_pos; lia.
    + rewrite Nat2Z.inj_succ, Z.pow_succ_r in Hlt by lia. apply Z.div_lt_upper_bound; lia.
    + replace m with (Z.succ (m - 1)) in Hzm by lia. rewrite Z.pow_succ_r in Hzm by lia. apply Z.div_lt_upper_bound; lia.
Qed.

Lemma digits_length_le z n : 0 <= z < 2 ^ n -> 0 < n -> (length (digits 2 z) <= Z.to_nat n)%nat.
Proof.
  intros [Hz Hlt] Hn. unfold digits. destruct (Z.eqb_spec z 0) as [->|Hne]; [cbn; lia|].
  pose proof (digits_fuel_length_le 2 ltac:(lia) (Z.to_nat (Z.log2 z + 1)) z [] Hz) as H.
  rewrite Z2Nat.id in H by (pose proof (Z.log2_nonneg z); lia).
  specialize (H ltac:(apply Z.log2_spec; lia) n ltac:(lia) Hlt). cbn [length] in H. lia.
Qed.

Lemma int_field_spec msb v n : 0 <= v < 2 ^ n -> 0 < n ->
  length (int_field msb v n) = Z.to_nat n /\ undigits 2 (if msb then int_field msb v n else rev (int_field msb v n)) = v.
Proof.
  intros Hv Hn. unfold int_field. pose proof (digits_length_le v n Hv Hn) as Hl.
  assert (length (zfill (Z.to_nat n) (digits 2 v)) = Z.to_nat n) as Hz
    by (unfold zfill; rewrite app_length, repeat_length; lia).
  assert (firstn (Z.to_nat n) (zfill (Z.to_nat n) (digits 2 v)) = zfill (Z.to_nat n) (digits 2 v)) as ->
    by (rewrite <- Hz at 1; apply firstn_all).
  split; [destruct msb; rewrite ?rev_length; exact Hz|].
  destruct msb; rewrite ?rev_involutive; rewrite undigits_zfill; apply undigits_digits; lia.
Qed.

(* equal-length digit strings with equal value are equal *)
Lemma undigits_inj_len : forall l1 l2, length l1 = length l2 ->
  Forall (fun d => 0 <= d < 2) l1 -> Forall (fun d => 0 <= d < 2) l2 -> undigits 2 l1 = undigits 2 l2 -> l1 = l2.
Proof.
  induction l1 as [|d1 l1 IH] using rev_ind; intros l2 Hl H1 H2 He.
  - destruct l2; [reflexivity|discriminate].
  - destruct l2 as [|d2 l2 _] using rev_ind; [rewrite app_length in Hl; cbn in Hl; lia|].
    rewrite !app_length in Hl. cbn in Hl. rewrite !undigits_app in He. cbn [length undigits fold_left Z.of_nat] in He.
    apply Forall_app in H1 as [H1 H1']. apply Forall_app in H2 as [H2 H2']. inversion H1'; inversion H2'; subst.
    rewrite Z.pow_1_r in He. assert (d1 = d2 /\ undigits 2 l1 = undigits 2 l2) as [-> He'] by lia.
    f_equal. apply IH; auto. lia.
Qed.

Lemma undigits_range l : Forall (fun d => 0 <= d < 2) l -> 0 <= undigits 2 l < 2 ^ Z.of_nat (length l).
Proof.
  induction l as [|d l IH] using rev_ind; intros H; [cbn; lia|].
  apply Forall_app in H as [H H']. inversion H'; subst. rewrite undigits_app, app_length. cbn [length undigits fold_left].
  rewrite Nat2Z.inj_add, Z.pow_add_r by lia. cbn [Z.of_nat]. rewrite Z.pow_1_r. specialize (IH H). lia.
Qed.

Lemma digits_fuel_range b : 1 < b -> forall fuel z acc, 0 <= z -> Forall (fun d => 0 <= d < b) acc ->
  Forall (fun d => 0 <= d < b) (digits_fuel b fuel z acc).
Proof.
  intros Hb. induction fuel as [|k IH]; intros z acc Hz Ha; [exact Ha|].
  cbn [digits_fuel]. destruct (z =? 0); [exact Ha|]. apply IH; [apply Z.div_pos; lia|].
  constructor; [apply Z.mod_pos_bound; lia|exact Ha].
Qed.
Lemma digits_range b z : 1 < b -> 0 <= z -> Forall (fun d => 0 <= d < b) (digits b z).
Proof.
  intros Hb Hz. unfold digits. destruct (z =? 0); [repeat constructor; lia|]. apply digits_fuel_range; auto.
Qed.

Lemma int_field_range msb v n : 0 <= v -> Forall (fun d => 0 <= d < 2) (int_field msb v n).
Proof.
  intros Hv. unfold int_field.
  assert (Forall (fun d => 0 <= d < 2) (zfill (Z.to_nat n) (digits 2 v))) as H.
  { unfold zfill. apply Forall_app. split; [|apply digits_range; lia].
    apply Forall_forall. intros x Hx. apply repeat_spec in Hx. lia. }
  assert (Forall (fun d => 0 <= d < 2) (firstn (Z.to_nat n) (zfill (Z.to_nat n) (digits 2 v)))) as H'.
  { rewrite <- (firstn_skipn (Z.to_nat n)) in H. apply Forall_app in H. apply H. }
  destruct msb; [exact H'|]. apply Forall_forall. intros x Hx. rewrite Forall_forall in H'. apply H'. apply in_rev. exact Hx.
Qed.

Lemma app_inv_length {A} : forall (l1 l2 r1 r2 : list A), l1 ++ r1 = l2 ++ r2 -> length l1 = length l2 -> l1 = l2 /\ r1 = r2.
Proof.
  induction l1 as [|x l1 IH]; intros [|y l2] r1 r2 H L; cbn in *; try discriminate; [auto|].
  injection H as -> H. destruct (IH l2 r1 r2 H ltac:(lia)) as [-> ->]. auto.
Qed.

Definition fits (vals co : list Z) : Prop := Forall2 (fun v n => 0 <= v < 2 ^ n /\ 0 < n) vals co.

Lemma int_bits_props msb co : forall vals, fits vals co ->
  Forall (fun d => 0 <= d < 2) (int_bits msb co vals) /\
  length (int_bits msb co vals) = fold_right (fun n s => (Z.to_nat n + s)%nat) 0%nat co.
Proof.
  induction co as [|n co IH]; intros vals H; inversion H as [|v ? vs ? [Hv Hn] H']; subst.
  - split; [constructor|reflexivity].
  - destruct (IH vs H') as [I1 I2]. unfold int_bits. cbn [combine flat_map fst snd]. fold (int_bits msb co vs).
    split; [apply Forall_app; split; [apply int_field_range; lia|exact I1]|].
    rewrite app_length, I2. destruct (int_field_spec msb v n Hv Hn) as [E _]. rewrite E. reflexivity.
Qed.

(* the integer identity determines every identifying value, provided each value fits its _code_order width
   (otherwise [:n] drops low-order bits and distinct keys collide) *)
Theorem int_injective msb co : forall a b, fits a co -> fits b co -> int_of msb co a = int_of msb co b -> a = b.
Proof.
  intros a b Ha Hb H. unfold int_of in H.
  destruct (int_bits_props msb co a Ha) as [Ra La]. destruct (int_bits_props msb co b Hb) as [Rb Lb].
  apply undigits_inj_len in H; [| congruence | exact Ra | exact Rb].
  clear Ra Rb La Lb. revert a b Ha Hb H. induction co as [|n co IH]; intros a b Ha Hb H;
    inversion Ha as [|x ? xs ? [Hx Hn] Ha']; subst; inversion Hb as [|y' ? ys ? [Hy _] Hb']; subst; [reflexivity|].
  unfold int_bits in H. cbn [combine flat_map fst snd] in H.
  destruct (int_field_spec msb x n Hx Hn) as [Lx Vx]. destruct (int_field_spec msb y' n Hy Hn) as [Ly Vy].
  apply app_inv_length in H as [H1 H2]; [|congruence].
  f_equal; [|apply IH; assumption]. rewrite <- Vx, <- Vy. rewrite H1. reflexivity.
Qed.

(* ---- hexadecimal: '0x' + upper-case hex of the integer, zero-filled to an even number of digits *)
Definition hex_digits (z : Z) : list Z := let d := digits 16 z in zfill (length d + Nat.modulo (length d) 2) d.

Theorem hex_even_and_parses_back z : 0 <= z ->
  Nat.even (length (hex_digits z)) = true /\ undigits 16 (hex_digits z) = z.
Proof.
  intros Hz. unfold hex_digits. split; [|rewrite undigits_zfill; apply undigits_digits; lia].
  unfold zfill. rewrite app_length, repeat_length. set (n := length (digits 16 z)).
  replace (n + n mod 2 - n + n)%nat with (n + n mod 2)%nat by lia.
  rewrite Nat.even_spec. exists ((n + n mod 2) / 2)%nat. lia.
Qed.

(* executable interface: (msb, code_order widths, values) -> string fields separated by -1, -2, int, -2, hex digits *)
Definition run_identity (c : bool * list Z * list Z) : list Z :=
  let '(msb, co, vals) := c in
  concat (map (fun f => f ++ [-1]) (str_fields co vals)) ++ [-2; int_of msb co vals; -2] ++ hex_digits (int_of msb co vals).
