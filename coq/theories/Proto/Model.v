(* Target of the tracing translator: per-protocol encode / decode models are closed Gallina terms over the
   IntegerWrapper model; this file gives their types and what it means to run them with the engine. *)
From Coq Require Import ZArith List Bool String.
Require Import PyIR.Base.Result PyIR.IW.IW PyIR.Engine.Render PyIR.Engine.Parse PyIR.Proto.Descriptor.
Import ListNotations.
Open Scope Z_scope.

(* ---- total forms of operations the translator only emits with constant, valid arguments *)
Definition iw_shl_c (x : iw) (k : Z) : iw := mk (Z.shiftl (value x) k) (Some (nbits x + k)).
Definition iw_shr_c (x : iw) (k : Z) : iw := mk (Z.shiftr (value x) k) (Some (nbits x - k)).
Definition iw_div_c (x : iw) (k : Z) : iw := mk (value x / k) None.
Definition iw_mod_c (x : iw) (k : Z) : iw := mk (value x mod k) None.

Definition slice_iw (x : iw) (inv : bool) (stop step : option Z) : iw :=
  match slice_val x stop step with
  | Ok v => if inv then invert_bits v None else v
  | _ => x          (* unreachable: the translator refuses negative steps *)
  end.
(* x[c:stop:step] with an integer start is a comparison *)
Definition slice_cmp (x : iw) (c : Z) (stop step : option Z) : bool :=
  match getitem x (SInt c) stop step with Ok (VBool b) => b | _ => false end.

Lemma slice_iw_getitem x (inv : bool) stop step v : slice_val x stop step = Ok v ->
  getitem x (if inv then STrue else SNone) stop step = Ok (VIW (slice_iw x inv stop step)).
Proof. intros H. unfold getitem, slice_iw. rewrite H. destruct inv; reflexivity. Qed.

(* ---- decision trees: the paths the translator explored; conditions are boolean terms over the arguments *)
Inductive tree (A : Type) := Leaf (a : A) | Node (c : bool) (t f : tree A).
Arguments Leaf {A} a. Arguments Node {A} c t f.
Fixpoint tree_eval {A} (t : tree A) : A :=
  match t with Leaf a => a | Node c t f => if c then tree_eval t else tree_eval f end.
(* every leaf that the conditions can select satisfies P: a branch is skipped only when its condition
   computes to a constant (the disjunctions are written so that a stuck condition does not help) *)
Fixpoint tree_all {A} (P : A -> bool) (t : tree A) : bool :=
  match t with
  | Leaf a => P a
  | Node c t f => (tree_all P t || negb c) && (tree_all P f || c)
  end.
Lemma tree_all_sound {A} (P : A -> bool) t : tree_all P t = true -> P (tree_eval t) = true.
Proof.
  induction t as [a|c t IHt f IHf]; cbn; intros H; [exact H|].
  apply andb_true_iff in H as [H1 H2]. destruct c; cbn in *.
  - rewrite orb_false_r in H1. auto.
  - rewrite orb_false_r in H2. auto.
Qed.

(* ---- encode models *)
Inductive pos_item := PTimings (x : iw) | PConst (l : list Z).
(* a frame is the concatenation of parts: results of _build_packet calls and constant duration lists *)
Inductive part :=
  | PPacket (lead_in lead_out : list Z) (bursts : list (list Z)) (msb : bool) (pos : list pos_item) (fields : list iw)
  | PConstD (l : list Z).
Definition frame_model := list part.
Inductive pval := PZ (z : Z) | PW (x : iw).
Inductive enc_model :=
  | EncFrames (frames : list frame_model) (params : list (string * pval))
  | EncRaise (code : Z)
  | EncUnknown.                                   (* path not explored by the translator: nothing is claimed *)

Fixpoint pos_durations (msb : bool) (t : table) (ps : list pos_item) : result (list Z) :=
  match ps with
  | [] => Ok []
  | PTimings x :: r => do a <- field_durations msb t x; do b <- pos_durations msb t r; Ok (a ++ b)
  | PConst l :: r => do b <- pos_durations msb t r; Ok (l ++ b)
  end.

Definition render_part (f : part) : result (list Z) :=
  match f with
  | PConstD l => Ok l
  | PPacket li lo t msb pos fields =>
      do a <- pos_durations msb t pos;
      do b <- fields_durations msb t fields;
      Ok (build_packet li lo (a ++ b))
  end.
Fixpoint render_frame (f : frame_model) : result (list Z) :=
  match f with
  | [] => Ok []
  | p :: r => do a <- render_part p; do b <- render_frame r; Ok (a ++ b)
  end.

Fixpoint render_frames (fs : list frame_model) : result (list (list Z)) :=
  match fs with
  | [] => Ok []
  | f :: r => do a <- render_frame f; do b <- render_frames r; Ok (a :: b)
  end.

Definition pval_z (p : pval) : Z := match p with PZ z => z | PW x => value x end.

(* canonical outcome of a whole encode call for the correspondence check:
   [0; nframes; len f1; f1...; len f2; f2 ...] or [error code] or [98] for an unexplored path *)
Definition run_enc (m : enc_model) : list Z :=
  match m with
  | EncFrames fs _ => enc_result (fun ll => Z.of_nat (List.length ll) :: flat_map (fun l => Z.of_nat (List.length l) :: l) ll)
                                 (render_frames fs)
  | EncRaise c => [c]
  | EncUnknown => [98]
  end.

(* ---- decode models: the protocol's own checks on top of the base decoder, as a function of the decoded
   fields (in _parameters order) *)
Inductive dec_model :=
  | DecOk (overrides : list (string * pval))
  | DecRaise (code : Z)
  | DecUnknown.
Definition run_dec (m : dec_model) : list Z :=
  match m with
  | DecOk ov => 0 :: flat_map (fun p => [pval_z (snd p)]) ov
  | DecRaise c => [c]
  | DecUnknown => [98]
  end.

(* outcome of the protocol's own decode logic on given base-decoded fields, with the final value of every field *)
Fixpoint lookup_ov (k : string) (ov : list (string * pval)) : option pval :=
  match ov with [] => None | (k', v) :: r => if string_dec k k' then Some v else lookup_ov k r end.
Definition run_dec_full (names : list string) (flds : list iw) (m : dec_model) : list Z :=
  match m with
  | DecOk ov => 0 :: map (fun q => match lookup_ov (fst q) ov with Some v => pval_z v | None => value (snd q) end)
                         (combine names flds)
  | DecRaise c => [c]
  | DecUnknown => [98]
  end.
