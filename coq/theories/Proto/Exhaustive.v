(* C01 by exhaustion of a finite parameter space.  For protocols whose advertised parameter space is small (at most 2^16
   assignments) the round trip "first frame of encode() -> fresh decoder -> the encoded parameters" is decided by evaluating it,
   inside the kernel, on EVERY in-range assignment: the regenerated encode tree, the renderer model, the engine model of the
   protocol's engine class (plain, or with middle timings, or serial) followed by the bit-count guard and the field extraction of
   IrProtocolBase.decode, the regenerated decode tree with the protocol's own checks, and the comparison of every reported
   parameter with the encoded one.  all_assignments_complete lifts the computed forallb to the quantified statement; the bound is
   part of every generated theorem.  Exact timings only (no perturbation): that is C01, not C04. *)
From Coq Require Import ZArith List Bool Lia String.
Require Import PyIR.Base.Result PyIR.IW.IW PyIR.Engine.Render PyIR.Engine.Parse PyIR.Proto.Descriptor PyIR.Proto.Model.
Import ListNotations.
Open Scope Z_scope.

(* ---- every assignment inside a list of ranges *)
Fixpoint range_from (lo : Z) (n : nat) : list Z :=
  match n with O => [] | S k => lo :: range_from (lo + 1) k end.
Definition zrange (lo hi : Z) : list Z := range_from lo (Z.to_nat (hi - lo + 1)).

Lemma range_from_In : forall n lo x, lo <= x < lo + Z.of_nat n -> In x (range_from lo n).
Proof.
  induction n as [|k IH]; intros lo x H; [lia|]. cbn [range_from].
  destruct (Z.eq_dec x lo) as [->|Hne]; [left; reflexivity|]. right. apply IH. lia.
Qed.
Lemma zrange_In lo hi x : lo <= x <= hi -> In x (zrange lo hi).
Proof. intros H. unfold zrange. apply range_from_In. lia. Qed.

Fixpoint all_assignments (rs : list (Z * Z)) : list (list Z) :=
  match rs with
  | [] => [[]]
  | (lo, hi) :: r => flat_map (fun v => map (cons v) (all_assignments r)) (zrange lo hi)
  end.

Lemma all_assignments_complete : forall rs args,
  Forall2 (fun a r => fst r <= a <= snd r) args rs -> In args (all_assignments rs).
Proof.
  induction rs as [|[lo hi] r IH]; intros args H; inversion H; subst; cbn [all_assignments]; [left; reflexivity|].
  apply in_flat_map. match goal with Hx : fst _ <= ?x <= snd _ |- _ => exists x; split; [apply zrange_In; exact Hx|] end.
  apply in_map. apply IH. assumption.
Qed.

Theorem exhaustive_sound (P : list Z -> bool) rs :
  forallb P (all_assignments rs) = true ->
  forall args, Forall2 (fun a r => fst r <= a <= snd r) args rs -> P args = true.
Proof.
  intros H args Hr. rewrite forallb_forall in H. apply H. apply all_assignments_complete. exact Hr.
Qed.

(* ---- IrProtocolBase.decode on a fresh instance over ANY engine model *)
Definition base_decode_with (parse : list Z -> result parsed) (D : desc) (frame : list Z) : result (list iw) :=
  do p <- parse frame;
  let n := Z.of_nat (List.length (p_bits p)) in
  if d_bit_count D <? n then IRErr TooManyBitsError
  else if n <? d_bit_count D then IRErr NotEnoughBitsError
  else Ok (map (fun q => get_value (d_msb D) (p_bits p) (snd (fst q)) (snd q)) (d_params D)).

(* the first frame of an explored encode path *)
Definition first_frame (m : enc_model) : result (list Z) :=
  match m with
  | EncFrames (f :: _) _ => render_frame f
  | _ => IRErr DecodeError
  end.

(* final value of the named field after the protocol's own decode logic *)
Fixpoint field_value (k : string) (names : list string) (flds : list iw) : option Z :=
  match names, flds with
  | n :: ns, f :: fs => if string_dec k n then Some (value f) else field_value k ns fs
  | _, _ => None
  end.
Definition reported (k : string) (names : list string) (flds : list iw) (m : dec_model) : option Z :=
  match m with
  | DecOk ov => match lookup_ov k ov with Some v => Some (pval_z v) | None => field_value k names flds end
  | _ => None
  end.
Definition opt_eqb (o : option Z) (z : Z) : bool := match o with Some v => v =? z | None => false end.
