(* Protocol descriptor: the data of one protocol class, regenerated from /repo on every run
   (tools/protoinfo.py, by introspection of the imported classes and one fresh instance each). *)
From Coq Require Import ZArith List Bool String.
Require Import PyIR.Engine.Parse.
Import ListNotations.
Open Scope Z_scope.

Inductive eclass := ClassH | ClassM | ClassB | ClassX | ClassNone.

Inductive middle :=
  | MTuple (m s : Z)
  | MDict (start stop : Z) (bursts : list (list Z))
  | MInt (z : Z)
  | MList (l : list Z).

Record desc := {
  d_name : string;
  d_freq : Z;
  d_bit_count : Z;
  d_msb : bool;
  d_class : eclass;
  d_lead_in : list Z;
  d_lead_out : list Z;
  d_bursts : list (list Z);
  d_middle : list middle;
  d_rep_lead_in : list Z;
  d_rep_lead_out : list Z;
  d_rep_bursts : list (list Z);
  d_repeat_timeout : Z;
  d_params : list (string * Z * Z);          (* _parameters: name, start bit, stop bit *)
  d_code_order : list (string * Z);
  d_enc_params : list (string * Z * Z);      (* encode_parameters: name, min, max *)
  d_overrides_decode : bool;
  d_tolerance : Z
}.

(* pair table view of a class-H descriptor *)
Fixpoint as_pairs (b : list (list Z)) : option ptable :=
  match b with
  | [] => Some []
  | [m; s] :: r => match as_pairs r with Some t => Some ((m, s) :: t) | None => None end
  | _ => None
  end.
