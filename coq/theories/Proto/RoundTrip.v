(* Protocol-level round trip for pair-table protocols (halfbit and Manchester stream encodings): IrProtocolBase.decode (fresh instance) applied to a
   (possibly perturbed) frame built by _build_packet from bit fields returns exactly those bit fields.
   A decidable check [rt_ok] on the regenerated descriptor supplies every side condition of the engine
   theorems; the fields only have to be canonical and to have the widths the descriptor declares. *)
From Coq Require Import ZArith List Bool Lia ZifyBool ZifyNat String.
Require Import PyIR.Base.Result PyIR.IW.IW PyIR.IW.IWProps PyIR.IW.Timings
               PyIR.Engine.Match PyIR.Engine.Render PyIR.Engine.RenderProps PyIR.Engine.Parse PyIR.Engine.ParseProps
               PyIR.Engine.RoundTripH PyIR.Engine.ParseM PyIR.Engine.RoundTripM PyIR.Proto.Descriptor PyIR.Proto.Model PyIR.Proto.Shape PyIR.Proto.C03Check.
Import ListNotations.
Open Scope Z_scope.

(* IrProtocolBase.decode on an instance that holds no key: full parse, bit-count guard, one wrapper per parameter *)
Definition base_decode (D : desc) (t : ptable) (tol : Z) (frame : list Z) : result (list iw) :=
  do p <- parseC tol (d_lead_in D) (d_lead_out D) t frame;
  let n := Z.of_nat (List.length (p_bits p)) in
  if d_bit_count D <? n then IRErr TooManyBitsError
  else if n <? d_bit_count D then IRErr NotEnoughBitsError
  else Ok (map (fun q => get_value (d_msb D) (p_bits p) (snd (fst q)) (snd q)) (d_params D)).

(* ------------------------------------------------------------------ the decidable side conditions *)
Fixpoint nodupb (l : list (Z * Z)) : bool :=
  match l with [] => true | p :: r => negb (existsb (pair_eqb p) r) && nodupb r end.
Fixpoint nodupzb (l : list Z) : bool :=
  match l with [] => true | p :: r => negb (existsb (Z.eqb p) r) && nodupzb r end.

Lemma nodupb_sound l : nodupb l = true -> NoDup l.
Proof.
  induction l as [|p r IH]; intros H; [constructor|]. cbn in H. apply andb_true_iff in H as [H1 H2].
  constructor; [|apply IH; exact H2]. intros Hin. apply negb_true_iff in H1.
  assert (existsb (pair_eqb p) r = true); [|congruence]. apply existsb_exists. exists p. split; [exact Hin|].
  unfold pair_eqb. rewrite !Z.eqb_refl. reflexivity.
Qed.
Lemma nodupzb_sound l : nodupzb l = true -> NoDup l.
Proof.
  induction l as [|p r IH]; intros H; [constructor|]. cbn in H. apply andb_true_iff in H as [H1 H2].
  constructor; [|apply IH; exact H2]. intros Hin. apply negb_true_iff in H1.
  assert (existsb (Z.eqb p) r = true); [|congruence]. apply existsb_exists. exists p. split; [exact Hin|apply Z.eqb_refl].
Qed.

Definition wf_tableb (tol : Z) (t : ptable) : bool := std_tableb t && sepb tol (vals t) && nodupb t.
Lemma wf_tableb_sound tol t : 0 <= tol <= 100 -> wf_tableb tol t = true -> wf_table tol t.
Proof.
  intros Ht H. unfold wf_tableb in H. apply andb_true_iff in H as [H H3]. apply andb_true_iff in H as [H1 H2].
  pose proof (std_tableb_sound t H1) as Hstd. constructor; [exact Hstd| |apply nodupb_sound; exact H3].
  apply sepb_sound; [exact Ht|apply vals_nz; exact Hstd|exact H2].
Qed.

Definition no_placeholder (l : list Z) : bool := forallb (fun e => negb (e =? PLACEHOLDER)) l.

(* lead-in alternates and ends in a space (or is empty); fixed lead-out begins with a mark and alternates *)
Definition li_ok (li : list Z) : bool :=
  nzb li && alternatingb li && match li with [] => true | _ => last_neg li end.
Definition lo_fixed_ok (lo : list Z) : bool :=
  nzb lo && alternatingb lo && no_placeholder lo &&
  match lo with [] => true | a :: _ => (0 <? a) && last_neg lo end.

Inductive lo_kind := LoFixed | LoPeriod (core : list Z) (P : Z) | LoPeriodOnly (P : Z) | LoOther.
Definition classify_lo (lo : list Z) : lo_kind :=
  match last_opt lo with
  | None => LoFixed
  | Some g => if g <? 0 then LoFixed
              else match removelast lo with
                   | [] => LoPeriodOnly g
                   | core => LoPeriod core g
                   end
  end.

(* parameters tile bits 0 .. bit_count-1 in order; widths are whole symbols *)
Fixpoint tiles (k : Z) (next : Z) (ps : list (string * Z * Z)) : bool :=
  match ps with
  | [] => true
  | (_, start, stop) :: r => (start =? next) && (start <=? stop) && ((stop + 1 - start) mod k =? 0) && tiles k (stop + 1) r
  end.
Definition total_bits (ps : list (string * Z * Z)) : Z :=
  fold_right (fun q s => (snd q + 1 - snd (fst q)) + s) 0 ps.
Definition widths (ps : list (string * Z * Z)) : list Z := map (fun q => snd q + 1 - snd (fst q)) ps.

Definition lo_ok (D : desc) (t : ptable) : bool :=
  let nsym := d_bit_count D / Z.of_nat (bps (List.length t)) in
  match classify_lo (d_lead_out D) with
  | LoFixed => lo_fixed_ok (d_lead_out D)
  | LoPeriod core P =>
      nzb core && alternatingb core && no_placeholder core && negb (P =? PLACEHOLDER) && head_pos core
      && negb (last_neg core)
      && (sum_abs (d_lead_in D) + nsym * maxsym t + sum_abs core <? P)
  | LoPeriodOnly P =>
      negb (P =? PLACEHOLDER) && nodupzb (map fst t)
      && (sum_abs (d_lead_in D) + nsym * maxsym t <? P)
  | LoOther => false
  end.

Definition rt_ok_t (D : desc) (t : ptable) (tol : Z) : bool :=
  (0 <=? tol) && (tol <=? 100)
  && wf_tableb tol t && len_ok (List.length t)
  && li_ok (d_lead_in D)
  && tiles (Z.of_nat (bps (List.length t))) 0 (d_params D) && (total_bits (d_params D) =? d_bit_count D)
  && (0 <? d_bit_count D)
  && lo_ok D t.

(* Manchester tables [(m, s); (s, m)]: one bit per symbol; the lead-out is a single gap or a single frame period *)
Definition lo_okM (D : desc) (tol m s : Z) : bool :=
  match d_lead_out D with
  | [g] => if g <? 0 then negb (g =? PLACEHOLDER) && lo_merge_ok tol m s g
           else (0 <? g) && negb (g =? PLACEHOLDER) && (sum_abs (d_lead_in D) + d_bit_count D * (Z.abs m + Z.abs s) <? g)
  | _ => false
  end.

Definition rtM_ok_t (D : desc) (t : ptable) (tol : Z) : bool :=
  match t with
  | [(m, s); (s', m')] =>
      (0 <=? tol) && (tol <=? 100) && (s' =? s) && (m' =? m) && (m * s <? 0) && man_table_ok tol m s
      && nzb (d_lead_in D) && alternatingb (d_lead_in D) && li_last_ok tol m s (d_lead_in D)
      && tiles 1 0 (d_params D) && (total_bits (d_params D) =? d_bit_count D) && (2 <=? d_bit_count D)
      && lo_okM D tol m s
  | _ => false
  end.

Definition rt_ok (D : desc) (tol : Z) : bool :=
  match as_pairs (d_bursts D) with
  | Some t => if is_manchester t then rtM_ok_t D t tol else rt_ok_t D t tol
  | None => false
  end.

(* ------------------------------------------------------------------ bits of the fields and get_value *)
Lemma pad_count_zero tl n : (tl = 2 \/ tl = 4 \/ tl = 16)%nat -> (n mod bps tl = 0)%nat -> pad_count tl n = 0%nat.
Proof.
  intros [E|[E|E]] H; subst tl; cbn [bps Nat.eqb] in H.
  - reflexivity.
  - change (pad_count 4 n) with (n mod 2)%nat. exact H.
  - change (pad_count 16 n) with ((4 - n mod 4) mod 4)%nat. rewrite H. reflexivity.
Qed.

Lemma padded_bits_nopad msb tl x : pad_count tl (Z.to_nat (nbits x)) = 0%nat ->
  padded_bits msb tl x = if msb then bits_msb x else iter_bits x.
Proof.
  intros H. unfold padded_bits, bits_msb. rewrite rev_length, iter_bits_length, H. cbn [repeat].
  destruct msb; [reflexivity|apply app_nil_r].
Qed.

Definition field_bits (msb : bool) (x : iw) : list bool := if msb then bits_msb x else iter_bits x.
Lemma field_bits_length msb x : List.length (field_bits msb x) = Z.to_nat (nbits x).
Proof. unfold field_bits, bits_msb. destruct msb; rewrite ?rev_length; apply iter_bits_length. Qed.

Lemma field_bits_value msb x : canonical x -> bits_value msb (field_bits msb x) = value x.
Proof.
  intros Hx. unfold bits_value, field_bits, bits_msb, value_msb. destruct msb.
  - rewrite rev_involutive. apply value_lsb_iter. exact Hx.
  - apply value_lsb_iter. exact Hx.
Qed.

Lemma mk_canonical_id x : canonical x -> mk (value x) (Some (nbits x)) = x.
Proof. intros [Hn Hv]. destruct x as [v n]. cbn [mk value nbits] in *. rewrite mask_small by lia. reflexivity. Qed.

(* get_value on the concatenated field bits returns the j-th field *)
Lemma get_value_block msb pre x post start stop : canonical x ->
  start = Z.of_nat (List.length pre) -> stop + 1 - start = nbits x ->
  get_value msb (pre ++ field_bits msb x ++ post) start stop = x.
Proof.
  intros Hx Hs Hw. unfold get_value. subst start. rewrite Nat2Z.id.
  rewrite skipn_app, skipn_all, Nat.sub_diag. cbn [app skipn].
  rewrite Hw. rewrite <- (field_bits_length msb x). rewrite firstn_app, firstn_all, Nat.sub_diag. cbn [firstn].
  rewrite app_nil_r. rewrite field_bits_value by exact Hx.
  replace (stop - Z.of_nat (List.length pre) + 1) with (nbits x) by lia. apply mk_canonical_id. exact Hx.
Qed.

Lemma get_values_tiled msb k xs : forall pre ps next,
  Forall canonical xs -> map nbits xs = widths ps -> tiles k next ps = true -> next = Z.of_nat (List.length pre) ->
  map (fun q => get_value msb (pre ++ flat_map (field_bits msb) xs) (snd (fst q)) (snd q)) ps = xs.
Proof.
  induction xs as [|x xs IH]; intros pre ps next Hc Hw Ht Hn.
  - destruct ps; [reflexivity|discriminate].
  - destruct ps as [|[[nm start] stop] ps]; [discriminate|].
    cbn [map widths] in Hw. injection Hw as Hw1 Hw2. cbn [fst snd] in Hw1.
    cbn [tiles] in Ht. apply andb_true_iff in Ht as [Ht Ht4]. apply andb_true_iff in Ht as [Ht Ht3].
    apply andb_true_iff in Ht as [Ht1 Ht2]. inversion Hc as [|? ? Hx Hc']; subst.
    cbn [map flat_map fst snd]. f_equal.
    + apply get_value_block; [exact Hx|lia|lia].
    + replace (pre ++ field_bits msb x ++ flat_map (field_bits msb) xs)
        with ((pre ++ field_bits msb x) ++ flat_map (field_bits msb) xs) by (rewrite <- app_assoc; reflexivity).
      apply (IH (pre ++ field_bits msb x) ps (stop + 1)); auto.
      rewrite app_length, field_bits_length. destruct Hx as [Hn _]. lia.
Qed.

Lemma tiles_widths k : 0 < k -> forall ps next, tiles k next ps = true -> Forall (fun w => 0 < w /\ w mod k = 0) (widths ps).
Proof.
  intros Hk. induction ps as [|[[nm start] stop] ps IH]; intros next H; [constructor|].
  cbn [tiles] in H. apply andb_true_iff in H as [H H4]. apply andb_true_iff in H as [H H3]. apply andb_true_iff in H as [H1 H2].
  cbn [widths map fst snd]. constructor; [lia|]. eapply IH. exact H4.
Qed.

Lemma widths_sum ps : fold_right Z.add 0 (widths ps) = total_bits ps.
Proof. unfold total_bits, widths. induction ps as [|q ps IH]; cbn [map fold_right]; [reflexivity|]. rewrite IH. reflexivity. Qed.

Lemma bps_pos tl : (0 < bps tl)%nat.
Proof. unfold bps. destruct (Nat.eqb tl 2); [lia|]. destruct (Nat.eqb tl 4); lia. Qed.

(* with whole-symbol widths no padding happens: the decoded bit string is the concatenation of the field bits *)
Lemma fields_bits_nopad msb tl xs : (tl = 2 \/ tl = 4 \/ tl = 16)%nat ->
  Forall (fun w => 0 < w /\ w mod Z.of_nat (bps tl) = 0) (map nbits xs) ->
  flat_map (padded_bits msb tl) xs = flat_map (field_bits msb) xs /\
  fold_right (fun x n => (symcount tl (nbits x) + n)%nat) 0%nat xs = Z.to_nat (fold_right Z.add 0 (map nbits xs) / Z.of_nat (bps tl)) /\
  0 <= fold_right Z.add 0 (map nbits xs) /\ (fold_right Z.add 0 (map nbits xs)) mod Z.of_nat (bps tl) = 0.
Proof.
  intros Htl. pose proof (bps_pos tl) as Hb. induction xs as [|x xs IH]; intros H.
  - cbn. repeat split; lia.
  - cbn [map] in H. inversion H as [|? ? [Hw Hm] H']; subst. destruct (IH H') as [I1 [I2 [I3 I4]]].
    cbn [flat_map map fold_right]. rewrite I1, I2.
    assert (pad_count tl (Z.to_nat (nbits x)) = 0%nat) as Hp.
    { apply pad_count_zero; [exact Htl|]. 
      assert (Z.of_nat (Z.to_nat (nbits x) mod bps tl) = 0); [|lia]. rewrite Nat2Z.inj_mod. rewrite Z2Nat.id by lia. exact Hm. }
    rewrite padded_bits_nopad by exact Hp. split; [reflexivity|].
    set (k := Z.of_nat (bps tl)) in *. set (S := fold_right Z.add 0 (map nbits xs)) in *.
    assert (0 < k) by lia.
    split; [|split; [lia|]].
    + unfold symcount.
      assert (Z.of_nat ((Z.to_nat (nbits x) + bps tl - 1) / bps tl) = nbits x / k) as E1.
      { rewrite Nat2Z.inj_div. rewrite Nat2Z.inj_sub by lia. rewrite Nat2Z.inj_add. rewrite Z2Nat.id by lia. fold k.
        apply Z.mod_divide in Hm; [|lia]. destruct Hm as [q Hq]. rewrite Hq.
        replace (q * k + k - Z.of_nat 1) with ((k - 1) + q * k) by lia. rewrite Z.div_add by lia.
        rewrite Z.div_small by lia. rewrite Z.div_mul by lia. lia. }
      assert ((nbits x + S) / k = nbits x / k + S / k) as E2.
      { apply Z.mod_divide in Hm; [|lia]. destruct Hm as [q Hq]. rewrite Hq. rewrite Z.add_comm, Z.div_add by lia.
        rewrite Z.div_mul by lia. lia. }
      rewrite E2. rewrite Z2Nat.inj_add; [|apply Z.div_pos; lia|apply Z.div_pos; lia].
      rewrite <- E1. rewrite Nat2Z.id. reflexivity.
    + rewrite Z.add_mod by lia. rewrite Hm, I4. reflexivity.
Qed.

(* ------------------------------------------------------------------ shapes of frames *)
Lemma alternating_data t syms : std_table t -> Forall (fun i => (i < List.length t)%nat) syms ->
  alternating (render_data t syms).
Proof.
  intros Hstd Hs. induction syms as [|i syms IH]; [exact I|]. inversion Hs as [|? ? Hi Hs']; subst.
  unfold render_data. cbn [flat_map]. fold (render_data t syms). unfold sym.
  destruct (nth_error t i) as [[m s]|] eqn:E; [|apply nth_error_None in E; lia].
  unfold std_table in Hstd. rewrite Forall_forall in Hstd. destruct (Hstd _ (nth_error_In _ _ E)) as [Hm Hn]. cbn in Hm, Hn.
  cbn [app]. specialize (IH Hs').
  destruct (render_data_body t syms ltac:(apply Forall_forall; exact Hstd) Hs') as [_ [_ Hsh]].
  destruct syms as [|j syms'].
  - cbn. split; [nia|exact I].
  - destruct Hsh as [a [r [b [E1 [E2 _]]]]]. rewrite E1 in *. cbn [alternating]. split; [nia|]. split; [nia|exact IH].
Qed.

Lemma alternating_join a b : alternating a -> alternating b ->
  (match last_opt a, b with Some x, y :: _ => x * y < 0 | _, _ => True end) -> alternating (a ++ b).
Proof.
  intros Ha Hb Hj. destruct b as [|y rb]; [rewrite app_nil_r; exact Ha|].
  destruct (last_opt a) as [x|] eqn:El.
  - pose proof (removelast_last _ _ El) as Ea. rewrite Ea in *. apply alternating_app; auto.
  - unfold last_opt in El. destruct (rev a) eqn:E; [|discriminate].
    apply (f_equal (@rev Z)) in E. rewrite rev_involutive in E. subst a. exact Hb.
Qed.

Lemma last_neg_sound l : last_neg l = true -> exists b, last_opt l = Some b /\ b < 0.
Proof. unfold last_neg. destruct (last_opt l) as [b|]; [|discriminate]. intros H. exists b. split; [reflexivity|lia]. Qed.

Lemma head_pos_sound l : head_pos l = true -> exists a r, l = a :: r /\ 0 < a.
Proof. destruct l as [|a r]; [discriminate|]. cbn. intros H. exists a, r. split; [reflexivity|lia]. Qed.

(* li ++ data ++ rest alternates when the pieces do and the junctions change sign *)
Lemma sandwich_alternating li data rest :
  li_ok li = true -> alternating data ->
  (exists a r b, data = a :: r /\ 0 < a /\ last_opt data = Some b /\ b < 0) ->
  alternatingb rest = true -> (rest = [] \/ head_pos rest = true) ->
  alternating (li ++ data ++ rest).
Proof.
  intros Hli Hd [a [r [b [Ed [Ha [Eb Hb]]]]]] Hr Hrh.
  unfold li_ok in Hli. apply andb_true_iff in Hli as [Hli H3]. apply andb_true_iff in Hli as [H1 H2].
  apply alternatingb_sound in H2. apply alternatingb_sound in Hr.
  apply alternating_join; [exact H2| |].
  - apply alternating_join; [exact Hd|exact Hr|]. rewrite Eb. destruct rest as [|y rr]; [exact I|].
    destruct Hrh as [Hrh|Hrh]; [discriminate|]. cbn in Hrh. nia.
  - destruct li as [|l0 li']; [exact I|]. apply last_neg_sound in H3 as [x [Ex Hx]]. rewrite Ex, Ed. cbn [app]. nia.
Qed.

(* ------------------------------------------------------------------ explicit form of the built packet *)
Lemma build_packet_fixed li lo body :
  (match last_opt lo with Some g => g < 0 | None => True end) -> alternating (li ++ body ++ lo) ->
  build_packet li lo body = li ++ body ++ lo.
Proof.
  intros Hl Ha. unfold build_packet. destruct (last_opt lo) as [g|] eqn:El.
  - destruct (0 <? g) eqn:E; [lia|]. apply compress_alt_id. exact Ha.
  - assert (lo = []) as ->.
    { unfold last_opt in El. destruct (rev lo) eqn:E; [|discriminate].
      apply (f_equal (@rev Z)) in E. rewrite rev_involutive in E. exact E. }
    rewrite app_nil_r in *. apply compress_alt_id. exact Ha.
Qed.

Lemma append_gap_after_mark p x gap : last_opt p = Some x -> 0 < x -> append_gap p gap = p ++ [gap].
Proof.
  intros El Hx. unfold append_gap. unfold last_opt in El. destruct (rev p) as [|y r] eqn:E; [discriminate|].
  injection El as ->. replace (x <? 0) with false by lia. reflexivity.
Qed.

Lemma build_packet_period li core P body x :
  0 < P -> alternating (li ++ body ++ core) -> last_opt (li ++ body ++ core) = Some x -> 0 < x ->
  build_packet li (core ++ [P]) body = (li ++ body ++ core) ++ [sum_abs (li ++ body ++ core) - P].
Proof.
  intros HP Ha El Hx. unfold build_packet. rewrite last_opt_app_single. replace (0 <? P) with true by lia.
  rewrite List.removelast_last. rewrite compress_alt_id by exact Ha. apply (append_gap_after_mark _ x); assumption.
Qed.

Lemma build_packet_period_only li P pre m s :
  0 < P -> s < 0 -> sum_abs (li ++ pre ++ [m; s]) - P < 0 -> alternating (li ++ pre ++ [m; s]) ->
  build_packet li [P] (pre ++ [m; s]) = (li ++ pre ++ [m]) ++ [s + (sum_abs (li ++ pre ++ [m; s]) - P)].
Proof.
  intros HP Hs Hg Ha. unfold build_packet. change (last_opt [P]) with (Some P). cbv beta iota.
  replace (0 <? P) with true by lia.
  change (removelast [P]) with (@nil Z). rewrite app_nil_r.
  rewrite compress_alt_id by exact Ha.
  replace (li ++ pre ++ [m; s]) with ((li ++ pre ++ [m]) ++ [s]) by (rewrite <- !app_assoc; reflexivity).
  unfold append_gap. rewrite rev_app_distr. cbn [rev app].
  replace (s <? 0) with true by lia.
  replace (sum_abs ((li ++ pre ++ [m]) ++ [s]) - P <? 0) with true
    by (replace ((li ++ pre ++ [m]) ++ [s]) with (li ++ pre ++ [m; s]) by (rewrite <- !app_assoc; reflexivity); lia).
  cbn [andb rev]. rewrite rev_involutive. reflexivity.
Qed.

(* ------------------------------------------------------------------ perturbed frames *)
(* every duration independently off by at most a quarter of the tolerance; with a fixed frame period the
   trailing gap absorbs the difference (the exact frame is the special case of no perturbation) *)
Inductive perturbed (tol : Z) (period : option Z) (frame ds : list Z) : Prop :=
  | pert_fixed : period = None -> Forall2 (close tol) ds frame -> perturbed tol period frame ds
  | pert_period P body : period = Some P -> Forall2 (close tol) body (removelast frame) ->
      0 < P - sum_abs body -> ds = body ++ [- (P - sum_abs body)] -> perturbed tol period frame ds.

Definition period_of (D : desc) : option Z :=
  match last_opt (d_lead_out D) with Some g => if 0 <? g then Some g else None | None => None end.

Lemma Forall2_close_refl tol l : 0 <= tol -> Forall2 (close tol) l l.
Proof. intros. induction l; constructor; auto. apply close_refl; assumption. Qed.

Lemma exact_is_perturbed tol period frame : 0 <= tol ->
  (forall P, period = Some P -> 0 < P /\ sum_abs frame = P /\ exists b, last_opt frame = Some b /\ b < 0) ->
  perturbed tol period frame frame.
Proof.
  intros Ht H. destruct period as [P|]; [|apply pert_fixed; [reflexivity|apply Forall2_close_refl; exact Ht]].
  destruct (H P eq_refl) as [HP [Hs [b [Eb Hb]]]]. pose proof (removelast_last _ _ Eb) as Ef.
  apply (pert_period tol (Some P) frame frame P (removelast frame)); [reflexivity|apply Forall2_close_refl; exact Ht| |].
  - rewrite Ef in Hs. rewrite sum_abs_app, sum_abs_cons, sum_abs_nil in Hs. lia.
  - rewrite Ef at 1. f_equal. rewrite Ef in Hs. rewrite sum_abs_app, sum_abs_cons, sum_abs_nil in Hs. f_equal. lia.
Qed.

(* ------------------------------------------------------------------ from the parsed bits to the decoded fields *)
Lemma field_bits_total_length msb xs : Forall canonical xs ->
  Z.of_nat (List.length (flat_map (field_bits msb) xs)) = fold_right Z.add 0 (map nbits xs).
Proof.
  induction xs as [|x xs IH]; intros H; [reflexivity|]. inversion H as [|? ? [Hn _] H']; subst.
  cbn [flat_map map fold_right]. rewrite app_length, field_bits_length, Nat2Z.inj_add, IH by exact H'. lia.
Qed.

Lemma base_decode_of_parse D t tol ds p xs :
  parseC tol (d_lead_in D) (d_lead_out D) t ds = Ok p ->
  p_bits p = flat_map (field_bits (d_msb D)) xs ->
  Forall canonical xs -> map nbits xs = widths (d_params D) ->
  tiles (Z.of_nat (bps (List.length t))) 0 (d_params D) = true -> total_bits (d_params D) = d_bit_count D ->
  base_decode D t tol ds = Ok xs.
Proof.
  intros Hp Hb Hc Hw Ht Htot. unfold base_decode. rewrite Hp. cbn [bind]. rewrite Hb.
  rewrite field_bits_total_length by exact Hc. rewrite Hw, widths_sum, Htot.
  rewrite !Z.ltb_irrefl. f_equal.
  apply (get_values_tiled (d_msb D) (Z.of_nat (bps (List.length t))) xs [] (d_params D) 0); auto.
Qed.

Lemma nonzero_of_nzb l : nzb l = true -> nonzero l.
Proof. apply forallb_nonzero. Qed.
Lemma no_placeholder_sound l : no_placeholder l = true -> Forall (fun e => e <> PLACEHOLDER) l.
Proof. intros H. unfold no_placeholder in H. rewrite forallb_forall in H. apply Forall_forall. intros x Hx. specialize (H x Hx). lia. Qed.

Lemma classify_period lo core P : classify_lo lo = LoPeriod core P -> lo = core ++ [P] /\ 0 <= P /\ core <> [].
Proof.
  unfold classify_lo. destruct (last_opt lo) as [g|] eqn:El; [|discriminate].
  destruct (g <? 0) eqn:Eg; [discriminate|]. destruct (removelast lo) as [|c0 cr] eqn:Er; [discriminate|].
  intros [= <- <-]. split; [|split; [lia|discriminate]]. rewrite <- Er. apply removelast_last. exact El.
Qed.
Lemma classify_period_only lo P : classify_lo lo = LoPeriodOnly P -> lo = [P] /\ 0 <= P.
Proof.
  unfold classify_lo. destruct (last_opt lo) as [g|] eqn:El; [|discriminate].
  destruct (g <? 0) eqn:Eg; [discriminate|]. destruct (removelast lo) as [|c0 cr] eqn:Er; [|discriminate].
  intros [= <-]. split; [|lia]. pose proof (removelast_last _ _ El) as E. rewrite Er in E. exact E.
Qed.
Lemma classify_fixed lo : classify_lo lo = LoFixed -> match last_opt lo with Some g => g < 0 | None => True end.
Proof.
  unfold classify_lo. destruct (last_opt lo) as [g|]; [|auto]. destruct (g <? 0) eqn:Eg; [lia|].
  destruct (removelast lo); discriminate.
Qed.

(* IrProtocolBase.decode of a (perturbed) frame built from canonical fields of the declared widths returns the fields *)
Lemma base_decode_roundtrip_H D t tol xs frame ds :
  as_pairs (d_bursts D) = Some t -> is_manchester t = false -> rt_ok_t D t tol = true ->
  Forall canonical xs -> map nbits xs = widths (d_params D) ->
  render_part (PPacket (d_lead_in D) (d_lead_out D) (d_bursts D) (d_msb D) [] xs) = Ok frame ->
  perturbed tol (period_of D) frame ds ->
  base_decode D t tol ds = Ok xs.
Proof.
  intros Et Hman Hok Hc Hw Hr Hp. pose proof (as_pairs_table _ _ Et) as Eb.
  unfold rt_ok_t in Hok.
  repeat match type of Hok with (_ && _ = true) => let H := fresh "H" in apply andb_true_iff in Hok as [Hok H] end.
  rename H into Hlo, H0 into Hbc, H1 into Htot, H2 into Htiles, H3 into Hli, H4 into Hlen, H5 into Hwf, H6 into Htol2.
  assert (0 <= tol <= 100) as Ht by lia. apply wf_tableb_sound in Hwf; [|exact Ht]. apply len_ok_sound in Hlen.
  apply Z.eqb_eq in Htot. pose proof (wt_std _ _ Hwf) as Hstd.
  set (li := d_lead_in D) in *. set (lo := d_lead_out D) in *. set (msb := d_msb D) in *.
  (* the rendered data *)
  destruct (fields_durations_pairs msb t xs Hlen) as [syms [Efd [Hsv [Hsl Hsb]]]].
  cbn [render_part pos_durations bind] in Hr. rewrite Eb, Efd in Hr. cbn [bind app] in Hr. injection Hr as <-.
  set (k := Z.of_nat (bps (List.length t))) in *.
  assert (0 < k) as Hk by (unfold k; pose proof (bps_pos (List.length t)); lia).
  pose proof (tiles_widths k Hk _ _ Htiles) as Hws. rewrite <- Hw in Hws.
  destruct (fields_bits_nopad msb (List.length t) xs Hlen Hws) as [Enp [Ecnt [Hs0 Hsm]]].
  rewrite Hw, widths_sum, Htot in Ecnt, Hs0, Hsm. fold k in Ecnt, Hsm.
  rewrite Enp in Hsb. rewrite Ecnt in Hsl.
  assert (1 <= d_bit_count D / k) as Hq.
  { apply Z.mod_divide in Hsm; [|lia]. destruct Hsm as [q Hq]. rewrite Hq. rewrite Z.div_mul by lia. nia. }
  assert (syms <> []) as Hsne by (intros ->; cbn in Hsl; lia).
  pose proof (render_data_body t syms Hstd Hsv) as Hbody.
  assert (exists a r b, render_data t syms = a :: r /\ 0 < a /\ last_opt (render_data t syms) = Some b /\ b < 0) as Hshape
    by (destruct syms; [contradiction|]; destruct Hbody as [_ [_ Hsh]]; exact Hsh).
  assert (sum_abs (render_data t syms) <= (d_bit_count D / k) * maxsym t) as Hsum.
  { destruct Hbody as [_ [Hs _]]. rewrite Hsl in Hs. rewrite Z2Nat.id in Hs by lia. exact Hs. }
  pose proof (alternating_data t syms Hstd Hsv) as Hadata.
  pose proof Hli as Hli'. unfold li_ok in Hli'. apply andb_true_iff in Hli' as [Hli' _]. apply andb_true_iff in Hli' as [Hlinz _].
  apply nonzero_of_nzb in Hlinz.
  (* finish from a successful parse *)
  assert (forall norm sy, parseH tol li lo t ds = Ok {| p_bits := bits_of t syms; p_norm := norm; p_syms := sy |} ->
          base_decode D t tol ds = Ok xs) as Hfin.
  { intros norm sy Hpp. apply (base_decode_of_parse D t tol ds {| p_bits := bits_of t syms; p_norm := norm; p_syms := sy |} xs); auto.
    unfold parseC. rewrite Hman. exact Hpp. }
  unfold lo_ok in Hlo. cbv zeta in Hlo. fold lo in Hlo. fold li in Hlo. fold k in Hlo. destruct (classify_lo lo) as [|core P|P|] eqn:Ecl; [| | |discriminate].
  - (* fixed gap *)
    pose proof (classify_fixed _ Ecl) as Hlast. fold lo in Hlast.
    assert (period_of D = None) as Hper.
    { unfold period_of. fold lo. destruct (last_opt lo) as [g|]; [|reflexivity]. destruct (0 <? g) eqn:E; [lia|reflexivity]. }
    unfold lo_fixed_ok in Hlo.
    repeat match type of Hlo with (_ && _ = true) => let H := fresh "L" in apply andb_true_iff in Hlo as [Hlo H] end.
    assert (alternating (li ++ render_data t syms ++ lo)) as Halt.
    { apply sandwich_alternating; auto. destruct lo as [|l0 lr]; [left; reflexivity|right].
      apply andb_true_iff in L as [L _]. cbn. exact L. }
    rewrite (build_packet_fixed li lo _ Hlast Halt) in Hp.
    destruct Hp as [_ Hcl|P body HP]; [|congruence].
    eapply Hfin.
    apply parseH_render_fixed; auto; try (apply nonzero_of_nzb; assumption); try (apply no_placeholder_sound; assumption).
    destruct Hshape as [a [r [b [E _]]]]. rewrite E. destruct li; discriminate.
  - (* period after a lead-out mark *)
    destruct (classify_period _ _ _ Ecl) as [Elo [HP0 Hcne]]. fold lo in Elo.
    repeat match type of Hlo with (_ && _ = true) => let H := fresh "L" in apply andb_true_iff in Hlo as [Hlo H] end.
    rename L into Lsum, L0 into Llast, L1 into Lhead, L2 into Lph, L3 into Lnp, L4 into Lalt.
    assert (0 < P) as HP.
    { assert (0 <= sum_abs li) by apply sum_abs_nonneg. assert (0 <= sum_abs core) by apply sum_abs_nonneg.
      pose proof (maxsym_nonneg t). nia. }
    assert (period_of D = Some P) as Hper.
    { unfold period_of. fold lo. rewrite Elo, last_opt_app_single. replace (0 <? P) with true by lia. reflexivity. }
    set (body := li ++ render_data t syms ++ core).
    assert (alternating body) as Hab by (apply sandwich_alternating; auto).
    destruct (head_pos_sound _ Lhead) as [c0 [cr [Ec Hc0]]].
    assert (exists x, last_opt core = Some x /\ 0 < x) as [x [Ex Hx]].
    { apply nonzero_of_nzb in Hlo. unfold last_neg in Llast. destruct (last_opt core) as [x|] eqn:E.
      - exists x. split; [reflexivity|]. pose proof (removelast_last _ _ E) as Ecore. rewrite Ecore in Hlo.
        apply nonzero_app in Hlo as [_ Hn]. inversion Hn; subst. apply negb_true_iff in Llast. lia.
      - unfold last_opt in E. rewrite Ec in E. cbn [rev] in E. destruct (rev cr); discriminate. }
    assert (last_opt body = Some x) as Elb.
    { unfold body. rewrite app_assoc. rewrite last_opt_app; [exact Ex|exact Hcne]. }
    assert (sum_abs body - P < 0) as Hgap by (unfold body; rewrite !sum_abs_app; lia).
    rewrite Elo in Hp. rewrite (build_packet_period li core P _ x HP Hab Elb Hx) in Hp. fold body in Hp.
    destruct Hp as [Hn _|P' bds HP' Hcl Hpos ->]; [congruence|]. assert (P' = P) by congruence. subst P'.
    rewrite List.removelast_last in Hcl.
    eapply Hfin. rewrite Elo.
    apply parseH_render_period; auto; try (apply nonzero_of_nzb; assumption); try (apply no_placeholder_sound; assumption); try lia.
    fold body. apply alternating_join; [exact Hab|exact I|]. rewrite Elb. nia.
  - (* the period is the whole lead-out *)
    destruct (classify_period_only _ _ Ecl) as [Elo HP0]. fold lo in Elo.
    repeat match type of Hlo with (_ && _ = true) => let H := fresh "L" in apply andb_true_iff in Hlo as [Hlo H] end.
    rename L into Lsum, L0 into Lnd.
    assert (0 < P) as HP.
    { assert (0 <= sum_abs li) by apply sum_abs_nonneg. pose proof (maxsym_nonneg t). nia. }
    assert (period_of D = Some P) as Hper.
    { unfold period_of. fold lo. rewrite Elo. change (last_opt [P]) with (Some P). cbv beta iota.
      replace (0 <? P) with true by lia. reflexivity. }
    destruct (exists_last Hsne) as [syms' [i Es]]. subst syms.
    apply Forall_app in Hsv as [Hsv' Hsi]. inversion Hsi as [|? ? Hi _]; subst.
    destruct (nth_error t i) as [[m s]|] eqn:Ei; [|apply nth_error_None in Ei; lia].
    assert (render_data t (syms' ++ [i]) = render_data t syms' ++ [m; s]) as Erd.
    { unfold render_data. rewrite flat_map_app. cbn [flat_map]. unfold sym. rewrite Ei. rewrite app_nil_r. reflexivity. }
    rewrite Erd in *.
    assert (0 < m /\ s < 0) as [Hm Hs].
    { unfold std_table in Hstd. rewrite Forall_forall in Hstd. apply (Hstd (m, s)). eapply nth_error_In; eauto. }
    assert (alternating (li ++ (render_data t syms' ++ [m; s]) ++ [])) as Halt by (apply sandwich_alternating; auto).
    rewrite app_nil_r in Halt.
    assert (sum_abs (li ++ render_data t syms' ++ [m; s]) - P < 0) as Hgap by (rewrite sum_abs_app; lia).
    rewrite Elo in Hp. rewrite (build_packet_period_only li P _ m s HP Hs Hgap Halt) in Hp.
    destruct Hp as [Hn _|P' bds HP' Hcl Hpos ->]; [congruence|]. assert (P' = P) by congruence. subst P'.
    rewrite List.removelast_last in Hcl.
    eapply Hfin. rewrite Elo.
    pose proof (parseH_render_period_only tol li P t syms' i m s bds Ht Hwf (nodupzb_sound _ Lnd) Hlinz HP
                  ltac:(lia) Hsv' Ei) as Hth.
    cbv zeta in Hth. apply Hth; auto.
    + replace ((li ++ render_data t syms' ++ [m]) ++ [s]) with (li ++ render_data t syms' ++ [m; s])
        by (rewrite <- !app_assoc; reflexivity). exact Hgap.
    + replace ((li ++ render_data t syms' ++ [m]) ++ [s]) with (li ++ render_data t syms' ++ [m; s])
        by (rewrite <- !app_assoc; reflexivity). exact Halt.
Qed.

(* ------------------------------------------------------------------ Manchester tables *)
Lemma sum_abs_render_mt m s syms : Forall (fun i => (i < 2)%nat) syms ->
  sum_abs (render_data (mt m s) syms) = Z.of_nat (List.length syms) * (Z.abs m + Z.abs s).
Proof.
  induction syms as [|i syms IH]; intros H; [reflexivity|]. inversion H as [|? ? Hi H']; subst.
  unfold render_data. cbn [flat_map]. fold (render_data (mt m s) syms). rewrite sum_abs_app, IH by exact H'.
  cbn [List.length]. destruct (sym_cases m s i Hi) as [-> | ->]; rewrite !sum_abs_cons, sum_abs_nil; lia.
Qed.

Lemma base_decode_roundtrip_M D t tol xs frame ds :
  as_pairs (d_bursts D) = Some t -> is_manchester t = true -> rtM_ok_t D t tol = true ->
  Forall canonical xs -> map nbits xs = widths (d_params D) ->
  render_part (PPacket (d_lead_in D) (d_lead_out D) (d_bursts D) (d_msb D) [] xs) = Ok frame ->
  perturbed tol (period_of D) frame ds ->
  base_decode D t tol ds = Ok xs.
Proof.
  intros Et Hman Hok Hc Hw Hr Hp. pose proof (as_pairs_table _ _ Et) as Eb.
  unfold rtM_ok_t in Hok. destruct t as [|[m s] [|[s' m'] [|q r]]]; try discriminate.
  repeat match type of Hok with (_ && _ = true) => let H := fresh "H" in apply andb_true_iff in Hok as [Hok H] end.
  rename H into Hlo, H0 into Hbc, H1 into Htot, H2 into Htiles, H3 into Hlast, H4 into Halt, H5 into Hnz, H6 into Htab,
         H7 into Hms, H8 into Em, H9 into Es, H10 into Htol2.
  assert (0 <= tol <= 100) as Ht by lia. assert (s' = s) by lia. assert (m' = m) by lia. subst s' m'.
  assert (m * s < 0) as Hms' by lia. apply Z.eqb_eq in Htot.
  apply nonzero_of_nzb in Hnz. apply alternatingb_sound in Halt.
  change [(m, s); (s, m)] with (mt m s) in *. set (t := mt m s) in *.
  set (li := d_lead_in D) in *. set (msb := d_msb D) in *.
  destruct (fields_durations_pairs msb t xs (or_introl eq_refl)) as [syms [Efd [Hsv [Hsl Hsb]]]].
  cbn [render_part pos_durations bind] in Hr. rewrite Eb, Efd in Hr. cbn [bind app] in Hr. injection Hr as <-.
  change (List.length t) with 2%nat in *. change (bps 2) with 1%nat in *.
  pose proof (tiles_widths 1 ltac:(lia) _ _ Htiles) as Hws. rewrite <- Hw in Hws.
  destruct (fields_bits_nopad msb 2 xs (or_introl eq_refl) Hws) as [Enp [Ecnt [Hs0 Hsm]]].
  rewrite Hw, widths_sum, Htot in Ecnt, Hs0, Hsm. change (Z.of_nat (bps 2)) with 1 in Ecnt. rewrite Z.div_1_r in Ecnt.
  rewrite Enp in Hsb. rewrite Ecnt in Hsl.
  assert (Z.of_nat (List.length syms) = d_bit_count D) as Hlen by lia.
  assert (2 <= List.length syms)%nat as Hlen2 by lia.
  assert (syms <> []) as Hsne by (intros ->; cbn in Hlen2; lia).
  pose proof (sum_abs_render_mt m s syms Hsv) as Hsum. fold t in Hsum. rewrite Hlen in Hsum.
  assert (forall norm sy, parseM tol li (d_lead_out D) t ds = Ok {| p_bits := bits_of t syms; p_norm := norm; p_syms := sy |} ->
          base_decode D t tol ds = Ok xs) as Hfin.
  { intros norm sy Hpp. apply (base_decode_of_parse D t tol ds {| p_bits := bits_of t syms; p_norm := norm; p_syms := sy |} xs); auto.
    unfold parseC. rewrite Hman. exact Hpp. }
  unfold lo_okM in Hlo. destruct (d_lead_out D) as [|g [|g2 lr]] eqn:Elo; try discriminate.
  destruct (g <? 0) eqn:Eg.
  - (* a single fixed gap *)
    apply andb_true_iff in Hlo as [Lph Lm].
    assert (period_of D = None) as Hper.
    { unfold period_of. rewrite Elo. change (last_opt [g]) with (Some g). cbv beta iota. replace (0 <? g) with false by lia. reflexivity. }
    assert (build_packet li [g] (render_data t syms) = compress (li ++ render_data t syms ++ [g])) as Ebp.
    { unfold build_packet. change (last_opt [g]) with (Some g). cbv beta iota. replace (0 <? g) with false by lia. reflexivity. }
    rewrite Ebp in Hp. destruct Hp as [_ Hcl|P body HP]; [|congruence].
    eapply Hfin. apply (parseM_render_fixed tol m s Ht Hms' Htab li g syms ds); auto; lia.
  - (* the frame period *)
    repeat match type of Hlo with (_ && _ = true) => let H := fresh "L" in apply andb_true_iff in Hlo as [Hlo H] end.
    rename g into P. repeat match goal with H : context [d_lead_in D] |- _ => progress change (d_lead_in D) with li in H end.
    assert (0 < P) as HP by lia.
    assert (period_of D = Some P) as Hper.
    { unfold period_of. rewrite Elo. change (last_opt [P]) with (Some P). cbv beta iota. replace (0 <? P) with true by lia. reflexivity. }
    assert (li ++ render_data t syms <> []) as Hbne by (destruct li; [destruct syms; [congruence|]; destruct (render_cons m s n syms Hms' ltac:(inversion Hsv; auto)) as [h1 [h2 [_ [_ [_ E]]]]]; fold t in E; rewrite E|]; discriminate).
    assert (nonzero (li ++ render_data t syms)) as Hbnz.
    { apply nonzero_app. split; [exact Hnz|]. clear -Hsv Hms'. induction syms as [|i syms IH]; [constructor|].
      inversion Hsv as [|? ? Hi Hsv']; subst. unfold render_data. cbn [flat_map]. fold (render_data t syms).
      apply nonzero_app. split; [|apply IH; exact Hsv'].
      destruct (sym_cases m s i Hi) as [E | E]; unfold t; rewrite E; repeat constructor; nia. }
    assert (build_packet li [P] (render_data t syms)
            = compress ((li ++ render_data t syms) ++ [sum_abs (li ++ render_data t syms) - P])) as Ebp.
    { unfold build_packet. change (last_opt [P]) with (Some P). cbv beta iota. replace (0 <? P) with true by lia.
      change (removelast [P]) with (@nil Z). rewrite app_nil_r. rewrite compress_sum_abs.
      apply append_gap_compress; [exact Hbnz|rewrite sum_abs_app; lia|exact Hbne]. }
    rewrite Ebp in Hp. destruct Hp as [Hn _|P' bds HP' Hcl Hpos ->]; [congruence|]. assert (P' = P) by congruence. subst P'.
    eapply Hfin.
    pose proof (parseM_render_period_only tol m s Ht Hms' Htab li P syms bds Hnz Halt Hlast HP ltac:(lia) Hlen2 Hsv) as Hth.
    cbv zeta in Hth. fold t in Hth. apply Hth; auto. rewrite sum_abs_app. lia.
Qed.

Theorem base_decode_roundtrip D tol xs frame ds :
  rt_ok D tol = true -> Forall canonical xs -> map nbits xs = widths (d_params D) ->
  render_part (PPacket (d_lead_in D) (d_lead_out D) (d_bursts D) (d_msb D) [] xs) = Ok frame ->
  perturbed tol (period_of D) frame ds ->
  exists t, as_pairs (d_bursts D) = Some t /\ base_decode D t tol ds = Ok xs.
Proof.
  intros Hok Hc Hw Hr Hp. unfold rt_ok in Hok. destruct (as_pairs (d_bursts D)) as [t|] eqn:Et; [|discriminate].
  exists t. split; [reflexivity|]. destruct (is_manchester t) eqn:Hman.
  - eapply base_decode_roundtrip_M; eauto.
  - eapply base_decode_roundtrip_H; eauto.
Qed.

(* the exact frame is one of the admitted perturbations, given what C03's check establishes about it *)
Lemma exact_frame_perturbed tol D frame :
  0 <= tol -> frame_wf frame -> (forall P, period_of D = Some P -> 0 < P /\ sum_abs frame = P) ->
  perturbed tol (period_of D) frame frame.
Proof.
  intros Ht Hwf Hp. apply exact_is_perturbed; [exact Ht|]. intros P HP. destruct (Hp P HP) as [H1 H2].
  split; [exact H1|]. split; [exact H2|]. destruct Hwf as [_ [_ [_ [_ Hl]]]]. exact Hl.
Qed.

Lemma period_of_pos D P : period_of D = Some P -> 0 < P.
Proof. unfold period_of. destruct (last_opt (d_lead_out D)) as [g|]; [|discriminate]. destruct (0 <? g) eqn:E; [|discriminate]. intros [= <-]. lia. Qed.

Lemma period_of_part_sum D pos xs P : period_of D = Some P ->
  part_sum (PPacket (d_lead_in D) (d_lead_out D) (d_bursts D) (d_msb D) pos xs) = Some P.
Proof. unfold period_of, part_sum. destruct (last_opt (d_lead_out D)) as [g|]; [|discriminate]. destruct (0 <? g); [auto|discriminate]. Qed.

(* C01's round trip for the unperturbed frame, from the two decidable checks *)
Theorem exact_roundtrip D tol xs :
  rt_ok D tol = true -> part_ok (PPacket (d_lead_in D) (d_lead_out D) (d_bursts D) (d_msb D) [] xs) = true ->
  Forall canonical xs -> map nbits xs = widths (d_params D) ->
  exists t frame, as_pairs (d_bursts D) = Some t /\
    render_part (PPacket (d_lead_in D) (d_lead_out D) (d_bursts D) (d_msb D) [] xs) = Ok frame /\
    frame_wf frame /\ base_decode D t tol frame = Ok xs.
Proof.
  intros Hrt Hpk Hc Hw. destruct (part_ok_sound _ Hpk) as [frame [Er [Hwf Hs]]].
  assert (0 <= tol) as Ht.
  { unfold rt_ok in Hrt. destruct (as_pairs (d_bursts D)) as [t|]; [|discriminate]. destruct (is_manchester t).
    - unfold rtM_ok_t in Hrt. destruct t as [|[m s] [|[s' m'] [|q r]]]; try discriminate.
      repeat match type of Hrt with (_ && _ = true) => let H := fresh "H" in apply andb_true_iff in Hrt as [Hrt H] end. lia.
    - unfold rt_ok_t in Hrt.
      repeat match type of Hrt with (_ && _ = true) => let H := fresh "H" in apply andb_true_iff in Hrt as [Hrt H] end. lia. }
  assert (perturbed tol (period_of D) frame frame) as Hp.
  { apply exact_frame_perturbed; [exact Ht|exact Hwf|]. intros P HP. split; [eapply period_of_pos; eauto|].
    apply Hs. apply period_of_part_sum. exact HP. }
  destruct (base_decode_roundtrip D tol xs frame frame Hrt Hc Hw Er Hp) as [t [Et Hb]].
  exists t, frame. auto.
Qed.
