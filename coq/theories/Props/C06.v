(* C06  A held key decodes as the same code on every frame of the sequence — model of IrProtocolBase.decode with a held key
   (classes that do not override decode; repeat marker = fixed lead-in/lead-out, i.e. _repeat_bursts empty). *)
From Coq Require Import ZArith List Bool.
Require Import PyIR.Base.Result PyIR.IW.IW PyIR.Engine.Parse PyIR.Proto.Descriptor PyIR.Proto.RoundTrip PyIR.Proto.C03Check PyIR.Proto.Model PyIR.Ctl.Instance PyIR.Ctl.InstanceChk.
Import ListNotations.
Open Scope Z_scope.

(* full frame + n repeat markers, any n *)
Theorem C06_marker_sequence : forall D t tol c F R p n,
  d_rep_bursts D = [] -> negb (is_nil (d_rep_lead_in D)) || negb (is_nil (d_rep_lead_out D)) = true ->
  base_decode D t tol F = Ok c -> parseH tol (d_rep_lead_in D) (d_rep_lead_out D) [] R = Ok p ->
  run_seq D t tol fresh (F :: repeat R n) = repeat (Ok c) (S n).
Proof. exact held_key_marker_sequence. Qed.

(* the full frame sent n+1 times, any n *)
Theorem C06_same_frame_sequence : forall D t tol c F n,
  d_rep_bursts D = [] -> Forall (fun e => e <> PLACEHOLDER) (d_rep_lead_out D) ->
  List.length F <> (List.length (d_rep_lead_in D) + List.length (d_rep_lead_out D))%nat ->
  base_decode D t tol F = Ok c ->
  run_seq D t tol fresh (repeat F (S n)) = repeat (Ok c) (S n).
Proof. exact held_key_same_frame_sequence. Qed.

(* no history: any single frame goes through the full parse - a bare repeat marker cannot return a key it does not spell *)
Theorem C06_no_history : forall D t tol R, snd (fst (decode_inst D t tol fresh R)) = base_decode D t tol R.
Proof. exact marker_without_history. Qed.

(* the same for classes that override decode() after the common template: base decode, the protocol's own checks [chk]
   (any function of the decoded fields), then the held-key block.  The key's fields must pass the checks. *)
Theorem C06_marker_sequence_with_checks : forall D t tol chk c F R p n,
  negb (is_nil (d_rep_lead_in D)) || negb (is_nil (d_rep_lead_out D)) = true ->
  base_decode D t tol F = Ok c -> check_of chk c = None ->
  parseH tol (d_rep_lead_in D) (d_rep_lead_out D) [] R = Ok p ->
  run_seq_chk D t tol chk fresh (F :: repeat R n) = repeat (Ok c) (S n).
Proof. exact held_key_marker_sequence_chk. Qed.

Theorem C06_same_frame_sequence_with_checks : forall D t tol chk c F n,
  Forall (fun e => e <> PLACEHOLDER) (d_rep_lead_out D) ->
  List.length F <> (List.length (d_rep_lead_in D) + List.length (d_rep_lead_out D))%nat ->
  base_decode D t tol F = Ok c -> check_of chk c = None ->
  run_seq_chk D t tol chk fresh (repeat F (S n)) = repeat (Ok c) (S n).
Proof. exact held_key_same_frame_sequence_chk. Qed.

Theorem C06_no_history_with_checks : forall D t tol chk R,
  snd (fst (decode_inst_chk D t tol chk fresh R)) =
  match base_decode D t tol R with
  | Ok c => match check_of chk c with Some err => err | None => Ok c end
  | r => r
  end.
Proof. exact marker_without_history_chk. Qed.

Print Assumptions C06_marker_sequence.
Print Assumptions C06_same_frame_sequence.
Print Assumptions C06_no_history.
Print Assumptions C06_marker_sequence_with_checks.
Print Assumptions C06_same_frame_sequence_with_checks.
Print Assumptions C06_no_history_with_checks.
