(* C14  A code's identity (string, int, hex) is consistent and collision-free — property theorems on the model of
   IRCode.__str__ / __int__ / hexadecimal over the _code_order fields. *)
From Coq Require Import ZArith List Bool.
Require Import PyIR.Proto.Identity.
Import ListNotations.
Open Scope Z_scope.

(* different identifying parameters give different identity strings: every protocol, every number of fields, all values *)
Theorem C14_string_collision_free : forall co a b, length a = length co -> length b = length co ->
  Forall (fun v => 0 <= v) a -> Forall (fun v => 0 <= v) b -> str_fields co a = str_fields co b -> a = b.
Proof. exact str_injective. Qed.

(* ... and different integers, as long as every identifying value fits the width _code_order declares for it
   (a decidable per-protocol condition, re-checked on the regenerated tables on every run) *)
Theorem C14_int_collision_free : forall msb co a b, fits a co -> fits b co -> int_of msb co a = int_of msb co b -> a = b.
Proof. exact int_injective. Qed.

(* the hex form has an even number of digits and parses back to the integer *)
Theorem C14_hex_even_parses_back : forall z, 0 <= z ->
  Nat.even (length (hex_digits z)) = true /\ undigits 16 (hex_digits z) = z.
Proof. exact hex_even_and_parses_back. Qed.

(* when a value does not fit its declared width the integer identity does collide: the condition is needed *)
Example C14_int_collides_when_too_wide : int_of true [4] [16] = int_of true [4] [17] /\ 16 <> 17.
Proof. vm_compute. split; [reflexivity|discriminate]. Qed.

Print Assumptions C14_string_collision_free.
Print Assumptions C14_int_collision_free.
Print Assumptions C14_hex_even_parses_back.
