(* C20  The fallback decoder gives unknown signals a stable identity — what is provable about the heuristic:
   the code __decode_1 computes is a function of the equality pattern of the normalised durations only. *)
From Coq Require Import ZArith List Bool.
Require Import PyIR.Base.Result PyIR.Util.Universal.
Import ListNotations.
Open Scope Z_scope.

(* for every normalised signal of any length and every renaming of its durations that keeps distinct durations distinct
   (whatever clustering and 50us snapping produce, as long as they group the durations the same way): same code *)
Theorem C20_code_depends_on_pattern_only_partial : forall phi norm,
  (forall a b, In a norm -> In b norm -> phi a = phi b -> a = b) ->
  decode1 (map phi norm) = decode1 norm.
Proof. exact decode1_renaming. Qed.

(* the model is a function of the normalised signal alone: no decoder state, no instance (by construction);
   non-vacuity and the shift-invariance on a concrete NEC-like signal *)
Example C20_example :
  let s := [9000; -4500; 550; -550; 550; -1700; 550; -550; 550; -1700; 550; -40000] in
  universal s = universal (map (fun x => if x <? 0 then x - 50 else x + 100) s) /\ universal s = Ok 10.
Proof. vm_compute. split; reflexivity. Qed.

Print Assumptions C20_code_depends_on_pattern_only_partial.
