(* C01  Encode then decode returns the parameters that were encoded — generic property theorems.
   The per-protocol instances C01_<p> are generated and re-proved on every run from the regenerated models. *)
From Coq Require Import ZArith List Bool.
Require Import PyIR.Base.Result PyIR.IW.IW PyIR.IW.IWProps PyIR.Engine.Match PyIR.Engine.Render PyIR.Engine.Parse
               PyIR.Engine.ParseProps PyIR.Engine.RoundTripH PyIR.Proto.Descriptor PyIR.Proto.Model PyIR.Proto.RoundTrip PyIR.Proto.C01.
Import ListNotations.
Open Scope Z_scope.

(* engine: parsing a rendered frame, exact or perturbed by up to tolerance/4 per duration, returns the rendered symbols;
   unbounded in table size, symbol count, lead-in/lead-out length *)
Theorem C01_engine_fixed_gap : forall tol li lo t syms ds,
  0 <= tol <= 100 -> wf_table tol t ->
  nonzero li -> nonzero lo -> Forall (fun e => e <> PLACEHOLDER) lo ->
  (match last_opt lo with Some g => g < 0 | None => True end) ->
  Forall (fun i => (i < length t)%nat) syms ->
  li ++ render_data t syms ++ lo <> [] ->
  alternating (li ++ render_data t syms ++ lo) ->
  Forall2 (close tol) ds (li ++ render_data t syms ++ lo) ->
  parseH tol li lo t ds = Ok {| p_bits := bits_of t syms; p_norm := li ++ render_data t syms ++ lo; p_syms := syms |}.
Proof. exact parseH_render_fixed. Qed.

(* protocol level: IrProtocolBase.decode on a fresh instance gives back the bit fields that were rendered,
   for every descriptor passing the decidable check rt_ok *)
Theorem C01_protocol_roundtrip : forall D tol xs,
  rt_ok D tol = true -> Forall canonical xs -> map nbits xs = widths (d_params D) ->
  (exists frame, render_part (PPacket (d_lead_in D) (d_lead_out D) (d_bursts D) (d_msb D) [] xs) = Ok frame) /\
  (forall frame ds,
     render_part (PPacket (d_lead_in D) (d_lead_out D) (d_bursts D) (d_msb D) [] xs) = Ok frame ->
     perturbed tol (period_of D) frame ds ->
     exists t, as_pairs (d_bursts D) = Some t /\ base_decode D t tol ds = Ok xs).
Proof. exact c01_generic. Qed.

Print Assumptions C01_engine_fixed_gap.
Print Assumptions C01_protocol_roundtrip.
