(* C01  Encode then decode returns the parameters that were encoded — generic property theorems.
   The per-protocol instances C01_<p> are generated and re-proved on every run from the regenerated models. *)
From Coq Require Import ZArith List Bool.
Require Import PyIR.Base.Result PyIR.IW.IW PyIR.IW.IWProps PyIR.Engine.Match PyIR.Engine.Render PyIR.Engine.Parse
               PyIR.Engine.ParseProps PyIR.Engine.RoundTripH PyIR.Engine.ParseM PyIR.Engine.RoundTripM PyIR.Proto.Descriptor PyIR.Proto.Model PyIR.Proto.RoundTrip PyIR.Proto.C01 PyIR.Proto.Exhaustive.
Import ListNotations.
Open Scope Z_scope.

(* engine: parsing a rendered frame, exact or perturbed by up to tolerance/4 per duration, returns the rendered symbols;
   unbounded in table size, symbol count, lead-in/lead-out length *)
Theorem C01_engine_fixed_gap : forall tol li lo t syms ds,
  0 <= tol <= 100 -> wf_table tol t ->
  nonzero li -> nonzero lo -> Forall (fun e => e <> PLACEHOLDER) lo ->
  (match last_opt lo with Some g => g < 0 | None => True end) ->
  Forall (fun i => (i < length t)%nat) syms ->
  li ++ render_data t syms ++ lo <> [] ->
  alternating (li ++ render_data t syms ++ lo) ->
  Forall2 (close tol) ds (li ++ render_data t syms ++ lo) ->
  parseH tol li lo t ds = Ok {| p_bits := bits_of t syms; p_norm := li ++ render_data t syms ++ lo; p_syms := syms |}.
Proof. exact parseH_render_fixed. Qed.

(* engine, Manchester tables [(m, s); (s, m)]: the renderer merges equal neighbouring halves, the last lead-in element
   with the first half and the last half with the gap; the parser splits them again - for any number of symbols, any
   perturbation by up to tolerance/4 per duration.  man_table_ok / li_last_ok / lo_merge_ok are decidable window conditions
   evaluated on each protocol's tables *)
Theorem C01_engine_manchester_fixed_gap : forall tol m s, 0 <= tol <= 100 -> m * s < 0 -> man_table_ok tol m s = true ->
  forall li g syms ds,
  nonzero li -> alternating li -> li_last_ok tol m s li = true ->
  g < 0 -> g <> PLACEHOLDER -> lo_merge_ok tol m s g = true ->
  syms <> [] -> Forall (fun i => (i < 2)%nat) syms ->
  Forall2 (close tol) ds (compress (li ++ render_data (mt m s) syms ++ [g])) ->
  parseM tol li [g] (mt m s) ds
  = Ok {| p_bits := bits_of (mt m s) syms; p_norm := compress (li ++ render_data (mt m s) syms ++ [g]); p_syms := syms |}.
Proof. exact parseM_render_fixed. Qed.

Theorem C01_engine_manchester_period : forall tol m s, 0 <= tol <= 100 -> m * s < 0 -> man_table_ok tol m s = true ->
  forall li P syms dbody,
  nonzero li -> alternating li -> li_last_ok tol m s li = true ->
  0 < P -> P <> PLACEHOLDER ->
  (2 <= length syms)%nat -> Forall (fun i => (i < 2)%nat) syms ->
  let body := li ++ render_data (mt m s) syms in
  let gap := sum_abs body - P in
  gap < 0 ->
  Forall2 (close tol) dbody (removelast (compress (body ++ [gap]))) ->
  0 < P - sum_abs dbody ->
  parseM tol li [P] (mt m s) (dbody ++ [- (P - sum_abs dbody)])
  = Ok {| p_bits := bits_of (mt m s) syms; p_norm := compress (body ++ [gap]); p_syms := syms |}.
Proof. exact parseM_render_period_only. Qed.

(* the premises are satisfiable: RC5's tables at the default tolerance, and a concrete frame *)
Example C01_manchester_premises_rc5 :
  man_table_ok 20 889 (-889) = true /\ li_last_ok 20 889 (-889) [889] = true /\
  parseM 20 [889] [114000] (mt 889 (-889)) [889; -889; 1778; -889; 889; -1778; 889; -105999]
  = Ok {| p_bits := [true; false; false; true]; p_norm := [889; -889; 1778; -889; 889; -1778; 889; -105999]; p_syms := [1; 0; 0; 1]%nat |}.
Proof. vm_compute. repeat split; reflexivity. Qed.

(* protocol level: IrProtocolBase.decode on a fresh instance gives back the bit fields that were rendered,
   for every descriptor passing the decidable check rt_ok *)
Theorem C01_protocol_roundtrip : forall D tol xs,
  rt_ok D tol = true -> Forall canonical xs -> map nbits xs = widths (d_params D) ->
  (exists frame, render_part (PPacket (d_lead_in D) (d_lead_out D) (d_bursts D) (d_msb D) [] xs) = Ok frame) /\
  (forall frame ds,
     render_part (PPacket (d_lead_in D) (d_lead_out D) (d_bursts D) (d_msb D) [] xs) = Ok frame ->
     perturbed tol (period_of D) frame ds ->
     exists t, as_pairs (d_bursts D) = Some t /\ base_decode D t tol ds = Ok xs).
Proof. exact c01_generic. Qed.

(* the principle behind the C01X_<p> instances (small parameter spaces): a boolean round-trip check that evaluates to true on every
   assignment of the ranges holds for every in-range assignment *)
Theorem C01_exhaustion_principle : forall (P : list Z -> bool) rs, forallb P (all_assignments rs) = true ->
  forall args, Forall2 (fun a r => fst r <= a <= snd r) args rs -> P args = true.
Proof. exact exhaustive_sound. Qed.

Print Assumptions C01_engine_fixed_gap.
Print Assumptions C01_exhaustion_principle.
Print Assumptions C01_engine_manchester_fixed_gap.
Print Assumptions C01_engine_manchester_period.
Print Assumptions C01_protocol_roundtrip.
