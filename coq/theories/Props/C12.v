(* C12  Each key press ends in exactly one release notification after the repeat timeout — property theorems
   about the release-timer model (every operation word, any length, any number of timers). *)
From Coq Require Import ZArith List Bool.
Require Import PyIR.Ctl.Timer PyIR.Ctl.TimerInv.
Import ListNotations.
Open Scope Z_scope.

(* conservation: releases handed over + (1 if still armed) = the same at the start + armings - cancellations *)
Theorem C12_conservation : forall i ops w,
  mu i (timers (run true w ops)) (released (run true w ops)) = mu i (timers w) (released w) + deltas i w ops.
Proof. exact timer_conservation. Qed.

(* between two arming events a timer hands over at most one release, and exactly one once it is found disarmed *)
Theorem C12_at_most_one_release : forall i ops w, forallb (quiet i) ops = true ->
  cnt i (released (run true w ops)) <= cnt i (released w) + Z.b2z (armed_i i (timers w)) /\
  (armed_i i (timers (run true w ops)) = false ->
   cnt i (released (run true w ops)) = cnt i (released w) + Z.b2z (armed_i i (timers w))).
Proof. exact at_most_one_release. Qed.

(* no release while frames keep arriving at intervals shorter than the timeout *)
Theorem C12_no_early_release : forall dof nw t el, armed t = true -> 0 <= el -> 0 <= duration t ->
  adjusted t = adjust (duration t) el -> nw - t_start t < duration t -> run_func dof nw t = (t, false, false).
Proof. exact no_fire_within_timeout. Qed.

(* the release is handed over by the first polling pass after the padded timeout, and the timer is disarmed *)
Theorem C12_release_when_due : forall nw t, armed t = true -> adjusted t <= 10 * (nw - t_start t) ->
  exists t', run_func true nw t = (t', true, true) /\ armed t' = false.
Proof. exact fires_when_due. Qed.

Print Assumptions C12_conservation.
Print Assumptions C12_at_most_one_release.
Print Assumptions C12_no_early_release.
Print Assumptions C12_release_when_due.
