(* C09  Decoding never modifies caller data and decoder instances are isolated. *)
From Coq Require Import List Bool.
Require Import PyIR.Ctl.Instance.
Import ListNotations.

(* any two state machines whose steps touch only their own state (no class-level state: a fact extracted from the source
   and checked by the two-instance differential on every run), stepped in ANY interleaving: the outputs of one are
   exactly those of running its own inputs alone *)
Theorem C09_instances_isolated : forall (S I O : Type) (step : S -> I -> S * O) ops x y,
  proj true (run2 S I O step x y ops) = run1 S I O step x (proj true ops).
Proof. exact instances_isolated. Qed.

Print Assumptions C09_instances_isolated.

(* instantiated at the decoder-instance model (the model the C06/C07 correspondence ties to IrProtocolBase.decode):
   two decoders of one class, frames fed in any interleaving *)
Theorem C09_modelled_decoders_isolated : forall D t tol ops x y,
  let step := fun s f => (fst (fst (decode_inst D t tol s f)), snd (fst (decode_inst D t tol s f))) in
  proj true (run2 _ _ _ step x y ops) = run1 _ _ _ step x (proj true ops).
Proof. intros. apply instances_isolated. Qed.

Print Assumptions C09_modelled_decoders_isolated.
