(* C18  An interrupted save never yields a half-loaded configuration — decision logic of handle_file. *)
From Coq Require Import List.
Require Import PyIR.Util.Xml.
Import ListNotations.

(* whatever from_string does ([parse] is arbitrary): when the file on disk does not pass the completeness test,
   handle_file leaves the backup untouched and either raises or returns the tree parsed from the backup *)
Theorem C18_incomplete_file_never_loaded : forall (tree : Type) (parse : str -> option tree) (tag_of : tree -> str) f,
  (forall t, parse (file f) = Some t -> complete (tag_of t) (file f) = false) ->
  backup (fst (handle_file tree parse tag_of f)) = backup f /\
  (snd (handle_file tree parse tag_of f) = Raised tree \/
   exists b t, backup f = Some b /\ parse b = Some t /\ snd (handle_file tree parse tag_of f) = Loaded tree t).
Proof. exact handle_file_incomplete. Qed.

Print Assumptions C18_incomplete_file_never_loaded.
