(* C19  The bit-field helper is an exact fixed-width bit algebra — property theorems only. *)
From Coq Require Import ZArith List Bool.
Require Import PyIR.Base.Result PyIR.IW.IW PyIR.IW.IWProps PyIR.IW.Timings.
Import ListNotations.
Open Scope Z_scope.

(* a bit-field of width n built from integer v holds v mod 2^n *)
Theorem C19_constructor : forall v n, 0 <= v -> 0 <= n ->
  value (mk v (Some n)) = v mod 2 ^ n /\ nbits (mk v (Some n)) = n.
Proof. exact mk_value. Qed.

(* iteration yields its n bits least significant first *)
Theorem C19_iteration : forall v n, 0 <= v -> 0 <= n ->
  iter_bits (mk v (Some n)) = map (fun i => Z.testbit v (Z.of_nat i)) (seq 0 (Z.to_nat n)) /\
  length (iter_bits (mk v (Some n))) = Z.to_nat n.
Proof. exact iter_bits_spec. Qed.

(* slice extraction returns the requested width starting at the requested bit ... *)
Theorem C19_slice : forall x w s, canonical x -> 0 < w -> 0 <= s ->
  getitem x SNone (Some w) (Some s) = Ok (VIW (mkIW ((value x / 2 ^ s) mod 2 ^ w) w)).
Proof. exact slice_spec. Qed.
(* ... optionally complemented within that width *)
Theorem C19_slice_complement : forall x w s, canonical x -> 0 < w -> 0 <= s ->
  getitem x STrue (Some w) (Some s) = Ok (VIW (mkIW (2 ^ w - 1 - (value x / 2 ^ s) mod 2 ^ w) w)).
Proof. exact slice_complement_spec. Qed.

(* bit reversal and bit inversion are involutions within the width *)
Theorem C19_reverse_involution : forall x, canonical x -> reverse_bit_order (reverse_bit_order x None) None = x.
Proof. exact reverse_involutive. Qed.
Theorem C19_reverse_is_the_loop : forall x n, 0 <= n ->
  reverse_loop x n (Z.to_nat n) = build (fun j => bit x (n - 1 - j)) (Z.to_nat n).
Proof. exact reverse_loop_build. Qed.
Theorem C19_invert_involution : forall x, canonical x -> invert_bits (invert_bits x None) None = x.
Proof. exact invert_involutive. Qed.

(* the population count is the number of one bits *)
Theorem C19_popcount : forall x, canonical x -> popcount x = count_true (iter_bits x).
Proof. exact popcount_spec. Qed.

(* rendering emits exactly ceil(n/k) symbols of a 2^k-symbol table in the declared order; parsing them back returns v *)
Theorem C19_render_parse : forall msb tl x, canonical x -> (tl = 2 \/ tl = 4 \/ tl = 16)%nat ->
  exists syms, symbols msb tl x = Ok syms
    /\ bits_value msb (flat_map (sym_to_bits tl) syms) = value x
    /\ length syms = ((Z.to_nat (nbits x) + bps tl - 1) / bps tl)%nat
    /\ Forall (fun i => (i < tl)%nat) syms.
Proof. exact timings_roundtrip. Qed.

(* the hypotheses are met by every wrapper the constructor builds from a non-negative integer *)
Theorem C19_canonical_reachable : forall v n, 0 <= v -> 0 <= n -> canonical (mk v (Some n)).
Proof. exact mk_canonical. Qed.
Example C19_example : getitem (mk 0xA5 (Some 8)) STrue (Some 4) (Some 2) = Ok (VIW (mkIW 6 4)).
Proof. vm_compute. reflexivity. Qed.

Print Assumptions C19_constructor.
Print Assumptions C19_iteration.
Print Assumptions C19_slice.
Print Assumptions C19_slice_complement.
Print Assumptions C19_reverse_involution.
Print Assumptions C19_reverse_is_the_loop.
Print Assumptions C19_invert_involution.
Print Assumptions C19_popcount.
Print Assumptions C19_render_parse.
