(* C13  Streaming decode does not depend on how the timing stream is chunked — property theorem on the model of
   DecodeThread (one carrier, no idle timeout). *)
From Coq Require Import ZArith List Bool.
Require Import PyIR.Ctl.Stream.
Import ListNotations.
Open Scope Z_scope.

(* For every dispatcher behaviour [dec] that leaves its state unchanged when it rejects a candidate, every stream,
   every way of cutting it into chunks and every placement of worker wake-ups between the chunks (the last event being
   a wake-up): the accepted candidates, the dispatcher state and the pending remainder are those of feeding the whole
   stream in one call. *)
Theorem C13_chunk_independent_partial : forall (S : Type) (dec : S -> list Z -> S * bool),
  (forall s d, snd (dec s d) = false -> fst (dec s d) = s) ->
  forall s0 ops,
  let chunks := concat (flat_map (fun o => match o with Append c => [c] | Wake => [] end) ops) in
  let w' := srun S dec {| disp := s0; buffer := []; accepted := [] |} (ops ++ [Wake]) in
  scan S dec s0 [] chunks [] = (disp S w', concat (buffer S w'), accepted S w').
Proof.
  intros S dec Hn s0 ops. pose proof (chunk_independent S dec Hn s0 ops [] {| disp := s0; buffer := []; accepted := [] |}) as H.
  cbn [app] in H. apply H. exists []. split; [reflexivity|]. split; [apply remainder_nil|reflexivity].
Qed.

(* non-vacuity: a concrete stream, two chunkings, a dispatcher accepting candidates of exactly four durations *)
Example C13_example :
  let dec := fun (s : nat) (d : list Z) => if Nat.eqb (length d) 4 then (S s, true) else (s, false) in
  let stream := [900; -450; 560; -3000; 900; -450; 560; -3000; 1; -5000] in
  accepted nat (srun nat dec {| disp := 0%nat; buffer := []; accepted := [] |} [Append stream; Wake]) =
  accepted nat (srun nat dec {| disp := 0%nat; buffer := []; accepted := [] |}
                  [Append [900; -450]; Wake; Append [560]; Append [-3000; 900]; Wake; Append [-450; 560; -3000; 1; -5000]; Wake]).
Proof. vm_compute. reflexivity. Qed.

Print Assumptions C13_chunk_independent_partial.
