(* C15  Pronto hex conversion round-trips within carrier quantisation — property theorems (arithmetic content;
   the binary64 twin Util.Pronto.rlc_to_pronto_words / generic_to_rlc is tied to pronto.py bit for bit by the
   correspondence check, which also verifies on every case that the computed words satisfy the *_ok relations). *)
From Coq Require Import ZArith List Bool.
Require Import PyIR.Util.Pronto.
Import ListNotations.
Open Scope Z_scope.

Theorem C15_duration_within_quantisation_partial : forall f P v w v',
  0 < f -> 0 <= v -> 0 <= w -> 0 < P ->
  carrier_word_ok f P -> data_word_ok f v w -> decoded_ok P w v' ->
  2 * K * f * (v' - v) <= w * (f * A + 2) + 2 * f + 2 * K /\
  2 * K * f * (v - v') <= w * (f * A + 2) + 2 * K * f + 2 * K * K + 2 * f + 2 * K.
Proof. exact pronto_duration_bound. Qed.

Theorem C15_words_are_16_bit : forall f v w, 0 < f -> 0 <= v -> data_word_ok f v w -> v * f < 65535 * K -> 0 <= w -> w < 65536.
Proof. exact pronto_word_16bit. Qed.

Theorem C15_carrier_within_quantisation_partial : forall f P f',
  0 < f -> 0 < P -> carrier_word_ok f P ->
  P * A * f' <= K * K + 1 -> K * K < P * A * (f' + 1) + 1 ->
  2 * P * A * (f' - f) <= f * A + 6 /\ 2 * P * A * (f - f') <= f * A + 2 * P * A + 6.
Proof. exact pronto_carrier_bound. Qed.

Theorem C15_header_counts_even : forall freq data, Z.even (Z.of_nat (length data)) = true ->
  let ws := rlc_to_pronto_words freq data in
  nth 2 ws 0 = 0 /\ nth 3 ws 0 = Z.of_nat (length data) / 2 /\ Z.of_nat (length ws) = 4 + 2 * nth 3 ws 0.
Proof. exact pronto_header_counts. Qed.

(* odd length: the pad word is appended after the header count is taken; the last duration is lost on the way back *)
Example C15_odd_length_refuted :
  let data := [9000; -4500; 560; -560; 560; -1690; 560] in
  match generic_to_rlc (rlc_to_pronto_words 38000 data) with
  | Some (_, [s]) => length s = 6%nat
  | _ => False
  end.
Proof. vm_compute. reflexivity. Qed.

Print Assumptions C15_duration_within_quantisation_partial.
Print Assumptions C15_words_are_16_bit.
Print Assumptions C15_carrier_within_quantisation_partial.
Print Assumptions C15_header_counts_even.
