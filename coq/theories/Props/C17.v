(* C17  Saved configuration loads back to the same settings — the clause that admits a general theorem:
   attribute values containing XML metacharacters survive the round trip unchanged.  (The rest of the property is
   file and object plumbing, tied by the save/load oracle on the real classes.) *)
From Coq Require Import List.
Require Import PyIR.Util.Xml.
Import ListNotations.

(* for every string (any length, any characters): unescaping what the writer escaped gives the string back *)
Theorem C17_metacharacters_survive : forall s, unescape (escape s) = s.
Proof. exact unescape_escape. Qed.

(* escaping writes every special character as its entity and nothing else *)
Theorem C17_escape_is_entity_coding : forall s, escape s = enc (fun _ => true) s.
Proof. exact escape_enc. Qed.

(* the order matters: replacing &amp; first (the pinned source) turns the text "&lt;" into "<" *)
Example C17_amp_first_refuted : unescape_amp_first (escape eLT) = [cLT] /\ unescape (escape eLT) = eLT.
Proof. exact unescape_amp_first_refuted. Qed.

Print Assumptions C17_metacharacters_survive.
Print Assumptions C17_escape_is_entity_coding.
