(* C11  The dispatcher reports every new key press, exactly as its protocol decodes it — property theorems. *)
From Coq Require Import ZArith List Bool.
Require Import PyIR.Base.Result PyIR.Engine.Match PyIR.Ctl.Dispatcher.
Import ListNotations.
Open Scope Z_scope.

(* For every configuration, state, input and whatever the decoders do: the call either
   - found the timings equal to the held key (a repeat: nothing returned), or
   - returns exactly the code one possible decoder produced in this call, every decoder asked before having rejected
     (or a code stored on a possible decoder that equals the input, every decoder asked before having rejected), or
   - returns nothing because a decoder signalled a repeat marker, or because every decoder it may use was asked and rejected.
   In particular: if some possible decoder is asked and accepts, its code is returned unchanged. *)
Theorem C11_dispatch_explained : forall (PS : Type) (pdecode : nat -> PS -> PS * outcome) saved cfg freq hm ps st s' st' r,
  dispatch (TPS PS) (tdecode PS pdecode) saved cfg freq hm (ps, []) st = (s', st', r) ->
  (hm = true /\ r = RNone /\ snd s' = [] /\ exists lc, last_code st = Some lc /\ possible cfg freq (c_pid lc) = true)
  \/ explains saved cfg freq (seq 0 (length cfg)) (snd s') r.
Proof. exact dispatch_explained. Qed.

Print Assumptions C11_dispatch_explained.
