(* C02  Emitted frames match the protocol's published IRP timing specification.
   The signal semantics of (unrolled) IRP is PyIR.Proto.Irp.plan_signal.  The generic theorem: two plans - one traced from
   encode(), one translated from the irp string - that agree slot by slot, every bit field compared on EVERY assignment of
   the parameters it depends on (a finite enumeration evaluated by the kernel), denote the same signal for every
   environment inside the parameter ranges.  It is instantiated per protocol on every run (C02_<p>, repeat_count 0,1,2). *)
From Coq Require Import ZArith List Bool.
Require Import PyIR.Base.Result PyIR.IW.IW PyIR.IW.IWProps PyIR.Engine.Render PyIR.Proto.Model PyIR.Proto.Irp PyIR.Proto.IrpLib.
Import ListNotations.
Open Scope Z_scope.

Theorem C02_agreeing_plans_same_signal : forall ranges env, env_ok ranges env -> forall a b,
  plan_agree ranges a b = true -> forallb (forallb (deps_ok (length ranges))) a = true ->
  plan_signal (inst_plan env a) = plan_signal (inst_plan env b).
Proof. exact plan_agree_sound. Qed.

(* the model of the library's renderer (IntegerWrapper.timings through a two-entry table, _build_packet with run-compression
   and frame-period gap) computes the IRP signal of the packet's plan: any lead-in / lead-out, any canonical fields, under a
   decidable side condition (non-zero tables, frame shorter than its period) *)
Theorem C02_renderer_computes_the_plan_signal : forall li lo s0 s1 msb fields tw,
  Forall canonical fields -> total_width fields <= tw -> packet_ok li lo s0 s1 tw = true ->
  exists l, render_part (PPacket li lo [s0; s1] msb [] fields) = Ok l /\
            frame_signal (packet_atoms li lo [s0; s1] msb fields) = Some l.
Proof. exact render_packet_is_irp_b. Qed.

(* the comparison is not idle: a plan with another symbol duration, width, order or period does not agree *)
Example C02_wrong_constant_detected :
  plan_agree [(0, 255)]
    [[SDurs [9024; -4512]; SBits [[564; -564]; [564; -1692]] false 8 [0%nat] (fun l => nth 0 l 0); SDurs [564]; SExt 108000]]
    [[SDurs [9024; -4512]; SBits [[560; -564]; [564; -1692]] false 8 [0%nat] (fun l => nth 0 l 0); SDurs [564]; SExt 108000]] = false
  /\ plan_agree [(0, 255)]
    [[SBits [[564; -564]; [564; -1692]] false 8 [0%nat] (fun l => nth 0 l 0)]]
    [[SBits [[564; -564]; [564; -1692]] false 8 [0%nat] (fun l => Z.lxor (nth 0 l 0) 128)]] = false
  /\ plan_agree [(0, 255)]
    [[SBits [[564; -564]; [564; -1692]] false 8 [0%nat] (fun l => nth 0 l 0)]]
    [[SBits [[564; -564]; [564; -1692]] false 8 [0%nat] (fun l => nth 0 l 0 + 256)]] = true.
Proof. vm_compute. repeat split. Qed.

Print Assumptions C02_agreeing_plans_same_signal.
Print Assumptions C02_renderer_computes_the_plan_signal.
