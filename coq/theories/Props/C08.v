(* C08  Arbitrary input never crashes or hangs a decoder or the dispatcher.
   Termination: every model function is a structural recursion on the input list (accepted by the kernel's guard
   checker), so the models terminate on every input; what is proved below is the absence of leaked Python exceptions. *)
From Coq Require Import ZArith List Bool.
Require Import PyIR.Base.Result PyIR.Engine.Match PyIR.Engine.Parse PyIR.Engine.NoCrash PyIR.Engine.ParseM PyIR.Engine.ParseMProps PyIR.Engine.ParseMD PyIR.Engine.ParseMDProps PyIR.Engine.ParseHT PyIR.Engine.ParseHTProps PyIR.Engine.ParseB PyIR.Engine.ParseMT PyIR.Engine.ParseMTProps PyIR.Proto.Descriptor
               PyIR.Ctl.Dispatcher PyIR.Ctl.Instance PyIR.Ctl.NoCrash.
Import ListNotations.
Open Scope Z_scope.

(* engine: for every tolerance, every table and EVERY list of integers - any length, zeros, wrong signs - CodeWrapper
   (pair tables, no middle timings) returns symbols or one of the library's IR errors *)
Theorem C08_engine_never_leaks : forall tol li lo t code, is_pyerr (parseH tol li lo t code) = false.
Proof. exact parseH_no_pyerr. Qed.

(* ... and the same for the Manchester data loop and for the classification in front of both *)
Theorem C08_engine_never_leaks_any_pair_table : forall tol li lo t code, is_pyerr (parseC tol li lo t code) = false.
Proof. exact parseC_no_pyerr. Qed.

(* ... with middle timings: the Manchester loop with one positional entry (the RC6 family's double-width toggle bit) *)
Theorem C08_engine_never_leaks_positional_middle : forall tol li lo t d code, (length (md_bursts d) <= length t)%nat ->
  is_pyerr (parseMD tol li lo t d code) = false.
Proof. exact parseMD_no_pyerr. Qed.

(* ... and the halfbit loop with (mark, space) middle tuples (Proton, Samsung36, Sharp, Dyson2 ...): all seven clauses of
   _check_timing, any number of tuples *)
Theorem C08_engine_never_leaks_tuple_middle : forall tol li lo mids t code, is_pyerr (parseHT tol li lo mids t code) = false.
Proof. exact parseHT_no_pyerr. Qed.

(* ... and the serial ("bit") branch for a table [mark, space] without a zero entry (GwtS, Lutron, PCTV): run-length lead-in / lead-out
   splitting with floor division, run-length data loop *)
Theorem C08_engine_never_leaks_serial_table : forall tol li lo mark space code, mark <> 0 -> space <> 0 ->
  is_pyerr (parseB tol li lo mark space code) = false.
Proof. exact parseB_no_pyerr. Qed.

(* ... and the Manchester loop with tuple / integer middle timings (MCE, RC6632, XBox360, RC5x), including the clause that drops a
   burst without consuming it *)
Theorem C08_engine_never_leaks_manchester_middle : forall tol li lo mids t code, is_pyerr (parseMT tol li lo mids t code) = false.
Proof. exact parseMT_no_pyerr. Qed.
Theorem C08_manchester_middle_model_extends_plain : forall tol li lo t code, parseMT tol li lo [] t code = parseM tol li lo t code.
Proof. exact parseMT_nil. Qed.

(* the model with middle tuples extends the model without: with none declared it is parseH, equation for equation *)
Theorem C08_tuple_middle_model_extends_plain : forall tol li lo t code, parseHT tol li lo [] t code = parseH tol li lo t code.
Proof. exact parseHT_nil. Qed.

(* one decoder instance (a class that does not override decode) in any state, any sequence of arbitrary inputs *)
Theorem C08_decoder_never_leaks : forall D t tol frames s, Forall (fun r => is_pyerr r = false) (run_seq D t tol s frames).
Proof. exact run_seq_no_pyerr. Qed.

(* dispatcher: if no decoder leaks (each returns a code or raises an IR error), decode returns None or a code *)
Theorem C08_dispatcher_never_raises : forall PS pdecode saved, (forall p ps, tame (snd (pdecode p ps)) = true) ->
  forall cfg freq held_match ps st, quiet (snd (dispatch PS pdecode saved cfg freq held_match ps st)) = true.
Proof. exact dispatch_never_raises. Qed.

(* ... and one leak is enough: it goes straight through the dispatcher, *)
Theorem C08_one_leak_goes_through : forall PS pdecode saved cfg freq ps st p r e ps',
  possible cfg freq p = true -> saved p = None -> pdecode p ps = (ps', OPy e) ->
  snd (scan PS pdecode saved cfg freq ps st (p :: r)) = RRaisePy e.
Proof. exact leak_goes_through. Qed.

(* ... and kills the streaming thread, which otherwise survives every buffer *)
Theorem C08_thread_survives : forall St dec, (forall s d, snd (dec s d) <> None) ->
  forall buf s tmp n, snd (tscan St dec s tmp buf n) = true.
Proof. exact thread_survives. Qed.
Theorem C08_thread_dies_on_first_raise : forall St dec s tmp x r n s',
  Ctl.NoCrash.cut_here (tmp ++ [x]) x = true -> dec s (tmp ++ [x]) = (s', None) ->
  snd (tscan St dec s tmp (x :: r) n) = false.
Proof. exact thread_dies_on_first_raise. Qed.

(* regression witness of the repaired engine defect: X10n's tables, a 3-element input that used to raise TypeError *)
Example C08_x10n_input_rejected :
  parseH 20 [] [11865; -3955] [(1130, -6780); (3955, -3955)] [3680; -3680; 460] = IRErr LeadOutError.
Proof. vm_compute. reflexivity. Qed.

Print Assumptions C08_engine_never_leaks.
Print Assumptions C08_engine_never_leaks_any_pair_table.
Print Assumptions C08_engine_never_leaks_positional_middle.
Print Assumptions C08_engine_never_leaks_tuple_middle.
Print Assumptions C08_engine_never_leaks_serial_table.
Print Assumptions C08_engine_never_leaks_manchester_middle.
Print Assumptions C08_manchester_middle_model_extends_plain.
Print Assumptions C08_tuple_middle_model_extends_plain.
Print Assumptions C08_decoder_never_leaks.
Print Assumptions C08_dispatcher_never_raises.
Print Assumptions C08_one_leak_goes_through.
Print Assumptions C08_thread_survives.
Print Assumptions C08_thread_dies_on_first_raise.
