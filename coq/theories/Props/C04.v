(* C04  Decoding honours the configured timing tolerance in both directions — generic theorems for pair tables.
   Acceptance is C01's protocol-level theorem taken at the tolerances 5, 10 and 20 (instances C04_<p> are generated per run). *)
From Coq Require Import ZArith List Bool.
Require Import PyIR.Base.Result PyIR.IW.IW PyIR.IW.IWProps PyIR.Engine.Match PyIR.Engine.Render PyIR.Engine.Parse
               PyIR.Engine.ParseProps PyIR.Engine.Tolerance PyIR.Proto.Descriptor PyIR.Proto.Model PyIR.Proto.RoundTrip PyIR.Proto.C01.
Import ListNotations.
Open Scope Z_scope.

(* acceptance: any independent perturbation of up to tolerance/4 per duration, the gap absorbing the difference *)
Theorem C04_acceptance : forall D tol xs,
  rt_ok D tol = true -> Forall canonical xs -> map nbits xs = widths (d_params D) ->
  forall frame ds,
    render_part (PPacket (d_lead_in D) (d_lead_out D) (d_bursts D) (d_msb D) [] xs) = Ok frame ->
    perturbed tol (period_of D) frame ds ->
    exists t, as_pairs (d_bursts D) = Some t /\ base_decode D t tol ds = Ok xs.
Proof. intros D tol xs H1 H2 H3. exact (proj2 (c01_generic D tol xs H1 H2 H3)). Qed.

(* a duration within tolerance/4 of its nominal value always lies in the decoder's window *)
Theorem C04_quarter_in_window : forall tol v e, 0 <= tol <= 100 -> e <> 0 -> close tol v e -> matchb tol v e = true.
Proof. exact close_match. Qed.

(* rejection: one data burst outside the window of every legal duration -> the frame is rejected *)
Theorem C04_rejection_fixed_gap : forall tol li lo t d1 v d2 dli dlo,
  0 <= tol <= 100 -> nonzero li -> nonzero lo -> Forall (fun e => e <> PLACEHOLDER) lo ->
  (match last_opt lo with Some g => g < 0 | None => True end) ->
  Forall2 (close tol) dli li -> Forall2 (close tol) dlo lo ->
  far tol v (vals t) ->
  parseH tol li lo t (dli ++ (d1 ++ v :: d2) ++ dlo) = IRErr IRStreamError.
Proof. exact parseH_far_rejected_fixed. Qed.

Theorem C04_rejection_period : forall tol li core P t d1 v d2 dli dcore g,
  0 <= tol <= 100 -> nonzero li -> nonzero core -> Forall (fun e => e <> PLACEHOLDER) core ->
  Forall2 (close tol) dli li -> Forall2 (close tol) dcore core ->
  far tol v (vals t) ->
  exists e, parseH tol li (core ++ [P]) t (dli ++ (d1 ++ v :: d2) ++ dcore ++ [g]) = IRErr e.
Proof. exact parseH_far_rejected_period. Qed.

Print Assumptions C04_acceptance.
Print Assumptions C04_quarter_in_window.
Print Assumptions C04_rejection_fixed_gap.
Print Assumptions C04_rejection_period.
