(* C10  The dispatcher only uses enabled, frequency-compatible protocols — property theorems. *)
From Coq Require Import ZArith List Bool.
Require Import PyIR.Base.Result PyIR.Engine.Match PyIR.Ctl.Dispatcher.
Import ListNotations.
Open Scope Z_scope.

(* For every configuration, every dispatcher state, every carrier, every input and whatever the protocol decoders do:
   a returned code was produced in this very call by a decoder - or is a code stored on a decoder (`for code in decoder`)
   that equals the input - and that decoder is enabled and (for a non-zero carrier) its nominal carrier lies within its
   frequency tolerance. *)
Theorem C10_only_possible_decoders : forall (PS : Type) (pdecode : nat -> PS -> PS * outcome) saved cfg freq hm ps st s' st' c,
  dispatch (TPS PS) (tdecode PS pdecode) saved cfg freq hm (ps, []) st = (s', st', RCode c) ->
  exists p, possible cfg freq p = true /\ (In (p, OCode c) (snd s') \/ saved p = Some c).
Proof. exact dispatch_possible. Qed.

(* disabling takes effect immediately, also for a held key: a disabled decoder is not "possible" *)
Theorem C10_disabled_not_possible : forall cfg freq p c, nth_error cfg p = Some c -> enabled c = false -> possible cfg freq p = false.
Proof. intros cfg freq p c H E. unfold possible. rewrite H, E. reflexivity. Qed.

(* frequency compatibility is the tolerance window of _match *)
Theorem C10_possible_means : forall cfg freq p, possible cfg freq p = true ->
  exists c, nth_error cfg p = Some c /\ enabled c = true /\ (freq = 0 \/ matchb (ftol c) freq (nominal c) = true).
Proof.
  intros cfg freq p H. unfold possible in H. destruct (nth_error cfg p) as [c|]; [|discriminate].
  exists c. apply andb_true_iff in H as [H1 H2]. split; [reflexivity|]. split; [exact H1|].
  apply orb_true_iff in H2 as [H2|H2]; [left; apply Z.eqb_eq; exact H2|right; exact H2].
Qed.

Example C10_nonvacuous :
  let cfg := [{| enabled := true; nominal := 38000; ftol := 2 |}; {| enabled := false; nominal := 40000; ftol := 2 |}] in
  possible cfg 38500 0 = true /\ possible cfg 40000 1 = false /\ possible cfg 36000 0 = false /\ possible cfg 0 0 = true.
Proof. vm_compute. auto. Qed.

Print Assumptions C10_only_possible_decoders.
Print Assumptions C10_disabled_not_possible.
Print Assumptions C10_possible_means.
