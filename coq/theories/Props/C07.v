(* C07  A full frame decodes to its own parameters whatever was decoded before. *)
From Coq Require Import ZArith List Bool.
Require Import PyIR.Base.Result PyIR.IW.IW PyIR.Engine.Parse PyIR.Proto.Descriptor PyIR.Proto.Model PyIR.Ctl.Instance PyIR.Ctl.InstanceChk.
Import ListNotations.
Open Scope Z_scope.

(* with an empty repeat symbol table, the repeat branch accepts only inputs as long as the repeat marker, whatever they contain *)
Theorem C07_repeat_branch_only_markers : forall tol rli rlo ds p,
  Forall (fun e => e <> PLACEHOLDER) rlo -> parseH tol rli rlo [] ds = Ok p ->
  List.length ds = (List.length rli + List.length rlo)%nat.
Proof. exact repeat_parse_length. Qed.

(* hence, for EVERY decoder state (any held key, after any history) a frame of another length is decoded to the same key,
   or rejected with the same error, as by a fresh decoder *)
Theorem C07_history_independent : forall D t tol s frame,
  d_rep_bursts D = [] -> Forall (fun e => e <> PLACEHOLDER) (d_rep_lead_out D) ->
  List.length frame <> (List.length (d_rep_lead_in D) + List.length (d_rep_lead_out D))%nat ->
  res_ident D (snd (fst (decode_inst D t tol s frame))) = res_ident D (snd (fst (decode_inst D t tol fresh frame))).
Proof. exact full_frame_history_independent. Qed.

(* the same for classes that override decode() after the common template (base decode, the protocol's own checks [chk] -
   ANY function of the decoded fields -, then the held-key block): whatever the checks are *)
Theorem C07_history_independent_with_checks : forall D t tol chk s frame,
  Forall (fun e => e <> PLACEHOLDER) (d_rep_lead_out D) ->
  List.length frame <> (List.length (d_rep_lead_in D) + List.length (d_rep_lead_out D))%nat ->
  res_ident D (snd (fst (decode_inst_chk D t tol chk s frame))) = res_ident D (snd (fst (decode_inst_chk D t tol chk fresh frame))).
Proof. exact full_frame_history_independent_chk. Qed.

Print Assumptions C07_repeat_branch_only_markers.
Print Assumptions C07_history_independent.
Print Assumptions C07_history_independent_with_checks.
