(* C05  A corrupted frame is rejected or decoded as what it actually says — engine half, for every input. *)
From Coq Require Import ZArith List Bool.
Require Import PyIR.Base.Result PyIR.IW.IW PyIR.Engine.Match PyIR.Engine.Render PyIR.Engine.Parse
               PyIR.Engine.ParseProps PyIR.Engine.RoundTripH PyIR.Engine.Tolerance PyIR.Engine.ParseM PyIR.Engine.ParseMProps PyIR.Engine.ParseB PyIR.Engine.ParseHT PyIR.Engine.ParseHTProps PyIR.Engine.ParseMT PyIR.Engine.ParseMTProps.
Import ListNotations.
Open Scope Z_scope.

(* Whatever list of integers is parsed (valid, corrupted or garbage): if symbols come back, each data duration consumed
   lies in the window of a nominal table duration, and rendering the returned symbols yields exactly those nominal
   durations - the decoder reports what the frame says, or rejects it. *)
Theorem C05_parse_sound : forall tol li lo t ds p, parseH tol li lo t ds = Ok p ->
  exists data matched extra,
    Forall2 (fun d e => matchb tol d e = true /\ In e (vals t)) data matched /\
    render_data t (p_syms p) = matched ++ extra /\
    Forall (fun i => (i < length t)%nat) (p_syms p) /\
    p_bits p = bits_of t (p_syms p).
Proof. exact parseH_sound. Qed.

(* Manchester data loop: every consumed duration lies in the window of one half or of two merged equal halves of the
   first table entry, and the halves read are exactly the rendering of the returned symbols *)
Theorem C05_parse_sound_manchester : forall tol li lo t ds p, parseM tol li lo t ds = Ok p ->
  exists m s t' data halves extra,
    t = (m, s) :: t' /\
    halves_read tol m s data halves /\
    render_data t (p_syms p) = halves ++ extra /\
    Forall (fun i => (i < length t)%nat) (p_syms p) /\
    p_bits p = flat_map (sym_to_bits (length t)) (p_syms p).
Proof. exact parseM_sound. Qed.

(* Serial ("bit") tables: every burst the data loop consumes lies in the window of k marks or k spaces (k >= 1) and the loop returns
   exactly those runs written out *)
Theorem C05_parse_sound_serial : forall tol mark space ds out, data_B tol mark space ds = Ok out ->
  exists runs : list (Z * Z),
    Forall2 (fun b tk => matchb tol b (fst tk * snd tk) = true /\ 0 < snd tk /\ (fst tk = mark \/ fst tk = space)) ds runs /\
    out = flat_map (fun tk => repeat (fst tk) (Z.to_nat (snd tk))) runs.
Proof. exact data_B_sound. Qed.

(* Halfbit tables with (mark, space) middle tuples: whatever is received, every duration the data loop writes into the normalised code
   is an entry of the symbol table or of a declared middle tuple - the decoded code never carries a received duration *)
Theorem C05_tuple_middle_cleaned_code_is_nominal : forall tol t mids cl0 ds fin,
  data_loopT tol t {| ht_pairs := []; ht_clean := cl0; ht_mids := mids |} ds = Ok fin ->
  exists added, ht_clean fin = added ++ cl0 /\ Forall (nominal t mids) added.
Proof. exact data_loopT_nominal. Qed.

(* ... and the same for the Manchester loop with tuple / integer middle timings: only the two halves of the first table entry and the
   declared middle durations are written *)
Theorem C05_manchester_middle_cleaned_code_is_nominal : forall tol m s mids ds st st', incl (mt_mids st) mids ->
  man_loopT tol m s st ds = Ok st' -> extendsT m s mids (mt_clean st) (mt_clean st').
Proof. exact man_loopT_nominal. Qed.

Print Assumptions C05_parse_sound.
Print Assumptions C05_manchester_middle_cleaned_code_is_nominal.
Print Assumptions C05_tuple_middle_cleaned_code_is_nominal.
Print Assumptions C05_parse_sound_serial.
Print Assumptions C05_parse_sound_manchester.
