(* C03  Every emitted frame is a well-formed mark/space timing list — generic property theorems.
   The per-protocol instances C03_<p> are generated and re-proved on every run from the regenerated models. *)
From Coq Require Import ZArith List Bool.
Require Import PyIR.Base.Result PyIR.IW.IW PyIR.Engine.Render PyIR.Engine.RenderProps PyIR.Proto.Model PyIR.Proto.C03Check.
Import ListNotations.
Open Scope Z_scope.

(* run-compression of zero-free durations strictly alternates mark/space *)
Theorem C03_compress_alternates : forall l, nonzero l -> alternating (compress l) /\ nonzero (compress l).
Proof. exact compress_alternates. Qed.

(* _build_packet: whatever the field values and widths *)
Theorem C03_build_packet : forall lead_in lead_out body,
  nonzero (lead_in ++ body ++ lead_out) ->
  (exists a r, lead_in ++ body ++ lead_out = a :: r /\ 0 < a) ->
  (match last_opt lead_out with
   | Some last => last < 0 \/ (0 < last /\ sum_abs (lead_in ++ body ++ removelast lead_out) < last
                               /\ (exists a r, lead_in ++ body ++ removelast lead_out = a :: r /\ 0 < a))
   | None => exists x, last_opt (lead_in ++ body) = Some x /\ x < 0
   end) ->
  frame_wf (build_packet lead_in lead_out body) /\
  (match last_opt lead_out with
   | Some last => 0 < last -> sum_abs (build_packet lead_in lead_out body) = last
   | None => True end).
Proof. exact build_packet_wf. Qed.

(* the decidable check of an explored encode path is sound, for every value of the encode arguments *)
Theorem C03_check_sound : forall freq period count (t : tree enc_model),
  tree_all (c03_leaf freq period count) t = true -> c03_holds freq period count (tree_eval t).
Proof. exact c03_tree_sound. Qed.

Print Assumptions C03_compress_alternates.
Print Assumptions C03_build_packet.
Print Assumptions C03_check_sound.
