(* C16 — MCE normalisation.  Generic part: what the property demands of the per-duration function
   (whatever today's source says it is; the function itself is regenerated into Gen/Mce.v by the
   translator on every run) and its lift to flat and nested timing lists through the hand-written
   model of pyIRDecoder.rlc_to_mce. *)
From Coq Require Import ZArith List Bool Lia.
Import ListNotations.
Open Scope Z_scope.

(* the five per-duration clauses of C16 *)
Record mce_ok (f : Z -> Z) : Prop := {
  mce_multiple : forall t, (f t) mod 50 = 0;
  mce_near     : forall t, Z.abs (f t - t) <= 25;
  mce_sign     : forall t, f t <> 0 -> Z.sgn (f t) = Z.sgn t;
  mce_fixed    : forall t, t mod 50 = 0 -> f t = t;
  mce_idem     : forall t, f (f t) = f t
}.

(* hand-written model of pyIRDecoder.__init__.rlc_to_mce: the argument is flat or nested (decided by
   its first element in the source; the property only speaks about homogeneous shapes);
   the result is paired with the value of the caller's argument after the call. *)
Inductive shape := Flat (l : list Z) | Nested (ll : list (list Z)).

Definition rlc_to_mce (f : Z -> Z) (a : shape) : shape * shape :=
  match a with
  | Flat l => (Flat (map f l), Flat l)
  | Nested ll => (Nested (map (fun l => match l with [] => [] | _ => map f l end) ll), Nested ll)
  end.

Definition elem_ok (t r : Z) : Prop :=
  r mod 50 = 0 /\ Z.abs (r - t) <= 25 /\ (r <> 0 -> Z.sgn r = Z.sgn t) /\ (t mod 50 = 0 -> r = t).

Lemma map_elem_ok f : mce_ok f -> forall l, Forall2 elem_ok l (map f l).
Proof.
  intros H l. induction l as [|t l IH]; cbn [map]; constructor; [|exact IH].
  unfold elem_ok. destruct H as [H1 H2 H3 H4 H5]. auto.
Qed.

Lemma map_idem f : mce_ok f -> forall l, map f (map f l) = map f l.
Proof. intros H l. rewrite map_map. apply map_ext. apply (mce_idem f H). Qed.

Definition sub (f : Z -> Z) (l : list Z) : list Z := match l with [] => [] | _ => map f l end.
Lemma sub_map f l : sub f l = map f l. Proof. destruct l; reflexivity. Qed.

(* result shape relation: same length, same order, elementwise clauses *)
Definition shape_ok (a r : shape) : Prop :=
  match a, r with
  | Flat l, Flat l' => Forall2 elem_ok l l'
  | Nested ll, Nested ll' => Forall2 (Forall2 elem_ok) ll ll'
  | _, _ => False
  end.

Theorem rlc_to_mce_ok f : mce_ok f -> forall a,
  let '(r, a_after) := rlc_to_mce f a in
  shape_ok a r                                  (* length, order, multiple of 50, <= 25 away, sign, fixed points *)
  /\ a_after = a                                (* the argument is left untouched, flat and nested alike *)
  /\ fst (rlc_to_mce f r) = r.                  (* applying it twice = applying it once *)
Proof.
  intros H a. destruct a as [l|ll]; cbn [rlc_to_mce fst].
  - split; [apply map_elem_ok; exact H|]. split; [reflexivity|]. f_equal. apply map_idem; exact H.
  - split; [|split; [reflexivity|]].
    + cbn [shape_ok]. induction ll as [|l ll IH]; cbn [map]; constructor; [|exact IH].
      fold (sub f l). rewrite sub_map. apply map_elem_ok; exact H.
    + f_equal. rewrite map_map. apply map_ext. intros l. fold (sub f l). fold (sub f (sub f l)).
      rewrite !sub_map. apply map_idem; exact H.
Qed.

Lemma Forall2_length' {A B} (R : A -> B -> Prop) l l' : Forall2 R l l' -> length l = length l'.
Proof. induction 1; cbn; congruence. Qed.

Corollary rlc_to_mce_length f : mce_ok f -> forall l, 
  match fst (rlc_to_mce f (Flat l)) with Flat r => length r = length l | _ => False end.
Proof. intros H l. cbn. apply map_length. Qed.
