(* C20 — the fallback decoder (protocols/universal.py) from the normalised signal on: __decode_1 (the pair-table
   path; the biphase branch is dead code because its local `timings` is empty when tested), __decode_2, and the
   try/except that joins them.  Values are the integer multiples of 50 that utils.build_mce_rlc produces. *)
From Coq Require Import ZArith List Bool Lia.
From Coq Require Import PrimFloat.
Require Import PyIR.Base.Result PyIR.Util.PrimF.
Import ListNotations.
Open Scope Z_scope.

Definition pair_eqb (a b : Z * Z) : bool := (fst a =? fst b) && (snd a =? snd b).
Definition memp (p : Z * Z) (l : list (Z * Z)) : bool := existsb (pair_eqb p) l.

(* (l[i], l[i+1]) for even i < n *)
Fixpoint pairs_upto (n : nat) (l : list Z) : list (Z * Z) :=
  match n, l with
  | S (S n'), a :: b :: r => (a, b) :: pairs_upto n' r
  | S O, a :: b :: _ => [(a, b)]
  | _, _ => []
  end.
(* consecutive pairs of a list, a trailing single element is skipped *)
Fixpoint pairs_of (l : list Z) : list (Z * Z) :=
  match l with a :: b :: r => (a, b) :: pairs_of r | _ => [] end.

Fixpoint dedup (seen : list (Z * Z)) (l : list (Z * Z)) : list (Z * Z) :=
  match l with
  | [] => []
  | p :: r => if memp p seen then dedup seen r else p :: dedup (seen ++ [p]) r
  end.

Fixpoint index_p (p : Z * Z) (l : list (Z * Z)) (i : Z) : option Z :=
  match l with [] => None | q :: r => if pair_eqb q p then Some i else index_p p r (i + 1) end.

Definition last_pair (l : list Z) : option (Z * Z) :=
  match rev l with b :: a :: _ => Some (a, b) | _ => None end.

(* the candidate symbols: distinct (mark, space) pairs of norm[2:], except the pair equal to the last two durations *)
Definition bits_of_signal (norm : list Z) : list (Z * Z) :=
  match last_pair norm with
  | Some lp => dedup [] (filter (fun p => negb (pair_eqb p lp)) (pairs_of (skipn 2 norm)))
  | None => dedup [] (pairs_of (skipn 2 norm))
  end.

Fixpoint code_of (timings : list (Z * Z)) (pairs : list (Z * Z)) (i : Z) : option Z :=
  match pairs with
  | [] => Some 0
  | p :: r => match index_p p timings 0, code_of timings r (i + 1) with
              | Some b, Some c => Some (Z.lor (Z.shiftl b i) c)
              | _, _ => None
              end
  end.

(* __decode_1: None = it raised (IndexError on an empty symbol list), the caller then falls back *)
Definition decode1 (norm : list Z) : option Z :=
  match bits_of_signal norm with
  | [] => None
  | bits =>
      let timings := firstn 2 bits in
      let pairs := filter (fun p => memp p timings) (pairs_upto (length norm - 2) norm) in
      code_of timings pairs 0
  end.

(* __decode_2 *)
Definition count_z (x : Z) (l : list Z) : nat := length (filter (Z.eqb x) l).
Fixpoint remove_first (x : Z) (l : list Z) : list Z :=
  match l with [] => [] | y :: r => if x =? y then r else y :: remove_first x r end.
(* for item in norm_data[:]: if norm_data.count(item) == 1: norm_data.remove(item) *)
Fixpoint drop_singletons (items : list Z) (cur : list Z) : list Z :=
  match items with
  | [] => cur
  | x :: r => if Nat.eqb (count_z x cur) 1 then drop_singletons r (remove_first x cur) else drop_singletons r cur
  end.

Definition near (x last : Z) : bool :=
  (* diff = max(3, last * 0.2);  -diff < x - last < diff   in binary64 *)
  let d := PrimFloat.mul (f_of_Z last) 0.2%float in
  let diff := if PrimFloat.ltb d 3%float then 3%float else d in
  let delta := f_of_Z (x - last) in
  PrimFloat.ltb (PrimFloat.opp diff) delta && PrimFloat.ltb delta diff.

Fixpoint decode2_loop (l : list Z) (i : Z) (last_pulse last_pause : Z) (code : Z) : Z * Z :=
  match l with
  | [] => (code, i)
  | x :: r =>
      if Z.odd i then decode2_loop r (i + 1) last_pulse x (if near x last_pause then Z.lor code (Z.shiftl 1 i) else code)
      else decode2_loop r (i + 1) x last_pause (if near x last_pulse then Z.lor code (Z.shiftl 1 i) else code)
  end.

Definition decode2 (norm : list Z) : result Z :=
  let l := drop_singletons norm norm in
  match l with
  | [] => PyErr IndexError
  | x :: r =>
      let l1 := if x <? 0 then r else l in
      match rev l1 with
      | [] => PyErr IndexError
      | y :: ry =>
          let l2 := if y <? 0 then rev ry else l1 in
          let '(code, n) := decode2_loop l2 0 0 0 0 in
          Ok (Z.lor code (Z.shiftl 1 n))
      end
  end.

Definition universal (norm : list Z) : result Z :=
  match decode1 norm with Some c => Ok c | None => decode2 norm end.

Definition run_universal (norm : list Z) : list Z := enc_result (fun c => [c]) (universal norm).

(* ------------------------------------------------------------------ the code depends only on which durations are equal *)
Section Renaming.
  Variable phi : Z -> Z.
  Variable dom : list Z.
  Hypothesis inj : forall a b, In a dom -> In b dom -> phi a = phi b -> a = b.
  Definition phip (p : Z * Z) : Z * Z := (phi (fst p), phi (snd p)).
  Definition inp (p : Z * Z) : Prop := In (fst p) dom /\ In (snd p) dom.

  Lemma pair_eqb_phi p q : inp p -> inp q -> pair_eqb (phip p) (phip q) = pair_eqb p q.
  Proof.
    intros [P1 P2] [Q1 Q2]. unfold pair_eqb, phip. cbn [fst snd].
    destruct (Z.eqb_spec (fst p) (fst q)) as [->|H1]; [rewrite Z.eqb_refl|].
    - destruct (Z.eqb_spec (snd p) (snd q)) as [->|H2]; [rewrite Z.eqb_refl; reflexivity|].
      destruct (Z.eqb_spec (phi (snd p)) (phi (snd q))) as [E|E]; [exfalso; apply H2; apply inj; auto|reflexivity].
    - destruct (Z.eqb_spec (phi (fst p)) (phi (fst q))) as [E|E]; [exfalso; apply H1; apply inj; auto|reflexivity].
  Qed.

  Lemma memp_phi p l : inp p -> Forall inp l -> memp (phip p) (map phip l) = memp p l.
  Proof.
    intros Hp Hl. induction l as [|q l IH]; [reflexivity|]. inversion Hl; subst. cbn [map memp existsb].
    rewrite pair_eqb_phi by assumption. unfold memp in IH. rewrite IH by assumption. reflexivity.
  Qed.

  Lemma dedup_phi : forall l seen, Forall inp l -> Forall inp seen ->
    dedup (map phip seen) (map phip l) = map phip (dedup seen l).
  Proof.
    induction l as [|p l IH]; intros seen Hl Hs; [reflexivity|]. inversion Hl; subst. cbn [map dedup].
    rewrite memp_phi by assumption. destruct (memp p seen); [apply IH; assumption|].
    cbn [map]. f_equal. rewrite <- (IH (seen ++ [p])); [rewrite map_app; reflexivity|assumption|].
    apply Forall_app. split; [assumption|constructor; [assumption|constructor]].
  Qed.

  Lemma index_p_phi p : forall l i, inp p -> Forall inp l -> index_p (phip p) (map phip l) i = index_p p l i.
  Proof.
    induction l as [|q l IH]; intros i Hp Hl; [reflexivity|]. inversion Hl; subst. cbn [map index_p].
    rewrite pair_eqb_phi by assumption. destruct (pair_eqb q p); [reflexivity|]. apply IH; assumption.
  Qed.

  Lemma filter_phi (f : Z * Z -> bool) (g : Z * Z -> bool) l : Forall inp l ->
    (forall p, inp p -> In p l -> g (phip p) = f p) -> filter g (map phip l) = map phip (filter f l).
  Proof.
    intros Hl H. induction l as [|p l IH]; [reflexivity|]. inversion Hl; subst. cbn [map filter].
    rewrite (H p) by (auto; left; reflexivity). rewrite IH; [|assumption|intros q Hq Hin; apply H; [assumption|right; assumption]].
    destruct (f p); reflexivity.
  Qed.

  Lemma code_of_phi t : forall ps i, Forall inp t -> Forall inp ps ->
    code_of (map phip t) (map phip ps) i = code_of t ps i.
  Proof.
    induction ps as [|p ps IH]; intros i Ht Hp; [reflexivity|]. inversion Hp; subst. cbn [map code_of].
    rewrite index_p_phi by assumption. rewrite IH by assumption. reflexivity.
  Qed.

  Lemma pairs_of_phi : forall l, pairs_of (map phi l) = map phip (pairs_of l).
  Proof. fix IH 1. intros [|a [|b r]]; try reflexivity. cbn [map pairs_of]. rewrite IH. reflexivity. Qed.
  Lemma pairs_upto_phi : forall n l, pairs_upto n (map phi l) = map phip (pairs_upto n l).
  Proof.
    fix IH 1. intros [|[|n]] [|a [|b r]]; try reflexivity. cbn [map pairs_upto]. rewrite IH. reflexivity.
  Qed.

  Lemma pairs_of_in l : Forall (fun x => In x dom) l -> Forall inp (pairs_of l).
  Proof.
    revert l. fix IH 1. intros [|a [|b r]] H; try constructor.
    - inversion H as [|? ? Ha H']; subst. inversion H' as [|? ? Hb H'']; subst. split; assumption.
    - inversion H as [|? ? Ha H']; subst. inversion H' as [|? ? Hb H'']; subst. apply IH. exact H''.
  Qed.
  Lemma pairs_upto_in : forall n l, Forall (fun x => In x dom) l -> Forall inp (pairs_upto n l).
  Proof.
    fix IH 1. intros [|[|n]] [|a [|b r]] H; try constructor;
      inversion H as [|? ? Ha H']; subst; inversion H' as [|? ? Hb H'']; subst; try (split; assumption); try constructor.
    apply IH. exact H''.
  Qed.
End Renaming.

Lemma my_skipn_map {A B} (f : A -> B) : forall n l, skipn n (map f l) = map f (skipn n l).
Proof. induction n as [|n IH]; intros [|a l]; try reflexivity. cbn [map skipn]. apply IH. Qed.
Lemma my_firstn_map {A B} (f : A -> B) : forall n l, firstn n (map f l) = map f (firstn n l).
Proof. induction n as [|n IH]; intros [|a l]; try reflexivity. cbn [map firstn]. rewrite IH. reflexivity. Qed.

Lemma Forall_skipn {A} (P : A -> Prop) n (l : list A) : Forall P l -> Forall P (skipn n l).
Proof. intros H. rewrite <- (firstn_skipn n l) in H. apply Forall_app in H. apply H. Qed.
Lemma Forall_firstn {A} (P : A -> Prop) n (l : list A) : Forall P l -> Forall P (firstn n l).
Proof. intros H. rewrite <- (firstn_skipn n l) in H. apply Forall_app in H. apply H. Qed.
Lemma Forall_filter {A} (P : A -> Prop) f (l : list A) : Forall P l -> Forall P (filter f l).
Proof. intros H. apply Forall_forall. intros x Hx. apply filter_In in Hx as [Hx _]. rewrite Forall_forall in H. auto. Qed.
Lemma dedup_in (P : Z * Z -> Prop) : forall l seen, Forall P l -> Forall P (dedup seen l).
Proof.
  induction l as [|p l IH]; intros seen H; [constructor|]. inversion H; subst. cbn [dedup].
  destruct (memp p seen); [apply IH; assumption|constructor; [assumption|apply IH; assumption]].
Qed.

(* The code __decode_1 computes depends only on which durations of the normalised signal are equal:
   renaming the durations by any function that is injective on them leaves the code unchanged. *)
Theorem decode1_renaming phi norm :
  (forall a b, In a norm -> In b norm -> phi a = phi b -> a = b) ->
  decode1 (map phi norm) = decode1 norm.
Proof.
  intros inj. pose (dom := norm).
  assert (Forall (fun x => In x dom) norm) as Hall by (apply Forall_forall; auto).
  assert (last_pair (map phi norm) = option_map (phip phi) (last_pair norm)) as Elp.
  { unfold last_pair. rewrite <- map_rev. destruct (rev norm) as [|b [|a r]]; reflexivity. }
  assert (forall lp, last_pair norm = Some lp -> inp dom lp) as Hlp.
  { intros lp E. unfold last_pair in E. destruct (rev norm) as [|b [|a r]] eqn:Er; try discriminate. injection E as <-.
    assert (In b norm /\ In a norm) as [Hb Ha].
    { split; apply in_rev; rewrite Er; [left|right; left]; reflexivity. }
    split; assumption. }
  assert (Forall (inp dom) (pairs_of (skipn 2 norm))) as Hps by (apply pairs_of_in, Forall_skipn; exact Hall).
  assert (bits_of_signal (map phi norm) = map (phip phi) (bits_of_signal norm)) as Eb.
  { unfold bits_of_signal. rewrite Elp. rewrite my_skipn_map. rewrite pairs_of_phi.
    destruct (last_pair norm) as [lp|] eqn:El; cbn [option_map].
    - rewrite (filter_phi phi dom (fun p => negb (pair_eqb p lp))); [|exact Hps|].
      + change (@nil (Z * Z)) with (map (phip phi) []). apply (dedup_phi phi dom inj); [apply Forall_filter; exact Hps|constructor].
      + intros p Hp _. rewrite (pair_eqb_phi phi dom inj); auto.
    - change (@nil (Z * Z)) with (map (phip phi) []). apply (dedup_phi phi dom inj); [exact Hps|constructor]. }
  unfold decode1. rewrite Eb. rewrite map_length.
  assert (Forall (inp dom) (bits_of_signal norm)) as Hbits.
  { unfold bits_of_signal. destruct (last_pair norm); apply dedup_in; try apply Forall_filter; exact Hps. }
  destruct (bits_of_signal norm) as [|b0 bits] eqn:Ebits; [reflexivity|].
  cbn [map]. change (phip phi b0 :: map (phip phi) bits) with (map (phip phi) (b0 :: bits)).
  rewrite my_firstn_map. set (t := firstn 2 (b0 :: bits)).
  assert (Forall (inp dom) t) as Ht by (apply Forall_firstn; exact Hbits).
  rewrite pairs_upto_phi.
  assert (Forall (inp dom) (pairs_upto (length norm - 2) norm)) as Hpu by (apply pairs_upto_in; exact Hall).
  rewrite (filter_phi phi dom (fun p => memp p t)); [|exact Hpu|intros p Hp _; apply (memp_phi phi dom inj); auto].
  apply (code_of_phi phi dom inj); [exact Ht|apply Forall_filter; exact Hpu].
Qed.
