(* binary64 helpers for the bit-exact executable twins of float code (pronto, _match, clean_code).
   Floats are only computed with (vm_compute), never reasoned about: FloatAxioms is not imported. *)
From Coq Require Import ZArith Bool.
From Coq Require Import PrimFloat Uint63 FloatOps SpecFloat.
Open Scope Z_scope.

(* float(z) for |z| < 2^62 (exact below 2^53, correctly rounded by the primitive above) *)
Definition f_of_Z (z : Z) : float :=
  if z <? 0 then PrimFloat.opp (PrimFloat.of_uint63 (Uint63.of_Z (- z)))
  else PrimFloat.of_uint63 (Uint63.of_Z z).

(* (sign, mantissa, exponent) of a finite float: value = (-1)^s * m * 2^e *)
Definition decompose (f : float) : option (bool * Z * Z) :=
  match Prim2SF f with
  | S754_zero s => Some (s, 0, 0)
  | S754_finite s m e => Some (s, Z.pos m, e)
  | _ => None
  end.

(* math.floor *)
Definition floorF (f : float) : Z :=
  match decompose f with
  | Some (s, m, e) =>
      let v := if 0 <=? e then m * 2 ^ e else m / 2 ^ (- e) in
      let exact := if 0 <=? e then true else (m mod 2 ^ (- e)) =? 0 in
      if s then (if exact then - v else - v - 1) else v
  | None => 0
  end.

(* int(): truncation toward zero *)
Definition truncF (f : float) : Z :=
  match decompose f with
  | Some (s, m, e) =>
      let v := if 0 <=? e then m * 2 ^ e else m / 2 ^ (- e) in
      if s then - v else v
  | None => 0
  end.

(* round(): to the nearest integer, ties to even *)
Definition roundF (f : float) : Z :=
  match decompose f with
  | Some (s, m, e) =>
      if 0 <=? e then (if s then - (m * 2 ^ e) else m * 2 ^ e)
      else
        let d := 2 ^ (- e) in
        let q := m / d in
        let r := m mod d in
        let up := if 2 * r <? d then false else if d <? 2 * r then true else Z.odd q in
        let v := if up then q + 1 else q in
        if s then - v else v
  | None => 0
  end.
