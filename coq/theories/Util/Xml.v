(* C17 / C18 — the string-level core of xml_handler.py:
   - escaping and unescaping of attribute values (ESCAPE_CHARS / UNESCAPE_CHARS applied with str.replace in order),
   - the completeness test handle_file applies before it accepts a file,
   - the decision logic of handle_file over a two-file file system.
   Characters are natural numbers (code points). *)
From Coq Require Import ZArith List Bool Lia Arith.
Import ListNotations.

Definition str := list nat.

(* code points *)
Definition cAMP := 38. Definition cLT := 60. Definition cGT := 62. Definition cQUOT := 34. Definition cAPOS := 39.
Definition cSEMI := 59. Definition cSLASH := 47.
(* "&amp;" "&lt;" "&gt;" "&quot;" "&apos;" *)
Definition eAMP : str := [38; 97; 109; 112; 59].
Definition eLT : str := [38; 108; 116; 59].
Definition eGT : str := [38; 103; 116; 59].
Definition eQUOT : str := [38; 113; 117; 111; 116; 59].
Definition eAPOS : str := [38; 97; 112; 111; 115; 59].

(* str.replace(c, ent) for a one-character pattern *)
Definition replace_char (c : nat) (ent : str) (s : str) : str := flat_map (fun x => if Nat.eqb x c then ent else [x]) s.

(* str.replace(pat, c) for a non-empty pattern, leftmost non-overlapping occurrences; [skip] = characters of a
   matched occurrence still to be dropped *)
Fixpoint prefixb (p s : str) : bool :=
  match p, s with
  | [], _ => true
  | a :: p', b :: s' => Nat.eqb a b && prefixb p' s'
  | _ :: _, [] => false
  end.
Fixpoint rp (pat : str) (c : nat) (skip : nat) (s : str) : str :=
  match s with
  | [] => []
  | x :: r =>
      match skip with
      | S k => rp pat c k r
      | O => if prefixb pat s then c :: rp pat c (length pat - 1) r else x :: rp pat c 0 r
      end
  end.
Definition replace_pat (pat : str) (c : nat) (s : str) : str := rp pat c 0 s.

(* XMLAttributes.__str__: for item in ESCAPE_CHARS: value = value.replace(old, new) *)
Definition escape (s : str) : str :=
  replace_char cAPOS eAPOS (replace_char cQUOT eQUOT (replace_char cGT eGT (replace_char cLT eLT (replace_char cAMP eAMP s)))).
(* from_string: for item in UNESCAPE_CHARS: value = value.replace(old, new)   (&amp; last, after the repair) *)
Definition unescape (s : str) : str :=
  replace_pat eAMP cAMP (replace_pat eAPOS cAPOS (replace_pat eQUOT cQUOT (replace_pat eGT cGT (replace_pat eLT cLT s)))).

(* ------------------------------------------------------------------ escaping as one pass *)
(* the five special characters by index: 0 ampersand, 1 less-than, 2 greater-than, 3 double quote, 4 apostrophe *)
Definition code (j : nat) : nat := match j with 0 => 38 | 1 => 60 | 2 => 62 | 3 => 34 | _ => 39 end.
Definition ent (j : nat) : str := match j with 0 => eAMP | 1 => eLT | 2 => eGT | 3 => eQUOT | _ => eAPOS end.
Definition special (x : nat) : option nat :=
  if Nat.eqb x 38 then Some 0 else if Nat.eqb x 60 then Some 1 else if Nat.eqb x 62 then Some 2
  else if Nat.eqb x 34 then Some 3 else if Nat.eqb x 39 then Some 4 else None.

(* text in which exactly the specials whose index is in S are written as entities *)
Definition tok (S : nat -> bool) (x : nat) : str :=
  match special x with Some j => if S j then ent j else [x] | None => [x] end.
Definition enc (S : nat -> bool) (s : str) : str := flat_map (tok S) s.

Lemma flat_map_flat_map {A B C} (f : A -> list B) (g : B -> list C) l :
  flat_map g (flat_map f l) = flat_map (fun x => flat_map g (f x)) l.
Proof. induction l as [|a l IH]; [reflexivity|]. cbn [flat_map]. rewrite flat_map_app, IH. reflexivity. Qed.

Lemma escape_enc s : escape s = enc (fun _ => true) s.
Proof.
  unfold escape, replace_char, enc. rewrite !flat_map_flat_map. apply flat_map_ext. intros x.
  unfold tok, special, cAMP, cLT, cGT, cQUOT, cAPOS.
  destruct (Nat.eqb_spec x 38) as [->|H1]; [reflexivity|].
  destruct (Nat.eqb_spec x 60) as [->|H2]; [reflexivity|].
  destruct (Nat.eqb_spec x 62) as [->|H3]; [reflexivity|].
  destruct (Nat.eqb_spec x 34) as [->|H4]; [reflexivity|].
  destruct (Nat.eqb_spec x 39) as [->|H5]; [reflexivity|].
  cbn [flat_map app].
  repeat (match goal with |- context [Nat.eqb x ?k] => destruct (Nat.eqb_spec x k); [lia|] end; cbn [flat_map app]).
  reflexivity.
Qed.

Lemma enc_none s : enc (fun _ => false) s = s.
Proof.
  unfold enc. induction s as [|x s IH]; [reflexivity|]. cbn [flat_map]. rewrite IH. unfold tok.
  destruct (special x); reflexivity.
Qed.

(* ------------------------------------------------------------------ one unescaping pass removes one entity *)
Lemma rp_literal k rest x : x <> 38 -> (k < 5)%nat -> rp (ent k) (code k) 0 (x :: rest) = x :: rp (ent k) (code k) 0 rest.
Proof.
  intros Hx Hk. destruct k as [|[|[|[|[|k]]]]]; try lia; cbn [ent rp prefixb eAMP eLT eGT eQUOT eAPOS];
    (destruct (Nat.eqb_spec 38 x); [lia|reflexivity]).
Qed.
Lemma rp_same k rest : (k < 5)%nat -> rp (ent k) (code k) 0 (ent k ++ rest) = code k :: rp (ent k) (code k) 0 rest.
Proof. intros Hk. destruct k as [|[|[|[|[|k]]]]]; try lia; reflexivity. Qed.
Lemma rp_other k j rest : (k < 5)%nat -> (j < 5)%nat -> k <> j ->
  rp (ent k) (code k) 0 (ent j ++ rest) = ent j ++ rp (ent k) (code k) 0 rest.
Proof.
  intros Hk Hj Hne. destruct k as [|[|[|[|[|k]]]]]; try lia; destruct j as [|[|[|[|[|j]]]]]; try lia; reflexivity.
Qed.

Lemma special_lt x j : special x = Some j -> (j < 5)%nat /\ x = code j.
Proof.
  unfold special. destruct (Nat.eqb_spec x 38); [intros [= <-]; split; [lia|assumption]|].
  destruct (Nat.eqb_spec x 60); [intros [= <-]; split; [lia|assumption]|].
  destruct (Nat.eqb_spec x 62); [intros [= <-]; split; [lia|assumption]|].
  destruct (Nat.eqb_spec x 34); [intros [= <-]; split; [lia|assumption]|].
  destruct (Nat.eqb_spec x 39); [intros [= <-]; split; [lia|assumption]|]. discriminate.
Qed.
Lemma special_none x : special x = None -> x <> 38.
Proof. unfold special. destruct (Nat.eqb_spec x 38); [discriminate|auto]. Qed.
Lemma special_code j : (j < 5)%nat -> special (code j) = Some j.
Proof. intros H. destruct j as [|[|[|[|[|j]]]]]; try lia; reflexivity. Qed.

(* the pass for entity k, on a text where '&' (index 0) is still encoded, or - for the last pass - only '&' is *)
Lemma pass_removes k (S : nat -> bool) : (k < 5)%nat -> S k = true -> S 0 = true ->
  forall s, replace_pat (ent k) (code k) (enc S s) = enc (fun j => S j && negb (Nat.eqb j k)) s.
Proof.
  intros Hk HSk HS0 s. unfold replace_pat, enc. induction s as [|x s IH]; [reflexivity|].
  cbn [flat_map]. unfold tok at 1 3. destruct (special x) as [j|] eqn:Es.
  - destruct (special_lt x j Es) as [Hj Ex]. destruct (S j) eqn:ESj.
    + destruct (Nat.eq_dec j k) as [->|Hne].
      * rewrite Nat.eqb_refl. cbn [andb negb]. rewrite rp_same by exact Hk. rewrite IH. cbn [app]. rewrite Ex. reflexivity.
      * replace (Nat.eqb j k) with false by (symmetry; apply Nat.eqb_neq; exact Hne). cbn [andb negb].
        rewrite rp_other by (auto; lia). rewrite IH. reflexivity.
    + cbn [andb app]. assert (x <> 38) as Hx.
      { intros ->. change 38 with (code 0) in Es. rewrite special_code in Es by lia. injection Es as <-. congruence. }
      rewrite rp_literal by assumption. rewrite IH. reflexivity.
  - cbn [app]. rewrite rp_literal by (auto; apply special_none; exact Es). rewrite IH. reflexivity.
Qed.

(* unescaping inverts escaping, for every string *)
Theorem unescape_escape s : unescape (escape s) = s.
Proof.
  rewrite escape_enc. unfold unescape.
  change eLT with (ent 1). change cLT with (code 1). change eGT with (ent 2). change cGT with (code 2).
  change eQUOT with (ent 3). change cQUOT with (code 3). change eAPOS with (ent 4). change cAPOS with (code 4).
  change eAMP with (ent 0). change cAMP with (code 0).
  rewrite pass_removes by (auto; lia). rewrite pass_removes by (auto; lia).
  rewrite pass_removes by (auto; lia). rewrite pass_removes by (auto; lia). rewrite pass_removes by (auto; lia).
  rewrite <- (enc_none s) at 2. unfold enc. apply flat_map_ext. intros x. unfold tok.
  destruct (special x) as [j|] eqn:E; [|reflexivity]. destruct (special_lt x j E) as [Hj _].
  destruct j as [|[|[|[|[|j]]]]]; try lia; reflexivity.
Qed.

(* with &amp; replaced first (the order of the pinned source) the statement is false *)
Definition unescape_amp_first (s : str) : str :=
  replace_pat eAPOS cAPOS (replace_pat eQUOT cQUOT (replace_pat eGT cGT (replace_pat eLT cLT (replace_pat eAMP cAMP s)))).
Example unescape_amp_first_refuted : unescape_amp_first (escape eLT) = [cLT] /\ unescape (escape eLT) = eLT.
Proof. vm_compute. split; reflexivity. Qed.

(* ------------------------------------------------------------------ C18: the completeness test of handle_file *)
Definition is_ws (x : nat) : bool := Nat.eqb x 32 || Nat.eqb x 10 || Nat.eqb x 9 || Nat.eqb x 13.
Fixpoint lstrip (s : str) : str := match s with x :: r => if is_ws x then lstrip r else s | [] => [] end.
Definition strip (s : str) : str := rev (lstrip (rev (lstrip s))).
Definition ends_with (s suffix : str) : bool := prefixb (rev suffix) (rev s).
Definition count_lt (s : str) : nat := length (filter (Nat.eqb 60) s).

(* stripped.endswith('</' + tag + '>') or (stripped.count('<') == 1 and stripped.endswith('/>')) *)
Definition complete (tag : str) (text : str) : bool :=
  let t := strip text in
  ends_with t ([60; 47] ++ tag ++ [62]) || (Nat.eqb (count_lt t) 1 && ends_with t [47; 62]).

(* handle_file over a two-file file system: [parse] is from_string (None = it raised), [tag_of] the root tag *)
Section HandleFile.
  Variable tree : Type.
  Variable parse : str -> option tree.
  Variable tag_of : tree -> str.

  Record fs := { file : str; backup : option str }.
  Inductive loaded := Loaded (t : tree) | Raised.

  Definition handle_file (f : fs) : fs * loaded :=
    let fallback :=
      match backup f with
      | Some b => match parse b with Some t => (f, Loaded t) | None => (f, Raised) end
      | None => (f, Raised)
      end in
    match parse (file f) with
    | Some t =>
        if complete (tag_of t) (file f) then
          (match file f with
           | [] => f
           | _ => {| file := file f; backup := Some (file f) |} end, Loaded t)
        else fallback
    | None => fallback
    end.

  (* an incomplete file never replaces the backup and is never what gets loaded *)
  Theorem handle_file_incomplete f : (forall t, parse (file f) = Some t -> complete (tag_of t) (file f) = false) ->
    backup (fst (handle_file f)) = backup f /\
    (snd (handle_file f) = Raised \/ exists b t, backup f = Some b /\ parse b = Some t /\ snd (handle_file f) = Loaded t).
  Proof.
    intros H. unfold handle_file. destruct (parse (file f)) as [t|] eqn:Ep.
    - rewrite (H t eq_refl). destruct (backup f) as [b|] eqn:Eb; [|split; [exact Eb|left; reflexivity]].
      destruct (parse b) as [tb|] eqn:Epb; cbn [fst snd]; (split; [exact Eb|]); [right; exists b, tb; auto|left; reflexivity].
    - destruct (backup f) as [b|] eqn:Eb; [|split; [exact Eb|left; reflexivity]].
      destruct (parse b) as [tb|] eqn:Epb; cbn [fst snd]; (split; [exact Eb|]); [right; exists b, tb; auto|left; reflexivity].
  Qed.
End HandleFile.
