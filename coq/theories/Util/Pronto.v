(* Pronto hex conversion (pronto.py 38-105): a bit-exact binary64 twin for the correspondence check, and the
   arithmetic content of the round trip over the integers for the theorems. *)
From Coq Require Import ZArith List Bool Lia.
From Coq Require Import PrimFloat.
Require Import PyIR.Util.PrimF.
Import ListNotations.
Open Scope Z_scope.

Definition PRONTO_CLOCK : float := 0.241246%float.
Definition SIGNAL_FREE : Z := 10000.

(* ---- binary64 twin of rlc_to_pronto for a flat list: the list of words *)
Definition rlc_to_pronto_words (freq : Z) (data : list Z) : list Z :=
  let freq := if freq <=? 0 then 36000 else freq in
  let pc := PrimFloat.div 1000000%float (PrimFloat.mul (f_of_Z freq) PRONTO_CLOCK) in
  let carrier := PrimFloat.mul pc PRONTO_CLOCK in
  let n := Z.of_nat (length data) in
  let words := [0; roundF pc; 0; n / 2] ++ map (fun v => truncF (PrimFloat.div (f_of_Z (Z.abs v)) carrier)) data in
  if Z.odd (Z.of_nat (length words)) then words ++ [SIGNAL_FREE] else words.

(* ---- binary64 twin of generic_to_rlc: (frequency, sequences) *)
Fixpoint take_pairs (pw : float) (n : nat) (ws : list Z) : list Z * list Z :=
  match n, ws with
  | S m, a :: b :: r => let '(out, rest) := take_pairs pw m r in
                        (truncF (PrimFloat.mul (f_of_Z a) pw) :: - truncF (PrimFloat.mul (f_of_Z b) pw) :: out, rest)
  | _, _ => ([], ws)
  end.

Definition generic_to_rlc (ws : list Z) : option (Z * list (list Z)) :=
  match ws with
  | w0 :: pcw :: first :: rep :: rest =>
      if (Z.of_nat (length ws) <? 6) || negb ((w0 =? 0) || (w0 =? 256)) then None
      else
        let pcw := if pcw =? 0 then truncF (PrimFloat.div 1000000%float (PrimFloat.mul 36000%float PRONTO_CLOCK)) else pcw in
        let pw := PrimFloat.mul (f_of_Z pcw) PRONTO_CLOCK in
        let '(s1, rest1) := take_pairs pw (Z.to_nat first) rest in
        let '(s2, _) := take_pairs pw (Z.to_nat rep) rest1 in
        let seqs := (if first =? 0 then [] else [s1]) ++ (if rep =? 0 then [] else [s2]) in
        Some (truncF (PrimFloat.div 1000000%float (PrimFloat.mul (f_of_Z pcw) PRONTO_CLOCK)), seqs)
  | _ => None
  end.

(* executable interface: (freq, data) -> words, -1, decoded frequency, decoded durations (flattened) *)
Definition run_pronto (c : Z * list Z) : list Z :=
  let '(freq, data) := c in
  let ws := rlc_to_pronto_words freq data in
  ws ++ [-1] ++ match generic_to_rlc ws with Some (f, seqs) => f :: concat seqs | None => [-2] end.

(* ------------------------------------------------------------------ arithmetic content (integers, K = 10^6, A = 241246) *)
Definition K : Z := 1000000.
Definition A : Z := 241246.      (* PRONTO_CLOCK * K *)

(* the relations the computed words satisfy, with one unit of slack for binary64 rounding (the correspondence check
   verifies these relations on every case it runs):
   - carrier word P: nearest integer to K^2/(f*A)
   - data word w for duration v: floor(v*f/K)
   - decoded duration v' from w: floor(w*P*A/K) *)
Definition carrier_word_ok (f P : Z) : Prop := 2 * Z.abs (P * (f * A) - K * K) <= f * A + 2.
Definition data_word_ok (f v w : Z) : Prop := K * w <= v * f + 1 /\ v * f < K * w + K + 1.
Definition decoded_ok (P w v' : Z) : Prop := K * v' <= w * P * A + 1 /\ w * P * A < K * v' + K + 1.

(* C15: each decoded duration is within the quantisation error of the carrier word:
   |v' - v| <= K/f (one carrier period) + w*A/(2K) (carrier word rounded to an integer) + small constant *)
Theorem pronto_duration_bound f P v w v' :
  0 < f -> 0 <= v -> 0 <= w -> 0 < P ->
  carrier_word_ok f P -> data_word_ok f v w -> decoded_ok P w v' ->
  2 * K * f * (v' - v) <= w * (f * A + 2) + 2 * f + 2 * K /\
  2 * K * f * (v - v') <= w * (f * A + 2) + 2 * K * f + 2 * K * K + 2 * f + 2 * K.
Proof.
  unfold carrier_word_ok, data_word_ok, decoded_ok, K, A. intros Hf Hv Hw HP Hc [Hd1 Hd2] [He1 He2].
  assert (- (f * 241246 + 2) <= 2 * (P * (f * 241246) - 1000000 * 1000000) <= f * 241246 + 2) as Hc' by lia.
  clear Hc.
  (* multiply the carrier relation by w >= 0 *)
  assert (w * (2 * (P * (f * 241246) - 1000000 * 1000000)) <= w * (f * 241246 + 2)) as H1 by (apply Z.mul_le_mono_nonneg_l; lia).
  assert (w * (- (f * 241246 + 2)) <= w * (2 * (P * (f * 241246) - 1000000 * 1000000))) as H2 by (apply Z.mul_le_mono_nonneg_l; lia).
  (* multiply the decoding relation by f > 0 *)
  assert (f * (1000000 * v') <= f * (w * P * 241246 + 1)) as H3 by (apply Z.mul_le_mono_nonneg_l; lia).
  assert (f * (w * P * 241246) < f * (1000000 * v' + 1000000 + 1)) as H4 by (apply Z.mul_lt_mono_pos_l; lia).
  assert (1000000 * (1000000 * w) <= 1000000 * (v * f + 1)) as H5 by (apply Z.mul_le_mono_nonneg_l; lia).
  assert (1000000 * (v * f) < 1000000 * (1000000 * w + 1000000 + 1)) as H6 by (apply Z.mul_lt_mono_pos_l; lia).
  replace (f * (w * P * 241246)) with (w * (P * (f * 241246))) in * by ring.
  replace (f * (w * P * 241246 + 1)) with (w * (P * (f * 241246)) + f) in * by ring.
  set (X := w * (P * (f * 241246))) in *.
  replace (w * (2 * (P * (f * 241246) - 1000000 * 1000000))) with (2 * X - 2 * (1000000 * (1000000 * w))) in * by (unfold X; ring).
  split; lia.
Qed.

(* every data word fits four hex digits on the stated domain *)
Theorem pronto_word_16bit f v w : 0 < f -> 0 <= v -> data_word_ok f v w -> v * f < 65535 * K -> 0 <= w -> w < 65536.
Proof. unfold data_word_ok, K. intros Hf Hv [H1 H2] Hd Hw. lia. Qed.

(* the decoded carrier is within the quantisation of the carrier word *)
Theorem pronto_carrier_bound f P f' :
  0 < f -> 0 < P -> carrier_word_ok f P ->
  P * A * f' <= K * K + 1 -> K * K < P * A * (f' + 1) + 1 ->
  2 * P * A * (f' - f) <= f * A + 6 /\ 2 * P * A * (f - f') <= f * A + 2 * P * A + 6.
Proof.
  unfold carrier_word_ok, K, A. intros Hf HP Hc H1 H2.
  assert (- (f * 241246 + 2) <= 2 * (P * (f * 241246) - 1000000 * 1000000) <= f * 241246 + 2) as Hc' by lia.
  replace (2 * P * 241246 * (f' - f)) with (2 * (P * 241246 * f') - 2 * (P * (f * 241246))) by ring.
  replace (2 * P * 241246 * (f - f')) with (2 * (P * (f * 241246)) - 2 * (P * 241246 * f')) by ring.
  replace (P * 241246 * (f' + 1)) with (P * 241246 * f' + P * 241246) in H2 by ring.
  split; lia.
Qed.

(* header of a flat even-length list: no first sequence, len/2 burst pairs, exactly len data words follow *)
Theorem pronto_header_counts freq data : Z.even (Z.of_nat (length data)) = true ->
  let ws := rlc_to_pronto_words freq data in
  nth 2 ws 0 = 0 /\ nth 3 ws 0 = Z.of_nat (length data) / 2 /\ Z.of_nat (length ws) = 4 + 2 * nth 3 ws 0.
Proof.
  intros He. cbv zeta. unfold rlc_to_pronto_words.
  set (hdr := [0; roundF _; 0; Z.of_nat (length data) / 2]).
  set (body := map _ data).
  assert (Z.of_nat (length (hdr ++ body)) = 4 + Z.of_nat (length data)) as Hl
    by (rewrite app_length; unfold body; rewrite map_length; cbn [length hdr]; lia).
  assert (Z.odd (Z.of_nat (length (hdr ++ body))) = false) as Ho.
  { rewrite Hl. rewrite Z.odd_add. cbn. rewrite <- Z.negb_even, He. reflexivity. }
  rewrite Ho. cbn [hdr app nth]. split; [reflexivity|]. split; [reflexivity|].
  change (0 :: roundF _ :: 0 :: Z.of_nat (length data) / 2 :: body) with (hdr ++ body). rewrite Hl.
  apply Zeven_bool_iff in He. destruct (Zeven_ex _ He) as [q Hq]. rewrite Hq. rewrite Z.mul_comm, Z.div_mul by lia. lia.
Qed.
