From Coq Require Import ZArith List Bool Lia ZifyBool.
Require Import PyIR.Base.Result PyIR.IW.IW PyIR.Engine.Match PyIR.Engine.Render PyIR.Engine.RenderProps
               PyIR.Engine.Parse PyIR.Engine.ParseProps PyIR.Engine.NoCrash PyIR.Engine.ParseM PyIR.Engine.ParseMProps.
Require Import PyIR.Engine.ParseMD.
Import ListNotations.
Open Scope Z_scope.

Lemma man_loopD_no_py tol m s d : forall ds acc, is_pyerr (man_loopD tol m s d acc ds) = false.
Proof.
  induction ds as [|b r IH]; intros acc; cbn [man_loopD]; [reflexivity|].
  destruct (matchb tol b m); [apply IH|]. destruct (matchb tol b s); [apply IH|].
  destruct (dict_step tol m s d acc b) as [[l|]|]; [apply IH| |reflexivity].
  destruct (matchb tol b (m * 2)); [apply IH|]. destruct (matchb tol b (s * 2)); [apply IH|reflexivity].
Qed.

Lemma map_pair_no_py t extra p : (length extra <= length t)%nat -> is_pyerr (map_pair t extra p) = false.
Proof.
  intros Hl. unfold map_pair. destruct p as [|a [|b [|c r]]]; try reflexivity.
  destruct (index_of extra (a, b) 0) as [i|] eqn:E; [|reflexivity].
  destruct (index_of_sound _ _ _ _ E) as [j [-> Hj]]. cbn [Nat.add].
  assert (j < length extra)%nat as Hlt by (apply nth_error_Some; congruence).
  destruct (nth_error t j) as [[m s]|] eqn:En; [reflexivity|]. apply nth_error_None in En. lia.
Qed.

Lemma map_pairs_no_py t extra : (length extra <= length t)%nat -> forall ps, is_pyerr (map_pairs t extra ps) = false.
Proof.
  intros Hl. induction ps as [|p r IH]; [reflexivity|]. cbn [map_pairs].
  pose proof (map_pair_no_py t extra p Hl) as Hp. destruct (map_pair t extra p) as [q| | |]; cbn [bind]; try reflexivity; [|discriminate].
  destruct (map_pairs t extra r) as [qs| | |]; cbn [bind]; try reflexivity. discriminate.
Qed.

(* for EVERY tolerance, tables, positional entry (not longer than the table) and input list *)
Theorem parseMD_no_pyerr tol li lo t d code : (length (md_bursts d) <= length t)%nat ->
  is_pyerr (parseMD tol li lo t d code) = false.
Proof.
  intros Hl. unfold parseMD. destruct t as [|[m s] t']; [reflexivity|]. set (t := (m, s) :: t') in *.
  destruct (negb (period_precheck tol lo code)); [reflexivity|].
  pose proof (lead_in_no_py tol t li code []) as Hli.
  destruct (lead_in_loop tol t li code []) as [[code1 cl1]| | |] eqn:Eli; cbn [bind]; try reflexivity; [|discriminate].
  set (st0 := {| lo_code := code1; lo_clean := []; lo_half := [] |}).
  pose proof (loop_no_py tol (total_time code) t (Z.of_nat (length lo)) lo 0 st0) as Hlo.
  destruct (lead_out_loop tol (total_time code) t (Z.of_nat (length lo)) 0 lo st0) as [st| | |] eqn:Elo; cbn [bind]; try reflexivity; [|discriminate].
  pose proof (man_loopD_no_py tol m s d (lo_code st ++ lo_half st) []) as Hd.
  destruct (man_loopD tol m s d [] (lo_code st ++ lo_half st)) as [halves_rev| | |]; cbn [bind]; try reflexivity; [|discriminate].
  pose proof (map_pairs_no_py t (md_bursts d) Hl (group2 (rev halves_rev))) as Hm.
  destruct (map_pairs t (md_bursts d) (group2 (rev halves_rev))) as [pairs| | |]; cbn [bind]; try reflexivity; [|discriminate].
  pose proof (to_syms_no_py t pairs) as Hs.
  destruct (to_syms t pairs) as [[syms extra]| | |]; cbn [bind]; try reflexivity; [|discriminate].
  assert (is_pyerr (finish_cleaned lo (map Some (cl1 ++ rev halves_rev ++ extra) ++ lo_clean st)) = false) as Hf.
  { apply finish_no_py.
    - eapply (loop_no_inner tol (total_time code) t _ lo 0); [exact Elo|lia|lia|reflexivity].
    - intros ->. apply loop_nil_clean in Elo. exact Elo. }
  destruct (finish_cleaned lo _); cbn [bind]; try reflexivity. discriminate.
Qed.

(* non-vacuity: RC6's tables, the frame encode(device=5, function=0xA3) emits (toggle bit of double width at pair 4) *)
Example rc6_frame_parses :
  let frame := [2664; -888; 444; -888; 444; -444; 444; -444; 444; -888; 888; -444; 444; -444; 444; -444; 444; -444; 444; -444; 888; -888;
                888; -444; 444; -888; 888; -888; 444; -444; 444; -444; 888; -444; 444; -84356] in
  match parseMD 20 [2664; -888] [107000] [(-444, 444); (444, -444)]
                {| md_start := 4; md_stop := 5; md_bursts := [(-888, 888); (888, -888)] |} frame with
  | Ok p => p_bits p = [true; false; false; false; false; false; false; false; false; false; true; false; true; true; false; true;
                        false; false; false; true; true] /\ p_norm p = frame
  | _ => False
  end.
Proof. vm_compute. split; reflexivity. Qed.
