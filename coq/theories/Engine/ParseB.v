(* Decoder core, "bit" branch: CodeWrapper.__init__ (code_wrapper.py 186-235, 337-358, 678-750) for a symbol table of two
   plain durations [mark, space] (GwtS, Lutron, PCTV): serial data, one duration per bit, so a received burst is a run of
   k equal bits.  Lead-in: a lead-in element may have run into the first data bits (burst = e + k * timing); lead-out: the first
   lead-out element may have absorbed the last data bits.  Data: every burst is k marks or k spaces (k = burst // timing).
   Python's // is floor division, which is Z.div; a zero table entry would raise ZeroDivisionError (modelled as such: the
   theorems assume a table without zero, a decidable condition on the class tables). *)
From Coq Require Import ZArith List Bool Lia ZifyBool.
Require Import PyIR.Base.Result PyIR.IW.IW PyIR.Engine.Match PyIR.Engine.Render PyIR.Engine.Parse.
Import ListNotations.
Open Scope Z_scope.

(* for timing in bursts: multiplier = (burst - e) // timing; skip 0; first one whose window holds burst *)
Fixpoint run_into (tol b e : Z) (ts : list Z) : result bool :=
  match ts with
  | [] => Ok false
  | t :: r =>
      if t =? 0 then PyErr ZeroDivisionError else
      let k := (b - e) / t in
      if k =? 0 then run_into tol b e r
      else if matchb tol b (t * k + e) then Ok true
      else run_into tol b e r
  end.

(* lead-in (lines 187-209) *)
Fixpoint lead_in_B (tol : Z) (ts li code cleaned : list Z) : result (list Z * list Z) :=
  match li with
  | [] => Ok (code, cleaned)
  | e :: r =>
      match code with
      | [] => IRErr LeadInError
      | b :: code' =>
          if matchb tol b e then lead_in_B tol ts r code' (cleaned ++ [e])
          else do hit <- run_into tol b e ts;
               if hit : bool then lead_in_B tol ts r ((b - e) :: code') (cleaned ++ [e])
               else IRErr LeadInError
      end
  end.

(* lead-out (lines 211-235): element i is popped from position len(code) - (L - i); an element other than the first that does
   not match is dropped silently (the source has no else branch there) *)
Record lob_state := { lob_code : list Z; lob_clean : list Z; lob_half : list Z }.

Fixpoint lead_out_B (tol : Z) (ts : list Z) (L i : Z) (lo : list Z) (st : lob_state) : result lob_state :=
  match lo with
  | [] => Ok st
  | e :: r =>
      match py_pop (lob_code st) (Z.of_nat (length (lob_code st)) - (L - i)) with
      | None => IRErr LeadOutError
      | Some (b, code') =>
          if matchb tol b e then
            lead_out_B tol ts L (i + 1) r {| lob_code := code'; lob_clean := lob_clean st ++ [e]; lob_half := lob_half st |}
          else if i =? 0 then
            do hit <- run_into tol b e ts;
            if hit : bool then
              lead_out_B tol ts L (i + 1) r {| lob_code := code'; lob_clean := lob_clean st ++ [e]; lob_half := lob_half st ++ [b - e] |}
            else IRErr LeadOutError
          else lead_out_B tol ts L (i + 1) r {| lob_code := code'; lob_clean := lob_clean st; lob_half := lob_half st |}
      end
  end.

(* data loop (lines 337-358): the expanded bits, oldest first *)
Fixpoint data_B (tol mark space : Z) (ds : list Z) : result (list Z) :=
  match ds with
  | [] => Ok []
  | b :: r =>
      if mark =? 0 then PyErr ZeroDivisionError else
      let k := b / mark in
      do tk <- (if 0 <? k then Ok (mark, k)
                else if space =? 0 then PyErr ZeroDivisionError
                else let k2 := b / space in if 0 <? k2 then Ok (space, k2) else IRErr IRStreamError);
      let '(t, n) := tk in
      if matchb tol b (t * n) then do rest <- data_B tol mark space r; Ok (repeat t (Z.to_nat n) ++ rest)
      else IRErr IRStreamError
  end.

(* symbol lookup (lines 694-697 for a two-entry table of plain durations): bursts.index(bp) *)
Definition bit_of (mark space x : Z) : option bool :=
  if x =? mark then Some false else if x =? space then Some true else None.
Fixpoint bits_B (mark space : Z) (l : list Z) : result (list bool) :=
  match l with
  | [] => Ok []
  | x :: r => match bit_of mark space x with
              | Some b => do bs <- bits_B mark space r; Ok (b :: bs)
              | None => IRErr IRStreamError
              end
  end.

Definition parseB (tol : Z) (lead_in lead_out : list Z) (mark space : Z) (code : list Z) : result parsed :=
  if negb (period_precheck tol lead_out code) then IRErr LeadOutError else
  let ts := [mark; space] in
  do (code1, cleaned1) <- lead_in_B tol ts lead_in code [];
  do st <- lead_out_B tol ts (Z.of_nat (length lead_out)) 0 lead_out {| lob_code := code1; lob_clean := []; lob_half := [] |};
  do bitsd <- data_B tol mark space (lob_code st ++ lob_half st);
  do bits <- bits_B mark space bitsd;
  match cleaned1 ++ bitsd ++ lob_clean st with
  | [] => IRErr IRStreamError
  | cl => Ok {| p_bits := bits; p_norm := compress cl; p_syms := map (fun b : bool => if b then 1%nat else 0%nat) bits |}
  end.

Definition run_parseB (c : Z * list Z * list Z * (Z * Z) * list Z) : list Z :=
  let '(tol, li, lo, (m, s), code) := c in
  enc_result (fun p => Z.of_nat (length (p_bits p)) :: map (fun x : bool => if x then 1 else 0) (p_bits p) ++ p_norm p)
             (parseB tol li lo m s code).

(* ---- no input makes this branch leak a Python exception when the table has no zero entry *)
Lemma run_into_no_py tol b e : forall ts, forallb (fun t => negb (t =? 0)) ts = true -> is_pyerr (run_into tol b e ts) = false.
Proof.
  induction ts as [|t r IH]; intros H; cbn [run_into]; [reflexivity|].
  cbn [forallb] in H. apply andb_true_iff in H as [Ht Hr]. destruct (t =? 0); [discriminate Ht|].
  destruct ((b - e) / t =? 0); [apply IH, Hr|]. destruct (matchb tol b _); [reflexivity|apply IH, Hr].
Qed.

Lemma lead_in_B_no_py tol ts : forallb (fun t => negb (t =? 0)) ts = true ->
  forall li code cl, is_pyerr (lead_in_B tol ts li code cl) = false.
Proof.
  intros Hz. induction li as [|e r IH]; intros code cl; cbn [lead_in_B]; [reflexivity|].
  destruct code as [|b c]; [reflexivity|]. destruct (matchb tol b e); [apply IH|].
  pose proof (run_into_no_py tol b e ts Hz) as H. destruct (run_into tol b e ts) as [[|]| | |]; cbn [bind]; try reflexivity; [apply IH|discriminate].
Qed.

Lemma lead_out_B_no_py tol ts L : forallb (fun t => negb (t =? 0)) ts = true ->
  forall lo i st, is_pyerr (lead_out_B tol ts L i lo st) = false.
Proof.
  intros Hz. induction lo as [|e r IH]; intros i st; cbn [lead_out_B]; [reflexivity|].
  destruct (py_pop _ _) as [[b c]|]; [|reflexivity]. destruct (matchb tol b e); [apply IH|].
  destruct (i =? 0); [|apply IH].
  pose proof (run_into_no_py tol b e ts Hz) as H. destruct (run_into tol b e ts) as [[|]| | |]; cbn [bind]; try reflexivity; [apply IH|discriminate].
Qed.

Lemma data_B_no_py tol mark space : mark <> 0 -> space <> 0 -> forall ds, is_pyerr (data_B tol mark space ds) = false.
Proof.
  intros Hm Hs. induction ds as [|b r IH]; cbn [data_B]; [reflexivity|].
  destruct (mark =? 0) eqn:Em; [lia|]. destruct (0 <? b / mark).
  - cbn [bind]. destruct (matchb tol b _); [|reflexivity]. destruct (data_B tol mark space r); cbn [bind]; try reflexivity. discriminate.
  - destruct (space =? 0) eqn:Es; [lia|]. destruct (0 <? b / space); cbn [bind]; [|reflexivity].
    destruct (matchb tol b _); [|reflexivity]. destruct (data_B tol mark space r); cbn [bind]; try reflexivity. discriminate.
Qed.

Lemma bits_B_no_py mark space : forall l, is_pyerr (bits_B mark space l) = false.
Proof.
  induction l as [|x r IH]; cbn [bits_B]; [reflexivity|]. destruct (bit_of mark space x); [|reflexivity].
  destruct (bits_B mark space r); cbn [bind]; try reflexivity. discriminate.
Qed.

Theorem parseB_no_pyerr tol li lo mark space code : mark <> 0 -> space <> 0 ->
  is_pyerr (parseB tol li lo mark space code) = false.
Proof.
  intros Hm Hs. unfold parseB. destruct (negb (period_precheck tol lo code)); [reflexivity|].
  assert (forallb (fun t => negb (t =? 0)) [mark; space] = true) as Hz by (cbn [forallb]; lia).
  pose proof (lead_in_B_no_py tol _ Hz li code []) as H1.
  destruct (lead_in_B tol [mark; space] li code []) as [[code1 cl1]| | |]; cbn [bind]; try reflexivity; [|discriminate].
  pose proof (lead_out_B_no_py tol _ (Z.of_nat (length lo)) Hz lo 0 {| lob_code := code1; lob_clean := []; lob_half := [] |}) as H2.
  destruct (lead_out_B tol [mark; space] _ 0 lo _) as [st| | |]; cbn [bind]; try reflexivity; [|discriminate].
  pose proof (data_B_no_py tol mark space Hm Hs (lob_code st ++ lob_half st)) as H3.
  destruct (data_B tol mark space _) as [bitsd| | |]; cbn [bind]; try reflexivity; [|discriminate].
  pose proof (bits_B_no_py mark space bitsd) as H4.
  destruct (bits_B mark space bitsd) as [bits| | |]; cbn [bind]; try reflexivity; [|discriminate].
  destruct (cl1 ++ bitsd ++ lob_clean st); reflexivity.
Qed.

(* ---- soundness of the serial data loop for arbitrary input (C05, engine half): whatever list of integers reaches the loop, if it
   returns bits then every consumed burst lies in the tolerance window of k marks or k spaces (k >= 1), and the returned
   durations are exactly those runs written out - no received burst is accepted as a run it is not within tolerance of *)
Theorem data_B_sound tol mark space : forall ds out, data_B tol mark space ds = Ok out ->
  exists runs : list (Z * Z),
    Forall2 (fun b tk => matchb tol b (fst tk * snd tk) = true /\ 0 < snd tk /\ (fst tk = mark \/ fst tk = space)) ds runs /\
    out = flat_map (fun tk => repeat (fst tk) (Z.to_nat (snd tk))) runs.
Proof.
  induction ds as [|b r IH]; intros out H; cbn [data_B] in H.
  - injection H as <-. exists []. split; [constructor|reflexivity].
  - destruct (mark =? 0); [discriminate|].
    assert (forall t n, 0 < n -> (t = mark \/ t = space) ->
              (if matchb tol b (t * n) then do rest <- data_B tol mark space r; Ok (repeat t (Z.to_nat n) ++ rest)
               else IRErr IRStreamError) = Ok out ->
              exists runs, Forall2 (fun b tk => matchb tol b (fst tk * snd tk) = true /\ 0 < snd tk /\ (fst tk = mark \/ fst tk = space))
                                   (b :: r) runs /\ out = flat_map (fun tk => repeat (fst tk) (Z.to_nat (snd tk))) runs) as Hstep.
    { intros t n Hn Ht Hx. destruct (matchb tol b (t * n)) eqn:Em; [|discriminate].
      destruct (data_B tol mark space r) as [rest| | |] eqn:Er; cbn [bind] in Hx; try discriminate.
      injection Hx as <-. destruct (IH rest eq_refl) as [runs [F E]].
      exists ((t, n) :: runs). split; [constructor; [cbn [fst snd]; auto|exact F]|cbn [flat_map fst snd]; rewrite E; reflexivity]. }
    destruct (0 <? b / mark) eqn:Ek; cbn [bind] in H.
    + apply (Hstep mark (b / mark)); [lia|left; reflexivity|exact H].
    + destruct (space =? 0); [discriminate|]. destruct (0 <? b / space) eqn:Ek2; cbn [bind] in H; [|discriminate].
      apply (Hstep space (b / space)); [lia|right; reflexivity|exact H].
Qed.

(* non-vacuity: PCTV's tables (lead-in 1664, -6656, 832; lead-out 1664, -100000), a frame of its encoder *)
Example serial_runs_example : data_B 20 (-832) 832 [-832; 1664; -2496; 832] = Ok [-832; 832; 832; -832; -832; -832; 832].
Proof. vm_compute. reflexivity. Qed.

(* non-vacuity at the level of the whole branch: PCTV's tables, the frame encode(device=0xA5, function=0x3C) emits - the last
   lead-in element (832) arrives merged with the first data bits, the first lead-out element (1664) with the last *)
Example pctv_frame_parses :
  let frame := [1664; -6656; 1664; -832; 832; -1664; 832; -832; 832; -1664; 3328; -1664; 1664; -100000] in
  match parseB 20 [1664; -6656; 832] [1664; -100000] (-832) 832 frame with
  | Ok p => p_bits p = [true; false; true; false; false; true; false; true; false; false; true; true; true; true; false; false]
            /\ p_norm p = frame
  | _ => False
  end.
Proof. vm_compute. split; reflexivity. Qed.
