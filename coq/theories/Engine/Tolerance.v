(* C04 (rejection) and C05 (soundness) at engine level, for pair tables. *)
From Coq Require Import ZArith List Bool Lia ZifyBool.
Require Import PyIR.Base.Result PyIR.IW.IW PyIR.Engine.Match PyIR.Engine.Render PyIR.Engine.RenderProps
               PyIR.Engine.Parse PyIR.Engine.ParseProps PyIR.Engine.RoundTripH.
Import ListNotations.
Open Scope Z_scope.

(* ------------------------------------------------------------------ rejection, fixed trailing gap *)
(* lead-in and lead-out are within a quarter of the tolerance; somewhere in the data section one burst lies outside
   the window of every legal duration; whatever the other data bursts are: the frame is rejected *)
Theorem parseH_far_rejected_fixed tol li lo t d1 v d2 dli dlo :
  0 <= tol <= 100 -> nonzero li -> nonzero lo -> Forall (fun e => e <> PLACEHOLDER) lo ->
  (match last_opt lo with Some g => g < 0 | None => True end) ->
  Forall2 (close tol) dli li -> Forall2 (close tol) dlo lo ->
  far tol v (vals t) ->
  parseH tol li lo t (dli ++ (d1 ++ v :: d2) ++ dlo) = IRErr IRStreamError.
Proof.
  intros Ht Hli Hlo Hph Hlast Hcli Hclo Hfar. unfold parseH.
  assert (period_precheck tol lo (dli ++ (d1 ++ v :: d2) ++ dlo) = true) as ->.
  { unfold period_precheck. destruct (last_opt lo) as [g|]; [|reflexivity]. destruct (0 <? g) eqn:E; [lia|reflexivity]. }
  cbn [negb]. rewrite (lead_in_loop_ok tol t li Ht Hli dli _ [] Hcli). cbn [bind app].
  pose proof (lead_out_loop_direct tol (total_time (dli ++ (d1 ++ v :: d2) ++ dlo)) t (Z.of_nat (length lo)) Ht
                lo dlo 0 (d1 ++ v :: d2) [] [] Hclo Hlo Hph [] []) as Hl.
  rewrite !app_nil_r in Hl. rewrite Hl by (cbn [length]; lia). clear Hl.
  cbn [lead_out_loop bind lo_code lo_half lo_clean app]. rewrite app_nil_r.
  rewrite data_loop_far_err by exact Hfar. reflexivity.
Qed.

(* ------------------------------------------------------------------ rejection, fixed frame period *)
Lemma lead_out_step_code tol tt t L i e st st' : lead_out_step tol tt t L i e st = Ok st' ->
  exists b, py_pop (lo_code st) (Z.of_nat (length (lo_code st)) - (L - i)) = Some (b, lo_code st') /\
            exists h, lo_half st' = lo_half st ++ h.
Proof.
  unfold lead_out_step. destruct (py_pop (lo_code st) _) as [[b code']|]; [|discriminate].
  intros H. exists b. split.
  - f_equal. f_equal.
    destruct (matchb tol b e); [injection H as <-; reflexivity|].
    destruct (find _ (map snd t)); [injection H as <-; reflexivity|].
    destruct (_ && matchb tol e (tt + Z.abs b)); [injection H as <-; reflexivity|].
    destruct (lo_clean st); [|discriminate]. destruct (find _ (map snd t)); [injection H as <-; reflexivity|discriminate].
  - destruct (matchb tol b e); [injection H as <-; exists []; cbn; rewrite app_nil_r; reflexivity|].
    destruct (find _ (map snd t)) as [s|]; [injection H as <-; exists [s]; reflexivity|].
    destruct (_ && matchb tol e (tt + Z.abs b)); [injection H as <-; exists []; cbn; rewrite app_nil_r; reflexivity|].
    destruct (lo_clean st); [|discriminate]. destruct (find _ (map snd t)) as [s|]; [injection H as <-; exists [s]; reflexivity|discriminate].
Qed.

Lemma lead_out_step_kind tol tt t L i e st :
  (exists st', lead_out_step tol tt t L i e st = Ok st') \/ (exists err, lead_out_step tol tt t L i e st = IRErr err).
Proof.
  unfold lead_out_step. destruct (py_pop (lo_code st) _) as [[b code']|]; [|right; eexists; reflexivity].
  destruct (matchb tol b e); [left; eexists; reflexivity|].
  destruct (find _ (map snd t)); [left; eexists; reflexivity|].
  destruct (_ && matchb tol e (tt + Z.abs b)); [left; eexists; reflexivity|].
  destruct (lo_clean st); [|right; eexists; reflexivity].
  destruct (find _ (map snd t)); [left|right]; eexists; reflexivity.
Qed.

Theorem parseH_far_rejected_period tol li core P t d1 v d2 dli dcore g :
  0 <= tol <= 100 -> nonzero li -> nonzero core -> Forall (fun e => e <> PLACEHOLDER) core ->
  Forall2 (close tol) dli li -> Forall2 (close tol) dcore core ->
  far tol v (vals t) ->
  exists e, parseH tol li (core ++ [P]) t (dli ++ (d1 ++ v :: d2) ++ dcore ++ [g]) = IRErr e.
Proof.
  intros Ht Hli Hcore Hph Hcli Hcco Hfar. unfold parseH.
  destruct (period_precheck tol (core ++ [P]) _); cbn [negb]; [|eexists; reflexivity].
  rewrite (lead_in_loop_ok tol t li Ht Hli dli _ [] Hcli). cbn [bind app].
  set (tt := total_time _).
  rewrite (lead_out_loop_direct tol tt t (Z.of_nat (length (core ++ [P]))) Ht core dcore 0 (d1 ++ v :: d2) [] []
             Hcco Hcore Hph [g] [P]) by (rewrite app_length; cbn [length]; lia).
  cbn [app map lead_out_loop]. destruct (P =? PLACEHOLDER).
  - cbn [bind lo_code lo_half]. rewrite app_nil_r.
    replace ((d1 ++ v :: d2) ++ [g]) with (d1 ++ v :: (d2 ++ [g])) by (rewrite <- app_assoc; reflexivity).
    rewrite (data_loop_far_err tol t d1 v (d2 ++ [g])) by exact Hfar. eexists. reflexivity.
  - match goal with |- context [lead_out_step ?a ?b ?c ?d ?e ?f ?g] =>
      destruct (lead_out_step_kind a b c d e f g) as [[st' Es]|[err Es]]; rewrite Es end; cbn [bind]; [|eexists; reflexivity].
    destruct (lead_out_step_code _ _ _ _ _ _ _ _ Es) as [b [Hpop [h Hh]]]. cbn [lo_code lo_half] in Hpop, Hh.
    assert (lo_code st' = d1 ++ v :: d2) as Ec.
    { replace ((d1 ++ v :: d2) ++ [g]) with ((d1 ++ v :: d2) ++ g :: []) in Hpop by reflexivity.
      assert (Z.of_nat (length ((d1 ++ v :: d2) ++ [g])) - (Z.of_nat (length (core ++ [P])) - (0 + Z.of_nat (length core)))
              = Z.of_nat (length ((d1 ++ v :: d2) ++ g :: [])) - (Z.of_nat (length (@nil Z)) + 1)) as E
        by (rewrite !app_length; cbn [length]; lia).
      rewrite E in Hpop. rewrite py_pop_at in Hpop. injection Hpop as _ <-. rewrite app_nil_r. reflexivity. }
    rewrite Ec, Hh. cbn [app].
    replace ((d1 ++ v :: d2) ++ h) with (d1 ++ v :: (d2 ++ h)) by (rewrite <- app_assoc; reflexivity).
    rewrite (data_loop_far_err tol t d1 v (d2 ++ h)) by exact Hfar. eexists. reflexivity.
Qed.

(* ------------------------------------------------------------------ soundness for arbitrary input (C05, engine half) *)
(* Whatever list of integers is handed to the parser: if it returns symbols, then the data durations it consumed lie,
   one by one, in the tolerance window of a nominal table duration, and rendering the returned symbols gives exactly
   those nominal durations (plus the completed space of a trailing single mark). *)
Theorem parseH_sound tol li lo t ds p : parseH tol li lo t ds = Ok p ->
  exists data matched extra,
    Forall2 (fun d e => matchb tol d e = true /\ In e (vals t)) data matched /\
    render_data t (p_syms p) = matched ++ extra /\
    Forall (fun i => (i < length t)%nat) (p_syms p) /\
    p_bits p = bits_of t (p_syms p).
Proof.
  unfold parseH. destruct (negb (period_precheck tol lo ds)); [discriminate|].
  destruct (lead_in_loop tol t li ds []) as [[code1 cl1]| | |]; cbn [bind]; try discriminate.
  destruct (lead_out_loop tol (total_time ds) t _ 0 lo _) as [st| | |]; cbn [bind]; try discriminate.
  destruct (data_loop tol t [] [] (lo_code st ++ lo_half st)) as [[prs cl]| | |] eqn:Ed; cbn [bind]; try discriminate.
  destruct (to_syms t (rev prs)) as [[syms extra]| | |] eqn:Es; cbn [bind]; try discriminate.
  destruct (finish_cleaned lo _) as [norm| | |]; cbn [bind]; try discriminate.
  intros [= <-]. cbn [p_syms p_bits].
  destruct (data_loop_sound _ _ _ _ _ _ _ Ed) as [m [E1 [E2 E3]]]. destruct (to_syms_sound _ _ _ _ Es) as [F1 F2].
  exists (lo_code st ++ lo_half st), m, extra. split; [exact E2|]. split; [rewrite F1, E3; reflexivity|]. split; [exact F2|reflexivity].
Qed.
