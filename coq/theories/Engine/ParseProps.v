(* Stage lemmas about the CodeWrapper model: each stage of parseH on a (perturbed) rendered frame. *)
From Coq Require Import ZArith List Bool Lia ZifyBool.
Require Import PyIR.Base.Result PyIR.IW.IW PyIR.Engine.Match PyIR.Engine.Render PyIR.Engine.RenderProps PyIR.Engine.Parse.
Import ListNotations.
Open Scope Z_scope.

Definition sym (t : ptable) (i : nat) : list Z := match nth_error t i with Some (m, s) => [m; s] | None => [] end.
Definition render_data (t : ptable) (syms : list nat) : list Z := flat_map (sym t) syms.

Definition std_table (t : ptable) : Prop := Forall (fun p => 0 < fst p /\ snd p < 0) t.

Record wf_table (tol : Z) (t : ptable) : Prop := {
  wt_std : std_table t;
  wt_sep : sep tol (vals t);
  wt_nodup : NoDup t
}.

Lemma vals_nz t : std_table t -> Forall (fun e => e <> 0) (vals t).
Proof.
  intros H. unfold vals, std_table in *. rewrite Forall_forall in *. intros x Hx.
  apply in_flat_map in Hx as [p [Hp Hx]]. specialize (H p Hp). cbn in Hx. destruct Hx as [<-|[<-|[]]]; lia.
Qed.
Lemma in_vals_fst t p : In p t -> In (fst p) (vals t).
Proof. intros. unfold vals. apply in_flat_map. exists p. split; auto. left; auto. Qed.
Lemma in_vals_snd t p : In p t -> In (snd p) (vals t).
Proof. intros. unfold vals. apply in_flat_map. exists p. split; auto. right; left; auto. Qed.

Lemma find_none_intro {A} (f : A -> bool) l : (forall x, In x l -> f x = false) -> find f l = None.
Proof.
  induction l as [|a l IH]; intros H; [reflexivity|]. cbn [find]. rewrite (H a (or_introl eq_refl)).
  apply IH. intros x Hx. apply H. right. exact Hx.
Qed.

Lemma F2_length {A B} (R : A -> B -> Prop) l l' : Forall2 R l l' -> length l = length l'.
Proof. induction 1; cbn; congruence. Qed.

(* ------------------------------------------------------------------ lead-in: every element matches directly *)
Lemma lead_in_loop_ok tol t li : 0 <= tol <= 100 -> nonzero li -> forall ds rest c,
  Forall2 (close tol) ds li -> lead_in_loop tol t li (ds ++ rest) c = Ok (rest, c ++ li).
Proof.
  intros Ht. induction li as [|e li IH]; intros Hnz ds rest c Hc.
  - inversion Hc; subst. cbn. rewrite app_nil_r. reflexivity.
  - inversion Hc as [|d ? ds' ? Hd Hc']; subst. inversion Hnz as [|? ? He Hnz']; subst.
    cbn [app lead_in_loop]. rewrite (close_match tol d e Ht He Hd).
    rewrite IH by assumption. rewrite <- app_assoc. reflexivity.
Qed.

(* ------------------------------------------------------------------ list.pop at the lead-out position *)
Lemma remove_at_app {A} (a : list A) x b : remove_at (length a) (a ++ x :: b) = a ++ b.
Proof. induction a as [|y a IH]; [reflexivity|]. cbn [length app remove_at]. rewrite IH. reflexivity. Qed.

Lemma py_pop_at a x b : py_pop (a ++ x :: b) (Z.of_nat (length (a ++ x :: b)) - (Z.of_nat (length b) + 1)) = Some (x, a ++ b).
Proof.
  unfold py_pop. rewrite app_length. cbn [length].
  set (n := Z.of_nat (length a + S (length b))).
  replace (n - (Z.of_nat (length b) + 1)) with (Z.of_nat (length a)) by lia.
  destruct (Z.of_nat (length a) <? 0) eqn:E1; [lia|].
  destruct ((Z.of_nat (length a) <? 0) || (n <=? Z.of_nat (length a))) eqn:E2; [lia|].
  rewrite Nat2Z.id. rewrite nth_error_app2 by lia. rewrite Nat.sub_diag. cbn [nth_error].
  rewrite remove_at_app. reflexivity.
Qed.

(* lead-out elements that match directly are stripped one by one *)
Lemma lead_out_loop_direct tol tt t L : 0 <= tol <= 100 -> forall lo ds i pre clo half,
  Forall2 (close tol) ds lo -> nonzero lo -> Forall (fun e => e <> PLACEHOLDER) lo ->
  forall rest lo_rest, Z.of_nat (length lo) + Z.of_nat (length rest) = L - i ->
  lead_out_loop tol tt t L i (lo ++ lo_rest) {| lo_code := pre ++ ds ++ rest; lo_clean := clo; lo_half := half |}
  = lead_out_loop tol tt t L (i + Z.of_nat (length lo)) lo_rest
      {| lo_code := pre ++ rest; lo_clean := clo ++ map Some lo; lo_half := half |}.
Proof.
  intros Ht. induction lo as [|e lo IH]; intros ds i pre clo half Hc Hnz Hph rest lo_rest Hlen.
  - inversion Hc; subst. cbn. rewrite Z.add_0_r, app_nil_r. reflexivity.
  - inversion Hc as [|d ? ds' ? Hd Hc']; subst. inversion Hnz as [|? ? He Hnz']; subst.
    inversion Hph as [|? ? Hp Hph']; subst.
    cbn [app lead_out_loop]. destruct (e =? PLACEHOLDER) eqn:Ep; [lia|].
    unfold lead_out_step. cbn [lo_code lo_clean lo_half].
    pose proof (F2_length _ _ _ Hc') as Hl.
    assert (Z.of_nat (length (pre ++ d :: ds' ++ rest)) - (L - i)
            = Z.of_nat (length (pre ++ d :: ds' ++ rest)) - (Z.of_nat (length (ds' ++ rest)) + 1)) as ->.
    { rewrite !app_length. cbn [length] in *. rewrite app_length. lia. }
    rewrite py_pop_at. rewrite (close_match tol d e Ht He Hd). cbn [bind].
    rewrite (IH ds' (i + 1) pre (clo ++ [Some e]) half Hc' Hnz' Hph' rest lo_rest) by (cbn [length] in Hlen; lia).
    cbn [length map]. rewrite <- app_assoc. cbn [app].
    replace (i + 1 + Z.of_nat (length lo)) with (i + Z.of_nat (S (length lo))) by lia. reflexivity.
Qed.

(* the frame-period element: the measured last space g is accepted through the total-time test *)
Lemma lead_out_step_period tol tt t L i P g pre clo half :
  0 <= tol <= 100 -> std_table t -> 0 < P -> g < 0 -> tt + Z.abs g = P -> i + 1 = L -> P <> PLACEHOLDER ->
  lead_out_loop tol tt t L i [P] {| lo_code := pre ++ [g]; lo_clean := clo; lo_half := half |}
  = Ok {| lo_code := pre; lo_clean := clo ++ [None]; lo_half := half |}.
Proof.
  intros Ht Hstd HP Hg Htt Hi Hph. cbn [lead_out_loop]. destruct (P =? PLACEHOLDER) eqn:Ep; [lia|].
  unfold lead_out_step. cbn [lo_code lo_clean lo_half].
  assert (Z.of_nat (length (pre ++ [g])) - (L - i) = Z.of_nat (length (pre ++ [g])) - (Z.of_nat (length (@nil Z)) + 1)) as ->
    by (cbn [length]; lia).
  rewrite py_pop_at. rewrite app_nil_r.
  assert (matchb tol g P = false) as -> by (unfold matchb; replace (g <? 0) with true by lia; replace (0 <? P) with true by lia; reflexivity).
  assert (find (fun s => ((L mod 2 =? 0) && (i =? 0) && matchb tol (g - s) P)
                         || ((i + 1 =? L) && (s <? 0) && matchb tol (g + s) P)) (map snd t) = None) as ->.
  { apply find_none_intro. intros s Hs. apply in_map_iff in Hs as [p [<- Hp]].
    unfold std_table in Hstd. rewrite Forall_forall in Hstd. destruct (Hstd p Hp) as [Hm Hsp].
    assert (matchb tol (g + snd p) P = false) as ->
      by (unfold matchb; replace (g + snd p <? 0) with true by lia; replace (0 <? P) with true by lia; reflexivity).
    rewrite andb_false_r, orb_false_r.
    (* first alternative: needs i = 0 and an even lead-out length; with i + 1 = L that is L = 1, odd *)
    destruct (i =? 0) eqn:E0; [|rewrite andb_false_r; reflexivity].
    assert (i = 0) by lia. subst i. subst L. reflexivity. }
  rewrite Htt. rewrite match_exact by exact Ht. replace (i + 1 =? L) with true by lia. cbn [andb bind]. reflexivity.
Qed.

(* ------------------------------------------------------------------ the data loop on a rendered, perturbed data section *)
Lemma data_loop_render tol t : 0 <= tol <= 100 -> wf_table tol t ->
  forall syms ds done cl,
  Forall (fun i => (i < length t)%nat) syms ->
  Forall (fun p => length p = 2%nat) done ->
  Forall2 (close tol) ds (render_data t syms) ->
  forall tail, data_loop tol t done cl (ds ++ tail)
  = data_loop tol t (rev (map (sym t) syms) ++ done) (rev (render_data t syms) ++ cl) tail.
Proof.
  intros Ht Hwf. pose proof (vals_nz _ (wt_std _ _ Hwf)) as Hnz. destruct Hwf as [Hpol Hsep Hnd].
  induction syms as [|i syms IH]; intros ds done cl Hi Hdone Hc tail.
  - cbn in Hc. inversion Hc; subst. reflexivity.
  - inversion Hi as [|? ? Hlt Hi']; subst.
    unfold render_data in Hc. cbn [flat_map] in Hc. unfold sym at 1 in Hc.
    destruct (nth_error t i) as [[m s]|] eqn:E; [|apply nth_error_None in E; lia].
    pose proof (nth_error_In _ _ E) as Hin.
    cbn [app] in Hc. inversion Hc as [|d1 ? r1 ? Hc1 Hc']; subst. inversion Hc' as [|d2 ? r2 ? Hc2 Hc'']; subst.
    rewrite Forall_forall in Hnz.
    cbn [app data_loop].
    rewrite (first_match_close tol (vals t) d1 m); auto;
      [| apply Hnz; apply (in_vals_fst t (m, s)); auto | apply (in_vals_fst t (m, s)); auto].
    assert (push done m = [m] :: done) as ->.
    { destruct done as [|p r]; [reflexivity|]. inversion Hdone; subst. destruct p as [|a [|b [|c q]]]; cbn in *; try lia; reflexivity. }
    rewrite (first_match_close tol (vals t) d2 s); auto;
      [| apply Hnz; apply (in_vals_snd t (m, s)); auto | apply (in_vals_snd t (m, s)); auto].
    cbn [push].
    rewrite (IH r2 ([m; s] :: done) (s :: m :: cl)); auto.
    unfold render_data. cbn [map rev flat_map]. replace (sym t i) with [m; s] by (unfold sym; rewrite E; reflexivity).
    fold (render_data t syms). rewrite rev_app_distr. cbn [rev app]. rewrite <- !app_assoc. reflexivity.
Qed.

(* one more mark after complete pairs opens a single pair *)
Lemma data_loop_last_mark tol t : 0 <= tol <= 100 -> wf_table tol t ->
  forall d m s done cl, In (m, s) t -> Forall (fun p => length p = 2%nat) done -> close tol d m ->
  data_loop tol t done cl [d] = Ok ([m] :: done, m :: cl).
Proof.
  intros Ht Hwf d m s done cl Hin Hdone Hc.
  pose proof (vals_nz _ (wt_std _ _ Hwf)) as Hnz. rewrite Forall_forall in Hnz.
  cbn [data_loop].
  rewrite (first_match_close tol (vals t) d m); auto;
    [| apply Hnz; apply (in_vals_fst t (m, s)); auto | apply (in_vals_fst t (m, s)); auto | apply Hwf].
  assert (push done m = [m] :: done) as ->.
  { destruct done as [|p r]; [reflexivity|]. inversion Hdone; subst. destruct p as [|a [|b [|c q]]]; cbn in *; try lia; reflexivity. }
  reflexivity.
Qed.

(* ------------------------------------------------------------------ symbol lookup *)
Lemma index_of_nth t : NoDup t -> forall i p k, nth_error t i = Some p -> index_of t p k = Some (k + i)%nat.
Proof.
  induction t as [|q t IH]; intros Hnd i p k E; [destruct i; discriminate|].
  inversion Hnd as [|? ? Hnotin Hnd']; subst. destruct i; cbn in E.
  - inversion E; subst. cbn. unfold pair_eqb. rewrite !Z.eqb_refl. cbn. f_equal. lia.
  - cbn. destruct (pair_eqb q p) eqn:Q.
    + exfalso. unfold pair_eqb in Q. apply andb_true_iff in Q as [Q1 Q2]. apply Z.eqb_eq in Q1, Q2.
      assert (q = p) by (destruct q, p; cbn in *; congruence). subst. apply Hnotin. eapply nth_error_In; eauto.
    + rewrite (IH Hnd' i p (S k) E). f_equal. lia.
Qed.

Lemma to_syms_map t : NoDup t -> forall syms, Forall (fun i => (i < length t)%nat) syms ->
  to_syms t (map (sym t) syms) = Ok (syms, []).
Proof.
  intros Hnd. induction syms as [|i syms IH]; intros Hi; [reflexivity|].
  inversion Hi; subst. cbn [map]. unfold sym at 1.
  destruct (nth_error t i) as [[m s]|] eqn:E; [|apply nth_error_None in E; lia].
  cbn [to_syms]. rewrite (index_of_nth t Hnd i (m, s) 0%nat E). rewrite IH by auto. reflexivity.
Qed.

(* a trailing single mark is completed from the first entry with that mark: needs pairwise distinct marks *)
Lemma find_mark (t : ptable) : NoDup (map fst t) -> forall i m s, nth_error t i = Some (m, s) ->
  find (fun p => fst p =? m) t = Some (m, s).
Proof.
  induction t as [|q t IH]; intros Hnd i m s E; [destruct i; discriminate|].
  cbn [map] in Hnd. inversion Hnd as [|? ? Hnotin Hnd']; subst. destruct i; cbn in E.
  - inversion E; subst. cbn. rewrite Z.eqb_refl. reflexivity.
  - cbn [find]. destruct (fst q =? m) eqn:Q.
    + exfalso. apply Hnotin. apply Z.eqb_eq in Q. rewrite Q.
      apply in_map_iff. exists (m, s). split; [reflexivity|]. eapply nth_error_In; eauto.
    + eapply IH; eauto.
Qed.

Lemma to_syms_map_single (t : ptable) : NoDup t -> NoDup (map fst t) -> forall syms i m s,
  Forall (fun i => (i < length t)%nat) syms -> nth_error t i = Some (m, s) ->
  to_syms t (map (sym t) syms ++ [[m]]) = Ok (syms ++ [i], [s]).
Proof.
  intros Hnd Hndm. induction syms as [|j syms IH]; intros i m s Hi E.
  - cbn [map app to_syms]. rewrite (find_mark t Hndm i m s E). cbn [snd].
    rewrite (index_of_nth t Hnd i (m, s) 0%nat E). reflexivity.
  - inversion Hi; subst. cbn [map app]. unfold sym at 1.
    destruct (nth_error t j) as [[m' s']|] eqn:E'; [|apply nth_error_None in E'; lia].
    cbn [to_syms]. rewrite (index_of_nth t Hnd j (m', s') 0%nat E'). rewrite (IH i m s) by auto. reflexivity.
Qed.

(* ------------------------------------------------------------------ normalised code *)
Lemma has_none_inner_somes l : has_none_inner (map Some l) = false.
Proof. induction l as [|a [|b l] IH]; try reflexivity. cbn [map has_none_inner] in *. exact IH. Qed.
Lemma has_none_inner_somes_none l : has_none_inner (map Some l ++ [None]) = false.
Proof.
  induction l as [|a l IH]; [reflexivity|]. cbn [map app]. destruct l as [|b l]; [reflexivity|].
  cbn [map app has_none_inner] in *. exact IH.
Qed.
Lemma somes_map l : somes (map Some l) = l.
Proof. induction l as [|a l IH]; [reflexivity|]. cbn. rewrite IH. reflexivity. Qed.

Lemma finish_cleaned_somes lo body : body <> [] -> finish_cleaned lo (map Some body) = Ok (compress body).
Proof.
  intros Hne. unfold finish_cleaned.
  destruct (map Some body) as [|o0 l0] eqn:E; [destruct body; [contradiction|discriminate]|]. rewrite <- E. clear E o0 l0.
  rewrite has_none_inner_somes.
  assert (exists y, last (map Some body) (Some 0) = Some y) as [y ->].
  { clear. induction body as [|x [|z q] IH]; cbn [map last] in *; eauto. }
  rewrite somes_map. reflexivity.
Qed.

Lemma finish_cleaned_period lo P body : last_opt lo = Some P ->
  finish_cleaned lo (map Some body ++ [None]) = Ok (compress (body ++ [- P + sum_abs body])).
Proof.
  intros Hl. unfold finish_cleaned.
  destruct (map Some body ++ [None]) as [|o0 l0] eqn:E; [destruct body; discriminate|]. rewrite <- E. clear E o0 l0.
  rewrite has_none_inner_somes_none. rewrite last_last. rewrite List.removelast_last, somes_map, Hl. reflexivity.
Qed.

(* ------------------------------------------------------------------ rejection: a burst outside every window *)
Lemma data_loop_far tol t : forall ds1 v ds2 done cl,
  far tol v (vals t) -> data_loop tol t done cl (ds1 ++ v :: ds2) = IRErr IRStreamError \/
  (exists k, (k < length ds1)%nat /\ data_loop tol t done cl (ds1 ++ v :: ds2) = IRErr IRStreamError).
Proof.
  intros ds1 v ds2 done cl Hf. left. revert done cl. induction ds1 as [|d ds1 IH]; intros done cl.
  - cbn [app data_loop]. rewrite (far_first_match _ _ _ Hf). reflexivity.
  - cbn [app data_loop]. destruct (first_match tol d (vals t)) as [e|]; [apply IH|reflexivity].
Qed.

Lemma data_loop_far_err tol t ds1 v ds2 done cl :
  far tol v (vals t) -> data_loop tol t done cl (ds1 ++ v :: ds2) = IRErr IRStreamError.
Proof. intros Hf. destruct (data_loop_far tol t ds1 v ds2 done cl Hf) as [H|[k [_ H]]]; exact H. Qed.

(* ------------------------------------------------------------------ soundness of the data section *)
(* whatever the input: when the data loop and the symbol lookup succeed, every measured duration lies in the
   tolerance window of the nominal duration it was read as, and re-rendering the reported symbols gives exactly
   those nominal durations *)
Lemma push_flat pairs e : concat (rev (push pairs e)) = concat (rev pairs) ++ [e].
Proof.
  destruct pairs as [|p r]; [reflexivity|]. destruct p as [|x [|y q]]; cbn [push rev concat app];
    rewrite ?concat_app; cbn [concat app]; rewrite ?app_nil_r, <- ?app_assoc; reflexivity.
Qed.

Lemma data_loop_sound tol t : forall ds pairs cl pairs' cl',
  data_loop tol t pairs cl ds = Ok (pairs', cl') ->
  exists matched, cl' = rev matched ++ cl /\ Forall2 (fun d e => matchb tol d e = true /\ In e (vals t)) ds matched /\
                  concat (rev pairs') = concat (rev pairs) ++ matched.
Proof.
  induction ds as [|d ds IH]; intros pairs cl pairs' cl' H; cbn [data_loop] in H.
  - injection H as <- <-. exists []. rewrite app_nil_r. repeat split; constructor.
  - destruct (first_match tol d (vals t)) as [e|] eqn:E; [|discriminate].
    destruct (IH _ _ _ _ H) as [m [E1 [E2 E3]]]. exists (e :: m). cbn [rev]. rewrite <- app_assoc. cbn [app].
    split; [exact E1|]. destruct (first_match_in _ _ _ _ E) as [Hin Hm].
    split; [constructor; [split; assumption|exact E2]|]. rewrite E3, push_flat, <- app_assoc. reflexivity.
Qed.

Lemma index_of_sound t p : forall k i, index_of t p k = Some i -> exists j, i = (k + j)%nat /\ nth_error t j = Some p.
Proof.
  induction t as [|q t IH]; intros k i H; [discriminate|]. cbn [index_of] in H.
  destruct (pair_eqb q p) eqn:Q.
  - injection H as <-. exists 0%nat. split; [lia|]. unfold pair_eqb in Q. apply andb_true_iff in Q as [Q1 Q2].
    apply Z.eqb_eq in Q1, Q2. destruct q, p; cbn in *; subst. reflexivity.
  - destruct (IH _ _ H) as [j [E1 E2]]. exists (S j). split; [lia|exact E2].
Qed.

Lemma to_syms_sound t : forall pairs syms extra, to_syms t pairs = Ok (syms, extra) ->
  render_data t syms = concat pairs ++ extra /\ Forall (fun i => (i < length t)%nat) syms.
Proof.
  induction pairs as [|p pairs IH]; intros syms extra H; cbn [to_syms] in H.
  - injection H as <- <-. split; [reflexivity|constructor].
  - destruct p as [|m [|s [|x q]]]; try discriminate.
    + destruct pairs; [|discriminate].
      destruct (find (fun p => fst p =? m) t) as [p|] eqn:Ef; [|discriminate].
      destruct (index_of t (m, snd p) 0) as [i|] eqn:Ei; [|discriminate]. injection H as <- <-.
      destruct (index_of_sound _ _ _ _ Ei) as [j [-> Ej]]. cbn [Nat.add].
      split; [unfold render_data; cbn [flat_map]; unfold sym; rewrite Ej; reflexivity|].
      constructor; [apply nth_error_Some; congruence|constructor].
    + destruct (index_of t (m, s) 0) as [i|] eqn:Ei; [|discriminate].
      destruct (to_syms t pairs) as [[l ex]| | |] eqn:Er; cbn [bind] in H; try discriminate. injection H as <- <-.
      destruct (IH _ _ eq_refl) as [E1 E2]. destruct (index_of_sound _ _ _ _ Ei) as [j [-> Ej]]. cbn [Nat.add].
      split; [unfold render_data in *; cbn [flat_map concat]; unfold sym at 1; rewrite Ej, E1, <- app_assoc; reflexivity|].
      constructor; [apply nth_error_Some; congruence|exact E2].
Qed.
