(* Decoder core, "halfbit" branch WITH middle timings given as (mark, space) tuples (code_wrapper.py 570-676): the form
   Audiovox, Digivision, Dyson2, Elan, GuangZhou, Proton, Proton40, Samsung36, SamsungSMTG, Sharp and Whynter declare - one
   (or two) fixed mark/space pairs that the encoder puts between two bit fields.  Inside the data loop, for every burst and
   for every (mark, space) entry of the symbol table in turn, the source first calls _check_middles() (once a pair has been
   started) and only then compares the burst with the entry; _check_middles runs _check_timing for every tuple still in
   middle_timings.  The seven clauses of _check_timing are modelled in their order, with Python's short-circuit evaluation:
   an index that does not exist (code[i + 1] after the last burst, cleaned_code[-1] on an empty list) is an IndexError, which
   the enclosing try turns into IRStreamError.  Everything around the data loop is the code shared with the other
   branches (Engine/Parse.v). *)
From Coq Require Import ZArith List Bool Lia ZifyBool.
Require Import PyIR.Base.Result PyIR.IW.IW PyIR.Engine.Match PyIR.Engine.Render PyIR.Engine.Parse PyIR.Engine.ParseM.
Import ListNotations.
Open Scope Z_scope.

(* pairs and cleaned_code newest first; mids = the tuples still in middle_timings *)
Record ht_state := { ht_pairs : list (list Z); ht_clean : list Z; ht_mids : list (Z * Z) }.

Inductive mid_res := MidHit (st : ht_state) | MidMiss | MidIdx.

Definition last_len (pairs : list (list Z)) : nat := match pairs with p :: _ => length p | [] => O end.

(* pairs[-1].append(x) *)
Definition app_last (pairs : list (list Z)) (x : Z) : list (list Z) :=
  match pairs with p :: r => (p ++ [x]) :: r | [] => [] end.

(* list.remove(x): the first equal element *)
Fixpoint remove_first (x : Z * Z) (l : list (Z * Z)) : list (Z * Z) :=
  match l with
  | [] => []
  | y :: r => if pair_eqb y x then r else y :: remove_first x r
  end.

(* _check_timing (lines 574-628) for the tuple (m, s) while the table loop is at (mark, space); d = burst,
   next = code[i + 1] if it exists *)
Definition check_timing (tol mark space m s d : Z) (next : option Z) (st : ht_state) : mid_res :=
  let pairs := ht_pairs st in
  let cl := ht_clean st in
  let mids := ht_mids st in
  let upd p c ms := MidHit {| ht_pairs := p; ht_clean := c; ht_mids := ms |} in
  (* clauses 5-7 read cleaned_code[-1] first *)
  let tail567 :=
    match cl with
    | [] => MidIdx
    | c :: _ =>
        if (c =? space) && matchb tol d m then upd ([m] :: pairs) (m :: cl) mids
        else if (c =? s) && matchb tol d m then upd ([m] :: pairs) (m :: cl) mids
        else if (c =? m) && matchb tol d s then upd (app_last pairs s) (s :: cl) mids
        else MidMiss
    end in
  let clause4 :=
    if matchb tol d (s + mark) then
      match cl with
      | [] => MidIdx
      | c :: _ => if matchb tol c m && (last_len pairs =? 2)%nat then upd ([mark] :: pairs) (mark :: s :: cl) mids
                  else tail567
      end
    else tail567 in
  let clause3 :=
    if matchb tol d (m + space) then
      match next with
      | None => MidIdx
      | Some n => if matchb tol n s && (last_len pairs =? 1)%nat then upd (app_last pairs space) (m :: space :: cl) mids
                  else clause4
      end
    else clause4 in
  let clause2 :=
    if matchb tol d s then
      match cl with
      | [] => MidIdx
      | c :: _ => if matchb tol c m && (last_len pairs =? 2)%nat then upd pairs (s :: cl) (remove_first (m, s) mids)
                  else clause3
      end
    else clause3 in
  if matchb tol d m then
    match next with
    | None => MidIdx
    | Some n => if matchb tol n s then upd pairs (m :: cl) mids else clause2
    end
  else clause2.

(* _check_middles (lines 630-654) when every entry is a tuple *)
Fixpoint check_middles (tol mark space : Z) (iter : list (Z * Z)) (d : Z) (next : option Z) (st : ht_state) : mid_res :=
  match iter with
  | [] => MidMiss
  | (m, s) :: r =>
      match check_timing tol mark space m s d next st with
      | MidMiss => check_middles tol mark space r d next st
      | x => x
      end
  end.

Definition ht_push (st : ht_state) (e : Z) : ht_state :=
  {| ht_pairs := push (ht_pairs st) e; ht_clean := e :: ht_clean st; ht_mids := ht_mids st |}.

(* one burst: the loop over the symbol table (lines 656-676) *)
Fixpoint table_loop (tol : Z) (iter : ptable) (d : Z) (next : option Z) (st : ht_state) : result ht_state :=
  match iter with
  | [] => IRErr IRStreamError
  | (mark, space) :: r =>
      match (match ht_pairs st with [] => MidMiss | _ => check_middles tol mark space (ht_mids st) d next st end) with
      | MidIdx => IRErr IRStreamError
      | MidHit st' => Ok st'
      | MidMiss =>
          if matchb tol d mark then Ok (ht_push st mark)
          else if matchb tol d space then Ok (ht_push st space)
          else table_loop tol r d next st
      end
  end.

Fixpoint data_loopT (tol : Z) (t : ptable) (st : ht_state) (ds : list Z) : result ht_state :=
  match ds with
  | [] => Ok st
  | d :: r => do st' <- table_loop tol t d (hd_error r) st; data_loopT tol t st' r
  end.

(* CodeWrapper(encoding, lead_in, lead_out, mids, bursts, tolerance, code) for a halfbit pair table and tuple middle timings *)
Definition parseHT (tol : Z) (lead_in lead_out : list Z) (mids : list (Z * Z)) (t : ptable) (code : list Z) : result parsed :=
  if negb (period_precheck tol lead_out code) then IRErr LeadOutError else
  let tt := total_time code in
  do (code1, cleaned1) <- lead_in_loop tol t lead_in code [];
  do st <- lead_out_loop tol tt t (Z.of_nat (length lead_out)) 0 lead_out
             {| lo_code := code1; lo_clean := []; lo_half := [] |};
  do fin <- data_loopT tol t {| ht_pairs := []; ht_clean := rev cleaned1; ht_mids := mids |} (lo_code st ++ lo_half st);
  do (syms, extra) <- to_syms t (rev (ht_pairs fin));
  let cleaned := map Some (rev (ht_clean fin) ++ extra) ++ lo_clean st in
  do norm <- finish_cleaned lead_out cleaned;
  Ok {| p_bits := flat_map (sym_to_bits (length t)) syms; p_norm := norm; p_syms := syms |}.

Definition run_parseHT (c : Z * list Z * list Z * list (Z * Z) * list (Z * Z) * list Z) : list Z :=
  let '(tol, li, lo, mids, t, code) := c in
  enc_result (fun p => Z.of_nat (length (p_bits p)) :: map (fun x : bool => if x then 1 else 0) (p_bits p) ++ p_norm p)
             (parseHT tol li lo mids t code).
