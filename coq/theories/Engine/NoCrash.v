(* C08 at the engine: CodeWrapper (pair tables, no middle timings) never leaks a Python exception, whatever the input.
   The faithful model has exactly two places where Python would raise something else than an IR error, both in the
   normalised-code computation (code_wrapper.py 730-745): a comparison with None when a None sits in the middle of
   cleaned_code, and lead_out[-1] on an empty lead-out.  A None is produced only by the "matched by frame period" branch
   of the lead-out loop, which (after the repair of the X10n defect) is taken for the last lead-out element only. *)
From Coq Require Import ZArith List Bool Lia ZifyBool.
Require Import PyIR.Base.Result PyIR.IW.IW PyIR.Engine.Match PyIR.Engine.Render PyIR.Engine.Parse.
Import ListNotations.
Open Scope Z_scope.

Definition is_some (o : option Z) : bool := match o with Some _ => true | None => false end.
Definition all_some (l : list (option Z)) : bool := forallb is_some l.

Lemma has_none_inner_spec l : has_none_inner l = negb (all_some (removelast l)).
Proof.
  induction l as [|a l IH]; [reflexivity|]. destruct l as [|b l]; [destruct a; reflexivity|].
  change (removelast (a :: b :: l)) with (a :: removelast (b :: l)).
  destruct a as [x|]; [|reflexivity]. cbn [has_none_inner all_some forallb is_some andb]. exact IH.
Qed.

Lemma all_some_app a b : all_some (a ++ b) = all_some a && all_some b.
Proof. apply forallb_app. Qed.
Lemma all_some_map_some l : all_some (map Some l) = true.
Proof. induction l; [reflexivity|exact IHl]. Qed.
Lemma removelast_snoc {A} (l : list A) x : removelast (l ++ [x]) = l.
Proof. apply removelast_last. Qed.

(* ---- the lead-out loop: a None can only be appended by the step for index L-1 *)
Section LeadOut.
  Variables (tol tt : Z) (t : ptable) (L : Z).

  Lemma step_push i e st st' :
    lead_out_step tol tt t L i e st = Ok st' -> (i + 1 =? L) = false -> all_some (lo_clean st) = true ->
    all_some (lo_clean st') = true.
  Proof.
    unfold lead_out_step. intros H Hi Hs.
    destruct (py_pop (lo_code st) _) as [[b code']|]; [|discriminate].
    destruct (matchb tol b e).
    - injection H as <-. cbn [lo_clean]. rewrite all_some_app, Hs. reflexivity.
    - destruct (find _ (map snd t)) as [s|].
      + injection H as <-. cbn [lo_clean]. rewrite all_some_app, Hs. reflexivity.
      + rewrite Hi in H. cbn [andb] in H.
        destruct (lo_clean st) eqn:Ec; [|discriminate].
        destruct (find _ (map snd t)) as [s|]; [|discriminate].
        injection H as <-. reflexivity.
  Qed.

  Lemma step_last i e st st' :
    lead_out_step tol tt t L i e st = Ok st' -> all_some (lo_clean st) = true ->
    all_some (removelast (lo_clean st')) = true.
  Proof.
    unfold lead_out_step. intros H Hs.
    destruct (py_pop (lo_code st) _) as [[b code']|]; [|discriminate].
    destruct (matchb tol b e).
    - injection H as <-. cbn [lo_clean]. rewrite removelast_snoc. exact Hs.
    - destruct (find _ (map snd t)) as [s|].
      + injection H as <-. cbn [lo_clean]. rewrite removelast_snoc. exact Hs.
      + destruct (_ && matchb tol e _).
        * injection H as <-. cbn [lo_clean]. rewrite removelast_snoc. exact Hs.
        * destruct (lo_clean st) eqn:Ec; [|discriminate].
          destruct (find _ (map snd t)) as [s|]; [|discriminate].
          injection H as <-. reflexivity.
  Qed.

  Lemma all_some_removelast l : all_some l = true -> all_some (removelast l) = true.
  Proof.
    induction l as [|a l IH]; [reflexivity|]. destruct l as [|b l]; [reflexivity|].
    change (removelast (a :: b :: l)) with (a :: removelast (b :: l)).
    cbn [all_some forallb]. intros H. apply andb_true_iff in H as [H1 H2]. rewrite H1. apply IH. exact H2.
  Qed.

  Lemma loop_no_inner : forall lo i st st',
    lead_out_loop tol tt t L i lo st = Ok st' -> Z.of_nat (length lo) + i <= L -> 0 <= i ->
    all_some (lo_clean st) = true -> all_some (removelast (lo_clean st')) = true.
  Proof.
    induction lo as [|e r IH]; intros i st st' H Hlen Hi Hs; cbn [lead_out_loop] in H.
    - injection H as <-. apply all_some_removelast, Hs.
    - destruct (e =? PLACEHOLDER).
      + injection H as <-. apply all_some_removelast, Hs.
      + destruct (lead_out_step tol tt t L i e st) as [st1| | |] eqn:Est; cbn [bind] in H; try discriminate.
        destruct r as [|e' r'].
        * cbn [lead_out_loop] in H. injection H as <-. eapply step_last; eauto.
        * assert ((i + 1 =? L) = false) as Hne by (cbn [length] in Hlen; lia).
          pose proof (step_push _ _ _ _ Est Hne Hs) as Hs1.
          eapply IH; [exact H| |lia|exact Hs1]. cbn [length] in *. lia.
  Qed.

  Lemma step_no_py i e st : is_pyerr (lead_out_step tol tt t L i e st) = false.
  Proof.
    unfold lead_out_step. destruct (py_pop _ _) as [[b c]|]; [|reflexivity].
    destruct (matchb tol b e); [reflexivity|]. destruct (find _ _); [reflexivity|].
    destruct (_ && matchb tol e _); [reflexivity|]. destruct (lo_clean st); [|reflexivity]. destruct (find _ _); reflexivity.
  Qed.
  Lemma loop_no_py : forall lo i st, is_pyerr (lead_out_loop tol tt t L i lo st) = false.
  Proof.
    induction lo as [|e r IH]; intros i st; cbn [lead_out_loop]; [reflexivity|].
    destruct (e =? PLACEHOLDER); [reflexivity|].
    pose proof (step_no_py i e st) as Hn. destruct (lead_out_step tol tt t L i e st); cbn [bind]; try reflexivity; [apply IH|discriminate].
  Qed.
End LeadOut.

Lemma lead_in_no_py tol t : forall li code cl, is_pyerr (lead_in_loop tol t li code cl) = false.
Proof.
  induction li as [|e r IH]; intros code cl; cbn [lead_in_loop]; [reflexivity|].
  destruct code as [|b c]; [reflexivity|]. destruct (matchb tol b e); [apply IH|]. destruct (find _ _); [apply IH|reflexivity].
Qed.
Lemma data_loop_no_py tol t : forall ds pairs cl, is_pyerr (data_loop tol t pairs cl ds) = false.
Proof.
  induction ds as [|d r IH]; intros pairs cl; cbn [data_loop]; [reflexivity|]. destruct (first_match tol d (vals t)); [apply IH|reflexivity].
Qed.
Lemma to_syms_no_py t : forall pairs, is_pyerr (to_syms t pairs) = false.
Proof.
  fix IH 1. intros [|p r]; [reflexivity|]. cbn [to_syms].
  destruct p as [|m [|s [|x p']]]; try reflexivity.
  - destruct r as [|q r']; [|reflexivity]. destruct (find _ t) as [p|]; [|reflexivity]. destruct (index_of t _ 0); reflexivity.
  - destruct (index_of t (m, s) 0); [|reflexivity]. pose proof (IH r) as H. destruct (to_syms t r) as [[l extra]| | |]; cbn [bind]; try reflexivity. discriminate.
Qed.

Lemma finish_no_py lead_out xs (l : list (option Z)) :
  all_some (removelast l) = true -> (lead_out = [] -> l = []) ->
  is_pyerr (finish_cleaned lead_out (map Some xs ++ l)) = false.
Proof.
  intros Hl Hlo. unfold finish_cleaned.
  destruct (map Some xs ++ l) eqn:E; [reflexivity|]. rewrite <- E.
  rewrite has_none_inner_spec.
  assert (all_some (removelast (map Some xs ++ l)) = true) as Ha.
  { destruct l as [|a l'].
    - rewrite app_nil_r. apply all_some_removelast. apply all_some_map_some.
    - rewrite removelast_app by discriminate. rewrite all_some_app, all_some_map_some. exact Hl. }
  rewrite Ha. cbn [negb].
  destruct (last (map Some xs ++ l) (Some 0)) eqn:El; [reflexivity|].
  destruct (last_opt lead_out) eqn:Elo; [reflexivity|]. exfalso.
  assert (lead_out = []) as Hnil.
  { destruct lead_out as [|a r]; [reflexivity|]. exfalso. unfold last_opt in Elo. cbn [rev] in Elo.
    destruct (rev r ++ [a]) eqn:Er; [|discriminate]. destruct (rev r); discriminate Er. }
  rewrite (Hlo Hnil), app_nil_r in El.
  clear -El. induction xs as [|x xs IH]; [discriminate El|].
  destruct xs as [|y ys]; [discriminate El|]. apply IH. exact El.
Qed.

Lemma loop_nil_clean tol tt t L i st st' : lead_out_loop tol tt t L i [] st = Ok st' -> lo_clean st' = lo_clean st.
Proof. cbn. intros H; injection H as <-. reflexivity. Qed.

(* for EVERY tolerance, tables and input list *)
Theorem parseH_no_pyerr tol li lo t code : is_pyerr (parseH tol li lo t code) = false.
Proof.
  unfold parseH. destruct (negb (period_precheck tol lo code)); [reflexivity|].
  pose proof (lead_in_no_py tol t li code []) as Hli.
  destruct (lead_in_loop tol t li code []) as [[code1 cl1]| | |] eqn:Eli; cbn [bind]; try reflexivity; [|discriminate].
  set (st0 := {| lo_code := code1; lo_clean := []; lo_half := [] |}).
  pose proof (loop_no_py tol (total_time code) t (Z.of_nat (length lo)) lo 0 st0) as Hlo.
  destruct (lead_out_loop tol (total_time code) t (Z.of_nat (length lo)) 0 lo st0) as [st| | |] eqn:Elo; cbn [bind]; try reflexivity; [|discriminate].
  pose proof (data_loop_no_py tol t (lo_code st ++ lo_half st) [] []) as Hd.
  destruct (data_loop tol t [] [] (lo_code st ++ lo_half st)) as [[pairs_rev cleaned_rev]| | |]; cbn [bind]; try reflexivity; [|discriminate].
  pose proof (to_syms_no_py t (rev pairs_rev)) as Hs.
  destruct (to_syms t (rev pairs_rev)) as [[syms extra]| | |]; cbn [bind]; try reflexivity; [|discriminate].
  assert (is_pyerr (finish_cleaned lo (map Some (cl1 ++ rev cleaned_rev ++ extra) ++ lo_clean st)) = false) as Hf.
  { apply finish_no_py.
    - eapply (loop_no_inner tol (total_time code) t _ lo 0); [exact Elo|lia|lia|reflexivity].
    - intros ->. apply loop_nil_clean in Elo. exact Elo. }
  destruct (finish_cleaned lo _); cbn [bind]; try reflexivity. discriminate.
Qed.

(* the input that used to leak TypeError through X10n's tables (lead-out mark matched "by period") is now rejected *)
Example x10n_regression : parseH 20 [] [11865; -3955] [(1130, -6780); (3955, -3955)] [3680; -3680; 460] = IRErr LeadOutError.
Proof. vm_compute. reflexivity. Qed.
