(* Theorems about the Manchester branch with tuple / integer middle timings (Engine/ParseMT.v):
   parseMT_no_pyerr - for every tolerance, tables, middle timings and input list the engine returns symbols or an IR error;
   parseMT_nil      - without middle timings the model is the Manchester model of Engine/ParseM.v (parseM). *)
From Coq Require Import ZArith List Bool Lia ZifyBool.
Require Import PyIR.Base.Result PyIR.IW.IW PyIR.Engine.Match PyIR.Engine.Render PyIR.Engine.RenderProps
               PyIR.Engine.Parse PyIR.Engine.ParseProps PyIR.Engine.NoCrash PyIR.Engine.ParseM PyIR.Engine.ParseMT.
Import ListNotations.
Open Scope Z_scope.

Lemma man_loopT_no_py tol m s : forall ds st, is_pyerr (man_loopT tol m s st ds) = false.
Proof.
  induction ds as [|b r IH]; intros st; cbn [man_loopT]; [reflexivity|].
  destruct (matchb tol b m); [apply IH|]. destruct (matchb tol b s); [apply IH|].
  destruct (mids_loop tol m s (mt_mids st) b (hd_error r) st); [apply IH|apply IH| |reflexivity].
  destruct (matchb tol b (m * 2)); [apply IH|]. destruct (matchb tol b (s * 2)); [apply IH|reflexivity].
Qed.

Theorem parseMT_no_pyerr tol li lo mids t code : is_pyerr (parseMT tol li lo mids t code) = false.
Proof.
  unfold parseMT. destruct t as [|[m s] t']; [reflexivity|]. set (t := (m, s) :: t') in *.
  destruct (negb (period_precheck tol lo code)); [reflexivity|].
  pose proof (lead_in_no_py tol t li code []) as Hli.
  destruct (lead_in_loop tol t li code []) as [[code1 cl1]| | |] eqn:Eli; cbn [bind]; try reflexivity; [|discriminate].
  set (st0 := {| lo_code := code1; lo_clean := []; lo_half := [] |}).
  pose proof (loop_no_py tol (total_time code) t (Z.of_nat (length lo)) lo 0 st0) as Hlo.
  destruct (lead_out_loop tol (total_time code) t (Z.of_nat (length lo)) 0 lo st0) as [st| | |] eqn:Elo; cbn [bind]; try reflexivity; [|discriminate].
  pose proof (man_loopT_no_py tol m s (lo_code st ++ lo_half st) {| mt_pairs := []; mt_clean := rev cl1; mt_mids := mids |}) as Hd.
  destruct (man_loopT tol m s _ (lo_code st ++ lo_half st)) as [fin| | |]; cbn [bind]; try reflexivity; [|discriminate].
  pose proof (to_syms_no_py t (group2 (rev (mt_pairs fin)))) as Hs.
  destruct (to_syms t (group2 (rev (mt_pairs fin)))) as [[syms extra]| | |]; cbn [bind]; try reflexivity; [|discriminate].
  assert (is_pyerr (finish_cleaned lo (map Some (rev (mt_clean fin) ++ extra) ++ lo_clean st)) = false) as Hf.
  { apply finish_no_py.
    - eapply (loop_no_inner tol (total_time code) t _ lo 0); [exact Elo|lia|lia|reflexivity].
    - intros ->. apply loop_nil_clean in Elo. exact Elo. }
  destruct (finish_cleaned lo _); cbn [bind]; try reflexivity. discriminate.
Qed.

(* ---- without middle timings: the Manchester loop of Engine/ParseM.v *)
Lemma man_loopT_nil_eq tol m s : forall ds pairs c0,
  man_loopT tol m s {| mt_pairs := pairs; mt_clean := pairs ++ c0; mt_mids := [] |} ds =
  match man_loop tol m s pairs ds with
  | Ok acc => Ok {| mt_pairs := acc; mt_clean := acc ++ c0; mt_mids := [] |}
  | IRErr e => IRErr e
  | PyErr e => PyErr e
  | EncErr => EncErr
  end.
Proof.
  induction ds as [|b r IH]; intros pairs c0; cbn [man_loopT man_loop mt_mids mids_loop]; [reflexivity|].
  unfold mt_push; cbn [mt_pairs mt_clean mt_mids app].
  destruct (matchb tol b m); [exact (IH (m :: pairs) c0)|].
  destruct (matchb tol b s); [exact (IH (s :: pairs) c0)|].
  destruct (matchb tol b (m * 2)); [exact (IH (m :: m :: pairs) c0)|].
  destruct (matchb tol b (s * 2)); [exact (IH (s :: s :: pairs) c0)|reflexivity].
Qed.

Theorem parseMT_nil tol li lo t code : parseMT tol li lo [] t code = parseM tol li lo t code.
Proof.
  unfold parseMT, parseM. destruct t as [|[m s] t']; [reflexivity|].
  destruct (negb (period_precheck tol lo code)); [reflexivity|].
  destruct (lead_in_loop tol _ li code []) as [[code1 cl1]| | |]; cbn [bind]; try reflexivity.
  destruct (lead_out_loop tol (total_time code) _ (Z.of_nat (length lo)) 0 lo _) as [st| | |]; cbn [bind]; try reflexivity.
  pose proof (man_loopT_nil_eq tol m s (lo_code st ++ lo_half st) [] (rev cl1)) as H. cbn [app] in H. rewrite H.
  destruct (man_loop tol m s [] (lo_code st ++ lo_half st)) as [acc| | |]; cbn [bind mt_pairs mt_clean]; try reflexivity.
  destruct (to_syms _ (group2 (rev acc))) as [[syms extra]| | |]; cbn [bind]; try reflexivity.
  rewrite rev_app_distr, rev_involutive, <- app_assoc. reflexivity.
Qed.

(* non-vacuity: RC5x's tables (the pause -3556 between the two halves of the frame arrives merged with the neighbouring halves),
   the frame encode(device=5, sub_device=9, function=17) emits *)
Example rc5x_frame_parses :
  let frame := [889; -889; 1778; -889; 889; -889; 889; -1778; 1778; -1778; 889; -3556; 889; -889; 889; -1778; 1778; -889; 889; -1778;
                1778; -1778; 1778; -889; 889; -889; 889; -1778; 889; -75773] in
  match parseMT 20 [889] [114000] [MInt (-3556)] [(889, -889); (-889, 889)] frame with
  | Ok p => p_bits p = [true; false; false; false; true; false; true; false; false; true; false; false; true; false; true; false; false; false; true]
            /\ p_norm p = frame
  | _ => False
  end.
Proof. vm_compute. split; reflexivity. Qed.

(* ---- what the loop writes into the normalised code: nominal durations only - the two halves of the first table entry and the
   declared middle durations, never a received duration *)
Definition mid_vals (x : mid) : list Z := match x with MTuple a b => [a; b] | MInt z => [z] end.
Definition nominalT (m s : Z) (mids : list mid) (x : Z) : Prop := x = m \/ x = s \/ In x (flat_map mid_vals mids).
Definition extendsT (m s : Z) (mids : list mid) (old new : list Z) : Prop :=
  exists added, new = added ++ old /\ Forall (nominalT m s mids) added.

Lemma extendsT_refl m s mids l : extendsT m s mids l l.
Proof. exists []. split; [reflexivity|constructor]. Qed.
Lemma extendsT_trans m s mids a b c : extendsT m s mids a b -> extendsT m s mids b c -> extendsT m s mids a c.
Proof.
  intros [x [-> Hx]] [y [-> Hy]]. exists (y ++ x). split; [rewrite app_assoc; reflexivity|apply Forall_app; split; assumption].
Qed.
Lemma extendsT_list m s mids l added : Forall (nominalT m s mids) added -> extendsT m s mids l (added ++ l).
Proof. intros H. exists added. split; [reflexivity|exact H]. Qed.

Lemma remove_mid_incl x l : incl (remove_mid x l) l.
Proof.
  induction l as [|y r IH]; [intros z Hz; exact Hz|]. cbn [remove_mid]. destruct (mid_eqb y x).
  - intros z Hz. right. exact Hz.
  - intros z [->|Hz]; [left; reflexivity|right; apply IH; exact Hz].
Qed.

Ltac nomT := first [ left; reflexivity | right; left; reflexivity | right; right; assumption ].
Ltac extT :=
  match goal with
  | |- extendsT _ _ _ ?old (?a :: ?old) => exists [a]
  | |- extendsT _ _ _ ?old (?a :: ?b :: ?old) => exists [a; b]
  | |- extendsT _ _ _ ?old (?a :: ?b :: ?c :: ?old) => exists [a; b; c]
  end; split; [reflexivity|repeat (constructor; [nomT|]); constructor].

Lemma tuple_step_clean tol m s tm ts b next st st' mids :
  In tm (flat_map mid_vals mids) -> In ts (flat_map mid_vals mids) ->
  tuple_step tol m s tm ts b next st = MtHit st' ->
  extendsT m s mids (mt_clean st) (mt_clean st') /\ incl (mt_mids st') (mt_mids st).
Proof.
  intros Htm Hts. unfold tuple_step. intros H.
  repeat match type of H with
         | (if ?c then _ else _) = _ => destruct c
         | match ?x with _ => _ end = _ => destruct x
         | MtHit _ = MtHit _ => injection H as <-; cbn [mt_clean mt_mids]
         | MtMiss = MtHit _ => discriminate H
         | MtIdx = MtHit _ => discriminate H
         | MtDrop = MtHit _ => discriminate H
         end;
  (split; [ extT | first [ apply incl_refl | apply remove_mid_incl ] ]).
Qed.

Lemma int_step_clean tol m s z b st st' mids :
  In z (flat_map mid_vals mids) ->
  int_step tol m s z b st = MtHit st' ->
  extendsT m s mids (mt_clean st) (mt_clean st') /\ incl (mt_mids st') (mt_mids st).
Proof.
  intros Hz. unfold int_step. intros H.
  repeat match type of H with
         | (if ?c then _ else _) = _ => destruct c
         | MtHit _ = MtHit _ => injection H as <-; cbn [mt_clean mt_mids]
         | MtMiss = MtHit _ => discriminate H
         end;
  (split; [ extT | apply remove_mid_incl ]).
Qed.

Lemma mids_loop_clean tol m s b next st mids : forall iter st', incl iter mids ->
  mids_loop tol m s iter b next st = MtHit st' ->
  extendsT m s mids (mt_clean st) (mt_clean st') /\ incl (mt_mids st') (mt_mids st).
Proof.
  induction iter as [|x r IH]; intros st' Hi H; cbn [mids_loop] in H; [discriminate|].
  assert (incl (mid_vals x) (flat_map mid_vals mids)) as Hx.
  { intros v Hv. apply in_flat_map. exists x. split; [apply Hi; left; reflexivity|exact Hv]. }
  destruct x as [tm ts|z].
  - destruct (tuple_step tol m s tm ts b next st) eqn:E; try discriminate.
    + injection H as <-. eapply tuple_step_clean; [apply Hx; left; reflexivity|apply Hx; right; left; reflexivity|exact E].
    + apply IH; [intros v Hv; apply Hi; right; exact Hv|exact H].
  - destruct (int_step tol m s z b st) eqn:E; try discriminate.
    + injection H as <-. eapply int_step_clean; [apply Hx; left; reflexivity|exact E].
    + apply IH; [intros v Hv; apply Hi; right; exact Hv|exact H].
Qed.

Theorem man_loopT_nominal tol m s mids : forall ds st st', incl (mt_mids st) mids ->
  man_loopT tol m s st ds = Ok st' -> extendsT m s mids (mt_clean st) (mt_clean st').
Proof.
  induction ds as [|b r IH]; intros st st' Hm H; cbn [man_loopT] in H.
  - injection H as <-. apply extendsT_refl.
  - assert (forall l, Forall (nominalT m s mids) l -> man_loopT tol m s (mt_push st l) r = Ok st' ->
                      extendsT m s mids (mt_clean st) (mt_clean st')) as Hpush.
    { intros l Hl Hr. eapply extendsT_trans; [apply (extendsT_list m s mids (mt_clean st) l Hl)|].
      apply (IH (mt_push st l) st'); [exact Hm|exact Hr]. }
    destruct (matchb tol b m); [apply (Hpush [m]); [repeat constructor; nomT|exact H]|].
    destruct (matchb tol b s); [apply (Hpush [s]); [repeat constructor; nomT|exact H]|].
    destruct (mids_loop tol m s (mt_mids st) b (hd_error r) st) as [st1| | |] eqn:E.
    + destruct (mids_loop_clean tol m s b (hd_error r) st mids (mt_mids st) st1 Hm E) as [H1 H2].
      eapply extendsT_trans; [exact H1|]. apply IH; [intros v Hv; apply Hm; apply H2; exact Hv|exact H].
    + apply IH; [exact Hm|exact H].
    + destruct (matchb tol b (m * 2)); [apply (Hpush [m; m]); [repeat constructor; nomT|exact H]|].
      destruct (matchb tol b (s * 2)); [apply (Hpush [s; s]); [repeat constructor; nomT|exact H]|discriminate].
    + discriminate.
Qed.
