(* Theorems about the Manchester branch with tuple / integer middle timings (Engine/ParseMT.v):
   parseMT_no_pyerr - for every tolerance, tables, middle timings and input list the engine returns symbols or an IR error;
   parseMT_nil      - without middle timings the model is the Manchester model of Engine/ParseM.v (parseM). *)
From Coq Require Import ZArith List Bool Lia ZifyBool.
Require Import PyIR.Base.Result PyIR.IW.IW PyIR.Engine.Match PyIR.Engine.Render PyIR.Engine.RenderProps
               PyIR.Engine.Parse PyIR.Engine.ParseProps PyIR.Engine.NoCrash PyIR.Engine.ParseM PyIR.Engine.ParseMT.
Import ListNotations.
Open Scope Z_scope.

Lemma man_loopT_no_py tol m s : forall ds st, is_pyerr (man_loopT tol m s st ds) = false.
Proof.
  induction ds as [|b r IH]; intros st; cbn [man_loopT]; [reflexivity|].
  destruct (matchb tol b m); [apply IH|]. destruct (matchb tol b s); [apply IH|].
  destruct (mids_loop tol m s (mt_mids st) b (hd_error r) st); [apply IH|apply IH| |reflexivity].
  destruct (matchb tol b (m * 2)); [apply IH|]. destruct (matchb tol b (s * 2)); [apply IH|reflexivity].
Qed.

Theorem parseMT_no_pyerr tol li lo mids t code : is_pyerr (parseMT tol li lo mids t code) = false.
Proof.
  unfold parseMT. destruct t as [|[m s] t']; [reflexivity|]. set (t := (m, s) :: t') in *.
  destruct (negb (period_precheck tol lo code)); [reflexivity|].
  pose proof (lead_in_no_py tol t li code []) as Hli.
  destruct (lead_in_loop tol t li code []) as [[code1 cl1]| | |] eqn:Eli; cbn [bind]; try reflexivity; [|discriminate].
  set (st0 := {| lo_code := code1; lo_clean := []; lo_half := [] |}).
  pose proof (loop_no_py tol (total_time code) t (Z.of_nat (length lo)) lo 0 st0) as Hlo.
  destruct (lead_out_loop tol (total_time code) t (Z.of_nat (length lo)) 0 lo st0) as [st| | |] eqn:Elo; cbn [bind]; try reflexivity; [|discriminate].
  pose proof (man_loopT_no_py tol m s (lo_code st ++ lo_half st) {| mt_pairs := []; mt_clean := rev cl1; mt_mids := mids |}) as Hd.
  destruct (man_loopT tol m s _ (lo_code st ++ lo_half st)) as [fin| | |]; cbn [bind]; try reflexivity; [|discriminate].
  pose proof (to_syms_no_py t (group2 (rev (mt_pairs fin)))) as Hs.
  destruct (to_syms t (group2 (rev (mt_pairs fin)))) as [[syms extra]| | |]; cbn [bind]; try reflexivity; [|discriminate].
  assert (is_pyerr (finish_cleaned lo (map Some (rev (mt_clean fin) ++ extra) ++ lo_clean st)) = false) as Hf.
  { apply finish_no_py.
    - eapply (loop_no_inner tol (total_time code) t _ lo 0); [exact Elo|lia|lia|reflexivity].
    - intros ->. apply loop_nil_clean in Elo. exact Elo. }
  destruct (finish_cleaned lo _); cbn [bind]; try reflexivity. discriminate.
Qed.

(* ---- without middle timings: the Manchester loop of Engine/ParseM.v *)
Lemma man_loopT_nil_eq tol m s : forall ds pairs c0,
  man_loopT tol m s {| mt_pairs := pairs; mt_clean := pairs ++ c0; mt_mids := [] |} ds =
  match man_loop tol m s pairs ds with
  | Ok acc => Ok {| mt_pairs := acc; mt_clean := acc ++ c0; mt_mids := [] |}
  | IRErr e => IRErr e
  | PyErr e => PyErr e
  | EncErr => EncErr
  end.
Proof.
  induction ds as [|b r IH]; intros pairs c0; cbn [man_loopT man_loop mt_mids mids_loop]; [reflexivity|].
  unfold mt_push; cbn [mt_pairs mt_clean mt_mids app].
  destruct (matchb tol b m); [exact (IH (m :: pairs) c0)|].
  destruct (matchb tol b s); [exact (IH (s :: pairs) c0)|].
  destruct (matchb tol b (m * 2)); [exact (IH (m :: m :: pairs) c0)|].
  destruct (matchb tol b (s * 2)); [exact (IH (s :: s :: pairs) c0)|reflexivity].
Qed.

Theorem parseMT_nil tol li lo t code : parseMT tol li lo [] t code = parseM tol li lo t code.
Proof.
  unfold parseMT, parseM. destruct t as [|[m s] t']; [reflexivity|].
  destruct (negb (period_precheck tol lo code)); [reflexivity|].
  destruct (lead_in_loop tol _ li code []) as [[code1 cl1]| | |]; cbn [bind]; try reflexivity.
  destruct (lead_out_loop tol (total_time code) _ (Z.of_nat (length lo)) 0 lo _) as [st| | |]; cbn [bind]; try reflexivity.
  pose proof (man_loopT_nil_eq tol m s (lo_code st ++ lo_half st) [] (rev cl1)) as H. cbn [app] in H. rewrite H.
  destruct (man_loop tol m s [] (lo_code st ++ lo_half st)) as [acc| | |]; cbn [bind mt_pairs mt_clean]; try reflexivity.
  destruct (to_syms _ (group2 (rev acc))) as [[syms extra]| | |]; cbn [bind]; try reflexivity.
  rewrite rev_app_distr, rev_involutive, <- app_assoc. reflexivity.
Qed.

(* non-vacuity: RC5x's tables (the pause -3556 between the two halves of the frame arrives merged with the neighbouring halves),
   the frame encode(device=5, sub_device=9, function=17) emits *)
Example rc5x_frame_parses :
  let frame := [889; -889; 1778; -889; 889; -889; 889; -1778; 1778; -1778; 889; -3556; 889; -889; 889; -1778; 1778; -889; 889; -1778;
                1778; -1778; 1778; -889; 889; -889; 889; -1778; 889; -75773] in
  match parseMT 20 [889] [114000] [MInt (-3556)] [(889, -889); (-889, 889)] frame with
  | Ok p => p_bits p = [true; false; false; false; true; false; true; false; false; true; false; false; true; false; true; false; false; false; true]
            /\ p_norm p = frame
  | _ => False
  end.
Proof. vm_compute. split; reflexivity. Qed.
