(* The engine theorem for pair tables: parsing a rendered frame — exact or with every duration
   independently perturbed by up to a quarter of the tolerance, the gap absorbing the difference where
   the frame period is fixed — returns exactly the rendered symbols, bits and normalised code.
   Unbounded in table size, number of symbols, lead-in/lead-out length and perturbation pattern. *)
From Coq Require Import ZArith List Bool Lia ZifyBool.
Require Import PyIR.Base.Result PyIR.IW.IW PyIR.Engine.Match PyIR.Engine.Render PyIR.Engine.RenderProps
               PyIR.Engine.Parse PyIR.Engine.ParseProps.
Import ListNotations.
Open Scope Z_scope.

Definition bits_of (t : ptable) (syms : list nat) : list bool := flat_map (sym_to_bits (length t)) syms.

Lemma Forall2_app_split {A B} (R : A -> B -> Prop) l a b : Forall2 R l (a ++ b) ->
  exists la lb, l = la ++ lb /\ Forall2 R la a /\ Forall2 R lb b.
Proof. intros H. apply Forall2_app_inv_r in H as [la [lb [H1 [H2 H3]]]]. exists la, lb. auto. Qed.

Lemma sum_abs_close_pos tol ds l : 0 <= tol <= 100 -> nonzero l -> Forall2 (close tol) ds l -> nonzero ds.
Proof.
  intros Ht Hnz H. induction H as [|d e ds l Hd H IH]; [constructor|]. inversion Hnz; subst.
  constructor; [|apply IH; assumption]. destruct (close_sign tol d e Ht ltac:(assumption) Hd). lia.
Qed.

(* ------------------------------------------------------------------ fixed trailing gap (or no lead-out period) *)
Theorem parseH_render_fixed tol li lo t syms ds :
  0 <= tol <= 100 -> wf_table tol t ->
  nonzero li -> nonzero lo -> Forall (fun e => e <> PLACEHOLDER) lo ->
  (match last_opt lo with Some g => g < 0 | None => True end) ->
  Forall (fun i => (i < length t)%nat) syms ->
  li ++ render_data t syms ++ lo <> [] ->
  alternating (li ++ render_data t syms ++ lo) ->
  Forall2 (close tol) ds (li ++ render_data t syms ++ lo) ->
  parseH tol li lo t ds = Ok {| p_bits := bits_of t syms; p_norm := li ++ render_data t syms ++ lo; p_syms := syms |}.
Proof.
  intros Ht Hwf Hli Hlo Hph Hlast Hsyms Hne Halt Hc.
  apply Forall2_app_split in Hc as [dli [drest [-> [Hcli Hc]]]].
  apply Forall2_app_split in Hc as [ddata [dlo [-> [Hcd Hclo]]]].
  unfold parseH.
  assert (period_precheck tol lo (dli ++ ddata ++ dlo) = true) as ->.
  { unfold period_precheck. destruct (last_opt lo) as [g|]; [|reflexivity]. destruct (0 <? g) eqn:E; [lia|reflexivity]. }
  cbn [negb]. rewrite (lead_in_loop_ok tol t li Ht Hli dli (ddata ++ dlo) [] Hcli). cbn [bind app].
  pose proof (lead_out_loop_direct tol (total_time (dli ++ ddata ++ dlo)) t (Z.of_nat (length lo)) Ht
                lo dlo 0 ddata [] [] Hclo Hlo Hph [] []) as Hl.
  rewrite !app_nil_r in Hl. rewrite Hl by (cbn [length]; lia). clear Hl. cbn [lead_out_loop bind lo_code lo_half lo_clean app].
  rewrite app_nil_r.
  pose proof (data_loop_render tol t Ht Hwf syms ddata [] [] Hsyms (Forall_nil _) Hcd []) as Hd.
  rewrite !app_nil_r in Hd. rewrite Hd. clear Hd. cbn [data_loop bind].
  rewrite rev_involutive. rewrite (to_syms_map t (wt_nodup _ _ Hwf) syms Hsyms). cbn [bind].
  rewrite rev_involutive, app_nil_r.
  rewrite <- map_app. rewrite <- app_assoc.
  rewrite finish_cleaned_somes by exact Hne. cbn [bind].
  rewrite compress_alt_id by exact Halt. reflexivity.
Qed.

(* ------------------------------------------------------------------ fixed frame period after a lead-out mark *)
(* the rendered frame is  li ++ data ++ core ++ [gap]  with gap = total - P < 0;  a perturbed frame keeps the
   period: its last element is  -(P - sum of the other absolute durations) *)
Theorem parseH_render_period tol li core P t syms ds_body :
  0 <= tol <= 100 -> wf_table tol t ->
  nonzero li -> nonzero core -> Forall (fun e => e <> PLACEHOLDER) core -> 0 < P -> P <> PLACEHOLDER ->
  Forall (fun i => (i < length t)%nat) syms ->
  let body := li ++ render_data t syms ++ core in
  let gap := sum_abs body - P in
  gap < 0 -> alternating (body ++ [gap]) ->
  Forall2 (close tol) ds_body body ->
  0 < P - sum_abs ds_body ->
  parseH tol li (core ++ [P]) t (ds_body ++ [- (P - sum_abs ds_body)])
  = Ok {| p_bits := bits_of t syms; p_norm := body ++ [gap]; p_syms := syms |}.
Proof.
  intros Ht Hwf Hli Hcore Hph HP HPph Hsyms body gap Hgap Halt Hc Hpos.
  set (g := - (P - sum_abs ds_body)).
  unfold body in Hc.
  apply Forall2_app_split in Hc as [dli [drest [E1 [Hcli Hc]]]].
  apply Forall2_app_split in Hc as [ddata [dco [E2 [Hcd Hcco]]]]. subst drest.
  unfold parseH.
  assert (total_time (ds_body ++ [g]) = sum_abs ds_body) as Htt.
  { unfold total_time. rewrite List.removelast_last. reflexivity. }
  assert (period_precheck tol (core ++ [P]) (ds_body ++ [g]) = true) as ->.
  { unfold period_precheck. rewrite !last_opt_app_single. replace (0 <? P) with true by lia.
    rewrite Htt. fold g. apply match_exact. exact Ht. }
  cbn [negb]. rewrite Htt. set (S := sum_abs ds_body) in *. rewrite E1. rewrite <- !app_assoc.
  rewrite (lead_in_loop_ok tol t li Ht Hli dli (ddata ++ dco ++ [g]) [] Hcli). cbn [bind app].
  rewrite (lead_out_loop_direct tol S t (Z.of_nat (length (core ++ [P]))) Ht
             core dco 0 ddata [] [] Hcco Hcore Hph [g] [P])
    by (rewrite app_length; cbn [length]; lia).
  cbn [app map].
  rewrite (lead_out_step_period tol S t _ _ P g ddata (map Some core) [] Ht (wt_std _ _ Hwf))
    by (try lia; rewrite app_length; cbn [length]; lia).
  cbn [bind lo_code lo_half lo_clean]. rewrite app_nil_r.
  pose proof (data_loop_render tol t Ht Hwf syms ddata [] [] Hsyms (Forall_nil _) Hcd []) as Hd.
  rewrite !app_nil_r in Hd. rewrite Hd. clear Hd. cbn [data_loop bind].
  rewrite rev_involutive. rewrite (to_syms_map t (wt_nodup _ _ Hwf) syms Hsyms). cbn [bind].
  rewrite rev_involutive, app_nil_r.
  rewrite app_assoc. rewrite <- map_app. rewrite <- app_assoc.
  rewrite (finish_cleaned_period (core ++ [P]) P) by apply last_opt_app_single. cbn [bind].
  fold body. replace (- P + sum_abs body) with gap by (unfold gap; lia).
  rewrite compress_alt_id by exact Halt. reflexivity.
Qed.

(* ------------------------------------------------------------------ the period is the whole lead-out (Sony-like) *)
Lemma comp_merge_last l : forall cur s g, alternating (cur :: l ++ [s]) -> s < 0 -> g < 0 ->
  comp cur (l ++ [s] ++ [g]) = cur :: l ++ [s + g].
Proof.
  induction l as [|b r IH]; intros cur s g Ha Hs Hg.
  - cbn in Ha. destruct Ha as [Ha _]. cbn [app]. rewrite comp_cons, same_sign_false by exact Ha.
    rewrite comp_cons. replace (same_sign s g) with true by (unfold same_sign; lia). reflexivity.
  - cbn [app alternating] in Ha. destruct Ha as [H1 H2]. cbn [app]. rewrite comp_cons, same_sign_false by exact H1.
    f_equal. apply IH; assumption.
Qed.

Lemma compress_merge_last l s g : l <> [] -> alternating (l ++ [s]) -> s < 0 -> g < 0 ->
  compress ((l ++ [s]) ++ [g]) = l ++ [s + g].
Proof.
  intros Hne Ha Hs Hg. destruct l as [|a r]; [contradiction|].
  cbn [app compress]. rewrite <- app_assoc. apply comp_merge_last; assumption.
Qed.

(* the last symbol's space is absorbed by the gap; the decoder completes the last pair from its mark *)
Theorem parseH_render_period_only tol li P t syms i m s ds_body :
  0 <= tol <= 100 -> wf_table tol t -> NoDup (map fst t) ->
  nonzero li -> 0 < P -> P <> PLACEHOLDER ->
  Forall (fun i => (i < length t)%nat) syms -> nth_error t i = Some (m, s) ->
  let body := li ++ render_data t syms ++ [m] in
  let gap := sum_abs (body ++ [s]) - P in
  gap < 0 -> alternating (body ++ [s]) ->
  Forall2 (close tol) ds_body body ->
  0 < P - sum_abs ds_body ->
  parseH tol li [P] t (ds_body ++ [- (P - sum_abs ds_body)])
  = Ok {| p_bits := bits_of t (syms ++ [i]); p_norm := body ++ [s + gap]; p_syms := syms ++ [i] |}.
Proof.
  intros Ht Hwf Hndm Hli HP HPph Hsyms Ei body gap Hgap Halt Hc Hpos.
  set (g := - (P - sum_abs ds_body)).
  pose proof (nth_error_In _ _ Ei) as Hin.
  assert (0 < m /\ s < 0) as [Hm Hs].
  { pose proof (wt_std _ _ Hwf) as Hstd. unfold std_table in Hstd. rewrite Forall_forall in Hstd. apply (Hstd (m, s) Hin). }
  unfold body in Hc.
  apply Forall2_app_split in Hc as [dli [drest [E1 [Hcli Hc]]]].
  apply Forall2_app_split in Hc as [ddata [dm [E2 [Hcd Hcm]]]]. subst drest.
  assert (exists d, dm = [d] /\ close tol d m) as [d [Edm Hdm]].
  { inversion Hcm as [|d ? ? ? Hdm Hnil]; subst. inversion Hnil; subst. exists d. auto. }
  clear Hcm. rewrite Edm in E1. clear Edm dm.
  unfold parseH.
  assert (total_time (ds_body ++ [g]) = sum_abs ds_body) as Htt.
  { unfold total_time. rewrite List.removelast_last. reflexivity. }
  assert (period_precheck tol [P] (ds_body ++ [g]) = true) as ->.
  { unfold period_precheck. rewrite last_opt_app_single. change (last_opt [P]) with (Some P). cbv beta iota.
    replace (0 <? P) with true by lia. rewrite Htt. fold g. apply match_exact. exact Ht. }
  cbn [negb]. rewrite Htt. set (S := sum_abs ds_body) in *. rewrite E1. rewrite <- !app_assoc.
  rewrite (lead_in_loop_ok tol t li Ht Hli dli (ddata ++ [d] ++ [g]) [] Hcli). cbn [bind].
  replace (ddata ++ [d] ++ [g]) with ((ddata ++ [d]) ++ [g]) by (rewrite <- app_assoc; reflexivity).
  rewrite (lead_out_step_period tol S t (Z.of_nat (length [P])) 0 P g (ddata ++ [d]) [] [] Ht (wt_std _ _ Hwf))
    by (try lia; cbn [length]; lia).
  cbn [bind lo_code lo_half lo_clean app]. rewrite app_nil_r.
  rewrite (data_loop_render tol t Ht Hwf syms ddata [] [] Hsyms (Forall_nil _) Hcd [d]). rewrite !app_nil_r.
  assert (Forall (fun p => length p = 2%nat) (rev (map (sym t) syms))) as Hdone.
  { apply Forall_forall. intros p Hp. apply in_rev in Hp. apply in_map_iff in Hp as [j [<- Hj]].
    rewrite Forall_forall in Hsyms. specialize (Hsyms j Hj). unfold sym.
    destruct (nth_error t j) as [[? ?]|] eqn:En; [reflexivity|apply nth_error_None in En; lia]. }
  rewrite (data_loop_last_mark tol t Ht Hwf d m s _ _ Hin Hdone Hdm).
  cbn [bind rev]. rewrite !rev_involutive.
  rewrite (to_syms_map_single t (wt_nodup _ _ Hwf) Hndm syms i m s Hsyms Ei). cbn [bind].
  replace (map Some (li ++ (render_data t syms ++ [m]) ++ [s]) ++ [None])
    with (map Some (body ++ [s]) ++ [None]) by (unfold body; rewrite <- !app_assoc; reflexivity).
  rewrite (finish_cleaned_period [P] P) by reflexivity. cbn [bind].
  replace (- P + sum_abs (body ++ [s])) with gap by (unfold gap; lia).
  rewrite compress_merge_last; [| |exact Halt|exact Hs|exact Hgap].
  2:{ unfold body. intros E. apply (f_equal (@length Z)) in E. rewrite !app_length in E. cbn [length] in E. lia. }
  reflexivity.
Qed.
