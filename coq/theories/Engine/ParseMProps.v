(* Manchester branch of the decoder core: no Python exception leaks (C08), soundness for arbitrary input (C05). *)
From Coq Require Import ZArith List Bool Lia ZifyBool.
Require Import PyIR.Base.Result PyIR.IW.IW PyIR.Engine.Match PyIR.Engine.Render PyIR.Engine.RenderProps
               PyIR.Engine.Parse PyIR.Engine.ParseProps PyIR.Engine.NoCrash PyIR.Engine.ParseM.
Import ListNotations.
Open Scope Z_scope.

Lemma man_loop_no_py tol m s : forall ds acc, is_pyerr (man_loop tol m s acc ds) = false.
Proof.
  induction ds as [|d r IH]; intros acc; cbn [man_loop]; [reflexivity|].
  destruct (matchb tol d m); [apply IH|]. destruct (matchb tol d s); [apply IH|].
  destruct (matchb tol d (m * 2)); [apply IH|]. destruct (matchb tol d (s * 2)); [apply IH|reflexivity].
Qed.

(* for EVERY tolerance, tables and input list *)
Theorem parseM_no_pyerr tol li lo t code : is_pyerr (parseM tol li lo t code) = false.
Proof.
  unfold parseM. destruct t as [|[m s] t']; [reflexivity|]. set (t := (m, s) :: t').
  destruct (negb (period_precheck tol lo code)); [reflexivity|].
  pose proof (lead_in_no_py tol t li code []) as Hli.
  destruct (lead_in_loop tol t li code []) as [[code1 cl1]| | |] eqn:Eli; cbn [bind]; try reflexivity; [|discriminate].
  set (st0 := {| lo_code := code1; lo_clean := []; lo_half := [] |}).
  pose proof (loop_no_py tol (total_time code) t (Z.of_nat (length lo)) lo 0 st0) as Hlo.
  destruct (lead_out_loop tol (total_time code) t (Z.of_nat (length lo)) 0 lo st0) as [st| | |] eqn:Elo; cbn [bind]; try reflexivity; [|discriminate].
  pose proof (man_loop_no_py tol m s (lo_code st ++ lo_half st) []) as Hd.
  destruct (man_loop tol m s [] (lo_code st ++ lo_half st)) as [halves_rev| | |]; cbn [bind]; try reflexivity; [|discriminate].
  pose proof (to_syms_no_py t (group2 (rev halves_rev))) as Hs.
  destruct (to_syms t (group2 (rev halves_rev))) as [[syms extra]| | |]; cbn [bind]; try reflexivity; [|discriminate].
  assert (is_pyerr (finish_cleaned lo (map Some (cl1 ++ rev halves_rev ++ extra) ++ lo_clean st)) = false) as Hf.
  { apply finish_no_py.
    - eapply (loop_no_inner tol (total_time code) t _ lo 0); [exact Elo|lia|lia|reflexivity].
    - intros ->. apply loop_nil_clean in Elo. exact Elo. }
  destruct (finish_cleaned lo _); cbn [bind]; try reflexivity. discriminate.
Qed.

Theorem parseC_no_pyerr tol li lo t code : is_pyerr (parseC tol li lo t code) = false.
Proof. unfold parseC. destruct (is_manchester t); [apply parseM_no_pyerr|apply parseH_no_pyerr]. Qed.

(* ------------------------------------------------------------------ soundness for arbitrary input *)
(* every consumed data duration lies in the window of one half or of two merged equal halves, and the halves the
   parser read are exactly the rendering of the symbols it returns (plus the completed half of a trailing single) *)
Inductive half_read (tol m s : Z) : Z -> list Z -> Prop :=
| hr_m d : matchb tol d m = true -> half_read tol m s d [m]
| hr_s d : matchb tol d s = true -> half_read tol m s d [s]
| hr_mm d : matchb tol d (m * 2) = true -> half_read tol m s d [m; m]
| hr_ss d : matchb tol d (s * 2) = true -> half_read tol m s d [s; s].

Inductive halves_read (tol m s : Z) : list Z -> list Z -> Prop :=
| hs_nil : halves_read tol m s [] []
| hs_cons d h ds hs : half_read tol m s d h -> halves_read tol m s ds hs -> halves_read tol m s (ds ++ [d]) (hs ++ h).

Lemma man_loop_sound tol m s : forall ds acc out, man_loop tol m s acc ds = Ok out ->
  forall ds0, halves_read tol m s ds0 (rev acc) -> halves_read tol m s (ds0 ++ ds) (rev out).
Proof.
  induction ds as [|d r IH]; intros acc out H ds0 H0; cbn [man_loop] in H.
  - injection H as <-. rewrite app_nil_r. exact H0.
  - replace (ds0 ++ d :: r) with ((ds0 ++ [d]) ++ r) by (rewrite <- app_assoc; reflexivity).
    destruct (matchb tol d m) eqn:E1.
    { apply (IH _ _ H). cbn [rev]. apply (hs_cons tol m s d [m]); [constructor; exact E1|exact H0]. }
    destruct (matchb tol d s) eqn:E2.
    { apply (IH _ _ H). cbn [rev]. apply (hs_cons tol m s d [s]); [apply hr_s; exact E2|exact H0]. }
    destruct (matchb tol d (m * 2)) eqn:E3.
    { apply (IH _ _ H). cbn [rev]. rewrite <- app_assoc. apply (hs_cons tol m s d [m; m]); [apply hr_mm; exact E3|exact H0]. }
    destruct (matchb tol d (s * 2)) eqn:E4; [|discriminate].
    apply (IH _ _ H). cbn [rev]. rewrite <- app_assoc. apply (hs_cons tol m s d [s; s]); [apply hr_ss; exact E4|exact H0].
Qed.

Lemma to_syms_group2_sound t : forall hs syms extra, to_syms t (group2 hs) = Ok (syms, extra) ->
  render_data t syms = hs ++ extra /\ Forall (fun i => (i < length t)%nat) syms.
Proof.
  intros hs syms extra H. destruct (to_syms_sound _ _ _ _ H) as [F1 F2]. split; [|exact F2].
  rewrite F1. f_equal. clear. revert hs. fix IH 1. intros [|a [|b r]]; [reflexivity|reflexivity|].
  cbn [group2 concat app]. f_equal. f_equal. apply IH.
Qed.

Theorem parseM_sound tol li lo t ds p : parseM tol li lo t ds = Ok p ->
  exists m s t' data halves extra,
    t = (m, s) :: t' /\
    halves_read tol m s data halves /\
    render_data t (p_syms p) = halves ++ extra /\
    Forall (fun i => (i < length t)%nat) (p_syms p) /\
    p_bits p = flat_map (sym_to_bits (length t)) (p_syms p).
Proof.
  unfold parseM. destruct t as [|[m s] t']; [discriminate|]. set (t := (m, s) :: t').
  destruct (negb (period_precheck tol lo ds)); [discriminate|].
  destruct (lead_in_loop tol t li ds []) as [[code1 cl1]| | |]; cbn [bind]; try discriminate.
  destruct (lead_out_loop tol (total_time ds) t _ 0 lo _) as [st| | |]; cbn [bind]; try discriminate.
  destruct (man_loop tol m s [] (lo_code st ++ lo_half st)) as [hr| | |] eqn:Ed; cbn [bind]; try discriminate.
  destruct (to_syms t (group2 (rev hr))) as [[syms extra]| | |] eqn:Es; cbn [bind]; try discriminate.
  destruct (finish_cleaned lo _) as [norm| | |]; cbn [bind]; try discriminate.
  intros [= <-]. cbn [p_syms p_bits].
  pose proof (man_loop_sound tol m s _ _ _ Ed [] (hs_nil tol m s)) as Hh. cbn [app] in Hh.
  destruct (to_syms_group2_sound t _ _ _ Es) as [F1 F2].
  exists m, s, t', (lo_code st ++ lo_half st), (rev hr), extra. repeat split; assumption.
Qed.
