(* Encoder core: IrProtocolBase._build_packet (protocol_base.py 304-364) — flatten, run-compress,
   frame-period gap — and the rendering of bit fields to durations through a symbol table. *)
From Coq Require Import ZArith List Bool Lia ZifyBool.
Require Import PyIR.Base.Result PyIR.IW.IW.
Import ListNotations.
Open Scope Z_scope.

(* res[-1] > 0 < itm  or  res[-1] < 0 > itm *)
Definition same_sign (a b : Z) : bool := ((0 <? a) && (0 <? b)) || ((a <? 0) && (b <? 0)).

(* flatten_and_compress on a flat list, left to right, [cur] is res[-1] *)
Fixpoint comp (cur : Z) (l : list Z) : list Z :=
  match l with
  | [] => [cur]
  | b :: r => if same_sign cur b then comp (cur + b) r else cur :: comp b r
  end.
Definition compress (l : list Z) : list Z := match l with [] => [] | a :: r => comp a r end.

Definition sum_abs (l : list Z) : Z := fold_right (fun x s => Z.abs x + s) 0 l.

(* symbol table: entries are duration lists ([mark; space] for pair tables, [d] for the bit class) *)
Definition table := list (list Z).

Fixpoint lookup_syms (t : table) (syms : list nat) : result (list Z) :=
  match syms with
  | [] => Ok []
  | i :: r => match nth_error t i with
              | Some e => do l <- lookup_syms t r; Ok (e ++ l)
              | None => PyErr IndexError
              end
  end.

(* IntegerWrapper.timings of one field, flattened *)
Definition field_durations (msb : bool) (t : table) (x : iw) : result (list Z) :=
  do syms <- symbols msb (length t) x; lookup_syms t syms.

Fixpoint fields_durations (msb : bool) (t : table) (xs : list iw) : result (list Z) :=
  match xs with
  | [] => Ok []
  | x :: r => do a <- field_durations msb t x; do b <- fields_durations msb t r; Ok (a ++ b)
  end.

Definition last_opt (l : list Z) : option Z := match rev l with [] => None | x :: _ => Some x end.

(* the gap of a fixed frame period is merged into a trailing space (after the repair of the double space) *)
Definition append_gap (p : list Z) (gap : Z) : list Z :=
  match rev p with
  | x :: r => if (x <? 0) && (gap <? 0) then rev ((x + gap) :: r) else p ++ [gap]
  | [] => [gap]
  end.

(* _build_packet: body = positional items and field renderings, already flattened *)
Definition build_packet (lead_in lead_out body : list Z) : list Z :=
  match last_opt lead_out with
  | Some last =>
      if 0 <? last then
        let p := compress (lead_in ++ body ++ removelast lead_out) in
        append_gap p (sum_abs p - last)
      else compress (lead_in ++ body ++ lead_out)
  | None => compress (lead_in ++ body)
  end.

(* _build_repeat_packet is not used by the encoders; repeat frames are assembled in encode() from the tables *)

(* ------------------------------------------------------------------ well-formedness of frames (C03) *)
Definition nonzero (l : list Z) : Prop := Forall (fun x => x <> 0) l.

Fixpoint alternating (l : list Z) : Prop :=
  match l with
  | a :: ((b :: _) as r) => a * b < 0 /\ alternating r
  | _ => True
  end.

Definition frame_wf (f : list Z) : Prop :=
  f <> [] /\ nonzero f /\ alternating f /\ (exists a r, f = a :: r /\ 0 < a) /\ (exists b, last_opt f = Some b /\ b < 0).

Fixpoint alternatingb (l : list Z) : bool :=
  match l with
  | a :: ((b :: _) as r) => (a * b <? 0) && alternatingb r
  | _ => true
  end.
Definition frame_wfb (f : list Z) : bool :=
  match f with
  | [] => false
  | a :: _ => (0 <? a) && forallb (fun x => negb (x =? 0)) f && alternatingb f &&
              match last_opt f with Some b => b <? 0 | None => false end
  end.
