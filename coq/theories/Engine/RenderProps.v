(* Properties of run-compression and _build_packet: C03's engine half. *)
From Coq Require Import ZArith List Bool Lia ZifyBool.
Require Import PyIR.Base.Result PyIR.Engine.Render.
Import ListNotations.
Open Scope Z_scope.

Lemma same_sign_true a b : same_sign a b = true <-> (0 < a /\ 0 < b) \/ (a < 0 /\ b < 0).
Proof. unfold same_sign. lia. Qed.
Lemma same_sign_false a b : a * b < 0 -> same_sign a b = false.
Proof. unfold same_sign. intros. destruct (same_sign a b) eqn:E; unfold same_sign in *; nia. Qed.

Lemma comp_cons cur b r : comp cur (b :: r) = if same_sign cur b then comp (cur + b) r else cur :: comp b r.
Proof. reflexivity. Qed.

(* an alternating list is left alone *)
Lemma comp_alt_id l : forall cur, alternating (cur :: l) -> comp cur l = cur :: l.
Proof.
  induction l as [|b r IH]; intros cur H; [reflexivity|].
  cbn [alternating] in H. destruct H as [Hs Hr]. rewrite comp_cons, same_sign_false by exact Hs.
  f_equal. apply IH. exact Hr.
Qed.
Lemma compress_alt_id l : alternating l -> compress l = l.
Proof. destruct l as [|a r]; [reflexivity|]. intros H. cbn [compress]. apply comp_alt_id. exact H. Qed.

(* the head of a compressed run keeps its sign and is non-zero *)
Lemma comp_head cur l : cur <> 0 -> nonzero l ->
  exists h t, comp cur l = h :: t /\ h <> 0 /\ (0 < cur -> 0 < h) /\ (cur < 0 -> h < 0).
Proof.
  revert cur. induction l as [|b r IH]; intros cur Hc Hl.
  - exists cur, []. cbn. repeat split; auto.
  - inversion Hl as [|? ? Hb Hr]; subst. rewrite comp_cons.
    destruct (same_sign cur b) eqn:E.
    + apply same_sign_true in E. destruct (IH (cur + b) ltac:(lia) Hr) as [h [t [E1 [E2 [E3 E4]]]]].
      exists h, t. repeat split; auto; intros; [apply E3|apply E4]; lia.
    + exists cur, (comp b r). repeat split; auto.
Qed.

(* compression of a zero-free list alternates and is zero-free *)
Lemma comp_alternating l : forall cur, cur <> 0 -> nonzero l -> alternating (comp cur l) /\ nonzero (comp cur l).
Proof.
  induction l as [|b r IH]; intros cur Hc Hl.
  - cbn. split; [exact I|constructor; [exact Hc|constructor]].
  - inversion Hl as [|? ? Hb Hr]; subst. rewrite comp_cons.
    destruct (same_sign cur b) eqn:E.
    + apply same_sign_true in E. apply IH; [lia|exact Hr].
    + destruct (IH b Hb Hr) as [Ha Hn]. destruct (comp_head b r Hb Hr) as [h [t [E1 [E2 [E3 E4]]]]].
      rewrite E1 in *. split.
      * cbn [alternating]. split; [|exact Ha].
        assert (~ ((0 < cur /\ 0 < b) \/ (cur < 0 /\ b < 0))) as Hns by (rewrite <- same_sign_true; congruence).
        destruct (Z.lt_trichotomy cur 0) as [H|[H|H]]; [|lia|].
        -- assert (0 < b) by lia. specialize (E3 H0). nia.
        -- assert (b < 0) by lia. specialize (E4 H0). nia.
      * constructor; [exact Hc|exact Hn].
Qed.

Theorem compress_alternates l : nonzero l -> alternating (compress l) /\ nonzero (compress l).
Proof.
  destruct l as [|a r]; intros H; [split; [exact I|constructor]|].
  inversion H; subst. cbn [compress]. apply comp_alternating; auto.
Qed.

(* total duration is preserved by compression *)
Lemma sum_abs_cons x l : sum_abs (x :: l) = Z.abs x + sum_abs l.
Proof. reflexivity. Qed.
Lemma sum_abs_nil : sum_abs [] = 0.
Proof. reflexivity. Qed.
Lemma comp_sum_abs l : forall cur, sum_abs (comp cur l) = Z.abs cur + sum_abs l.
Proof.
  induction l as [|b r IH]; intros cur; [cbn; lia|].
  rewrite comp_cons. destruct (same_sign cur b) eqn:E.
  - rewrite IH. apply same_sign_true in E. rewrite sum_abs_cons. lia.
  - rewrite !sum_abs_cons. rewrite IH. reflexivity.
Qed.
Theorem compress_sum_abs l : sum_abs (compress l) = sum_abs l.
Proof. destruct l as [|a r]; [reflexivity|]. cbn [compress]. rewrite comp_sum_abs. reflexivity. Qed.

Lemma sum_abs_app a b : sum_abs (a ++ b) = sum_abs a + sum_abs b.
Proof. induction a as [|x a IH]; cbn [app]; [rewrite sum_abs_nil; lia|]. rewrite !sum_abs_cons, IH. lia. Qed.
Lemma sum_abs_nonneg l : 0 <= sum_abs l.
Proof. induction l as [|x l IH]; [rewrite sum_abs_nil; lia|]. rewrite sum_abs_cons. lia. Qed.

(* head of the compression of a list starting with a mark is a mark; same for the last element *)
Lemma compress_head_pos a r : 0 < a -> nonzero r -> exists h t, compress (a :: r) = h :: t /\ 0 < h.
Proof.
  intros Ha Hr. cbn [compress]. destruct (comp_head a r ltac:(lia) Hr) as [h [t [E1 [E2 [E3 E4]]]]].
  exists h, t. split; [exact E1|apply E3; exact Ha].
Qed.

Lemma last_opt_app_single l x : last_opt (l ++ [x]) = Some x.
Proof. unfold last_opt. rewrite rev_app_distr. reflexivity. Qed.

Lemma comp_last l : forall cur, cur <> 0 -> nonzero l ->
  exists b, last_opt (comp cur l) = Some b /\
            (match last_opt l with Some x => (0 < x -> 0 < b) /\ (x < 0 -> b < 0)
                                 | None => (0 < cur -> 0 < b) /\ (cur < 0 -> b < 0) end).
Proof.
  induction l as [|y r IH]; intros cur Hc Hl.
  - exists cur. cbn. auto.
  - inversion Hl as [|? ? Hy Hr]; subst. rewrite comp_cons.
    assert (last_opt (y :: r) = match last_opt r with Some x => Some x | None => Some y end) as Hlast.
    { unfold last_opt. cbn [rev]. destruct (rev r) eqn:E; reflexivity. }
    rewrite Hlast.
    destruct (same_sign cur y) eqn:E.
    + apply same_sign_true in E. destruct (IH (cur + y) ltac:(lia) Hr) as [b [E1 E2]].
      exists b. split; [exact E1|]. destruct (last_opt r); [exact E2|]. lia.
    + destruct (IH y Hy Hr) as [b [E1 E2]]. exists b. split.
      * unfold last_opt in *. cbn [rev]. destruct (rev (comp y r)) eqn:E3; [discriminate|]. cbn. exact E1.
      * destruct (last_opt r); exact E2.
Qed.

Lemma last_opt_app l b : b <> [] -> last_opt (l ++ b) = last_opt b.
Proof.
  intros Hb. unfold last_opt. rewrite rev_app_distr. destruct (rev b) as [|x r] eqn:E; [|reflexivity].
  apply (f_equal (@rev Z)) in E. rewrite rev_involutive in E. cbn in E. contradiction.
Qed.

Lemma last_opt_rev l x r : rev l = x :: r -> l = rev r ++ [x] /\ last_opt l = Some x.
Proof.
  intros E. split; [|unfold last_opt; rewrite E; reflexivity].
  apply (f_equal (@rev Z)) in E. rewrite rev_involutive in E. exact E.
Qed.

Lemma removelast_last l x : last_opt l = Some x -> l = removelast l ++ [x].
Proof.
  unfold last_opt. destruct (rev l) as [|y r] eqn:E; [discriminate|]. intros [= ->].
  destruct (last_opt_rev l x r E) as [-> _]. rewrite removelast_last. reflexivity.
Qed.

Lemma nonzero_app a b : nonzero (a ++ b) <-> nonzero a /\ nonzero b.
Proof. unfold nonzero. apply Forall_app. Qed.

(* replacing the last element by one of the same sign, or appending one of the opposite sign *)
Lemma alternating_snoc_same l x y : x * y > 0 -> alternating (l ++ [x]) -> alternating (l ++ [y]).
Proof.
  intros Hxy. induction l as [|a l IH]; intros H; [exact I|].
  destruct l as [|b l].
  - cbn in *. split; [nia|exact I].
  - cbn [app alternating] in *. destruct H as [H1 H2]. split; [exact H1|]. apply IH. exact H2.
Qed.
Lemma alternating_snoc_opp l x g : x * g < 0 -> alternating (l ++ [x]) -> alternating ((l ++ [x]) ++ [g]).
Proof.
  intros Hxg. induction l as [|a l IH]; intros H; [cbn; split; [exact Hxg|exact I]|].
  destruct l as [|b l].
  - cbn in *. destruct H as [H1 _]. repeat split; auto.
  - cbn [app alternating] in *. destruct H as [H1 H2]. split; [exact H1|]. apply IH. exact H2.
Qed.
Lemma nonzero_snoc l x : nonzero l -> x <> 0 -> nonzero (l ++ [x]).
Proof. intros. apply nonzero_app. split; [assumption|]. constructor; [assumption|constructor]. Qed.

Lemma append_gap_wf p gap : p <> [] -> alternating p -> nonzero p -> (exists h t, p = h :: t /\ 0 < h) -> gap < 0 ->
  frame_wf (append_gap p gap) /\ sum_abs (append_gap p gap) = sum_abs p - gap.
Proof.
  intros Hne Ha Hnz [h [t [Eh Hh]]] Hg. unfold append_gap.
  destruct (rev p) as [|x r] eqn:E.
  { apply (f_equal (@rev Z)) in E. rewrite rev_involutive in E. cbn in E. contradiction. }
  destruct (last_opt_rev p x r E) as [Ep _].
  assert (x <> 0) as Hx by (rewrite Ep in Hnz; apply nonzero_app in Hnz as [_ Hn]; inversion Hn; auto).
  destruct (x <? 0) eqn:Ex; cbn [andb].
  - replace (gap <? 0) with true by lia. cbn [rev].
    assert (alternating (rev r ++ [x + gap])) as Ha'.
    { apply (alternating_snoc_same (rev r) x); [nia|]. rewrite <- Ep. exact Ha. }
    assert (nonzero (rev r ++ [x + gap])) as Hn'.
    { rewrite Ep in Hnz. apply nonzero_app in Hnz as [Hn1 _]. apply nonzero_snoc; auto. lia. }
    split.
    + unfold frame_wf. split; [destruct (rev r); discriminate|]. split; [exact Hn'|]. split; [exact Ha'|]. split.
      * rewrite Ep in Eh. destruct (rev r) as [|a q] eqn:Er.
        -- cbn in Eh. injection Eh as -> _. lia.
        -- cbn in Eh. injection Eh as -> _. exists h, (q ++ [x + gap]). split; [reflexivity|exact Hh].
      * exists (x + gap). split; [apply last_opt_app_single|lia].
    + rewrite Ep. rewrite !sum_abs_app, !sum_abs_cons, !sum_abs_nil. lia.
  - assert (0 < x) by lia.
    split.
    + unfold frame_wf. split; [destruct p; discriminate|]. split; [apply nonzero_snoc; auto; lia|]. split.
      * rewrite Ep. apply alternating_snoc_opp; [nia|]. rewrite <- Ep. exact Ha.
      * split; [exists h, (t ++ [gap]); rewrite Eh; split; [reflexivity|exact Hh]|].
        exists gap. split; [apply last_opt_app_single|exact Hg].
    + rewrite sum_abs_app, sum_abs_cons, sum_abs_nil. lia.
Qed.

(* ------------------------------------------------------------------ C03 for _build_packet *)
(* Whatever the body (whatever the field values and widths): if every duration involved is non-zero,
   the frame starts with a mark and ends with a space - by the fixed gap, or because the frame fits
   into its period - then the emitted frame is well-formed, and a period frame lasts exactly its period. *)
Theorem build_packet_wf lead_in lead_out body :
  nonzero (lead_in ++ body ++ lead_out) ->
  (exists a r, lead_in ++ body ++ lead_out = a :: r /\ 0 < a) ->
  (match last_opt lead_out with
   | Some last => last < 0 \/ (0 < last /\ sum_abs (lead_in ++ body ++ removelast lead_out) < last
                               /\ (exists a r, lead_in ++ body ++ removelast lead_out = a :: r /\ 0 < a))
   | None => exists x, last_opt (lead_in ++ body) = Some x /\ x < 0
   end) ->
  frame_wf (build_packet lead_in lead_out body) /\
  (match last_opt lead_out with
   | Some last => 0 < last -> sum_abs (build_packet lead_in lead_out body) = last
   | None => True end).
Proof.
  intros Hnz [a [r [Ea Ha]]] Hend. unfold build_packet.
  destruct (last_opt lead_out) as [last|] eqn:El.
  - pose proof (removelast_last _ _ El) as Elo.
    destruct (0 <? last) eqn:Ep.
    + destruct Hend as [Hneg|[Hpos [Hsum [a' [r' [Ea' Ha']]]]]]; [lia|].
      set (L := lead_in ++ body ++ removelast lead_out) in *.
      assert (nonzero L) as HnL.
      { unfold L. rewrite Elo in Hnz. rewrite !app_assoc in Hnz. apply nonzero_app in Hnz as [Hn _].
        rewrite <- app_assoc in Hn. exact Hn. }
      destruct (compress_alternates L HnL) as [Hal Hnn].
      assert (exists h t, compress L = h :: t /\ 0 < h) as Hhead.
      { rewrite Ea'. rewrite Ea' in HnL. inversion HnL; subst. apply compress_head_pos; auto. }
      assert (compress L <> []) as Hne by (destruct Hhead as [h [t [-> _]]]; discriminate).
      destruct (append_gap_wf (compress L) (sum_abs (compress L) - last) Hne Hal Hnn Hhead
                  ltac:(rewrite compress_sum_abs; lia)) as [Hwf Hs].
      split; [exact Hwf|]. intros _. rewrite Hs. lia.
    + destruct Hend as [Hneg|[Hpos _]]; [|lia].
      split; [|intros; lia].
      destruct (compress_alternates _ Hnz) as [Hal Hnn].
      rewrite Ea in *. inversion Hnz as [|? ? Hane Hrn]; subst.
      destruct (compress_head_pos a r Ha Hrn) as [h [t [Eh Hh]]].
      unfold frame_wf. split; [rewrite Eh; discriminate|]. split; [exact Hnn|]. split; [exact Hal|].
      split; [exists h, t; auto|].
      cbn [compress]. destruct (comp_last r a ltac:(lia) Hrn) as [b [Eb Hb]]. exists b. split; [exact Eb|].
      assert (last_opt (a :: r) = Some last) as Hl.
      { rewrite <- Ea. rewrite app_assoc. rewrite last_opt_app; [exact El|]. intros ->. discriminate. }
      assert (last_opt (a :: r) = match last_opt r with Some x => Some x | None => Some a end) as Hlast.
      { unfold last_opt. cbn [rev]. destruct (rev r) eqn:E; reflexivity. }
      rewrite Hlast in Hl. destruct (last_opt r) as [x|]; injection Hl as ->; [apply Hb; exact Hneg|lia].
  - assert (lead_out = []) as ->.
    { unfold last_opt in El. destruct (rev lead_out) eqn:E; [|discriminate].
      apply (f_equal (@rev Z)) in E. rewrite rev_involutive in E. exact E. }
    rewrite app_nil_r in *. split; [|exact I].
    destruct Hend as [x [Ex Hx]].
    destruct (compress_alternates _ Hnz) as [Hal Hnn].
    rewrite Ea in *. inversion Hnz as [|? ? Hane Hrn]; subst.
    destruct (compress_head_pos a r Ha Hrn) as [h [t [Eh Hh]]].
    unfold frame_wf. split; [rewrite Eh; discriminate|]. split; [exact Hnn|]. split; [exact Hal|].
    split; [exists h, t; auto|].
    cbn [compress]. destruct (comp_last r a ltac:(lia) Hrn) as [b [Eb Hb]]. exists b. split; [exact Eb|].
    assert (last_opt (a :: r) = match last_opt r with Some x => Some x | None => Some a end) as Hlast.
    { unfold last_opt. cbn [rev]. destruct (rev r) eqn:E; reflexivity. }
    rewrite Hlast in Ex. destruct (last_opt r) as [y|]; injection Ex as ->; [apply Hb; exact Hx|lia].
Qed.

(* ------------------------------------------------------------------ compress and the trailing gap *)
Lemma comp_nonempty : forall l cur, comp cur l <> [].
Proof. induction l as [|x l IH]; intros cur; cbn [comp]; [discriminate|]. destruct (same_sign cur x); [apply IH|discriminate]. Qed.

Lemma comp_app : forall a cur b, comp cur (a ++ b) = removelast (comp cur a) ++ comp (last (comp cur a) 0) b.
Proof.
  induction a as [|x a IH]; intros cur b.
  - reflexivity.
  - cbn [app]. rewrite !comp_cons. destruct (same_sign cur x); [apply IH|].
    rewrite IH. pose proof (comp_nonempty a x) as Hne.
    destruct (comp x a) as [|y r] eqn:E; [congruence|]. reflexivity.
Qed.

Lemma last_rev_cons (l : list Z) x r d : rev l = x :: r -> last l d = x /\ removelast l = rev r.
Proof.
  intros H. assert (l = rev r ++ [x]) as -> by (rewrite <- (rev_involutive l), H; reflexivity).
  split; [apply last_last|apply List.removelast_last].
Qed.

(* appending a negative gap to a compressed, non-zero list = compressing the list with the gap appended *)
Lemma append_gap_compress l g : nonzero l -> g < 0 -> l <> [] -> append_gap (compress l) g = compress (l ++ [g]).
Proof.
  intros Hnz Hg Hne. destruct l as [|a l]; [congruence|]. cbn [compress app].
  rewrite comp_app. unfold append_gap.
  pose proof (comp_nonempty l a) as Hc.
  destruct (rev (comp a l)) as [|x r] eqn:Er.
  { exfalso. apply Hc. rewrite <- (rev_involutive (comp a l)), Er. reflexivity. }
  destruct (last_rev_cons _ _ _ 0 Er) as [Hl Hr]. rewrite Hl, Hr.
  cbn [comp]. unfold same_sign.
  replace (0 <? g) with false by lia. replace (g <? 0) with true by lia. rewrite andb_false_r, andb_true_r. cbn [orb].
  destruct (x <? 0) eqn:Ex; cbn [andb].
  - cbn [rev]. reflexivity.
  - (* p ++ [g] with p = removelast p ++ [last p] *)
    rewrite (app_removelast_last 0 Hc) at 1. rewrite Hl, Hr. rewrite <- app_assoc. reflexivity.
Qed.
