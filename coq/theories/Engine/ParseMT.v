(* Decoder core, Manchester branch WITH middle timings that are (mark, space) tuples or plain durations (code_wrapper.py
   362-375, 427-540): the forms MCE, RC6632 and XBox360 ((-888, 888): the double-width toggle bit of RC6-6-32) and RC5x
   (-3556: the pause between the two halves of the frame) declare.  For every burst the source first tries the two
   halves of the first table entry, then (no positional entry being declared, the first inner loop does nothing) walks a
   copy of middle_timings:
     tuple (tm, ts):  three clauses guarded by cleaned_code[-1] == tm, two by the burst being tm, two by it being tm + mark;
                      when the burst is tm + mark but the next burst fits neither continuation the loop is left by `break`
                      WITHOUT consuming the burst and without reaching the 2 * mark / 2 * space fall-back (modelled: MtDrop);
     integer z:       the burst is z, or z merged with one or two halves of the same sign;
   a used timing is removed from middle_timings.  cleaned_code[-1], pairs[-1] and code[i + 1] raise IndexError when they
   do not exist, which the enclosing try turns into IRStreamError.  Not modelled: a lead-in that ends in the placeholder.
   Everything around the data loop is the code shared with the other branches (Engine/Parse.v, Engine/ParseM.v). *)
From Coq Require Import ZArith List Bool Lia ZifyBool.
Require Import PyIR.Base.Result PyIR.IW.IW PyIR.Engine.Match PyIR.Engine.Render PyIR.Engine.Parse PyIR.Engine.ParseM.
Import ListNotations.
Open Scope Z_scope.

Inductive mid := MTuple (tm ts : Z) | MInt (z : Z).
Definition mid_eqb (a b : mid) : bool :=
  match a, b with
  | MTuple a1 a2, MTuple b1 b2 => (a1 =? b1) && (a2 =? b2)
  | MInt x, MInt y => x =? y
  | _, _ => false
  end.
Fixpoint remove_mid (x : mid) (l : list mid) : list mid :=
  match l with [] => [] | y :: r => if mid_eqb y x then r else y :: remove_mid x r end.

(* halves (pairs) and cleaned_code newest first *)
Record mt_state := { mt_pairs : list Z; mt_clean : list Z; mt_mids : list mid }.
Inductive mt_res := MtHit (st : mt_state) | MtDrop | MtMiss | MtIdx.

Definition same_sign (a b : Z) : bool := ((a <? 0) && (b <? 0)) || ((0 <? a) && (0 <? b)).

Definition tuple_step (tol m s tm ts b : Z) (next : option Z) (st : mt_state) : mt_res :=
  let pairs := mt_pairs st in
  let cl := mt_clean st in
  let rm := remove_mid (MTuple tm ts) (mt_mids st) in
  let upd p c ms := MtHit {| mt_pairs := p; mt_clean := c; mt_mids := ms |} in
  let clauseC :=
    if matchb tol b (tm + m) then
      match next with
      | None => MtIdx
      | Some n => if matchb tol n ts || matchb tol n (ts + s) then upd (m :: pairs) (tm :: m :: cl) (mt_mids st) else MtDrop
      end
    else MtMiss in
  let clauseB :=
    if matchb tol b tm then
      match next with
      | None => MtIdx
      | Some n => if matchb tol n ts || matchb tol n (ts + s) then upd pairs (tm :: cl) (mt_mids st) else clauseC
      end
    else clauseC in
  match cl with
  | [] => MtIdx
  | c :: _ =>
      if c =? tm then
        if matchb tol b ts then upd pairs (ts :: cl) rm
        else if matchb tol b (ts * 2) then upd (ts :: pairs) (ts :: ts :: cl) rm
        else if matchb tol b (s + ts) then
          match pairs with
          | [] => MtIdx
          | pl :: _ => if pl =? m then upd (s :: pairs) (ts :: s :: cl) rm else upd (s :: pairs) (s :: ts :: cl) rm
          end
        else clauseB
      else clauseB
  end.

Definition int_step (tol m s z b : Z) (st : mt_state) : mt_res :=
  let pairs := mt_pairs st in
  let cl := mt_clean st in
  let rm := remove_mid (MInt z) (mt_mids st) in
  let upd p c := MtHit {| mt_pairs := p; mt_clean := c; mt_mids := rm |} in
  if matchb tol b z then upd pairs (z :: cl)
  else if same_sign z m then
    if matchb tol b (z + m) then upd (m :: pairs) (z :: m :: cl)
    else if matchb tol b (z + m * 2) then upd (m :: m :: pairs) (m :: z :: m :: cl)
    else MtMiss
  else if same_sign z s then
    if matchb tol b (z + s) then upd (s :: pairs) (z :: s :: cl)
    else if matchb tol b (z + s * 2) then upd (s :: s :: pairs) (s :: z :: s :: cl)
    else MtMiss
  else MtMiss.

Fixpoint mids_loop (tol m s : Z) (iter : list mid) (b : Z) (next : option Z) (st : mt_state) : mt_res :=
  match iter with
  | [] => MtMiss
  | x :: r =>
      match (match x with MTuple tm ts => tuple_step tol m s tm ts b next st | MInt z => int_step tol m s z b st end) with
      | MtMiss => mids_loop tol m s r b next st
      | res => res
      end
  end.

Definition mt_push (st : mt_state) (l : list Z) : mt_state :=
  {| mt_pairs := l ++ mt_pairs st; mt_clean := l ++ mt_clean st; mt_mids := mt_mids st |}.

Fixpoint man_loopT (tol m s : Z) (st : mt_state) (ds : list Z) : result mt_state :=
  match ds with
  | [] => Ok st
  | b :: r =>
      if matchb tol b m then man_loopT tol m s (mt_push st [m]) r
      else if matchb tol b s then man_loopT tol m s (mt_push st [s]) r
      else match mids_loop tol m s (mt_mids st) b (hd_error r) st with
           | MtIdx => IRErr IRStreamError
           | MtHit st' => man_loopT tol m s st' r
           | MtDrop => man_loopT tol m s st r
           | MtMiss =>
               if matchb tol b (m * 2) then man_loopT tol m s (mt_push st [m; m]) r
               else if matchb tol b (s * 2) then man_loopT tol m s (mt_push st [s; s]) r
               else IRErr IRStreamError
           end
  end.

Definition parseMT (tol : Z) (lead_in lead_out : list Z) (mids : list mid) (t : ptable) (code : list Z) : result parsed :=
  match t with
  | [] => IRErr IRStreamError
  | (m, s) :: _ =>
      if negb (period_precheck tol lead_out code) then IRErr LeadOutError else
      let tt := total_time code in
      do (code1, cleaned1) <- lead_in_loop tol t lead_in code [];
      do st <- lead_out_loop tol tt t (Z.of_nat (length lead_out)) 0 lead_out
                 {| lo_code := code1; lo_clean := []; lo_half := [] |};
      do fin <- man_loopT tol m s {| mt_pairs := []; mt_clean := rev cleaned1; mt_mids := mids |} (lo_code st ++ lo_half st);
      do (syms, extra) <- to_syms t (group2 (rev (mt_pairs fin)));
      let cleaned := map Some (rev (mt_clean fin) ++ extra) ++ lo_clean st in
      do norm <- finish_cleaned lead_out cleaned;
      Ok {| p_bits := flat_map (sym_to_bits (length t)) syms; p_norm := norm; p_syms := syms |}
  end.

(* middle timings are passed as (is_tuple, a, b): (true, tm, ts) | (false, z, 0) *)
Definition mk_mid (x : bool * Z * Z) : mid := let '(k, a, b) := x in if k then MTuple a b else MInt a.
Definition run_parseMT (c : Z * list Z * list Z * list (bool * Z * Z) * list (Z * Z) * list Z) : list Z :=
  let '(tol, li, lo, mids, t, code) := c in
  enc_result (fun p => Z.of_nat (length (p_bits p)) :: map (fun x : bool => if x then 1 else 0) (p_bits p) ++ p_norm p)
             (parseMT tol li lo (map mk_mid mids) t code).
