(* Executable interface of the engine models for the correspondence checks. *)
From Coq Require Import ZArith List Bool.
Require Import PyIR.Base.Result PyIR.IW.IW PyIR.Engine.Match PyIR.Engine.Render PyIR.Engine.Parse PyIR.Engine.ParseM.
Import ListNotations.
Open Scope Z_scope.

Definition enc_bits (l : list bool) : list Z := map (fun b : bool => if b then 1 else 0) l.

(* (tol, lead_in, lead_out, table, code) -> [0; nbits; bits...; norm...] or [error code] *)
Definition run_parseH (c : Z * list Z * list Z * list (Z * Z) * list Z) : list Z :=
  let '(tol, li, lo, t, code) := c in
  enc_result (fun p => Z.of_nat (length (p_bits p)) :: enc_bits (p_bits p) ++ p_norm p) (parseH tol li lo t code).

(* the same for any pair table: the stream-encoding classification of the source decides between the two data loops *)
Definition run_parseC (c : Z * list Z * list Z * list (Z * Z) * list Z) : list Z :=
  let '(tol, li, lo, t, code) := c in
  enc_result (fun p => Z.of_nat (length (p_bits p)) :: enc_bits (p_bits p) ++ p_norm p) (parseC tol li lo t code).

(* (lead_in, lead_out, body) -> frame *)
Definition run_build_packet (c : list Z * list Z * list Z) : list Z :=
  let '(li, lo, body) := c in build_packet li lo body.

(* rendering of fields: (msb, table, [(value, width)]) -> durations or error *)
Definition run_fields (c : bool * list (list Z) * list (Z * Z)) : list Z :=
  let '(msb, t, fs) := c in
  enc_result (fun l => l) (fields_durations msb t (map (fun f => mk (fst f) (Some (snd f))) fs)).
