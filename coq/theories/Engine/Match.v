(* The tolerance window of IrProtocolBase._match / CodeWrapper._match over the integers:
   value v matches expected e at tolerance tol (percent) iff the signs are not opposite and
   floor(e - e*tol/100) <= v <= floor(e + e*tol/100)   (bounds swapped for negative e).
   The source computes the bounds in binary64; the integer formula below is compared with the float
   formula on a sweep of the whole practical range by the correspondence check (tools/matchsweep.py). *)
From Coq Require Import ZArith List Bool Lia ZifyBool.
Import ListNotations.
Open Scope Z_scope.
Ltac Zify.zify_post_hook ::= Z.to_euclidean_division_equations.

Definition hi (e tol : Z) := (e * (100 + tol)) / 100.
Definition lo (e tol : Z) := (e * (100 - tol)) / 100.

Definition matchb (tol v e : Z) : bool :=
  if ((v <? 0) && (0 <? e)) || ((0 <? v) && (e <? 0)) then false
  else if e <? 0 then (hi e tol <=? v) && (v <=? lo e tol)
       else (lo e tol <=? v) && (v <=? hi e tol).

(* "close": |v - e| * 400 <= tol * |e|   — within a quarter of the tolerance *)
Definition close (tol v e : Z) : Prop := Z.abs (v - e) * 400 <= tol * Z.abs e.
Definition closeb (tol v e : Z) : bool := Z.abs (v - e) * 400 <=? tol * Z.abs e.

Ltac lin_tol tol e :=
  let p := fresh "p" in
  assert (e * tol = tol * e) by ring;
  assert (0 < e -> 0 <= tol * e <= 100 * e) by nia;
  assert (e < 0 -> 100 * e <= tol * e <= 0) by nia;
  replace (e * (100 + tol)) with (e * 100 + tol * e) in * by ring;
  replace (e * (100 - tol)) with (e * 100 - tol * e) in * by ring;
  remember (tol * e) as p.

Lemma close_match tol v e : 0 <= tol <= 100 -> e <> 0 -> close tol v e -> matchb tol v e = true.
Proof.
  unfold close, matchb, hi, lo. intros Ht He Hc.
  assert (tol * Z.abs e = Z.abs (tol * e)) as Hab by (rewrite Z.abs_mul; lia). rewrite Hab in Hc.
  lin_tol tol e.
  destruct (e <? 0) eqn:E1; destruct (v <? 0) eqn:E2; destruct (0 <? e) eqn:E3; destruct (0 <? v) eqn:E4; cbn [andb orb]; try lia.
Qed.

Lemma match_exact tol e : 0 <= tol <= 100 -> matchb tol e e = true.
Proof.
  intros Ht. unfold matchb, hi, lo. lin_tol tol e.
  destruct (e <? 0) eqn:E1; destruct (0 <? e) eqn:E3; cbn [andb orb]; lia.
Qed.

Lemma close_refl tol e : 0 <= tol -> close tol e e.
Proof. intros. unfold close. rewrite Z.sub_diag. cbn. nia. Qed.

Lemma close_sign tol v e : 0 <= tol <= 100 -> e <> 0 -> close tol v e -> (0 < e -> 0 < v) /\ (e < 0 -> v < 0).
Proof.
  unfold close. intros Ht He Hc.
  assert (tol * Z.abs e = Z.abs (tol * e)) as Hab by (rewrite Z.abs_mul; lia). rewrite Hab in Hc.
  assert (0 < e -> 0 <= tol * e <= 100 * e) by nia.
  assert (e < 0 -> 100 * e <= tol * e <= 0) by nia.
  remember (tol * e) as p. lia.
Qed.

(* first table value (in the source's scan order) that matches *)
Fixpoint first_match (tol v : Z) (vals : list Z) : option Z :=
  match vals with
  | [] => None
  | e :: r => if matchb tol v e then Some e else first_match tol v r
  end.

(* separation: anything close to a is matched only by entries equal to a *)
Definition sep (tol : Z) (vals : list Z) : Prop :=
  forall a b v, In a vals -> In b vals -> close tol v a -> matchb tol v b = true -> a = b.

Lemma first_match_close tol vals v e :
  0 <= tol <= 100 -> e <> 0 -> In e vals -> sep tol vals -> close tol v e ->
  first_match tol v vals = Some e.
Proof.
  intros Ht He Hin Hsep Hc.
  assert (forall l, (forall x, In x l -> In x vals) -> In e l -> first_match tol v l = Some e) as H.
  { induction l as [|x l IH]; intros Hsub Hl; [destruct Hl|].
    cbn [first_match]. destruct (matchb tol v x) eqn:M.
    - f_equal. symmetry. apply (Hsep e x v); auto. apply Hsub; left; reflexivity.
    - destruct Hl as [->|Hl].
      + rewrite close_match in M by assumption. discriminate.
      + apply IH; auto. intros y Hy; apply Hsub; right; exact Hy. }
  apply H; auto.
Qed.

Lemma first_match_in tol v vals e : first_match tol v vals = Some e -> In e vals /\ matchb tol v e = true.
Proof.
  induction vals as [|x l IH]; cbn [first_match]; [discriminate|].
  destruct (matchb tol v x) eqn:M; intros H.
  - injection H as <-. split; [left; reflexivity|exact M].
  - destruct (IH H). split; [right; assumption|assumption].
Qed.

Lemma first_match_none tol v vals : first_match tol v vals = None -> forall e, In e vals -> matchb tol v e = false.
Proof.
  induction vals as [|x l IH]; cbn [first_match]; intros H e He; [destruct He|].
  destruct (matchb tol v x) eqn:M; [discriminate|]. destruct He as [<-|He]; auto.
Qed.

(* decidable separation check for concrete tables: quarter-tolerance neighbourhood of a vs full window of b *)
Definition qlo (tol e : Z) := if e <? 0 then - ((tol * - e) / 400) + e else e - (tol * e) / 400.
Definition qhi (tol e : Z) := if e <? 0 then e + (tol * - e) / 400 else e + (tol * e) / 400.
Definition wlo (tol e : Z) := if e <? 0 then hi e tol else lo e tol.
Definition whi (tol e : Z) := if e <? 0 then lo e tol else hi e tol.
Definition sep2b (tol a b : Z) : bool :=
  (a =? b) || (qhi tol a <? wlo tol b) || (whi tol b <? qlo tol a) || negb (Z.sgn a =? Z.sgn b).
Definition sepb (tol : Z) (vals : list Z) : bool :=
  forallb (fun a => forallb (fun b => sep2b tol a b) vals) vals.

Lemma close_bounds tol v a : 0 <= tol -> close tol v a -> qlo tol a <= v <= qhi tol a.
Proof. unfold close, qlo, qhi. intros. destruct (a <? 0) eqn:E; lia. Qed.

Lemma match_bounds tol v b : matchb tol v b = true -> wlo tol b <= v <= whi tol b /\ (0 < v -> 0 <= b) /\ (v < 0 -> b <= 0).
Proof. unfold matchb, wlo, whi. destruct (b <? 0) eqn:E1; destruct (v <? 0) eqn:E2; destruct (0 <? b) eqn:E3; destruct (0 <? v) eqn:E4; cbn [andb orb]; lia. Qed.

Lemma sep2b_sound tol a b v : 0 <= tol <= 100 -> a <> 0 -> b <> 0 -> sep2b tol a b = true ->
  close tol v a -> matchb tol v b = true -> a = b.
Proof.
  intros Ht Ha Hb H Hc Hm. unfold sep2b in H.
  apply close_bounds in Hc; [|lia]. pose proof (match_bounds _ _ _ Hm) as [Hw [Hp Hn]].
  destruct (a =? b) eqn:E; [lia|]. cbn [orb] in H.
  destruct (qhi tol a <? wlo tol b) eqn:E1; [lia|]. destruct (whi tol b <? qlo tol a) eqn:E2; [lia|].
  cbn [orb] in H. exfalso.
  assert (Z.sgn a <> Z.sgn b) as Hs by lia. clear H E1 E2 Hw.
  unfold qlo, qhi in Hc.
  assert (0 < a -> 0 <= tol * a <= 100 * a) by nia.
  assert (a < 0 -> 0 <= tol * - a <= 100 * - a) by nia.
  destruct (a <? 0) eqn:Ea; [remember (tol * - a) as p | remember (tol * a) as p]; lia.
Qed.

Lemma sepb_sound tol vals : 0 <= tol <= 100 -> Forall (fun e => e <> 0) vals -> sepb tol vals = true -> sep tol vals.
Proof.
  intros Ht Hnz H a b v Ha Hb Hc Hm. unfold sepb in H.
  rewrite forallb_forall in H. specialize (H a Ha). rewrite forallb_forall in H. specialize (H b Hb).
  rewrite Forall_forall in Hnz. eapply sep2b_sound; eauto.
Qed.

(* a value outside the full window of every table entry matches nothing *)
Definition far (tol v : Z) (vals : list Z) : Prop := forall e, In e vals -> matchb tol v e = false.
Lemma far_first_match tol v vals : far tol v vals -> first_match tol v vals = None.
Proof.
  induction vals as [|x l IH]; intros H; [reflexivity|]. cbn [first_match].
  rewrite (H x) by (left; reflexivity). apply IH. intros e He. apply H. right. exact He.
Qed.
