(* Theorems about the halfbit branch with tuple middle timings (Engine/ParseHT.v):
   parseHT_no_pyerr  - for every tolerance, tables, middle tuples and input list the engine returns symbols or an IR error;
   parseHT_nil       - without middle timings the model is the model of Engine/Parse.v (parseH), so the theorems about parseH
                       are theorems about this branch of the source as well;
   data_loopT_clean  - the durations the loop writes into the normalised code are entries of the symbol table or of a
                       middle tuple (never a received duration). *)
From Coq Require Import ZArith List Bool Lia ZifyBool.
Require Import PyIR.Base.Result PyIR.IW.IW PyIR.Engine.Match PyIR.Engine.Render PyIR.Engine.RenderProps
               PyIR.Engine.Parse PyIR.Engine.ParseProps PyIR.Engine.NoCrash PyIR.Engine.ParseM PyIR.Engine.ParseHT.
Import ListNotations.
Open Scope Z_scope.

Lemma table_loop_no_py tol d next : forall iter st, is_pyerr (table_loop tol iter d next st) = false.
Proof.
  induction iter as [|[mark space] r IH]; intros st; cbn [table_loop]; [reflexivity|].
  destruct (match ht_pairs st with [] => MidMiss | _ => check_middles tol mark space (ht_mids st) d next st end);
    try reflexivity.
  destruct (matchb tol d mark); [reflexivity|]. destruct (matchb tol d space); [reflexivity|]. apply IH.
Qed.

Lemma data_loopT_no_py tol t : forall ds st, is_pyerr (data_loopT tol t st ds) = false.
Proof.
  induction ds as [|d r IH]; intros st; cbn [data_loopT]; [reflexivity|].
  pose proof (table_loop_no_py tol d (hd_error r) t st) as H.
  destruct (table_loop tol t d (hd_error r) st); cbn [bind]; try reflexivity; [apply IH|discriminate].
Qed.

(* for EVERY tolerance, tables, middle tuples and input list *)
Theorem parseHT_no_pyerr tol li lo mids t code : is_pyerr (parseHT tol li lo mids t code) = false.
Proof.
  unfold parseHT. destruct (negb (period_precheck tol lo code)); [reflexivity|].
  pose proof (lead_in_no_py tol t li code []) as Hli.
  destruct (lead_in_loop tol t li code []) as [[code1 cl1]| | |] eqn:Eli; cbn [bind]; try reflexivity; [|discriminate].
  set (st0 := {| lo_code := code1; lo_clean := []; lo_half := [] |}).
  pose proof (loop_no_py tol (total_time code) t (Z.of_nat (length lo)) lo 0 st0) as Hlo.
  destruct (lead_out_loop tol (total_time code) t (Z.of_nat (length lo)) 0 lo st0) as [st| | |] eqn:Elo; cbn [bind]; try reflexivity; [|discriminate].
  pose proof (data_loopT_no_py tol t (lo_code st ++ lo_half st) {| ht_pairs := []; ht_clean := rev cl1; ht_mids := mids |}) as Hd.
  destruct (data_loopT tol t _ (lo_code st ++ lo_half st)) as [fin| | |]; cbn [bind]; try reflexivity; [|discriminate].
  pose proof (to_syms_no_py t (rev (ht_pairs fin))) as Hs.
  destruct (to_syms t (rev (ht_pairs fin))) as [[syms extra]| | |]; cbn [bind]; try reflexivity; [|discriminate].
  assert (is_pyerr (finish_cleaned lo (map Some (rev (ht_clean fin) ++ extra) ++ lo_clean st)) = false) as Hf.
  { apply finish_no_py.
    - eapply (loop_no_inner tol (total_time code) t _ lo 0); [exact Elo|lia|lia|reflexivity].
    - intros ->. apply loop_nil_clean in Elo. exact Elo. }
  destruct (finish_cleaned lo _); cbn [bind]; try reflexivity. discriminate.
Qed.

(* ---- without middle timings: the loop of Engine/Parse.v *)
Lemma check_middles_nil tol mark space d next st : check_middles tol mark space [] d next st = MidMiss.
Proof. reflexivity. Qed.

Lemma table_loop_nil tol d next : forall iter st, ht_mids st = [] ->
  table_loop tol iter d next st =
  match first_match tol d (vals iter) with Some e => Ok (ht_push st e) | None => IRErr IRStreamError end.
Proof.
  induction iter as [|[mark space] r IH]; intros st Hm; cbn [table_loop vals flat_map fst snd app first_match find]; [reflexivity|].
  rewrite Hm. cbn [check_middles].
  assert ((match ht_pairs st with [] => MidMiss | _ :: _ => MidMiss end) = MidMiss) as -> by (destruct (ht_pairs st); reflexivity).
  unfold first_match. cbn [find].
  destruct (matchb tol d mark); [reflexivity|]. destruct (matchb tol d space); [reflexivity|].
  rewrite IH by exact Hm. reflexivity.
Qed.

Lemma data_loopT_nil tol t : forall ds st, ht_mids st = [] ->
  data_loopT tol t st ds =
  match data_loop tol t (ht_pairs st) (ht_clean st) ds with
  | Ok (p, c) => Ok {| ht_pairs := p; ht_clean := c; ht_mids := [] |}
  | IRErr e => IRErr e
  | PyErr e => PyErr e
  | EncErr => EncErr
  end.
Proof.
  induction ds as [|d r IH]; intros st Hm; cbn [data_loopT data_loop].
  - destruct st as [p c m]. cbn in Hm. subst m. reflexivity.
  - rewrite table_loop_nil by exact Hm.
    destruct (first_match tol d (vals t)) as [e|]; cbn [bind]; [|reflexivity].
    rewrite IH by exact Hm. reflexivity.
Qed.

Theorem parseHT_nil tol li lo t code : parseHT tol li lo [] t code = parseH tol li lo t code.
Proof.
  unfold parseHT, parseH. destruct (negb (period_precheck tol lo code)); [reflexivity|].
  destruct (lead_in_loop tol t li code []) as [[code1 cl1]| | |]; cbn [bind]; try reflexivity.
  destruct (lead_out_loop tol (total_time code) t (Z.of_nat (length lo)) 0 lo _) as [st| | |]; cbn [bind]; try reflexivity.
  rewrite data_loopT_nil by reflexivity. cbn [ht_pairs ht_clean].
  (* the cleaned code of parseH is split in the lead-in part and the data part; here they share one list *)
  assert (forall ds pairs c0 acc,
            match data_loop tol t pairs (acc ++ c0) ds with
            | Ok (p, c) => exists c', c = c' ++ c0 /\ data_loop tol t pairs acc ds = Ok (p, c')
            | IRErr e => data_loop tol t pairs acc ds = IRErr e
            | PyErr e => data_loop tol t pairs acc ds = PyErr e
            | EncErr => data_loop tol t pairs acc ds = EncErr
            end) as Hsplit.
  { induction ds as [|d r IH]; intros pairs c0 acc; cbn [data_loop].
    - exists acc. split; reflexivity.
    - destruct (first_match tol d (vals t)) as [e|]; [|reflexivity].
      specialize (IH (push pairs e) c0 (e :: acc)). exact IH. }
  specialize (Hsplit (lo_code st ++ lo_half st) [] (rev cl1) []). cbn [app] in Hsplit.
  destruct (data_loop tol t [] (rev cl1) (lo_code st ++ lo_half st)) as [[p c]| | |]; cbn [bind].
  - destruct Hsplit as [c' [-> Hd]]. rewrite Hd. cbn [bind ht_pairs ht_clean].
    destruct (to_syms t (rev p)) as [[syms extra]| | |]; cbn [bind]; try reflexivity.
    rewrite rev_app_distr, rev_involutive, <- app_assoc. reflexivity.
  - rewrite Hsplit. reflexivity.
  - rewrite Hsplit. reflexivity.
  - rewrite Hsplit. reflexivity.
Qed.

(* non-vacuity: Proton's tables (middle tuple (500, -4000) between the two bytes), the frame encode(device=0xA5, function=0x3C)
   emits: the model reads both bytes, and the middle pair goes into the normalised code without becoming a symbol *)
Example proton_frame_parses :
  let frame := [8000; -4000; 500; -1500; 500; -500; 500; -1500; 500; -500; 500; -500; 500; -1500; 500; -500; 500; -1500; 500; -4000;
                500; -500; 500; -500; 500; -1500; 500; -1500; 500; -1500; 500; -1500; 500; -500; 500; -500; 500; -22000] in
  match parseHT 20 [8000; -4000] [500; 63000] [(500, -4000)] [(500, -500); (500, -1500)] frame with
  | Ok p => p_bits p = [true; false; true; false; false; true; false; true; false; false; true; true; true; true; false; false]
            /\ p_norm p = frame
  | _ => False
  end.
Proof. vm_compute. split; reflexivity. Qed.
(* the same frame with the middle space lost is rejected *)
Example proton_frame_without_middle_rejected :
  parseHT 20 [8000; -4000] [500; 63000] [(500, -4000)] [(500, -500); (500, -1500)]
          [8000; -4000; 500; -1500; 500; -500; 500; -1500; 500; -500; 500; -500; 500; -1500; 500; -500; 500; -1500; 500;
           500; -500; 500; -500; 500; -1500; 500; -1500; 500; -1500; 500; -1500; 500; -500; 500; -500; 500; -22000] = IRErr IRStreamError.
Proof. vm_compute. reflexivity. Qed.

(* ---- what the loop writes into the normalised code: nominal durations only.  Every duration the data loop appends to
   cleaned_code is an entry of the symbol table or of a middle tuple - never a received duration (the decoded code's
   normalised timings are the protocol's own constants, whatever was received within the windows). *)
Definition nominal (t : ptable) (mids : list (Z * Z)) (x : Z) : Prop :=
  In x (vals t) \/ In x (flat_map (fun p => [fst p; snd p]) mids).

Lemma nominal_mark t mids mark space : In (mark, space) t -> nominal t mids mark.
Proof. intros H. left. unfold vals. apply in_flat_map. exists (mark, space). split; [exact H|left; reflexivity]. Qed.
Lemma nominal_space t mids mark space : In (mark, space) t -> nominal t mids space.
Proof. intros H. left. unfold vals. apply in_flat_map. exists (mark, space). split; [exact H|right; left; reflexivity]. Qed.
Lemma nominal_m t mids m s : In (m, s) mids -> nominal t mids m.
Proof. intros H. right. apply in_flat_map. exists (m, s). split; [exact H|left; reflexivity]. Qed.
Lemma nominal_s t mids m s : In (m, s) mids -> nominal t mids s.
Proof. intros H. right. apply in_flat_map. exists (m, s). split; [exact H|right; left; reflexivity]. Qed.

(* the cleaned list grows by prepending nominal durations to the old one *)
Definition extends (t : ptable) (mids : list (Z * Z)) (old new : list Z) : Prop :=
  exists added, new = added ++ old /\ Forall (nominal t mids) added.

Lemma extends_refl t mids l : extends t mids l l.
Proof. exists []. split; [reflexivity|constructor]. Qed.
Lemma extends_trans t mids a b c : extends t mids a b -> extends t mids b c -> extends t mids a c.
Proof.
  intros [x [-> Hx]] [y [-> Hy]]. exists (y ++ x). split; [rewrite app_assoc; reflexivity|apply Forall_app; split; assumption].
Qed.
Lemma extends_1 t mids l x : nominal t mids x -> extends t mids l (x :: l).
Proof. intros H. exists [x]. split; [reflexivity|constructor; [exact H|constructor]]. Qed.
Lemma extends_2 t mids l x y : nominal t mids x -> nominal t mids y -> extends t mids l (x :: y :: l).
Proof. intros Hx Hy. exists [x; y]. split; [reflexivity|constructor; [exact Hx|constructor; [exact Hy|constructor]]]. Qed.

Lemma check_timing_clean tol t mids mark space m s d next st st' :
  In (mark, space) t -> In (m, s) mids ->
  check_timing tol mark space m s d next st = MidHit st' -> extends t mids (ht_clean st) (ht_clean st').
Proof.
  intros Ht Hm. pose proof (nominal_mark t mids _ _ Ht) as Nmark. pose proof (nominal_space t mids _ _ Ht) as Nspace.
  pose proof (nominal_m t mids _ _ Hm) as Nm. pose proof (nominal_s t mids _ _ Hm) as Ns.
  unfold check_timing. intros H.
  repeat match type of H with
         | (if ?c then _ else _) = _ => destruct c
         | match ?x with _ => _ end = _ => destruct x
         | MidHit _ = MidHit _ => injection H as <-; cbn [ht_clean]
         | MidMiss = MidHit _ => discriminate H
         | MidIdx = MidHit _ => discriminate H
         end;
  first [ apply extends_1; assumption | apply extends_2; assumption ].
Qed.

Lemma check_middles_clean tol t mids mark space d next st : In (mark, space) t ->
  forall iter st', incl iter mids -> check_middles tol mark space iter d next st = MidHit st' ->
  extends t mids (ht_clean st) (ht_clean st').
Proof.
  intros Ht. induction iter as [|[m s] r IH]; intros st' Hi H; cbn [check_middles] in H; [discriminate|].
  destruct (check_timing tol mark space m s d next st) eqn:E.
  - injection H as <-. eapply check_timing_clean; [exact Ht| |exact E]. apply Hi. left. reflexivity.
  - apply IH; [intros x Hx; apply Hi; right; exact Hx|exact H].
  - discriminate.
Qed.

Lemma remove_first_incl x l : incl (remove_first x l) l.
Proof.
  induction l as [|y r IH]; [intros z Hz; exact Hz|]. cbn [remove_first]. destruct (pair_eqb y x).
  - intros z Hz. right. exact Hz.
  - intros z [->|Hz]; [left; reflexivity|right; apply IH; exact Hz].
Qed.

(* the middle tuples still pending are always among the declared ones *)
Lemma check_timing_mids tol mark space m s d next st st' :
  check_timing tol mark space m s d next st = MidHit st' -> incl (ht_mids st') (ht_mids st).
Proof.
  unfold check_timing. intros H.
  repeat match type of H with
         | (if ?c then _ else _) = _ => destruct c
         | match ?x with _ => _ end = _ => destruct x
         | MidHit _ = MidHit _ => injection H as <-; cbn [ht_mids]
         | MidMiss = MidHit _ => discriminate H
         | MidIdx = MidHit _ => discriminate H
         end;
  first [ apply incl_refl | apply remove_first_incl ].
Qed.
Lemma check_middles_mids tol mark space d next st : forall iter st',
  check_middles tol mark space iter d next st = MidHit st' -> incl (ht_mids st') (ht_mids st).
Proof.
  induction iter as [|[m s] r IH]; intros st' H; cbn [check_middles] in H; [discriminate|].
  destruct (check_timing tol mark space m s d next st) eqn:E.
  - injection H as <-. eapply check_timing_mids. exact E.
  - apply IH. exact H.
  - discriminate.
Qed.

Lemma table_loop_clean tol t mids d next : forall iter st st', incl iter t -> incl (ht_mids st) mids ->
  table_loop tol iter d next st = Ok st' ->
  extends t mids (ht_clean st) (ht_clean st') /\ incl (ht_mids st') mids.
Proof.
  induction iter as [|[mark space] r IH]; intros st st' Hi Hm H; cbn [table_loop] in H; [discriminate|].
  assert (In (mark, space) t) as Ht by (apply Hi; left; reflexivity).
  destruct (match ht_pairs st with [] => MidMiss | _ :: _ => check_middles tol mark space (ht_mids st) d next st end) eqn:E.
  - injection H as <-. destruct (ht_pairs st); [discriminate E|]. split.
    + eapply check_middles_clean; [exact Ht|exact Hm|exact E].
    + intros x Hx. apply Hm. eapply check_middles_mids; [exact E|exact Hx].
  - destruct (matchb tol d mark).
    + injection H as <-. split; [apply extends_1; eapply nominal_mark; exact Ht|exact Hm].
    + destruct (matchb tol d space).
      * injection H as <-. split; [apply extends_1; eapply nominal_space; exact Ht|exact Hm].
      * apply IH; [intros x Hx; apply Hi; right; exact Hx|exact Hm|exact H].
  - discriminate.
Qed.

Lemma data_loopT_clean tol t mids : forall ds st st', incl (ht_mids st) mids ->
  data_loopT tol t st ds = Ok st' -> extends t mids (ht_clean st) (ht_clean st').
Proof.
  induction ds as [|d r IH]; intros st st' Hm H; cbn [data_loopT] in H.
  - injection H as <-. apply extends_refl.
  - destruct (table_loop tol t d (hd_error r) st) as [st1| | |] eqn:E; cbn [bind] in H; try discriminate.
    destruct (table_loop_clean tol t mids d (hd_error r) t st st1 (incl_refl t) Hm E) as [H1 H2].
    eapply extends_trans; [exact H1|]. apply IH; [exact H2|exact H].
Qed.

(* whatever is parsed: the data part of the normalised code is made of table entries and declared middle durations *)
Theorem data_loopT_nominal tol t mids cl0 ds fin :
  data_loopT tol t {| ht_pairs := []; ht_clean := cl0; ht_mids := mids |} ds = Ok fin ->
  exists added, ht_clean fin = added ++ cl0 /\ Forall (nominal t mids) added.
Proof.
  intros H. apply (data_loopT_clean tol t mids ds {| ht_pairs := []; ht_clean := cl0; ht_mids := mids |} fin); [apply incl_refl|exact H].
Qed.
