(* Decoder core: CodeWrapper.__init__ (code_wrapper.py 135-750) for pair tables ("halfbit", class H)
   without middle timings, line by line: period pre-check, lead-in stripping with the merged-mark
   fall-back, lead-out stripping with its merged-space / period fall-backs, the data loop, pair
   completion, symbol lookup, bit expansion, normalised code.  Also used with an empty table for the
   repeat-frame parse of IrProtocolBase.decode. *)
From Coq Require Import ZArith List Bool Lia ZifyBool.
Require Import PyIR.Base.Result PyIR.IW.IW PyIR.Engine.Match PyIR.Engine.Render.
Import ListNotations.
Open Scope Z_scope.

Definition ptable := list (Z * Z).                          (* [[mark, space], ...] *)
Definition vals (t : ptable) : list Z := flat_map (fun p => [fst p; snd p]) t.

(* Python list.pop(p) with a possibly negative index *)
Fixpoint remove_at {A} (n : nat) (l : list A) : list A :=
  match n, l with
  | _, [] => []
  | O, _ :: r => r
  | S m, x :: r => x :: remove_at m r
  end.
Definition py_pop (l : list Z) (p : Z) : option (Z * list Z) :=
  let n := Z.of_nat (length l) in
  let q := if p <? 0 then p + n else p in
  if (q <? 0) || (n <=? q) then None
  else match nth_error l (Z.to_nat q) with
       | Some x => Some (x, remove_at (Z.to_nat q) l)
       | None => None
       end.

Definition PLACEHOLDER : Z := -999999999999.

(* ---- period pre-check (lines 154-162) *)
Definition total_time (code : list Z) : Z := sum_abs (removelast code).

Definition period_precheck (tol : Z) (lead_out code : list Z) : bool :=
  match last_opt lead_out with
  | Some lo_last =>
      if 0 <? lo_last then
        match last_opt code with
        | Some c_last => matchb tol (- (lo_last - total_time code)) c_last
        | None => true                      (* IndexError swallowed by the source *)
        end
      else true
  | None => true
  end.

(* ---- lead-in (lines 238-272, halfbit branch, no middle timings) *)
Fixpoint lead_in_loop (tol : Z) (t : ptable) (li code cleaned : list Z) : result (list Z * list Z) :=
  match li with
  | [] => Ok (code, cleaned)
  | e :: r =>
      match code with
      | [] => IRErr LeadInError
      | b :: code' =>
          if matchb tol b e then lead_in_loop tol t r code' (cleaned ++ [e])
          else match find (fun m => matchb tol b (e + m)) (map fst t) with
               | Some m => lead_in_loop tol t r (m :: code') (cleaned ++ [e])
               | None => IRErr LeadInError
               end
      end
  end.

(* ---- lead-out (lines 274-334) *)
Record lo_state := { lo_code : list Z; lo_clean : list (option Z); lo_half : list Z }.

Definition lead_out_step (tol tt : Z) (t : ptable) (L i e : Z) (st : lo_state) : result lo_state :=
  match py_pop (lo_code st) (Z.of_nat (length (lo_code st)) - (L - i)) with
  | None => IRErr LeadOutError
  | Some (b, code') =>
      if matchb tol b e then Ok {| lo_code := code'; lo_clean := lo_clean st ++ [Some e]; lo_half := lo_half st |}
      else
        match find (fun s => ((L mod 2 =? 0) && (i =? 0) && matchb tol (b - s) e)
                             || ((i + 1 =? L) && (s <? 0) && matchb tol (b + s) e)) (map snd t) with
        | Some s => Ok {| lo_code := code'; lo_clean := lo_clean st ++ [Some e]; lo_half := lo_half st ++ [s] |}
        | None =>
            if (i + 1 =? L) && matchb tol e (tt + Z.abs b) then
              Ok {| lo_code := code'; lo_clean := lo_clean st ++ [None]; lo_half := lo_half st |}
            else match lo_clean st with
                 | [] =>
                     match find (fun s => (((e <? 0) && (s <? 0)) || ((0 <? e) && (0 <? s))) && matchb tol e (b - s))
                                (map snd t) with
                     | Some s => Ok {| lo_code := code'; lo_clean := [Some e]; lo_half := lo_half st ++ [s] |}
                     | None => IRErr LeadOutError
                     end
                 | _ => IRErr LeadOutError
                 end
        end
  end.

Fixpoint lead_out_loop (tol tt : Z) (t : ptable) (L i : Z) (lo : list Z) (st : lo_state) : result lo_state :=
  match lo with
  | [] => Ok st
  | e :: r =>
      if e =? PLACEHOLDER then Ok st
      else do st' <- lead_out_step tol tt t L i e st; lead_out_loop tol tt t L (i + 1) r st'
  end.

(* ---- data loop (lines 656-676 with _check_middles a no-op): pairs kept in reverse, each a list of 1 or 2 *)
Definition push (pairs : list (list Z)) (e : Z) : list (list Z) :=
  match pairs with
  | [x] :: r => [x; e] :: r
  | _ => [e] :: pairs
  end.

Fixpoint data_loop (tol : Z) (t : ptable) (pairs : list (list Z)) (cleaned_rev : list Z) (ds : list Z)
  : result (list (list Z) * list Z) :=
  match ds with
  | [] => Ok (pairs, cleaned_rev)
  | d :: r => match first_match tol d (vals t) with
              | Some e => data_loop tol t (push pairs e) (e :: cleaned_rev) r
              | None => IRErr IRStreamError
              end
  end.

(* ---- pair completion and symbol lookup (lines 678-707) *)
Definition pair_eqb (a b : Z * Z) := (fst a =? fst b) && (snd a =? snd b).
Fixpoint index_of (t : ptable) (p : Z * Z) (i : nat) : option nat :=
  match t with [] => None | q :: r => if pair_eqb q p then Some i else index_of r p (S i) end.

(* pairs in stream order; returns symbol indices and the completion space appended to cleaned_code (if any) *)
Fixpoint to_syms (t : ptable) (pairs : list (list Z)) : result (list nat * list Z) :=
  match pairs with
  | [] => Ok ([], [])
  | [m; s] :: r =>
      match index_of t (m, s) 0 with
      | Some i => do (l, extra) <- to_syms t r; Ok (i :: l, extra)
      | None => IRErr IRStreamError
      end
  | [m] :: [] =>
      match find (fun p => fst p =? m) t with
      | Some p => match index_of t (m, snd p) 0 with
                  | Some i => Ok ([i], [snd p])
                  | None => IRErr IRStreamError
                  end
      | None => IRErr IRStreamError
      end
  | _ => IRErr IRStreamError
  end.

(* ---- normalised code (lines 709-727) *)
Fixpoint has_none_inner (l : list (option Z)) : bool :=
  match l with
  | [] => false
  | [_] => false
  | None :: _ => true
  | Some _ :: r => has_none_inner r
  end.
Fixpoint somes (l : list (option Z)) : list Z :=
  match l with [] => [] | Some x :: r => x :: somes r | None :: r => somes r end.

Definition finish_cleaned (lead_out : list Z) (cleaned : list (option Z)) : result (list Z) :=
  match cleaned with
  | [] => IRErr IRStreamError
  | _ =>
      if has_none_inner cleaned then PyErr TypeError     (* abs(None) / comparison with None *)
      else match last cleaned (Some 0) with
           | None =>
               let body := somes (removelast cleaned) in
               match last_opt lead_out with
               | Some lo_last => Ok (compress (body ++ [- lo_last + sum_abs body]))
               | None => PyErr IndexError
               end
           | Some _ => Ok (compress (somes cleaned))
           end
  end.

Record parsed := { p_bits : list bool; p_norm : list Z; p_syms : list nat }.

(* CodeWrapper(encoding, lead_in, lead_out, [], bursts, tolerance, code) for a pair table *)
Definition parseH (tol : Z) (lead_in lead_out : list Z) (t : ptable) (code : list Z) : result parsed :=
  if negb (period_precheck tol lead_out code) then IRErr LeadOutError else
  let tt := total_time code in
  do (code1, cleaned1) <- lead_in_loop tol t lead_in code [];
  do st <- lead_out_loop tol tt t (Z.of_nat (length lead_out)) 0 lead_out
             {| lo_code := code1; lo_clean := []; lo_half := [] |};
  do (pairs_rev, cleaned_rev) <- data_loop tol t [] [] (lo_code st ++ lo_half st);
  do (syms, extra) <- to_syms t (rev pairs_rev);
  let cleaned := map Some (cleaned1 ++ rev cleaned_rev ++ extra) ++ lo_clean st in
  do norm <- finish_cleaned lead_out cleaned;
  Ok {| p_bits := flat_map (sym_to_bits (length t)) syms; p_norm := norm; p_syms := syms |}.

(* get_value(start, stop): bits[start : stop + 1] with Python's slice clipping (start, stop >= 0 here) *)
Definition get_value (msb : bool) (bits : list bool) (start stop : Z) : iw :=
  let sl := firstn (Z.to_nat (stop + 1 - start)) (skipn (Z.to_nat start) bits) in
  mk (bits_value msb sl) (Some (stop - start + 1)).
