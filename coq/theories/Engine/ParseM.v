(* Decoder core, Manchester branch: CodeWrapper.__init__ (code_wrapper.py 362-375, 511-568, 707-735) for pair tables in
   which one entry is the swap of its predecessor ("manchester" stream encoding) and no middle timings are declared.
   Lead-in, lead-out, pair completion, symbol lookup and the normalised code are the code shared with the "halfbit"
   branch (Engine/Parse.v); only the data loop differs: every burst is one half (mark or space of the FIRST table entry)
   or two merged halves (2 * mark, 2 * space); the halves are then grouped two by two.
   Not modelled: the branch for a lead-in that ends in the -999999999999 placeholder (no protocol declares one); the
   model is only used for lead-ins without placeholder (decidable, part of every descriptor check). *)
From Coq Require Import ZArith List Bool Lia ZifyBool.
Require Import PyIR.Base.Result PyIR.IW.IW PyIR.Engine.Match PyIR.Engine.Render PyIR.Engine.Parse.
Import ListNotations.
Open Scope Z_scope.

(* stream-encoding classification (lines 168-184) for a table of pairs *)
Fixpoint has_swap (last : Z * Z) (r : ptable) : bool :=
  match r with
  | [] => false
  | p :: r' => ((fst p =? snd last) && (snd p =? fst last)) || has_swap p r'
  end.
Definition is_manchester (t : ptable) : bool :=
  match t with [] => false | p :: r => has_swap p r end.

(* data loop (lines 366-375 and 511-519 with no middle timings): halves in reverse order *)
Fixpoint man_loop (tol m s : Z) (acc : list Z) (ds : list Z) : result (list Z) :=
  match ds with
  | [] => Ok acc
  | d :: r =>
      if matchb tol d m then man_loop tol m s (m :: acc) r
      else if matchb tol d s then man_loop tol m s (s :: acc) r
      else if matchb tol d (m * 2) then man_loop tol m s (m :: m :: acc) r
      else if matchb tol d (s * 2) then man_loop tol m s (s :: s :: acc) r
      else IRErr IRStreamError
  end.

(* lines 555-566 *)
Fixpoint group2 (l : list Z) : list (list Z) :=
  match l with
  | a :: b :: r => [a; b] :: group2 r
  | [a] => [[a]]
  | [] => []
  end.

Definition parseM (tol : Z) (lead_in lead_out : list Z) (t : ptable) (code : list Z) : result parsed :=
  match t with
  | [] => IRErr IRStreamError
  | (m, s) :: _ =>
      if negb (period_precheck tol lead_out code) then IRErr LeadOutError else
      let tt := total_time code in
      do (code1, cleaned1) <- lead_in_loop tol t lead_in code [];
      do st <- lead_out_loop tol tt t (Z.of_nat (length lead_out)) 0 lead_out
                 {| lo_code := code1; lo_clean := []; lo_half := [] |};
      do halves_rev <- man_loop tol m s [] (lo_code st ++ lo_half st);
      do (syms, extra) <- to_syms t (group2 (rev halves_rev));
      let cleaned := map Some (cleaned1 ++ rev halves_rev ++ extra) ++ lo_clean st in
      do norm <- finish_cleaned lead_out cleaned;
      Ok {| p_bits := flat_map (sym_to_bits (length t)) syms; p_norm := norm; p_syms := syms |}
  end.

(* CodeWrapper for any pair table without middle timings *)
Definition parseC (tol : Z) (lead_in lead_out : list Z) (t : ptable) (code : list Z) : result parsed :=
  if is_manchester t then parseM tol lead_in lead_out t code else parseH tol lead_in lead_out t code.
