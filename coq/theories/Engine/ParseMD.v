(* Decoder core, Manchester branch WITH one positional middle-timing entry (code_wrapper.py 362-426, 511-568): the form the RC6
   family declares - {'start': a, 'stop': b, 'bursts': [[tm, ts], ...]} - double-width halves (the RC6 toggle bit) that are
   legal only while the number of completed pairs lies in [start-1, stop-1].  Everything around the data loop is the code
   shared with the other branches (Engine/Parse.v).  After the loop, pairs found in the entry's own table are mapped to the
   protocol's table entry of the same index (lines 546-566). *)
From Coq Require Import ZArith List Bool Lia ZifyBool.
Require Import PyIR.Base.Result PyIR.IW.IW PyIR.Engine.Match PyIR.Engine.Render PyIR.Engine.Parse PyIR.Engine.ParseM.
Import ListNotations.
Open Scope Z_scope.

Record mdict := { md_start : Z; md_stop : Z; md_bursts : ptable }.

Definition last_is (acc : list Z) (x : Z) : option bool :=        (* pairs[-1] == x ; None = IndexError *)
  match acc with [] => None | y :: _ => Some (y =? x) end.

(* one burst against the positional entry (lines 377-425); acc = halves read so far, newest first.
   Some (Some l) = matched, l = halves to append (in stream order); Some None = entry does not apply / nothing matched;
   None = IndexError (pairs[-1] on an empty list), which the enclosing try turns into IRStreamError *)
Definition dict_step (tol m s : Z) (d : mdict) (acc : list Z) (b : Z) : option (option (list Z)) :=
  let n := Z.of_nat (length acc) / 2 in
  if (n <? md_start d - 1) || (md_stop d - 1 <? n) then Some None else
  match md_bursts d with
  | [] => None                                            (* timing['bursts'][0] : IndexError *)
  | (tm, ts) :: _ =>
      if matchb tol b tm then Some (Some [tm])
      else if matchb tol b ts then Some (Some [ts])
      else if matchb tol b (tm * 2) then Some (Some [tm; tm])
      else if matchb tol b (ts * 2) then Some (Some [ts; ts])
      else
        let after_e :=
          if matchb tol b (s + ts) then
            match last_is acc m with
            | None => None
            | Some true => Some (Some [s; ts])
            | Some false =>
                match last_is acc tm with
                | None => None
                | Some true => Some (Some [ts; s])
                | Some false => Some None
                end
            end
          else Some None in
        if matchb tol b (m + tm) then
          match last_is acc s with
          | None => None
          | Some true => Some (Some [m; tm])
          | Some false =>
              match last_is acc ts with
              | None => None
              | Some true => Some (Some [tm; m])
              | Some false => after_e
              end
          end
        else after_e
  end.

Fixpoint man_loopD (tol m s : Z) (d : mdict) (acc : list Z) (ds : list Z) : result (list Z) :=
  match ds with
  | [] => Ok acc
  | b :: r =>
      if matchb tol b m then man_loopD tol m s d (m :: acc) r
      else if matchb tol b s then man_loopD tol m s d (s :: acc) r
      else match dict_step tol m s d acc b with
           | None => IRErr IRStreamError
           | Some (Some l) => man_loopD tol m s d (rev l ++ acc) r
           | Some None =>
               if matchb tol b (m * 2) then man_loopD tol m s d (m :: m :: acc) r
               else if matchb tol b (s * 2) then man_loopD tol m s d (s :: s :: acc) r
               else IRErr IRStreamError
           end
  end.

(* lines 555-566: pairs of the entry's own table are replaced by the protocol's entry of the same index *)
Definition map_pair (t extra : ptable) (p : list Z) : result (list Z) :=
  match p with
  | [a; b] =>
      match index_of extra (a, b) 0 with
      | Some i => match nth_error t i with
                  | Some (m, s) => Ok [m; s]
                  | None => PyErr IndexError
                  end
      | None => Ok p
      end
  | _ => Ok p
  end.
Fixpoint map_pairs (t extra : ptable) (ps : list (list Z)) : result (list (list Z)) :=
  match ps with
  | [] => Ok []
  | p :: r => do q <- map_pair t extra p; do qs <- map_pairs t extra r; Ok (q :: qs)
  end.

Definition parseMD (tol : Z) (lead_in lead_out : list Z) (t : ptable) (d : mdict) (code : list Z) : result parsed :=
  match t with
  | [] => IRErr IRStreamError
  | (m, s) :: _ =>
      if negb (period_precheck tol lead_out code) then IRErr LeadOutError else
      let tt := total_time code in
      do (code1, cleaned1) <- lead_in_loop tol t lead_in code [];
      do st <- lead_out_loop tol tt t (Z.of_nat (length lead_out)) 0 lead_out
                 {| lo_code := code1; lo_clean := []; lo_half := [] |};
      do halves_rev <- man_loopD tol m s d [] (lo_code st ++ lo_half st);
      do pairs <- map_pairs t (md_bursts d) (group2 (rev halves_rev));
      do (syms, extra) <- to_syms t pairs;
      let cleaned := map Some (cleaned1 ++ rev halves_rev ++ extra) ++ lo_clean st in
      do norm <- finish_cleaned lead_out cleaned;
      Ok {| p_bits := flat_map (sym_to_bits (length t)) syms; p_norm := norm; p_syms := syms |}
  end.

Definition run_parseMD (c : Z * list Z * list Z * list (Z * Z) * (Z * Z * list (Z * Z)) * list Z) : list Z :=
  let '(tol, li, lo, t, (a, b, mb), code) := c in
  enc_result (fun p => Z.of_nat (length (p_bits p)) :: map (fun x : bool => if x then 1 else 0) (p_bits p) ++ p_norm p)
             (parseMD tol li lo t {| md_start := a; md_stop := b; md_bursts := mb |} code).
