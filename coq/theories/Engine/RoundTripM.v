(* Manchester round trip: parsing a rendered frame of a two-entry swap table [(m, s); (s, m)] - exact or with every duration
   perturbed by up to a quarter of the tolerance - returns the rendered symbols.  The renderer merges equal neighbouring
   halves (and the last lead-in element with the first half, the last half with the gap); the parser splits them again. *)
From Coq Require Import ZArith List Bool Lia ZifyBool.
Require Import PyIR.Base.Result PyIR.IW.IW PyIR.Engine.Match PyIR.Engine.Render PyIR.Engine.RenderProps
               PyIR.Engine.Parse PyIR.Engine.ParseProps PyIR.Engine.RoundTripH PyIR.Engine.ParseM.
Import ListNotations.
Open Scope Z_scope.

(* ------------------------------------------------------------------ windows that cannot meet / that contain *)
Definition never_match (tol a b : Z) : bool := (qhi tol a <? wlo tol b) || (whi tol b <? qlo tol a).
Lemma never_match_sound tol a b v : 0 <= tol -> never_match tol a b = true -> close tol v a -> matchb tol v b = false.
Proof.
  intros Ht H Hc. destruct (matchb tol v b) eqn:M; [|reflexivity]. exfalso.
  apply close_bounds in Hc; [|exact Ht]. destruct (match_bounds _ _ _ M) as [Hw _].
  unfold never_match in H. lia.
Qed.

Definition always_match (tol a b : Z) : bool :=
  (wlo tol b <=? qlo tol a) && (qhi tol a <=? whi tol b) && (((a <? 0) && (b <? 0)) || ((0 <? a) && (0 <? b))).
Lemma always_match_sound tol a b v : 0 <= tol <= 100 -> always_match tol a b = true -> close tol v a -> matchb tol v b = true.
Proof.
  intros Ht H Hc. assert (a <> 0) as Ha by (unfold always_match in H; lia).
  destruct (close_sign tol v a Ht Ha Hc) as [Hp Hn].
  apply close_bounds in Hc; [|lia]. unfold always_match in H. unfold matchb, wlo, whi in *.
  destruct (b <? 0) eqn:E1; destruct (v <? 0) eqn:E2; destruct (0 <? b) eqn:E3; destruct (0 <? v) eqn:E4; cbn [andb orb]; lia.
Qed.

Definition mt (m s : Z) : ptable := [(m, s); (s, m)].
Lemma sym_cases m s i : (i < 2)%nat -> sym (mt m s) i = [m; s] \/ sym (mt m s) i = [s; m].
Proof. intros Hi. destruct i as [|[|i]]; [left|right|lia]; reflexivity. Qed.
(* first symbol split off *)
Lemma render_cons m s i syms : m * s < 0 -> (i < 2)%nat -> exists h1 h2, (h1 = m \/ h1 = s) /\ (h2 = m \/ h2 = s) /\ h1 * h2 < 0 /\
  render_data (mt m s) (i :: syms) = h1 :: h2 :: render_data (mt m s) syms.
Proof.
  intros Hms Hi. unfold render_data. cbn [flat_map]. destruct (sym_cases m s i Hi) as [-> | ->].
  - exists m, s. repeat split; auto.
  - exists s, m. repeat split; auto. lia.
Qed.

Section Man.
  Variables (tol m s : Z).
  Hypothesis Ht : 0 <= tol <= 100.
  Hypothesis Hms : m * s < 0.

  Definition man_table_ok : bool :=
    never_match tol s m && never_match tol (m * 2) m && never_match tol (m * 2) s &&
    never_match tol (s * 2) m && never_match tol (s * 2) s && never_match tol (s * 2) (m * 2).
  Hypothesis Hok : man_table_ok = true.

  Let Ht0 : 0 <= tol. Proof. lia. Qed.
  Let Hm0 : m <> 0. Proof. intros ->. lia. Qed.
  Let Hs0 : s <> 0. Proof. intros ->. lia. Qed.
  Let Hm2 : m * 2 <> 0. Proof. lia. Qed.
  Let Hk : never_match tol s m = true /\ never_match tol (m * 2) m = true /\ never_match tol (m * 2) s = true /\
           never_match tol (s * 2) m = true /\ never_match tol (s * 2) s = true /\ never_match tol (s * 2) (m * 2) = true.
  Proof. unfold man_table_ok in Hok. repeat (apply andb_true_iff in Hok as [Hok ?]). repeat split; assumption. Qed.
  Let Hs2 : s * 2 <> 0. Proof. lia. Qed.

  Lemma step_m v acc r : close tol v m -> man_loop tol m s acc (v :: r) = man_loop tol m s (m :: acc) r.
  Proof. intros Hc. cbn [man_loop]. rewrite (close_match tol v m Ht Hm0 Hc). reflexivity. Qed.
  Lemma step_s v acc r : close tol v s -> man_loop tol m s acc (v :: r) = man_loop tol m s (s :: acc) r.
  Proof.
    intros Hc. cbn [man_loop]. destruct Hk as [K1 [K2 [K3 [K4 [K5 K6]]]]].
    rewrite (never_match_sound tol s m v Ht0 K1 Hc). rewrite (close_match tol v s Ht Hs0 Hc). reflexivity.
  Qed.
  Lemma step_mm v acc r : close tol v (m * 2) -> man_loop tol m s acc (v :: r) = man_loop tol m s (m :: m :: acc) r.
  Proof.
    intros Hc. cbn [man_loop]. destruct Hk as [K1 [K2 [K3 [K4 [K5 K6]]]]].
    rewrite (never_match_sound tol (m * 2) m v Ht0 K2 Hc). rewrite (never_match_sound tol (m * 2) s v Ht0 K3 Hc).
    rewrite (close_match tol v (m * 2) Ht Hm2 Hc). reflexivity.
  Qed.
  Lemma step_ss v acc r : close tol v (s * 2) -> man_loop tol m s acc (v :: r) = man_loop tol m s (s :: s :: acc) r.
  Proof.
    intros Hc. cbn [man_loop]. destruct Hk as [K1 [K2 [K3 [K4 [K5 K6]]]]].
    rewrite (never_match_sound tol (s * 2) m v Ht0 K4 Hc). rewrite (never_match_sound tol (s * 2) s v Ht0 K5 Hc).
    rewrite (never_match_sound tol (s * 2) (m * 2) v Ht0 K6 Hc).
    rewrite (close_match tol v (s * 2) Ht Hs2 Hc). reflexivity.
  Qed.

  (* halves: a list over {m, s} in which, after a run of [x] of length 1 (dbl = false) or 2 (dbl = true), no run exceeds 2 *)
  Fixpoint ok_runs (x : Z) (dbl : bool) (hs : list Z) : Prop :=
    match hs with
    | [] => True
    | h :: r => (h = x /\ dbl = false /\ ok_runs x true r) \/ (h <> x /\ (h = m \/ h = s) /\ ok_runs h false r)
    end.

  Definition cur_of (x : Z) (dbl : bool) : Z := if dbl then x * 2 else x.
  Definition reps (x : Z) (dbl : bool) : list Z := if dbl then [x; x] else [x].

  Lemma step_cur x dbl v acc r : (x = m \/ x = s) -> close tol v (cur_of x dbl) ->
    man_loop tol m s acc (v :: r) = man_loop tol m s (reps x dbl ++ acc) r.
  Proof.
    intros [->| ->] Hc; destruct dbl; cbn [cur_of reps app] in *;
      [apply step_mm|apply step_m|apply step_ss|apply step_s]; exact Hc.
  Qed.

  Lemma man_loop_comp : forall hs x dbl acc ds,
    (x = m \/ x = s) -> ok_runs x dbl hs ->
    Forall2 (close tol) ds (comp (cur_of x dbl) hs) ->
    man_loop tol m s acc ds = Ok (rev hs ++ reps x dbl ++ acc).
  Proof.
    induction hs as [|h r IH]; intros x dbl acc ds Hx Hr Hc.
    - cbn [comp] in Hc. inversion Hc as [|d ? ? ? Hd Hn]; subst. inversion Hn; subst.
      rewrite (step_cur x dbl d acc [] Hx Hd). reflexivity.
    - cbn [ok_runs] in Hr. rewrite comp_cons in Hc. destruct Hr as [[-> [-> Hr]]|[Hne [Hh Hr]]].
      + cbn [cur_of] in Hc. replace (same_sign x x) with true in Hc
          by (symmetry; apply same_sign_true; destruct Hx; subst; nia).
        replace (x + x) with (cur_of x true) in Hc by (cbn; lia).
        rewrite (IH x true acc ds Hx Hr Hc). cbn [rev reps app]. rewrite <- app_assoc. reflexivity.
      + assert (cur_of x dbl * h < 0) as Hopp by (destruct Hx, Hh, dbl; subst; cbn [cur_of]; nia).
        rewrite same_sign_false in Hc by exact Hopp.
        inversion Hc as [|d ? ds' ? Hd Hc']; subst.
        rewrite (step_cur x dbl d acc ds' Hx Hd).
        rewrite (IH h false (reps x dbl ++ acc) ds' Hh Hr Hc'). cbn [rev reps app]. rewrite <- app_assoc. reflexivity.
  Qed.

  (* ---------------------------------------------------------------- the halves of rendered symbols *)
  Let Hne : m <> s. Proof. intros E. rewrite E in Hms. nia. Qed.

  Lemma ok_runs_pairs : forall syms y tl, (y = m \/ y = s) -> Forall (fun i => (i < 2)%nat) syms ->
    (tl = [] \/ tl = [m] \/ tl = [s]) -> ok_runs y false (render_data (mt m s) syms ++ tl).
  Proof.
    induction syms as [|i syms IH]; intros y tl Hy Hs Htl.
    - cbn [render_data flat_map app]. destruct Htl as [-> | [-> | ->]]; cbn [ok_runs]; [exact I| |];
        destruct Hy as [-> | ->]; first [left; repeat split; reflexivity | right; repeat split; auto; congruence].
    - inversion Hs as [|? ? Hi Hs']; subst. unfold render_data. cbn [flat_map]. fold (render_data (mt m s) syms).
      rewrite <- app_assoc.
      destruct (sym_cases m s i Hi) as [-> | ->]; cbn [app ok_runs]; destruct Hy as [-> | ->].
      all: first [ left; split; [reflexivity|]; split; [reflexivity|]; right; split; [congruence|]; split; [auto|]; apply IH; auto
                 | right; split; [congruence|]; split; [auto|]; right; split; [congruence|]; split; [auto|]; apply IH; auto ].
  Qed.

  Lemma man_loop_halves i syms tl ds : (i < 2)%nat -> Forall (fun i => (i < 2)%nat) syms ->
    (tl = [] \/ tl = [m] \/ tl = [s]) ->
    Forall2 (close tol) ds (compress (render_data (mt m s) (i :: syms) ++ tl)) ->
    man_loop tol m s [] ds = Ok (rev (render_data (mt m s) (i :: syms) ++ tl)).
  Proof.
    intros Hi Hs Htl Hc. destruct (render_cons m s i syms Hms Hi) as [h1 [h2 [H1 [H2 [Hopp E]]]]]. rewrite E in *.
    cbn [app compress] in Hc.
    rewrite (man_loop_comp (h2 :: render_data (mt m s) syms ++ tl) h1 false [] ds H1); [| |exact Hc].
    - cbn [reps app rev]. reflexivity.
    - cbn [ok_runs]. right. split; [intros ->; nia|]. split; [exact H2|]. apply ok_runs_pairs; auto.
  Qed.
End Man.

(* ------------------------------------------------------------------ splitting a run-compression at a change of sign *)
Lemma comp_split : forall A c u w B, u * w < 0 -> comp c (A ++ u :: w :: B) = comp c (A ++ [u]) ++ comp w B.
Proof.
  induction A as [|a A IH]; intros c u w B Huw.
  - cbn [app]. rewrite (comp_cons c u (w :: B)), (comp_cons c u []). destruct (same_sign c u) eqn:E.
    + apply same_sign_true in E. rewrite (comp_cons (c + u) w B). rewrite same_sign_false by nia. reflexivity.
    + rewrite (comp_cons u w B). rewrite same_sign_false by exact Huw. reflexivity.
  - cbn [app]. rewrite (comp_cons c a (A ++ u :: w :: B)), (comp_cons c a (A ++ [u])).
    destruct (same_sign c a); [apply IH; exact Huw|].
    rewrite IH by exact Huw. reflexivity.
Qed.

Lemma compress_split A u w B : u * w < 0 -> compress (A ++ u :: w :: B) = compress (A ++ [u]) ++ comp w B.
Proof.
  intros Huw. destruct A as [|a A].
  - cbn [app compress]. rewrite comp_cons. rewrite same_sign_false by exact Huw. reflexivity.
  - cbn [app compress]. apply comp_split. exact Huw.
Qed.

Lemma same_sign_false_opp a b : a <> 0 -> b <> 0 -> same_sign a b = false -> a * b < 0.
Proof. unfold same_sign. intros Ha Hb H. nia. Qed.

(* the period element of a one-element lead-out, for any table *)
Lemma lead_out_period_any tol tt t P g pre :
  0 <= tol <= 100 -> 0 < P -> g < 0 -> tt + Z.abs g = P -> P <> PLACEHOLDER ->
  lead_out_loop tol tt t 1 0 [P] {| lo_code := pre ++ [g]; lo_clean := []; lo_half := [] |}
  = Ok {| lo_code := pre; lo_clean := [None]; lo_half := [] |}.
Proof.
  intros Ht HP Hg Htt Hph. cbn [lead_out_loop]. destruct (P =? PLACEHOLDER) eqn:Ep; [lia|].
  unfold lead_out_step. cbn [lo_code lo_clean lo_half].
  assert (Z.of_nat (length (pre ++ [g])) - (1 - 0) = Z.of_nat (length (pre ++ [g])) - (Z.of_nat (length (@nil Z)) + 1)) as ->
    by (cbn [length]; lia).
  rewrite py_pop_at. rewrite app_nil_r.
  assert (matchb tol g P = false) as -> by (unfold matchb; replace (g <? 0) with true by lia; replace (0 <? P) with true by lia; reflexivity).
  assert (find (fun s => ((1 mod 2 =? 0) && (0 =? 0) && matchb tol (g - s) P)
                         || ((0 + 1 =? 1) && (s <? 0) && matchb tol (g + s) P)) (map snd t) = None) as ->.
  { apply find_none_intro. intros s Hs. cbn [andb orb Z.eqb Z.modulo]. change (1 mod 2 =? 0) with false. cbn [andb orb].
    destruct (s <? 0) eqn:Es; [|reflexivity]. cbn [andb].
    unfold matchb. replace (g + s <? 0) with true by lia. replace (0 <? P) with true by lia. reflexivity. }
  rewrite Htt. rewrite match_exact by exact Ht. cbn [andb bind app Z.add Z.eqb]. reflexivity.
Qed.

Lemma lead_in_step_match tol t e r b code cl : matchb tol b e = true ->
  lead_in_loop tol t (e :: r) (b :: code) cl = lead_in_loop tol t r code (cl ++ [e]).
Proof. intros H. cbn [lead_in_loop]. rewrite H. reflexivity. Qed.

Section Man2.
  Variables (tol m s : Z).
  Hypothesis Ht : 0 <= tol <= 100.
  Hypothesis Hms : m * s < 0.
  Let t := mt m s.
  Let Ht0 : 0 <= tol. Proof. lia. Qed.
  Let Hm0 : m <> 0. Proof. intros ->. lia. Qed.
  Let Hs0 : s <> 0. Proof. intros ->. lia. Qed.

  (* ---------------------------------------------------------------- lead-in: the last element may have absorbed the first half *)
  Definition li_merge_ok (e : Z) : bool :=
    (if same_sign e m then never_match tol (e + m) e else true) &&
    (if same_sign e s then never_match tol (e + s) e && never_match tol (e + s) (e + m) else true).
  Fixpoint li_last_ok (li : list Z) : bool :=
    match li with
    | [] => true
    | [e] => li_merge_ok e
    | _ :: r => li_last_ok r
    end.

  Lemma lead_in_M : forall li cl ds tail h1 h2 rest,
    nonzero li -> alternating li -> li_last_ok li = true ->
    (h1 = m \/ h1 = s) -> h1 * h2 < 0 ->
    Forall2 (close tol) ds (compress (li ++ h1 :: h2 :: rest)) ->
    exists ds', lead_in_loop tol t li (ds ++ tail) cl = Ok (ds' ++ tail, cl ++ li) /\
                Forall2 (close tol) ds' (comp h1 (h2 :: rest)).
  Proof.
    induction li as [|e li IH]; intros cl ds tail h1 h2 rest Hnz Halt Hlast Hh Hopp Hc.
    - exists ds. cbn [lead_in_loop app]. rewrite app_nil_r. split; [reflexivity|exact Hc].
    - inversion Hnz as [|? ? He Hnz']; subst. destruct li as [|e2 li'].
      + (* e is the last lead-in element *)
        cbn [app compress] in Hc. rewrite comp_cons in Hc. cbn [li_last_ok] in Hlast. unfold li_merge_ok in Hlast.
        assert (h1 <> 0) as Hh1 by (destruct Hh; subst; assumption).
        destruct (same_sign e h1) eqn:Ess.
        * rewrite comp_cons in Hc. apply same_sign_true in Ess. rewrite same_sign_false in Hc by nia.
          inversion Hc as [|d ? dr ? Hd Hc']; subst.
          cbn [app lead_in_loop].
          assert (never_match tol (e + h1) e = true /\ (h1 = s -> never_match tol (e + s) (e + m) = true)) as [N1 N2].
          { apply andb_true_iff in Hlast as [L1 L2]. destruct Hh as [-> | ->].
            - replace (same_sign e m) with true in L1 by (symmetry; apply same_sign_true; exact Ess).
              split; [exact L1|intros E; exfalso; rewrite E in Hms; nia].
            - replace (same_sign e s) with true in L2 by (symmetry; apply same_sign_true; exact Ess).
              apply andb_true_iff in L2 as [L2 L3]. split; [exact L2|intros _; exact L3]. }
          rewrite (never_match_sound tol (e + h1) e d Ht0 N1 Hd).
          assert (find (fun m' => matchb tol d (e + m')) (map fst t) = Some h1) as ->.
          { unfold t, mt. cbn [map fst find]. destruct Hh as [-> | ->].
            - rewrite (close_match tol d (e + m) Ht ltac:(lia) Hd). reflexivity.
            - rewrite (never_match_sound tol (e + s) (e + m) d Ht0 (N2 eq_refl) Hd).
              rewrite (close_match tol d (e + s) Ht ltac:(lia) Hd). reflexivity. }
          cbn [lead_in_loop]. exists (h1 :: dr). split; [reflexivity|].
          rewrite comp_cons. rewrite same_sign_false by exact Hopp. constructor; [apply close_refl; exact Ht0|exact Hc'].
        * apply same_sign_false_opp in Ess; [|exact He|exact Hh1].
          inversion Hc as [|d ? dr ? Hd Hc']; subst.
          cbn [app lead_in_loop]. rewrite (close_match tol d e Ht He Hd). cbn [lead_in_loop].
          exists dr. split; [reflexivity|exact Hc'].
      + cbn [alternating] in Halt. destruct Halt as [Hee Halt'].
        cbn [app compress] in Hc. rewrite comp_cons in Hc. rewrite same_sign_false in Hc by exact Hee.
        inversion Hc as [|d ? dr ? Hd Hc']; subst.
        cbn [app]. rewrite (lead_in_step_match tol t e (e2 :: li') d (dr ++ tail) cl (close_match tol d e Ht He Hd)).
        destruct (IH (cl ++ [e]) dr tail h1 h2 rest Hnz' Halt' Hlast Hh Hopp Hc') as [ds' [E1 E2]].
        exists ds'. split; [|exact E2]. rewrite E1. rewrite <- app_assoc. reflexivity.
  Qed.
End Man2.

Section Man3.
  Variables (tol m s : Z).
  Hypothesis Ht : 0 <= tol <= 100.
  Hypothesis Hms : m * s < 0.
  Hypothesis Hok : man_table_ok tol m s = true.
  Let t := mt m s.
  Let Ht0 : 0 <= tol. Proof. lia. Qed.
  Let Hm0 : m <> 0. Proof. intros ->. lia. Qed.
  Let Hs0 : s <> 0. Proof. intros ->. lia. Qed.
  Let Hne : m <> s. Proof. intros E. rewrite E in Hms. nia. Qed.

  Lemma mt_nodup : NoDup t.
  Proof. unfold t, mt. constructor; [intros [E|[]]; inversion E; congruence|]. constructor; [intros []|constructor]. Qed.
  Lemma mt_nodup_fst : NoDup (map fst t).
  Proof. unfold t, mt. cbn [map fst]. constructor; [intros [E|[]]; congruence|]. constructor; [intros []|constructor]. Qed.

  Lemma group2_render : forall syms tl, Forall (fun i => (i < 2)%nat) syms -> (tl = [] \/ exists a, tl = [a]) ->
    group2 (render_data t syms ++ tl) = map (sym t) syms ++ (match tl with [] => [] | _ => [tl] end).
  Proof.
    induction syms as [|i syms IH]; intros tl Hs Htl.
    - cbn [render_data flat_map app map]. destruct Htl as [-> | [a ->]]; reflexivity.
    - inversion Hs as [|? ? Hi Hs']; subst. unfold render_data. cbn [flat_map map]. fold (render_data t syms).
      destruct (sym_cases m s i Hi) as [E | E]; unfold t; rewrite E; cbn [app group2]; f_equal; apply IH; auto.
  Qed.

  Lemma last_sym syms0 j : (j < 2)%nat -> exists a b, nth_error t j = Some (a, b) /\ (a = m \/ a = s) /\ (b = m \/ b = s) /\ a * b < 0 /\
    render_data t (syms0 ++ [j]) = render_data t syms0 ++ [a; b].
  Proof.
    intros Hj. unfold render_data. rewrite flat_map_app. cbn [flat_map]. rewrite app_nil_r.
    destruct j as [|[|j]]; [exists m, s|exists s, m|lia]; (split; [reflexivity|]); repeat split; auto; lia.
  Qed.

  Lemma man_loop_single a d : (a = m \/ a = s) -> close tol d a -> man_loop tol m s [] [d] = Ok [a].
  Proof. intros Ha Hd. rewrite (step_cur tol m s Ht Hms Hok a false d [] [] Ha Hd). reflexivity. Qed.

  (* halves of whole symbols followed by an optional single first half *)
  Lemma man_loop_data syms tl ds : Forall (fun i => (i < 2)%nat) syms -> (tl = [] \/ tl = [m] \/ tl = [s]) ->
    render_data t syms ++ tl <> [] ->
    Forall2 (close tol) ds (compress (render_data t syms ++ tl)) ->
    man_loop tol m s [] ds = Ok (rev (render_data t syms ++ tl)).
  Proof.
    intros Hs Htl Hnn Hc. destruct syms as [|i syms].
    - cbn [render_data flat_map app] in *. destruct Htl as [-> | [-> | ->]]; [congruence| |];
        cbn [compress comp] in Hc; inversion Hc as [|d ? ? ? Hd Hn]; subst; inversion Hn; subst; apply man_loop_single; auto.
    - inversion Hs; subst. apply (man_loop_halves tol m s Ht Hms Hok); auto.
  Qed.

  Definition lo_merge_ok (g : Z) : bool :=
    (if m <? 0 then always_match tol (m + g) g else true) && (if s <? 0 then always_match tol (s + g) g else true).

  Lemma Forall2_app_inv_both {A B} (R : A -> B -> Prop) l a b : Forall2 R l (a ++ b) ->
    exists la lb, l = la ++ lb /\ Forall2 R la a /\ Forall2 R lb b.
  Proof. intros H. apply Forall2_app_inv_r in H as [la [lb [H1 [H2 H3]]]]. exists la, lb. auto. Qed.

  Theorem parseM_render_fixed li g syms ds :
    nonzero li -> alternating li -> li_last_ok tol m s li = true ->
    g < 0 -> g <> PLACEHOLDER -> lo_merge_ok g = true ->
    syms <> [] -> Forall (fun i => (i < 2)%nat) syms ->
    Forall2 (close tol) ds (compress (li ++ render_data t syms ++ [g])) ->
    parseM tol li [g] t ds
    = Ok {| p_bits := bits_of t syms; p_norm := compress (li ++ render_data t syms ++ [g]); p_syms := syms |}.
  Proof.
    intros Hli Hali Hlast Hg Hph Hlo Hsne Hsv Hc.
    destruct (exists_last Hsne) as [syms0 [j Es]]. 
    assert (Forall (fun i => (i < 2)%nat) syms0 /\ (j < 2)%nat) as [Hsv0 Hj].
    { rewrite Es in Hsv. apply Forall_app in Hsv as [H1 H2]. inversion H2; subst. auto. }
    destruct (last_sym syms0 j Hj) as [a [b [Ej [Ha [Hb [Hab Erd]]]]]].
    (* the first two halves *)
    destruct syms as [|i syms1]; [congruence|]. inversion Hsv as [|? ? Hi Hsv1]; subst.
    destruct (render_cons m s i syms1 Hms Hi) as [h1 [h2 [H1 [H2 [Hopp E12]]]]]. fold t in E12.
    unfold parseM, t, mt. fold (mt m s). fold t.
    assert (period_precheck tol [g] ds = true) as ->.
    { unfold period_precheck. change (last_opt [g]) with (Some g). cbv beta iota. replace (0 <? g) with false by lia. reflexivity. }
    cbn [negb].
    assert (li ++ render_data t (i :: syms1) ++ [g] = li ++ h1 :: h2 :: (render_data t syms1 ++ [g])) as Eraw by (rewrite E12; reflexivity).
    rewrite Eraw in Hc.
    destruct (lead_in_M tol m s Ht Hms li [] ds [] h1 h2 (render_data t syms1 ++ [g]) Hli Hali Hlast H1 Hopp Hc) as [ds' [Eli Hc']].
    rewrite !app_nil_r in Eli. fold t in Eli. rewrite Eli. cbn [bind app].
    (* the tail: last half and gap *)
    assert (comp h1 (h2 :: render_data t syms1 ++ [g]) = compress (render_data t (i :: syms1) ++ [g])) as Ecmp by (rewrite E12; reflexivity).
    rewrite Ecmp in Hc'. rewrite Es, Erd in Hc'. rewrite <- app_assoc in Hc'. cbn [app] in Hc'.
    rewrite (compress_split (render_data t syms0) a b [g] Hab) in Hc'.
    destruct (Forall2_app_inv_both _ _ _ _ Hc') as [dA [dT [-> [HcA HcT]]]].
    assert (b <> 0) as Hb0 by (destruct Hb; subst; assumption).
    assert (exists code', lead_out_loop tol (total_time ds) t (Z.of_nat (length [g])) 0 [g]
                             {| lo_code := dA ++ dT; lo_clean := []; lo_half := [] |}
                          = Ok {| lo_code := code'; lo_clean := [Some g]; lo_half := [] |} /\
                          ((b < 0 /\ code' = dA) \/ (0 < b /\ exists dN, code' = dA ++ [dN] /\ close tol dN b))) as [code' [Elo Hcode]].
    { cbn [lead_out_loop length]. replace (g =? PLACEHOLDER) with false by lia. unfold lead_out_step. cbn [lo_code lo_clean lo_half].
      rewrite comp_cons in HcT. destruct (same_sign b g) eqn:Ebg.
      - apply same_sign_true in Ebg. assert (b < 0) as Hbn by lia.
        cbn [comp] in HcT. inversion HcT as [|dg ? ? ? Hdg Hn]; subst. inversion Hn; subst.
        assert (Z.of_nat (length (dA ++ [dg])) - (Z.of_nat 1 - 0) = Z.of_nat (length (dA ++ [dg])) - (Z.of_nat (length (@nil Z)) + 1)) as ->
          by (cbn [length]; lia).
        rewrite py_pop_at. rewrite app_nil_r.
        assert (always_match tol (b + g) g = true) as Ham.
        { unfold lo_merge_ok in Hlo. apply andb_true_iff in Hlo as [L1 L2]. destruct Hb as [-> | ->].
          - replace (m <? 0) with true in L1 by lia. exact L1.
          - replace (s <? 0) with true in L2 by lia. exact L2. }
        rewrite (always_match_sound tol (b + g) g dg Ht Ham Hdg). cbn [bind app].
        exists dA. split; [reflexivity|left; auto].
      - apply same_sign_false_opp in Ebg; [|exact Hb0|lia]. assert (0 < b) as Hbp by nia.
        cbn [comp] in HcT. inversion HcT as [|dN ? dr ? HdN Hn]; subst. inversion Hn as [|dg ? ? ? Hdg Hn']; subst. inversion Hn'; subst.
        replace (dA ++ [dN; dg]) with ((dA ++ [dN]) ++ [dg]) by (rewrite <- app_assoc; reflexivity).
        assert (Z.of_nat (length ((dA ++ [dN]) ++ [dg])) - (Z.of_nat 1 - 0)
                = Z.of_nat (length ((dA ++ [dN]) ++ [dg])) - (Z.of_nat (length (@nil Z)) + 1)) as -> by (cbn [length]; lia).
        rewrite py_pop_at. rewrite app_nil_r.
        rewrite (close_match tol dg g Ht ltac:(lia) Hdg). cbn [bind app].
        exists (dA ++ [dN]). split; [reflexivity|right; split; [exact Hbp|exists dN; auto]]. }
    rewrite Elo. cbn [bind lo_code lo_half lo_clean]. rewrite app_nil_r.
    assert (bits_of t (i :: syms1) = flat_map (sym_to_bits (length t)) (i :: syms1)) as Ebits by reflexivity.
    destruct Hcode as [[Hbn ->]|[Hbp [dN [-> HdN]]]].
    - (* the last half went into the gap: the parser completes the last pair *)
      assert (Forall2 (close tol) dA (compress (render_data t syms0 ++ [a]))) as HcA' by exact HcA.
      assert ([a] = [] \/ [a] = [m] \/ [a] = [s]) as Htl by (destruct Ha; subst; auto).
      assert (render_data t syms0 ++ [a] <> []) as Hnn by (destruct (render_data t syms0); discriminate).
      rewrite (man_loop_data syms0 [a] dA Hsv0 Htl Hnn HcA').
      cbn [bind]. rewrite rev_involutive.
      rewrite (group2_render syms0 [a] Hsv0) by (right; eexists; reflexivity).
      rewrite (to_syms_map_single t mt_nodup mt_nodup_fst syms0 j a b) by (auto; unfold t, mt; cbn [length]; exact Hsv0).
      cbn [bind]. rewrite <- Es.
      replace (map Some (li ++ (render_data t syms0 ++ [a]) ++ [b]) ++ [Some g]) with (map Some (li ++ render_data t (i :: syms1) ++ [g])).
      2:{ rewrite Es, Erd. rewrite !map_app. cbn [map]. rewrite <- !app_assoc. reflexivity. }
      rewrite finish_cleaned_somes by (destruct li; [rewrite E12|]; discriminate).
      cbn [bind]. reflexivity.
    - assert (Forall2 (close tol) (dA ++ [dN]) (compress (render_data t (syms0 ++ [j]) ++ []))) as HcA'.
      { rewrite app_nil_r, Erd. rewrite (compress_split (render_data t syms0) a b [] Hab). cbn [comp].
        apply Forall2_app; [exact HcA|constructor; [exact HdN|constructor]]. }
      assert (Forall (fun i => (i < 2)%nat) (syms0 ++ [j])) as Hsvj by (apply Forall_app; split; [exact Hsv0|constructor; [exact Hj|constructor]]).
      assert (@nil Z = [] \/ @nil Z = [m] \/ @nil Z = [s]) as Htl by auto.
      assert (render_data t (syms0 ++ [j]) ++ [] <> []) as Hnn by (rewrite app_nil_r, Erd; destruct (render_data t syms0); discriminate).
      rewrite (man_loop_data (syms0 ++ [j]) [] (dA ++ [dN]) Hsvj Htl Hnn HcA').
      cbn [bind]. rewrite rev_involutive.
      rewrite (group2_render (syms0 ++ [j]) [] Hsvj) by (left; reflexivity). rewrite !app_nil_r.
      rewrite (to_syms_map t mt_nodup (syms0 ++ [j])) by (unfold t, mt; cbn [length]; exact Hsvj).
      cbn [bind]. rewrite <- Es. rewrite app_nil_r.
      replace (map Some (li ++ render_data t (i :: syms1)) ++ [Some g]) with (map Some (li ++ render_data t (i :: syms1) ++ [g])) by (rewrite !map_app; rewrite <- app_assoc; reflexivity).
      rewrite finish_cleaned_somes by (destruct li; [rewrite E12|]; discriminate).
      cbn [bind]. reflexivity.
  Qed.

  (* ---------------------------------------------------------------- the frame period is the whole lead-out *)
  Lemma removelast_app_ne {A} (x y : list A) : y <> [] -> removelast (x ++ y) = x ++ removelast y.
  Proof. intros H. apply removelast_app. exact H. Qed.

  Theorem parseM_render_period_only li P syms dbody :
    nonzero li -> alternating li -> li_last_ok tol m s li = true ->
    0 < P -> P <> PLACEHOLDER ->
    (2 <= length syms)%nat -> Forall (fun i => (i < 2)%nat) syms ->
    let body := li ++ render_data t syms in
    let gap := sum_abs body - P in
    gap < 0 ->
    Forall2 (close tol) dbody (removelast (compress (body ++ [gap]))) ->
    0 < P - sum_abs dbody ->
    parseM tol li [P] t (dbody ++ [- (P - sum_abs dbody)])
    = Ok {| p_bits := bits_of t syms; p_norm := compress (body ++ [gap]); p_syms := syms |}.
  Proof.
    intros Hli Hali Hlast HP Hph Hlen Hsv body gap Hgap Hc Hpos.
    set (gl := - (P - sum_abs dbody)).
    assert (syms <> []) as Hsne by (destruct syms; [cbn in Hlen; lia|discriminate]).
    destruct (exists_last Hsne) as [syms0 [j Es]].
    assert (Forall (fun i => (i < 2)%nat) syms0 /\ (j < 2)%nat) as [Hsv0 Hj].
    { rewrite Es in Hsv. apply Forall_app in Hsv as [H1 H2]. inversion H2; subst. auto. }
    destruct (last_sym syms0 j Hj) as [a [b [Ej [Ha [Hb [Hab Erd]]]]]].
    assert (b <> 0) as Hb0 by (destruct Hb; subst; assumption).
    destruct syms as [|i syms1]; [congruence|]. inversion Hsv as [|? ? Hi Hsv1]; subst.
    destruct (render_cons m s i syms1 Hms Hi) as [h1 [h2 [H1 [H2 [Hopp E12]]]]]. fold t in E12.
    (* syms0 is not empty *)
    destruct syms0 as [|i0 syms00]; [cbn [app] in Es; inversion Es; subst; cbn in Hlen; lia|].
    assert (i0 = i /\ syms1 = syms00 ++ [j]) as [-> Es1] by (cbn [app] in Es; inversion Es; auto).
    inversion Hsv0 as [|? ? _ Hsv00]; subst.
    destruct (render_cons m s i syms00 Hms Hi) as [g1 [g2 [G1 [G2 [Gopp E012]]]]]. fold t in E012.
    (* shape of the frame without its last element *)
    assert (removelast (compress (body ++ [gap]))
            = compress (li ++ render_data t (i :: syms00) ++ [a]) ++ (if same_sign b gap then [] else [b])) as Erl.
    { unfold body. rewrite Es, Erd. rewrite <- !app_assoc. cbn [app].
      replace (li ++ render_data t (i :: syms00) ++ a :: b :: [gap]) with ((li ++ render_data t (i :: syms00)) ++ a :: b :: [gap])
        by (rewrite <- app_assoc; reflexivity).
      rewrite (compress_split _ a b [gap] Hab). rewrite <- app_assoc.
      rewrite removelast_app_ne by apply comp_nonempty.
      f_equal. rewrite comp_cons. destruct (same_sign b gap); reflexivity. }
    unfold parseM, t, mt. fold (mt m s). fold t.
    assert (total_time (dbody ++ [gl]) = sum_abs dbody) as Htt by (unfold total_time; rewrite List.removelast_last; reflexivity).
    assert (period_precheck tol [P] (dbody ++ [gl]) = true) as ->.
    { unfold period_precheck. change (last_opt [P]) with (Some P). cbv beta iota. replace (0 <? P) with true by lia.
      rewrite last_opt_app_single. rewrite Htt. fold gl. apply match_exact. exact Ht. }
    cbn [negb]. rewrite Htt.
    rewrite Erl in Hc.
    (* data seen by the loop: all halves, or all but the last one *)
    set (X := render_data t (i :: syms00) ++ [a] ++ (if same_sign b gap then [] else [b])).
    assert (Forall2 (close tol) dbody (compress (li ++ X))) as HcX.
    { unfold X. destruct (same_sign b gap) eqn:Ebg.
      - rewrite !app_nil_r in *. exact Hc.
      - apply same_sign_false_opp in Ebg; [|exact Hb0|lia].
        replace (li ++ render_data t (i :: syms00) ++ [a] ++ [b]) with ((li ++ render_data t (i :: syms00)) ++ a :: b :: [])
          by (rewrite <- app_assoc; reflexivity).
        rewrite (compress_split _ a b [] Hab). cbn [comp]. rewrite <- app_assoc. exact Hc. }
    assert (li ++ X = li ++ g1 :: g2 :: (render_data t syms00 ++ [a] ++ (if same_sign b gap then [] else [b]))) as EX
      by (unfold X; rewrite E012; reflexivity).
    rewrite EX in HcX.
    destruct (lead_in_M tol m s Ht Hms li [] dbody [gl] g1 g2 _ Hli Hali Hlast G1 Gopp HcX) as [ds' [Eli Hc']].
    fold t in Eli. rewrite Eli. cbn [bind app].
    change (Z.of_nat (length [P])) with 1.
    rewrite (lead_out_period_any tol (sum_abs dbody) t P gl ds' Ht HP ltac:(unfold gl; lia) ltac:(unfold gl; lia) Hph).
    cbn [bind lo_code lo_half lo_clean]. rewrite app_nil_r.
    assert (comp g1 (g2 :: render_data t syms00 ++ [a] ++ (if same_sign b gap then [] else [b])) = compress X) as Ecmp
      by (unfold X; rewrite E012; reflexivity).
    rewrite Ecmp in Hc'.
    assert (bits_of t (i :: syms00 ++ [j]) = flat_map (sym_to_bits (length t)) (i :: syms00 ++ [j])) as Ebits by reflexivity.
    assert (body ++ [gap] = (li ++ render_data t (i :: syms00 ++ [j])) ++ [- P + sum_abs (li ++ render_data t (i :: syms00 ++ [j]))]) as Ebody
      by (unfold gap, body; f_equal; f_equal; ring).
    unfold X in Hc'. destruct (same_sign b gap) eqn:Ebg.
    - rewrite app_nil_r in Hc'.
      assert ([a] = [] \/ [a] = [m] \/ [a] = [s]) as Htl by (destruct Ha; subst; auto).
      assert (render_data t (i :: syms00) ++ [a] <> []) as Hnn by (destruct (render_data t (i :: syms00)); discriminate).
      rewrite (man_loop_data (i :: syms00) [a] ds' Hsv0 Htl Hnn Hc').
      cbn [bind]. rewrite rev_involutive.
      rewrite (group2_render (i :: syms00) [a] Hsv0) by (right; eexists; reflexivity).
      rewrite (to_syms_map_single t mt_nodup mt_nodup_fst (i :: syms00) j a b) by (auto; unfold t, mt; cbn [length]; exact Hsv0).
      cbn [bind]. rewrite <- Es.
      replace (map Some (li ++ (render_data t (i :: syms00) ++ [a]) ++ [b]) ++ [None])
        with (map Some (li ++ render_data t (i :: syms00 ++ [j])) ++ [None]).
      2:{ rewrite Es, Erd. rewrite <- !app_assoc. reflexivity. }
      rewrite (finish_cleaned_period [P] P) by reflexivity. cbn [bind]. rewrite Ebody. reflexivity.
    - assert (Forall2 (close tol) ds' (compress (render_data t ((i :: syms00) ++ [j]) ++ []))) as HcA'.
      { rewrite app_nil_r, Erd. exact Hc'. }
      assert (Forall (fun i => (i < 2)%nat) ((i :: syms00) ++ [j])) as Hsvj by (apply Forall_app; split; [exact Hsv0|constructor; [exact Hj|constructor]]).
      assert (@nil Z = [] \/ @nil Z = [m] \/ @nil Z = [s]) as Htl by auto.
      assert (render_data t ((i :: syms00) ++ [j]) ++ [] <> []) as Hnn by (rewrite app_nil_r, Erd; destruct (render_data t (i :: syms00)); discriminate).
      rewrite (man_loop_data ((i :: syms00) ++ [j]) [] ds' Hsvj Htl Hnn HcA').
      cbn [bind]. rewrite rev_involutive.
      rewrite (group2_render ((i :: syms00) ++ [j]) [] Hsvj) by (left; reflexivity). rewrite !app_nil_r.
      rewrite (to_syms_map t mt_nodup ((i :: syms00) ++ [j])) by (unfold t, mt; cbn [length]; exact Hsvj).
      cbn [bind]. rewrite <- Es. rewrite app_nil_r.
      rewrite (finish_cleaned_period [P] P) by reflexivity. cbn [bind]. rewrite Ebody. reflexivity.
  Qed.
End Man3.
