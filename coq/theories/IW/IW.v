(* Hand-written model of pyIRDecoder/integer_wrapper.py (IntegerWrapper), mirroring the Python
   line by line: value-dependent widths, the unmasked negative case, the bit loops.
   Tied to the implementation by the C19 correspondence check. *)
From Coq Require Import ZArith List Bool Lia.
Require Import PyIR.Base.Result.
Import ListNotations.
Open Scope Z_scope.

Record iw := mkIW { value : Z; nbits : Z }.

Definition iw_eqb (a b : iw) : bool := (value a =? value b) && (nbits a =? nbits b).

(* OR_{i < n} (f i) << i   — the shape of every bit loop in the source *)
Fixpoint build (f : Z -> bool) (n : nat) : Z :=
  match n with
  | O => 0
  | S m => Z.lor (build f m) (Z.shiftl (Z.b2z (f (Z.of_nat m))) (Z.of_nat m))
  end.

(* int.bit_length() *)
Definition bit_length (v : Z) : Z := if v =? 0 then 0 else Z.log2 (Z.abs v) + 1.

(* the masking loop of __init__:  for i in range(num_bits): val |= ((value >> i) & 1) << i   (only when value >= 0) *)
Definition mask (v n : Z) : Z := if v <? 0 then v else build (Z.testbit v) (Z.to_nat n).

(* IntegerWrapper(v, num_bits)  with v an int *)
Definition mk (v : Z) (n : option Z) : iw :=
  match n with
  | None => mkIW v (if v =? 0 then 1 else bit_length v)
  | Some n => mkIW (mask v n) n
  end.
(* IntegerWrapper(x, num_bits) with x an IntegerWrapper *)
Definition mk_of (x : iw) (n : option Z) : iw :=
  match n with
  | None => x
  | Some n => mkIW (mask (value x) n) n
  end.

(* operand of a binary operator: an int or a wrapper; int(other) *)
Inductive operand := OInt (z : Z) | OIW (x : iw).
Definition oval (o : operand) : Z := match o with OInt z => z | OIW x => value x end.
Definition obits (o : operand) : Z := match o with OInt z => bit_length z | OIW x => nbits x end.

Definition iw_add (x : iw) (o : operand) := mk (value x + oval o) None.
Definition iw_sub (x : iw) (o : operand) := mk (value x - oval o) None.
Definition iw_mul (x : iw) (o : operand) := mk (value x * oval o) None.
Definition iw_floordiv (x : iw) (o : operand) : result iw :=
  if oval o =? 0 then PyErr ZeroDivisionError else Ok (mk (value x / oval o) None).
Definition iw_mod (x : iw) (o : operand) : result iw :=
  if oval o =? 0 then PyErr ZeroDivisionError else Ok (mk (value x mod oval o) None).
Definition iw_and (x : iw) (o : operand) := mk (Z.land (value x) (oval o)) None.
Definition iw_or (x : iw) (o : operand) := mk (Z.lor (value x) (oval o)) None.
Definition iw_xor (x : iw) (o : operand) := mk (Z.lxor (value x) (oval o)) None.
(* comparisons (__eq__ __ne__ __lt__ __gt__ __le__ __ge__): on the held values only, widths play no part *)
Definition iw_cmp (code : Z) (x : iw) (o : operand) : bool :=
  match code with
  | 0 => value x =? oval o | 1 => negb (value x =? oval o)
  | 2 => value x <? oval o | 3 => oval o <? value x
  | 4 => value x <=? oval o | _ => oval o <=? value x
  end.
Definition iw_invert (x : iw) := mk (Z.lnot (value x)) None.
Definition iw_neg (x : iw) := mk (- value x) (Some (nbits x)).
Definition iw_pos (x : iw) := mk (value x) (Some (nbits x)).
Definition iw_abs (x : iw) := mk (Z.abs (value x)) (Some (nbits x)).
(* Python raises ValueError for a negative shift count *)
Definition iw_shl (x : iw) (o : operand) : result iw :=
  if oval o <? 0 then PyErr ValueError else Ok (mk (Z.shiftl (value x) (oval o)) (Some (nbits x + oval o))).
Definition iw_shr (x : iw) (o : operand) : result iw :=
  if oval o <? 0 then PyErr ValueError else Ok (mk (Z.shiftr (value x) (oval o)) (Some (nbits x - oval o))).
(* reflected forms: int OP wrapper *)
Definition iw_radd (x : iw) (z : Z) := mk (z + value x) None.
Definition iw_rsub (x : iw) (z : Z) := mk (z - value x) None.
Definition iw_rmul (x : iw) (z : Z) := mk (z * value x) None.
Definition iw_rand (x : iw) (z : Z) := mk (Z.land z (value x)) (Some (Z.max (nbits x) (bit_length z))).
Definition iw_ror (x : iw) (z : Z) := mk (Z.lor z (value x)) (Some (Z.max (nbits x) (bit_length z))).
Definition iw_rxor (x : iw) (z : Z) := mk (Z.lxor z (value x)) (Some (Z.max (nbits x) (bit_length z))).

(* int((self >> i) & 1)  for i >= 0 : goes through __rshift__ (which re-masks to nbits - i bits) and __and__ *)
Definition bit (x : iw) (i : Z) : bool :=
  Z.testbit (value (mk (Z.shiftr (value x) i) (Some (nbits x - i)))) 0.

(* __iter__: bits least significant first;  bits property: most significant first *)
Definition iter_bits (x : iw) : list bool := map (fun i => bit x (Z.of_nat i)) (seq 0 (Z.to_nat (nbits x))).
Definition bits_msb (x : iw) : list bool := rev (iter_bits x).

(* invert_bits(num_bits) / reverse_bit_order(num_bits) / __reversed__ *)
Definition invert_bits (x : iw) (n : option Z) : iw :=
  let n := match n with None => nbits x | Some n => n end in
  mk (build (fun i => negb (bit x i)) (Z.to_nat n)) (Some n).
Definition reverse_bit_order (x : iw) (n : option Z) : iw :=
  let n := match n with None => nbits x | Some n => n end in
  mk (build (fun j => bit x (n - 1 - j)) (Z.to_nat n)) (Some n).
(* the source's loop is  val |= bit_i << (n-1-i)  for i in range(n); re-indexed by j = n-1-i above;
   [reverse_loop] is the literal loop, proved equal in IWProps *)
Fixpoint reverse_loop (x : iw) (n : Z) (k : nat) : Z :=
  match k with
  | O => 0
  | S m => Z.lor (reverse_loop x n m) (Z.shiftl (Z.b2z (bit x (Z.of_nat m))) (n - 1 - Z.of_nat m))
  end.

(* num_one_bits: count of  value >> i & 1  for i < nbits  (directly on the int, not through __rshift__) *)
Definition popcount (x : iw) : Z :=
  fold_left (fun c i => c + Z.b2z (Z.testbit (value x) (Z.of_nat i))) (seq 0 (Z.to_nat (nbits x))) 0.
Definition num_one_bits (x : iw) : iw := mk (popcount x) None.

(* x[start:stop:step]   (start, stop = width, step = first bit) *)
Inductive sstart := SNone | STrue | SInt (c : Z).
Inductive pyv := VIW (x : iw) | VBool (b : bool).

(* bits step .. step+stop (one more than requested, as in the source) shifted down, then masked to `stop` bits *)
Definition slice_bits (x : iw) (from count : Z) : Z := build (fun k => bit x (from + k)) (Z.to_nat count).

Definition slice_val (x : iw) (stop step : option Z) : result iw :=
  match stop, step with
  | Some w, Some s =>
      if negb (s =? 0) && (0 <=? w) then
        if s <? 0 then PyErr ValueError      (* negative shift count in self >> i *)
        else Ok (mk (slice_bits x s (w + 1)) (Some w))
      else if 0 <? w then Ok (mk (slice_bits x 0 w) (Some w))
      else if w <? 0 then
        (if 0 <? s then Ok (reverse_bit_order (mk (slice_bits x s (- w + 1)) (Some (- w))) None)
         else Ok (reverse_bit_order (mk (slice_bits x 0 (- w)) (Some (- w))) None))
      else Ok x
  | Some w, None =>
      if 0 <? w then Ok (mk (slice_bits x 0 w) (Some w))
      else if w <? 0 then Ok (reverse_bit_order (mk (slice_bits x 0 (- w)) (Some (- w))) None)
      else Ok x
  | None, Some s =>
      (* for i in range(step, len(self)): val |= bit_i << i   (not shifted down), width len - step *)
      if s <? 0 then PyErr ValueError
      else Ok (mk (build (fun i => (s <=? i) && bit x i) (Z.to_nat (nbits x))) (Some (nbits x - s)))
  | None, None => Ok x
  end.

Definition getitem (x : iw) (start : sstart) (stop step : option Z) : result pyv :=
  do v <- slice_val x stop step;
  match start with
  | STrue => Ok (VIW (invert_bits v None))
  | SInt c => if c <? 0 then Ok (VBool (c =? value (iw_invert v))) else Ok (VBool (c =? value v))
  | SNone => Ok (VIW v)
  end.

(* ------------------------------------------------------------------ rendering to symbols: the timings property *)
(* a symbol table has 2, 4 or 16 entries; an entry is an index here, the durations are looked up by Engine.Render *)
Definition pad_count (tbl_len : nat) (nb : nat) : nat :=
  if Nat.eqb tbl_len 4 then Nat.modulo nb 2 else if Nat.ltb 4 tbl_len then Nat.modulo (4 - Nat.modulo nb 4) 4 else 0.

Definition padded_bits (msb : bool) (tbl_len : nat) (x : iw) : list bool :=
  if msb then repeat false (pad_count tbl_len (length (bits_msb x))) ++ bits_msb x
  else iter_bits x ++ repeat false (pad_count tbl_len (length (iter_bits x))).

Definition b2n (b : bool) : nat := if b then 1%nat else 0%nat.

(* groups of 2 / 4 bits -> symbol index; Python indexes bits[i+1] etc. and would raise IndexError on a short
   group, which cannot happen after padding (proved in IWProps: timings_no_error) *)
Fixpoint symbols2 (bits : list bool) : result (list nat) :=
  match bits with
  | [] => Ok []
  | a :: b :: r => do l <- symbols2 r; Ok ((2 * b2n a + b2n b)%nat :: l)
  | _ => PyErr IndexError
  end.
Fixpoint symbols4 (bits : list bool) : result (list nat) :=
  match bits with
  | [] => Ok []
  | a :: b :: c :: d :: r => do l <- symbols4 r; Ok ((8 * b2n a + 4 * b2n b + 2 * b2n c + b2n d)%nat :: l)
  | _ => PyErr IndexError
  end.

Definition symbols (msb : bool) (tbl_len : nat) (x : iw) : result (list nat) :=
  let bits := padded_bits msb tbl_len x in
  if Nat.eqb tbl_len 2 then Ok (map b2n bits)
  else if Nat.eqb tbl_len 4 then symbols2 bits
  else symbols4 bits.

(* ------------------------------------------------------------------ the decoder's inverse: CodeWrapper index expansion + get_value *)
Definition sym_to_bits (tbl_len : nat) (i : nat) : list bool :=
  if Nat.eqb tbl_len 2 then [Nat.odd i]   (* only indices 0,1 occur *)
  else if Nat.eqb tbl_len 4 then [Nat.odd (Nat.div i 2); Nat.odd i]
  else [Nat.odd (Nat.div i 8); Nat.odd (Nat.div i 4); Nat.odd (Nat.div i 2); Nat.odd i].

(* get_value(start, stop): bits[start : stop+1], lsb -> bit k has weight 2^k, msb -> first bit has the highest weight *)
Fixpoint value_lsb (bits : list bool) : Z :=
  match bits with [] => 0 | b :: r => Z.b2z b + 2 * value_lsb r end.
Definition value_msb (bits : list bool) : Z := value_lsb (rev bits).
Definition bits_value (msb : bool) (bits : list bool) : Z := if msb then value_msb bits else value_lsb bits.
