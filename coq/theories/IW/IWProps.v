(* C19 — theorems about the IntegerWrapper model: all widths, all values. *)
From Coq Require Import ZArith List Bool Lia ZifyBool.
Require Import PyIR.Base.Result PyIR.IW.IW.
Import ListNotations.
Open Scope Z_scope.

(* ------------------------------------------------------------------ the bit loop *)
Lemma build_testbit f n k : 0 <= k -> Z.testbit (build f n) k = (k <? Z.of_nat n) && f k.
Proof.
  intros Hk. induction n as [|m IH].
  - cbn [build]. rewrite Z.bits_0. destruct (k <? Z.of_nat 0) eqn:E; [lia|reflexivity].
  - cbn [build]. rewrite Z.lor_spec, IH.
    rewrite Z.shiftl_spec by lia.
    destruct (Z.eq_dec k (Z.of_nat m)) as [->|Hne].
    + rewrite Z.sub_diag. replace (Z.of_nat m <? Z.of_nat m) with false by lia.
      replace (Z.of_nat m <? Z.of_nat (S m)) with true by lia. cbn [andb orb].
      destruct (f (Z.of_nat m)); reflexivity.
    + assert (Z.testbit (Z.b2z (f (Z.of_nat m))) (k - Z.of_nat m) = false) as ->.
      { destruct (Z.ltb_spec k (Z.of_nat m)); [apply Z.testbit_neg_r; lia|].
        destruct (f (Z.of_nat m)); cbn [Z.b2z]; [|apply Z.bits_0].
        apply Z.bits_above_log2; [lia|]. change (Z.log2 1) with 0. lia. }
      rewrite orb_false_r.
      destruct (k <? Z.of_nat m) eqn:E1; destruct (k <? Z.of_nat (S m)) eqn:E2; try reflexivity; lia.
Qed.

Lemma build_range f n : 0 <= build f n < 2 ^ Z.of_nat n.
Proof.
  induction n as [|m IH]; [cbn; lia|].
  cbn [build]. set (b := Z.b2z (f (Z.of_nat m))).
  assert (0 <= b <= 1) by (unfold b; destruct (f (Z.of_nat m)); cbn; lia).
  rewrite Z.shiftl_mul_pow2 by lia.
  assert (Z.land (build f m) (b * 2 ^ Z.of_nat m) = 0) as Hl.
  { apply Z.bits_inj'. intros k Hk. rewrite Z.land_spec, build_testbit, Z.bits_0 by lia.
    destruct (k <? Z.of_nat m) eqn:E; [|reflexivity]. cbn [andb].
    rewrite Z.mul_pow2_bits_low by lia. apply andb_false_r. }
  rewrite <- (Z.lxor_lor _ _ Hl), <- (Z.add_nocarry_lxor _ _ Hl).
  replace (2 ^ Z.of_nat (S m)) with (2 * 2 ^ Z.of_nat m) by (rewrite Nat2Z.inj_succ, Z.pow_succ_r; lia).
  nia.
Qed.

Lemma build_ext f g n : (forall k, 0 <= k < Z.of_nat n -> f k = g k) -> build f n = build g n.
Proof.
  intros H. apply Z.bits_inj'. intros k Hk. rewrite !build_testbit by lia.
  destruct (k <? Z.of_nat n) eqn:E; [|reflexivity]. cbn [andb]. apply H. lia.
Qed.

(* a non-negative number below 2^n is determined by its low n bits *)
Lemma bits_above_false v n k : 0 <= v < 2 ^ n -> n <= k -> Z.testbit v k = false.
Proof.
  intros [H0 H1] Hk. destruct (Z.eq_dec v 0) as [->|Hne]; [apply Z.bits_0|].
  apply Z.bits_above_log2; [lia|]. assert (0 <= n) by (destruct (Z.ltb_spec n 0); [rewrite Z.pow_neg_r in H1; lia|lia]).
  apply Z.log2_lt_pow2 in H1; lia.
Qed.

Lemma build_self v n : 0 <= n -> 0 <= v -> build (Z.testbit v) (Z.to_nat n) = v mod 2 ^ n.
Proof.
  intros Hn Hv. apply Z.bits_inj'. intros k Hk. rewrite build_testbit by lia. rewrite Z2Nat.id by lia.
  destruct (Z.ltb_spec k n).
  - rewrite Z.mod_pow2_bits_low by lia. reflexivity.
  - rewrite Z.mod_pow2_bits_high by lia. reflexivity.
Qed.

(* ------------------------------------------------------------------ constructor *)
Theorem mk_value v n : 0 <= v -> 0 <= n ->
  value (mk v (Some n)) = v mod 2 ^ n /\ nbits (mk v (Some n)) = n.
Proof.
  intros Hv Hn. cbn [mk value nbits]. split; [|reflexivity].
  unfold mask. destruct (Z.ltb_spec v 0); [lia|]. apply build_self; lia.
Qed.

(* a wrapper is canonical when it holds a non-negative value that fits its width *)
Definition canonical (x : iw) : Prop := 0 <= nbits x /\ 0 <= value x < 2 ^ nbits x.

Lemma mk_canonical v n : 0 <= v -> 0 <= n -> canonical (mk v (Some n)).
Proof.
  intros Hv Hn. destruct (mk_value v n Hv Hn) as [E1 E2]. unfold canonical. rewrite E1, E2.
  split; [lia|]. apply Z.mod_pos_bound. apply Z.pow_pos_nonneg; lia.
Qed.

Lemma mask_nonneg_canonical v n : 0 <= v -> canonical (mkIW (mask v n) (Z.max n 0)).
Proof.
  intros Hv. unfold canonical, mask. cbn [value nbits]. destruct (Z.ltb_spec v 0); [lia|].
  split; [lia|]. pose proof (build_range (Z.testbit v) (Z.to_nat n)) as H0.
  replace (Z.of_nat (Z.to_nat n)) with (Z.max n 0) in H0 by lia. exact H0.
Qed.

(* ------------------------------------------------------------------ reading one bit through __rshift__ and __and__ *)
Lemma bit_spec x i : 0 <= i ->
  bit x i = if value x <? 0 then Z.testbit (value x) i else (i <? nbits x) && Z.testbit (value x) i.
Proof.
  intros Hi. unfold bit. cbn [mk value]. unfold mask.
  destruct (Z.ltb_spec (value x) 0) as [Hneg|Hpos].
  - assert (Z.shiftr (value x) i < 0) by (apply Z.shiftr_neg; lia).
    destruct (Z.ltb_spec (Z.shiftr (value x) i) 0); [|lia].
    rewrite Z.shiftr_spec by lia. f_equal; lia.
  - assert (0 <= Z.shiftr (value x) i) by (apply Z.shiftr_nonneg; lia).
    destruct (Z.ltb_spec (Z.shiftr (value x) i) 0); [lia|].
    rewrite build_testbit by lia. rewrite Z.shiftr_spec by lia. cbn [Z.add].
    destruct (i <? nbits x) eqn:E1; destruct (0 <? Z.of_nat (Z.to_nat (nbits x - i))) eqn:E2; try reflexivity; lia.
Qed.

Lemma bit_canonical x i : canonical x -> 0 <= i -> bit x i = Z.testbit (value x) i.
Proof.
  intros [Hn Hv] Hi. rewrite bit_spec by lia. destruct (Z.ltb_spec (value x) 0); [lia|].
  destruct (Z.ltb_spec i (nbits x)); [reflexivity|]. cbn [andb]. symmetry. eapply bits_above_false; eauto.
Qed.

(* ------------------------------------------------------------------ iteration: n bits, least significant first *)
Theorem iter_bits_spec v n : 0 <= v -> 0 <= n ->
  iter_bits (mk v (Some n)) = map (fun i => Z.testbit v (Z.of_nat i)) (seq 0 (Z.to_nat n)) /\
  length (iter_bits (mk v (Some n))) = Z.to_nat n.
Proof.
  intros Hv Hn. pose proof (mk_canonical v n Hv Hn) as Hc. destruct (mk_value v n Hv Hn) as [E1 E2].
  unfold iter_bits. rewrite E2. split; [|rewrite map_length, seq_length; reflexivity].
  apply map_ext_in. intros i Hi. apply in_seq in Hi.
  rewrite bit_canonical by (auto; lia). rewrite E1. apply Z.mod_pow2_bits_low. lia.
Qed.

(* ------------------------------------------------------------------ slices *)
Lemma slice_bits_spec x s c : canonical x -> 0 <= s -> 0 <= c ->
  slice_bits x s c = (value x / 2 ^ s) mod 2 ^ c.
Proof.
  intros Hx Hs Hc. unfold slice_bits. apply Z.bits_inj'. intros k Hk.
  rewrite build_testbit by lia. rewrite Z2Nat.id by lia.
  destruct (Z.ltb_spec k c).
  - rewrite Z.mod_pow2_bits_low by lia. rewrite Z.div_pow2_bits by lia. cbn [andb].
    rewrite bit_canonical by (auto; lia). f_equal. lia.
  - rewrite Z.mod_pow2_bits_high by lia. reflexivity.
Qed.

Lemma mod_mod_pow2 a w c : 0 <= w <= c -> (a mod 2 ^ c) mod 2 ^ w = a mod 2 ^ w.
Proof.
  intros H. apply Z.bits_inj'. intros k Hk.
  destruct (Z.ltb_spec k w).
  - rewrite !Z.mod_pow2_bits_low by lia. reflexivity.
  - rewrite !Z.mod_pow2_bits_high by lia. reflexivity.
Qed.

(* x[:w:s] returns the requested width starting at the requested bit (the source reads one bit too many and
   masks it away again) *)
Theorem slice_spec x w s : canonical x -> 0 < w -> 0 <= s ->
  getitem x SNone (Some w) (Some s) = Ok (VIW (mkIW ((value x / 2 ^ s) mod 2 ^ w) w)).
Proof.
  intros Hx Hw Hs. unfold getitem, slice_val.
  destruct (Z.eqb_spec s 0) as [->|Hne]; cbn [negb andb].
  - destruct (Z.ltb_spec 0 w); [|lia]. cbn [bind mk]. do 3 f_equal.
    rewrite slice_bits_spec by (auto; lia). unfold mask.
    pose proof (Z.mod_pos_bound (value x / 2 ^ 0) (2 ^ w) ltac:(apply Z.pow_pos_nonneg; lia)).
    destruct (Z.ltb_spec ((value x / 2 ^ 0) mod 2 ^ w) 0); [lia|].
    rewrite build_self by lia. apply mod_mod_pow2. lia.
  - destruct (Z.leb_spec 0 w); [|lia]. destruct (Z.ltb_spec s 0); [lia|]. cbn [bind mk]. do 3 f_equal.
    rewrite slice_bits_spec by (auto; lia). unfold mask.
    pose proof (Z.mod_pos_bound (value x / 2 ^ s) (2 ^ (w + 1)) ltac:(apply Z.pow_pos_nonneg; lia)).
    destruct (Z.ltb_spec ((value x / 2 ^ s) mod 2 ^ (w + 1)) 0); [lia|].
    rewrite build_self by lia. apply mod_mod_pow2. lia.
Qed.


(* ------------------------------------------------------------------ small values are left alone by the mask *)
Lemma mask_small v n : 0 <= n -> 0 <= v < 2 ^ n -> mask v n = v.
Proof.
  intros Hn Hv. unfold mask. destruct (Z.ltb_spec v 0); [lia|].
  rewrite build_self by lia. apply Z.mod_small; lia.
Qed.

Lemma mask_build g n : 0 <= n -> mask (build g (Z.to_nat n)) n = build g (Z.to_nat n).
Proof.
  intros Hn. apply mask_small; [lia|]. pose proof (build_range g (Z.to_nat n)) as H.
  rewrite Z2Nat.id in H by lia. exact H.
Qed.

Lemma canonical_eq x y : canonical x -> canonical y -> nbits x = nbits y ->
  (forall k, 0 <= k < nbits x -> Z.testbit (value x) k = Z.testbit (value y) k) -> x = y.
Proof.
  destruct x as [v n], y as [u m]. unfold canonical. cbn [value nbits]. intros [Hn Hv] [Hm Hu] <- H.
  f_equal. apply Z.bits_inj'. intros k Hk. destruct (Z.ltb_spec k n); [apply H; lia|].
  rewrite (bits_above_false v n k), (bits_above_false u n k) by lia. reflexivity.
Qed.

(* ------------------------------------------------------------------ inversion within the width *)
Lemma invert_bits_canonical x : 0 <= nbits x -> canonical (invert_bits x None) /\ nbits (invert_bits x None) = nbits x.
Proof.
  intros Hn. unfold invert_bits. cbn [mk]. rewrite mask_build by lia. unfold canonical. cbn [value nbits].
  pose proof (build_range (fun i => negb (bit x i)) (Z.to_nat (nbits x))) as H. rewrite Z2Nat.id in H by lia. lia.
Qed.

Lemma invert_bits_testbit x k : canonical x -> 0 <= k ->
  Z.testbit (value (invert_bits x None)) k = (k <? nbits x) && negb (Z.testbit (value x) k).
Proof.
  intros Hx Hk. pose proof Hx as [Hn _]. unfold invert_bits. cbn [mk value]. rewrite mask_build by lia.
  rewrite build_testbit by lia. rewrite Z2Nat.id by lia. rewrite bit_canonical by auto. reflexivity.
Qed.

Theorem invert_involutive x : canonical x -> invert_bits (invert_bits x None) None = x.
Proof.
  intros Hx. pose proof Hx as [Hn _]. destruct (invert_bits_canonical x Hn) as [Hc1 En1].
  assert (0 <= nbits (invert_bits x None)) as Hn1 by lia.
  destruct (invert_bits_canonical _ Hn1) as [Hc2 En2].
  apply canonical_eq; [exact Hc2|exact Hx|congruence|]. intros k Hk. rewrite En2, En1 in Hk.
  rewrite invert_bits_testbit by (auto; lia). rewrite invert_bits_testbit by (auto; lia).
  rewrite En1. destruct (k <? nbits x) eqn:E; [|lia]. cbn [andb]. apply negb_involutive.
Qed.

(* arithmetic reading of "complemented within the width" *)
Lemma complement_arith u y w : 0 <= w -> 0 <= u < 2 ^ w -> 0 <= y ->
  (forall k, 0 <= k -> Z.testbit y k = (k <? w) && negb (Z.testbit u k)) -> y = 2 ^ w - 1 - u.
Proof.
  intros Hw Hu Hy H.
  assert (Z.land y u = 0) as Hl.
  { apply Z.bits_inj'. intros k Hk. rewrite Z.land_spec, Z.bits_0, H by lia.
    destruct (Z.testbit u k); destruct (k <? w); reflexivity. }
  assert (Z.lxor y u = Z.ones w) as Hx.
  { apply Z.bits_inj'. intros k Hk. rewrite Z.lxor_spec, H by lia.
    destruct (Z.ltb_spec k w).
    - rewrite Z.ones_spec_low by lia. cbn [andb]. destruct (Z.testbit u k); reflexivity.
    - rewrite Z.ones_spec_high by lia. rewrite (bits_above_false u w k) by lia. reflexivity. }
  pose proof (Z.add_nocarry_lxor _ _ Hl) as Ha. rewrite Hx, Z.ones_equiv in Ha. lia.
Qed.

(* x[True:w:s] : the requested bits, complemented within the requested width *)
Theorem slice_complement_spec x w s : canonical x -> 0 < w -> 0 <= s ->
  getitem x STrue (Some w) (Some s) = Ok (VIW (mkIW (2 ^ w - 1 - (value x / 2 ^ s) mod 2 ^ w) w)).
Proof.
  intros Hx Hw Hs. pose proof (slice_spec x w s Hx Hw Hs) as E. unfold getitem in *.
  destruct (slice_val x (Some w) (Some s)) as [v| | |]; cbn [bind] in *; try discriminate.
  injection E as ->. do 2 f_equal.
  set (u := (value x / 2 ^ s) mod 2 ^ w).
  assert (0 <= u < 2 ^ w) as Hu by (apply Z.mod_pos_bound, Z.pow_pos_nonneg; lia).
  assert (canonical (mkIW u w)) as Hc by (unfold canonical; cbn; lia).
  destruct (invert_bits_canonical (mkIW u w) ltac:(cbn; lia)) as [[_ Hr] En]. cbn [nbits] in En.
  destruct (invert_bits (mkIW u w) None) as [y m] eqn:Ey. cbn [value nbits] in *. subst m. f_equal.
  apply complement_arith; try lia. intros k Hk.
  pose proof (invert_bits_testbit (mkIW u w) k Hc Hk) as Hb. rewrite Ey in Hb. exact Hb.
Qed.

(* ------------------------------------------------------------------ bit reversal *)
Lemma reverse_canonical x : 0 <= nbits x -> canonical (reverse_bit_order x None) /\ nbits (reverse_bit_order x None) = nbits x.
Proof.
  intros Hn. unfold reverse_bit_order. cbn [mk]. rewrite mask_build by lia. unfold canonical. cbn [value nbits].
  pose proof (build_range (fun j => bit x (nbits x - 1 - j)) (Z.to_nat (nbits x))) as H. rewrite Z2Nat.id in H by lia. lia.
Qed.

Lemma reverse_testbit x k : canonical x -> 0 <= k < nbits x ->
  Z.testbit (value (reverse_bit_order x None)) k = Z.testbit (value x) (nbits x - 1 - k).
Proof.
  intros Hx Hk. pose proof Hx as [Hn _]. unfold reverse_bit_order. cbn [mk value]. rewrite mask_build by lia.
  rewrite build_testbit by lia. rewrite Z2Nat.id by lia. rewrite bit_canonical by (auto; lia).
  destruct (k <? nbits x) eqn:E; [reflexivity|lia].
Qed.

Theorem reverse_involutive x : canonical x -> reverse_bit_order (reverse_bit_order x None) None = x.
Proof.
  intros Hx. pose proof Hx as [Hn _]. destruct (reverse_canonical x Hn) as [Hc1 En1].
  assert (0 <= nbits (reverse_bit_order x None)) as Hn1 by lia.
  destruct (reverse_canonical _ Hn1) as [Hc2 En2].
  apply canonical_eq; [exact Hc2|exact Hx|congruence|]. intros k Hk. rewrite En2, En1 in Hk.
  rewrite reverse_testbit by (auto; lia). rewrite En1. rewrite reverse_testbit by (auto; lia).
  f_equal. lia.
Qed.

(* the literal loop of the source,  val |= bit_i << (n-1-i),  builds the same integer *)
Lemma reverse_loop_testbit x n m k : 0 <= k -> (m <= Z.to_nat n)%nat ->
  Z.testbit (reverse_loop x n m) k = (n - Z.of_nat m <=? k) && (k <? n) && bit x (n - 1 - k).
Proof.
  intros Hk. induction m as [|m IH]; intros Hm.
  - cbn [reverse_loop]. rewrite Z.bits_0. destruct (n - Z.of_nat 0 <=? k) eqn:E1; destruct (k <? n) eqn:E2; try reflexivity; lia.
  - cbn [reverse_loop]. rewrite Z.lor_spec, IH by lia. rewrite Z.shiftl_spec by lia.
    destruct (Z.eq_dec k (n - 1 - Z.of_nat m)) as [->|Hne].
    + replace (n - 1 - Z.of_nat m - (n - 1 - Z.of_nat m)) with 0 by lia.
      replace (n - 1 - (n - 1 - Z.of_nat m)) with (Z.of_nat m) by lia.
      replace (n - Z.of_nat m <=? n - 1 - Z.of_nat m) with false by lia.
      replace (n - Z.of_nat (S m) <=? n - 1 - Z.of_nat m) with true by lia.
      replace (n - 1 - Z.of_nat m <? n) with true by lia. cbn [andb orb].
      destruct (bit x (Z.of_nat m)); reflexivity.
    + assert (Z.testbit (Z.b2z (bit x (Z.of_nat m))) (k - (n - 1 - Z.of_nat m)) = false) as ->.
      { destruct (Z.ltb_spec k (n - 1 - Z.of_nat m)); [apply Z.testbit_neg_r; lia|].
        destruct (bit x (Z.of_nat m)); cbn [Z.b2z]; [|apply Z.bits_0].
        apply Z.bits_above_log2; [lia|]. change (Z.log2 1) with 0. lia. }
      rewrite orb_false_r.
      destruct (n - Z.of_nat m <=? k) eqn:E1; destruct (n - Z.of_nat (S m) <=? k) eqn:E2; try reflexivity; lia.
Qed.

Theorem reverse_loop_build x n : 0 <= n ->
  reverse_loop x n (Z.to_nat n) = build (fun j => bit x (n - 1 - j)) (Z.to_nat n).
Proof.
  intros Hn. apply Z.bits_inj'. intros k Hk. rewrite reverse_loop_testbit, build_testbit by lia.
  rewrite Z2Nat.id by lia. destruct (n - n <=? k) eqn:E; [reflexivity|lia].
Qed.

(* ------------------------------------------------------------------ population count *)
Fixpoint count_true (l : list bool) : Z := match l with [] => 0 | b :: r => Z.b2z b + count_true r end.

Lemma fold_count (f : nat -> bool) l c :
  fold_left (fun c i => c + Z.b2z (f i)) l c = c + count_true (map f l).
Proof. revert c. induction l as [|i l IH]; intros c; cbn [fold_left map count_true]; [lia|]. rewrite IH. lia. Qed.

Theorem popcount_spec x : canonical x -> popcount x = count_true (iter_bits x).
Proof.
  intros Hx. unfold popcount, iter_bits. rewrite (fold_count (fun i => Z.testbit (value x) (Z.of_nat i))).
  rewrite Z.add_0_l. f_equal. apply map_ext. intros i. symmetry. apply bit_canonical; auto. lia.
Qed.
